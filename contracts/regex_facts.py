"""Regex-LANGUAGE facts about the patterns of /repo (properties C02 / C01 / C15), discharged by z3's sequence theory.

The pattern texts are READ FROM THE REPOSITORY ON EVERY RUN by running the real code with a recording stand-in for `re`
(`parse_swc` builds its row pattern at run time from RE_FLOAT and the column list; the Lexer uses a module-level compiled
pattern): the stand-in notes every `re.compile(text, flags)` and every `pattern.search / match / fullmatch(subject)`, so
the facts are about exactly (method, pattern text, flags) the code applies to a line / a word.  `pyvc/regex_z3.py`
translates the text (through `re._parser`) to a z3 regular expression; an unsupported construct is a machinery error.

The reference languages on the other side of each fact are written HERE from the property statements, the SWC format and the
Python documentation (float() / int() literal grammar, format(v, '.4f'), str(int)); they are cross-checked against the running
interpreter by tools/xcheck_regex_z3.py.

vcheck.py calls `contracts.Cxx.regex_facts()` (a three-line hook in C01 / C02 / C15) -> `facts(prop)` below; every fact becomes the
obligation `<prop>/regex/<label>`; non-vacuity of the left-hand side of an inclusion is the cover `<prop>/regex/cover/<label>`.
"""
from __future__ import annotations

import ast
import io
import os
import re
import sys

import z3

from pyvc import regex_z3 as RZ
from pyvc.engine import Unsupported

IO = "swcgeom/core/swc_utils/io.py"
ASC = "swcgeom/transforms/neurolucida_asc.py"


# =========================================================================== reading the patterns from the repository
class _RecPattern:
    """stands for a compiled pattern while the real code runs; notes which matching method is applied"""

    def __init__(self, pat, log):
        self._pat, self._log = pat, log

    def __getattr__(self, name):
        v = getattr(self._pat, name)
        if name in ("search", "match", "fullmatch", "findall", "finditer", "split", "sub", "subn"):
            def call(*a, **k):
                self._log.append((name, self._pat.pattern, self._pat.flags, a[0] if a else None))
                return v(*a, **k)

            return call
        return v


class _RecRe:
    """stands for the module `re` inside one repository module while the real code runs"""

    def __init__(self, log):
        self._log = log

    def compile(self, pattern, flags=0):
        if isinstance(pattern, (re.Pattern, _RecPattern)):
            raise Unsupported("re.compile of a compiled pattern")
        return _RecPattern(re.compile(pattern, flags), self._log)

    def __getattr__(self, name):
        if name in ("search", "match", "fullmatch", "findall", "finditer", "split", "sub", "subn"):
            def call(pattern, *a, **k):
                self._log.append((name, pattern, k.get("flags", 0), a[0] if a else None))
                return getattr(re, name)(pattern, *a, **k)

            return call
        return getattr(re, name)


def _recording(mod, run):
    """run() with `re` and every module-level compiled pattern of `mod` replaced by recording stand-ins"""
    log, saved = [], {}
    try:
        for k, v in list(vars(mod).items()):
            if v is re:
                saved[k] = v
                setattr(mod, k, _RecRe(log))
            elif isinstance(v, re.Pattern):
                saved[k] = v
                setattr(mod, k, _RecPattern(v, log))
        run()
    finally:
        for k, v in saved.items():
            setattr(mod, k, v)
    return log


_cache = {}


def swc_patterns(n_extra):
    """what `parse_swc` applies to a line: [(method, pattern text, flags)] in the order tried on a blank line
    (row test, then comment test); observed by running the REAL parse_swc on the one-line text "\\n" """
    if ("swc", n_extra) in _cache:
        return _cache[("swc", n_extra)]
    import swcgeom.core.swc_utils.io as io_mod
    from swcgeom.core.swc_utils import get_names

    extra = [f"e{i}" for i in range(n_extra)]
    log = _recording(io_mod, lambda: io_mod.parse_swc(io.StringIO("\n"), names=get_names(), extra_cols=extra or None))
    used = [(m, p, f & ~re.UNICODE) for m, p, f, subj in log if subj == "\n"]
    if len(used) != 2:
        raise Unsupported(f"parse_swc applies {len(used)} patterns to a blank line (expected the row test and the comment test): {used}")
    _cache[("swc", n_extra)] = used
    return used


def asc_patterns():
    """(method, pattern text, flags) the Lexer applies to a word to decide that it is a number, and the word delimiters"""
    if "asc" in _cache:
        return _cache["asc"]
    import swcgeom.transforms.neurolucida_asc as asc_mod

    def run():
        next(iter(asc_mod.Lexer(io.StringIO("x1 "))))

    log = _recording(asc_mod, run)
    used = [(m, p, f & ~re.UNICODE) for m, p, f, subj in log if subj == "x1"]
    if len(used) != 1:
        raise Unsupported(f"the Lexer applies {len(used)} patterns to a word (expected one number test): {used}")
    # word delimiters: the string constant of the `not in "..."` test of Lexer._read_word
    src = open(os.path.join(_repo(), ASC)).read()
    delims = None
    for cls in [n for n in ast.parse(src).body if isinstance(n, ast.ClassDef) and n.name == "Lexer"]:
        for fn in [n for n in cls.body if isinstance(n, ast.FunctionDef) and n.name == "_read_word"]:
            for n in ast.walk(fn):
                if isinstance(n, ast.Compare) and len(n.ops) == 1 and isinstance(n.ops[0], ast.NotIn) and isinstance(n.comparators[0], ast.Constant) \
                        and isinstance(n.comparators[0].value, str):
                    if delims is not None and delims != n.comparators[0].value:
                        raise Unsupported("Lexer._read_word has two different delimiter sets")
                    delims = n.comparators[0].value
    if not delims:
        raise Unsupported("Lexer._read_word: delimiter set not found")
    _cache["asc"] = (used[0], delims)
    return _cache["asc"]


def _repo():
    return os.environ.get("VERIF_REPO", "/repo")


# =========================================================================== reference languages (written from the documentation)
# Python's float() argument grammar (library reference, "float"): optional surrounding whitespace, optional sign, then
# floatnumber | infinity | nan;  digit = Unicode decimal digit (Nd), digitpart = digit (["_"] digit)*.  As a Python regex
# (so that the same text is checked against the real float() by tools/xcheck_regex_z3.py):
_DP = r"\d(?:_?\d)*"
_SP = r"[^\S\x1c-\x1f]*"  # the blanks float() / int() strip: str.isspace characters except U+001C..U+001F (found by the cross-check)
PY_FLOAT = rf"{_SP}[-+]?(?:(?:(?:{_DP})?\.{_DP}|{_DP}\.?)(?:[eE][-+]?{_DP})?|[iI][nN][fF](?:[iI][nN][iI][tT][yY])?|[nN][aA][nN]){_SP}"
# int(str) in base 10: optional surrounding whitespace, optional sign, digitpart
PY_INT = rf"{_SP}[-+]?{_DP}{_SP}"
# what the writer emits: format(v, '.4f') of a finite float, str(k) of an int
W_FLOAT = r"-?[0-9]+\.[0-9]{4}"
W_NAT = r"0|[1-9][0-9]*"
W_PID = r"-1|0|[1-9][0-9]*"
# the SWC line grammar of the property statement (C02: "any whitespace, signs, decimal/exponent float spellings, trailing extra
# fields, CRLF, leading blanks"), ASCII digits
SWC_FLOAT = r"[+-]?(?:[0-9]+(?:\.[0-9]*)?|\.[0-9]+)(?:[eE][+-]?[0-9]+)?"
SWC_NAT = r"[0-9]+"
SWC_PID = r"-?[0-9]+"
# characters an ignored trailing field may consist of (number spellings only: a ',' or a letter other than e/E makes the line malformed)
NUMBER_CHARS = r"[+\-.0-9eE]"
# decimal number of the ASC format: sign, digits with an optional point, exponent
ASC_NUMBER = r"[-+]?(?:\d+\.?\d*|\.\d+)(?:[eE][-+]?\d+)?"
# integers and decimals as Neurolucida writes them
PLAIN_DECIMAL = r"-?(?:0|[1-9][0-9]*)(?:\.[0-9]+)?"


def L(text):
    """language of a reference regex (all of the text must match)"""
    return RZ.parse(text).fullmatch()


def WS():
    return RZ.re_of_ranges(RZ.py_space())


def NWS():
    return RZ.re_of_ranges(RZ.complement(RZ.py_space()))


# =========================================================================== facts
class Fact:
    def __init__(self, label, goal, note, nonempty=None):
        self.label, self.goal, self.note, self.nonempty = label, goal, note, nonempty


_n = [0]


def _s():
    _n[0] += 1
    return z3.String(f"s!{_n[0]}")


def subset(label, A, B, note):
    s = _s()
    return Fact(label, z3.Implies(z3.InRe(s, A), z3.InRe(s, B)), note, nonempty=A)


def same(label, A, B, note):
    s = _s()
    return Fact(label, z3.InRe(s, A) == z3.InRe(s, B), note)


def disjoint(label, A, B, note):
    s = _s()
    return Fact(label, z3.Not(z3.And(z3.InRe(s, A), z3.InRe(s, B))), note, nonempty=A)


def holds(label, ok, note):
    return Fact(label, z3.BoolVal(bool(ok)), note)


COLS = ["id", "type", "x", "y", "z", "r", "pid"]


def _row(n_extra):
    (m_row, p_row, f_row), (m_cm, p_cm, f_cm) = swc_patterns(n_extra)
    return m_row, RZ.parse(p_row, f_row), m_cm, RZ.parse(p_cm, f_cm)


def _joined(parts, sep):
    out = []
    for i, p in enumerate(parts):
        if i:
            out.append(sep)
        out.append(p)
    return RZ.cat(*out)


def row_shape_ok(pattern, n_extra, flags=0):
    """the row pattern is `^` prefix (G1) sep (G2) ... (G_{7+n}) tail (trailing-group) with exactly these capturing groups, so
    that match.group(c+1) is column c and the last group the ignored fields"""
    try:
        P = RZ.parse(pattern, flags & ~re.UNICODE)
        tg = P.top_groups()
        ok = P.anchored and P.ngroups == 8 + n_extra and tg == list(range(1, 9 + n_extra))
        if ok:
            P.before(1), [P.between(g, g + 1) for g in range(1, 7 + n_extra)], [P.group(g) for g in tg]  # all plain regular expressions
        return bool(ok)
    except Unsupported:
        return False


def swc_facts(n_extra, writer_only=False):
    sfx = "" if n_extra == 0 else f"(+{n_extra}-extra-column)"
    m_row, R, m_cm, Cm = _row(n_extra)
    names = COLS + [f"extra{i}" for i in range(n_extra)]
    ncol = len(names)
    out = []
    shape = row_shape_ok(R.pattern, n_extra, R.flags_in) and m_row == "search" and m_cm in ("match", "search")
    out.append(holds("row-pattern-shape" + sfx, shape,
                     f"the row test is `search` of ^ws (G1) sep ... (G{ncol}) tail (trailing group): {ncol + 1} capturing groups, all top-level"))
    if not shape:
        return out
    G = {nm: R.group(i + 1) for i, nm in enumerate(names)}
    hit, chit = R.hit(m_row), Cm.hit(m_cm)
    ws, nws = WS(), NWS()
    is_int = lambda nm: nm in ("id", "type", "pid")
    wlang = {nm: L(W_NAT) if nm in ("id", "type") else L(W_PID) if nm == "pid" else L(W_FLOAT) for nm in names}

    # ---- what the writer emits is accepted (C01 and C02)
    for nm in names:
        what = "str(k), k >= 0" if nm in ("id", "type") else "str(k), k >= -1" if nm == "pid" else "format(v, '.4f') of a finite float"
        out.append(subset(f"writer-{nm}-text-matches-its-group" + sfx, wlang[nm], G[nm], f"L({what}) is within the language of group {names.index(nm) + 1}"))
    out.append(subset("written-row-line-is-a-row" + sfx, RZ.cat(_joined([wlang[nm] for nm in names], RZ.lit(" ")), RZ.lit("\n")), hit,
                      "the line `' '.join(cells) + '\\n'` the writer emits for a node is accepted by the row test"))
    out.append(subset("written-comment-line-is-a-comment-and-no-row", RZ.cat(RZ.lit("#"), RZ.full()), z3.Intersect(chit, z3.Complement(hit)),
                      "a line starting with '#' (every comment / header line the writer emits) passes the comment test and not the row test") if n_extra == 0 else None)
    # ---- token structure (the language part of the whitespace-token lemma)
    for nm in names:
        out.append(subset(f"column-{nm}-is-a-nonempty-whitespace-free-token" + sfx, G[nm], z3.Plus(nws),
                          "L(G) has no empty string and no string with a whitespace character: L(G) and L(.*\\s.*) are disjoint"))
    out.append(same("leading-part-is-whitespace" + sfx, R.before(1), z3.Star(ws), "what precedes the first group is exactly \\s* (any whitespace, possibly none)"))
    for i in range(ncol - 1):
        out.append(same(f"separator-after-{names[i]}-is-nonempty-whitespace" + sfx, R.between(i + 1, i + 2), z3.Plus(ws),
                        "the separator between two column groups is exactly \\s+ : only whitespace, at least one"))
    out.append(subset("after-the-last-column-comes-whitespace-or-the-end" + sfx, R.after(ncol), z3.Union(RZ.eps(), RZ.cat(ws, RZ.full())),
                      "the last column group is not followed by a non-blank character (it is a whole token)"))
    if writer_only:
        return [f for f in out if f is not None]
    # ---- acceptance of the line grammar / rejection of everything else (C02)
    out.append(subset("seven-column-tokens-separated-by-blanks-are-a-row" + sfx, RZ.cat(_joined([G[nm] for nm in names], RZ.lit(" ")), z3.Option(RZ.lit("\n"))), hit,
                      "w1 ' ' w2 ... ' ' w7 with w_i in L(G_i), optionally newline-terminated, is accepted"))
    ref = {nm: L(SWC_NAT) if nm in ("id", "type") else L(SWC_PID) if nm == "pid" else L(SWC_FLOAT) for nm in names}
    grammar = RZ.cat(z3.Star(ws), _joined([ref[nm] for nm in names], z3.Plus(ws)), z3.Star(RZ.cat(z3.Plus(ws), L(SWC_FLOAT))), z3.Star(ws))
    out.append(subset("every-line-of-the-swc-line-grammar-is-a-row" + sfx, grammar, hit,
                      "leading blanks, any whitespace runs (tabs, CR LF), signs, decimal / exponent spellings, any number of extra number fields"))
    tokens = RZ.cat(z3.Star(ws), _joined([G[nm] for nm in names], z3.Plus(ws)),
                    z3.Star(RZ.cat(z3.Plus(ws), z3.Plus(L(NUMBER_CHARS)))), z3.Star(ws))
    out.append(subset("every-row-is-its-column-tokens-then-number-like-fields" + sfx, hit, tokens,
                      "a row line is blanks, one token of every column language separated by whitespace, then whitespace-separated fields made of "
                      "number characters only (no ',' , no letters but e/E), then blanks: nothing else passes the row test"))
    # ---- conversions cannot fail on a matched row
    for nm in names:
        out.append(subset(f"column-{nm}-converts" + sfx, G[nm], L(PY_INT if is_int(nm) else PY_FLOAT),
                          f"L(G) is within the argument grammar of {'int' if is_int(nm) else 'float'}(): the conversion of a matched group cannot raise"))
    if n_extra == 0:
        dec = RZ.re_of_ranges(RZ.py_decimal())
        for nm in ("id", "type"):
            out.append(subset(f"column-{nm}-is-unsigned", G[nm], z3.Plus(dec), "digits only: int(group) >= 0"))
        # ---- the three branches of the case split are disjoint
        out.append(disjoint("comment-line-is-never-a-row", chit, hit, "no text passes both the comment test and the row test"))
        out.append(disjoint("blank-line-is-neither-row-nor-comment", z3.Star(ws), z3.Union(hit, chit), "a line of whitespace only (or empty) passes neither test"))
        out.append(same("comment-test-is-blanks-then-hash", chit, RZ.cat(z3.Star(ws), RZ.lit("#"), RZ.full()), "a comment line is optional whitespace, '#', anything"))
    return [f for f in out if f is not None]


def writer_line_facts():
    """what the writer yields for a node is ONE line: the cell texts contain no line-break character, the only one is the final newline
    (premise of the round-trip lemma's io assumption `the reader gets the yielded texts back line by line`)"""
    names = COLS
    wlang = {nm: L(W_NAT) if nm in ("id", "type") else L(W_PID) if nm == "pid" else L(W_FLOAT) for nm in names}
    no_break = z3.Star(RZ.re_of_ranges(RZ.complement([(10, 10), (13, 13)])))
    return [subset("written-row-line-ends-with-its-only-line-break", RZ.cat(_joined([wlang[nm] for nm in names], RZ.lit(" ")), RZ.lit("\n")), RZ.cat(no_break, RZ.lit("\n")),
                   "the line `' '.join(cells) + '\\n'` has no LF / CR but its last character: a reader splitting at line breaks gets it back as one line")]


def token_lemma_facts():
    """the whitespace-token lemma as language facts over ABSTRACT token languages (pattern-independent):
    if a.g.b = a'.g'.b' with a, a' whitespace runs, g, g' nonempty whitespace-free, b, b' empty or starting with whitespace,
    then a = a', g = g', b = b'.  Applied seven times (column tokens are whitespace-free and nonempty, separators nonempty
    whitespace, the last column is followed by whitespace or the end -- the per-pattern facts above) it says that ANY
    decomposition of a row line along the pattern binds group i to the i-th whitespace-delimited token."""
    ws, nws = WS(), NWS()
    a, g, b, a2, g2, b2 = (z3.String(n) for n in ("tl!a", "tl!g", "tl!b", "tl!a2", "tl!g2", "tl!b2"))
    rest = z3.Union(RZ.eps(), RZ.cat(ws, RZ.full()))
    hyp = z3.And(z3.InRe(a, z3.Star(ws)), z3.InRe(a2, z3.Star(ws)), z3.InRe(g, z3.Plus(nws)), z3.InRe(g2, z3.Plus(nws)),
                 z3.InRe(b, rest), z3.InRe(b2, rest), z3.Concat(a, g, b) == z3.Concat(a2, g2, b2))
    return [Fact("token-boundaries-are-unique", z3.Implies(hyp, z3.And(a == a2, g == g2, b == b2)),
                 "blanks . token . (end | blank . rest) splits a text in at most one way")]


def asc_facts():
    (method, ptxt, fl), delims = asc_patterns()
    Pn = RZ.parse(ptxt, fl)
    word = z3.Plus(RZ.re_of_ranges(RZ.complement([(ord(c), ord(c)) for c in delims])))
    hitw = z3.Intersect(Pn.hit(method), word)
    fl_ok = L(PY_FLOAT)
    out = [
        subset("number-pattern-converts", Pn.fullmatch(), fl_ok, "a word that IS a number (matches RE_FLOAT entirely) is within the argument grammar of float()"),
        subset("number-pattern-is-a-decimal-number", Pn.fullmatch(), L(ASC_NUMBER), "RE_FLOAT spells decimal numbers only (sign, digits, point, exponent)"),
        subset("plain-decimal-numbers-are-numbers", L(PLAIN_DECIMAL), z3.Intersect(Pn.fullmatch(), hitw),
               "integers and decimals as Neurolucida writes them are words that pass the number test"),
        # defect found here and FIXED in /repo (known_findings.jsonl): the Lexer applied RE_FLOAT.match (a PREFIX test): a word like '1_0' or '1٣' passes it, float() accepts it
        # (10.0 / 13.0 -- the second one is tolerated by the reference, which allows any Unicode decimal digit) and a malformed point is converted instead of rejected.
        subset("number-token-is-entirely-a-number", z3.Intersect(hitw, fl_ok), L(ASC_NUMBER),
               "a word that passes the Lexer's number test AND that float() converts (i.e. a word that becomes a FLOAT token) is a decimal number in its entirety"),
    ]
    # reference-language facts the Lexer contract (contracts/C15.py, Lexer.__next__) uses as transfer lemmas between language predicates
    out += [
        subset("asc-number-converts", L(ASC_NUMBER), fl_ok, "every decimal number of the ASC format is within the argument grammar of float(): converting one cannot raise"),
        subset("plain-decimal-is-an-asc-number", L(PLAIN_DECIMAL), L(ASC_NUMBER), "integers and decimals as Neurolucida writes them are decimal numbers of the format"),
    ]
    for w in ("1,5", "1.2.3", "2.5E-", "3.5mm", "1e", "-", ".", "e5"):
        s = RZ.zstr(w)
        out.append(Fact(f"not-a-number:{w}", z3.Not(z3.And(z3.InRe(s, hitw), z3.InRe(s, fl_ok))),
                        f"the word {w!r} never becomes a FLOAT token (it fails the number test or float() rejects it)"))
        out.append(Fact(f"not-in-the-number-pattern:{w}", z3.Not(z3.InRe(s, Pn.fullmatch())), f"{w!r} is not in L(RE_FLOAT)"))
    return out


ASSUMPTIONS = [
    "regex-model: a pattern method is its LANGUAGE: pattern.search/match/fullmatch(s) is not None iff s is in the regular language pyvc/regex_z3.py "
    "derives from re._parser's parse of the pattern text (Python's `$`, Unicode \\s / \\d as `re` itself classifies every code point); the sre matcher is "
    "assumed to implement that language and to report groups that come from SOME decomposition of the text along the pattern; translator cross-checked "
    "against re on random strings by tools/xcheck_regex_z3.py",
    "regex-model: z3's alphabet ends at U+2FFFF, which stands for every later code point (each class of a translated pattern is checked to treat all of them alike)",
    "regex-reference: the argument grammars of float() / int() (library reference; blanks = str.isspace characters except U+001C..U+001F) and the writer's "
    "texts format(v, '.4f') in -?[0-9]+\\.[0-9]{4} (finite v), str(k) in -?(0|[1-9][0-9]*) are taken from the documentation and cross-checked against the "
    "interpreter by tools/xcheck_regex_z3.py, not proved",
    "assumed-lemma: whitespace-token lemma (lean/Tokens.lean: token_split_unique, tokens_unique): a text splits in at most one way into blanks, a nonempty "
    "blank-free token, and a rest that is empty or starts with a blank; so two decompositions blanks tok blanks+ tok ... tok rest with equally many tokens "
    "agree.  Instance: blanks = str.isspace characters, tokens = the column groups (facts column-*-is-a-nonempty-whitespace-free-token, "
    "separator-*-is-nonempty-whitespace, leading-part-is-whitespace, after-the-last-column-comes-whitespace-or-the-end): ANY decomposition of a row line "
    "along the row pattern binds group i to the i-th whitespace-delimited token",
    "regex-facts: pattern texts, flags and matching methods are read on every run by running the real parse_swc / Lexer.__next__ with a recording stand-in for `re`",
]


def facts(prop):
    """(assumptions, [(label, hyps, goal, kind, note)]) for vcheck"""
    if prop == "C02":
        fs = swc_facts(0) + swc_facts(1)
    elif prop == "C01":
        fs = swc_facts(0, writer_only=True) + writer_line_facts()
    elif prop == "C15":
        fs = asc_facts()
    else:
        return [], []
    out = []
    for f in fs:
        out.append((f.label, [], f.goal, "regex", f.note))
        if f.nonempty is not None:
            s = _s()
            out.append(("cover/" + f.label, [z3.InRe(s, f.nonempty)], z3.BoolVal(False), "cover", "the left-hand language is not empty"))
    return list(ASSUMPTIONS), out


def counter_text(model_sexpr):
    """the text of a counter-model (z3 prints `(define-fun s!7 () String "0\\u{660}")`): the string that refutes the fact"""
    m = re.search(r'\(define-fun\s+s!\d+\s+\(\)\s+String\s+"((?:[^"]|"")*)"\)', model_sexpr or "")
    if not m:
        return None
    return re.sub(r"\\u\{([0-9a-fA-F]+)\}", lambda k: chr(int(k.group(1), 16)), m.group(1).replace('""', '"'))


if __name__ == "__main__":  # timing / debugging:  python -m contracts.regex_facts C02 [substring]
    sys.path.insert(0, _repo())
    import time

    from pyvc import smt

    prop = sys.argv[1]
    for lab, hyps, goal, kind, note in facts(prop)[1] + [(f.label, [], f.goal, 'regex', f.note) for f in (token_lemma_facts() if os.environ.get('TOKEN') else [])]:
        if len(sys.argv) > 2 and sys.argv[2] not in lab:
            continue
        txt = smt.to_smt2(hyps, goal)
        r = smt.run_z3(txt, 10000)
        line = f"{lab:90s} {kind:6s} z3={r[0]:8s}{r[1]:6.2f}s"
        if os.environ.get("CVC5"):
            c = smt.run_cvc5(txt, 10000)
            line += f"  cvc5={c[0]:8s}{c[1]:6.2f}s {c[3][:60] if c[0] == 'unknown' else ''}"
        print(line, flush=True)
        if r[0] == "sat" and kind != "cover":
            print("     counter-model:", (r[2] or "")[:300].replace("\n", " "))
