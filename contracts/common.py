"""Shared builders for symbolic inputs of the contracts."""
import z3

from pyvc.values import PDict, PList, SArr, Sym, fresh_name, zint

COLS = dict(id="int", type="int", x="real", y="real", z="real", r="real", pid="int")


def sym_tree_fixed(S, n, name="t", frozen=True, cls=None):
    """A Tree of exactly n nodes (concrete n) with symbolic column contents (NArr columns)."""
    from pyvc.values import NArr
    from swcgeom.core.swc_utils import get_names, get_types
    from swcgeom.core.tree import Tree

    cols = {}
    for c, k in COLS.items():
        a = NArr((n,), [S.int(f"{name}_{c}{i}") if k == "int" else S.real(f"{name}_{c}{i}") for i in range(n)], k)
        a.frozen = frozen
        cols[c] = a
    nd = PDict(cols)
    nd.frozen = frozen
    t = S.obj(cls or Tree, ndata=nd, names=get_names(), types=get_types(), source="", comments=PList([]))
    t.frozen = frozen
    return t


def sym_tree(S, name="t", frozen=True, wf=False, extra_cols=(), cls=None):
    """A Tree object whose seven columns are symbolic arrays of one symbolic length n >= 1."""
    from swcgeom.core.swc_utils import get_names, get_types
    from swcgeom.core.tree import Tree

    n = S.int(name + "_n")
    S.assume(n.z >= 1)
    cols = {}
    for c, k in list(COLS.items()) + [(e, "real") for e in extra_cols]:
        a = S.arr(k, n=n, name=f"{name}_{c}")
        a.frozen = frozen
        cols[c] = a
    nd = PDict(cols)
    nd.frozen = frozen
    t = S.obj(cls or Tree, ndata=nd, names=get_names(), types=get_types(), source="", comments=PList([]))
    t.frozen = frozen
    if wf:
        assume_wf(S, t)
    return t


def col(t, c):
    return t.fields["ndata"].items[c]


def nof(t):
    return zint(col(t, "pid").n)


def assume_wf(S, t, depth_name=None):
    """WFtree: id[i] = i, pid[0] = -1, 0 <= pid[i] < n for i > 0, with a ghost
    depth witness (depth[0] = 0, depth[i] = depth[pid[i]] + 1) => every node reaches the root."""
    n = nof(t)
    i = z3.Int(fresh_name("i"))
    idc, pid = col(t, "id").arr, col(t, "pid").arr
    depth = z3.Function(depth_name or fresh_name("depth"), z3.IntSort(), z3.IntSort())
    S.assume(z3.ForAll([i], z3.Implies(z3.And(i >= 0, i < n), z3.Select(idc, i) == i)))
    S.assume(z3.Select(pid, 0) == -1)
    S.assume(z3.ForAll([i], z3.Implies(z3.And(i > 0, i < n), z3.And(z3.Select(pid, i) >= 0, z3.Select(pid, i) < n))))
    S.assume(depth(0) == 0)
    S.assume(z3.ForAll([i], z3.Implies(z3.And(i > 0, i < n), z3.And(depth(i) == depth(z3.Select(pid, i)) + 1, depth(i) > 0))))
    return depth
