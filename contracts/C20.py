"""C20 — image stacks survive save/load; rasterised trees match their geometry: sidecar contracts.

What is under contract is the Python glue around the compiled encoders / samplers (tifffile, sdflit):
  save_tiff                      axis bookkeeping (X,Y,Z,C) -> file order (Z,X,Y,C) + axes string, C = 1 axis, dtype rescaling
  TiffImageStack.__init__        file order -> (X,Y,Z,C) by the axes string, for every axes string
  NDArrayImageStack.__init__     C = 1 axis, dtype rescaling on load
  ToImageStack.transform         bounding box (floor / ceil), one frame per sampler
  ToImageStack._get_samplers     half-voxel offset, z slices, slice count
  ToImageStack._get_scene.leave  one SDF object per (parent, child) pair
Array contents are opaque (pyvc/ext_C20.py: ImgArr): an uninterpreted function of the index tuple, so a clause
`forall index: out[...] == f(in[...])` is proved for arbitrary contents and arbitrary (symbolic) extents; dtypes are
concrete per variant.  tifffile / sdflit calls are assumed contracts that record their arguments in the ghost call log.
"""
import itertools

import numpy as np
import z3

from pyvc import ext_C20 as X
from pyvc import lemmas as _lemmas
from pyvc import progression as _progression
from pyvc.ext_C20 import CAST, RND, ImgArr
from pyvc.values import Iter, NArr, Obj, Opaque, PDict, PList, SArr, Sym, fresh_name, to_z3, zint

X.install()

IO = "swcgeom/images/io.py"
TR = "swcgeom/transforms/image_stack.py"

FLOATS = ["float16", "float32", "float64"]
UINTS = ["uint8", "uint16", "uint32"]
# the documented rescaling (docstrings of read_imgs / save_tiff), written here independently of io.UINT_MAX
UMAX = {"uint8": 2**8 - 1, "uint16": 2**16 - 1, "uint32": 2**32 - 1, "uint64": 2**64 - 1}


def is_f(dt):
    return np.dtype(dt).name in ("float16", "float32", "float64")


def is_u(dt):
    return np.dtype(dt).name in UMAX


def rq(n, d=1):
    return z3.RealVal(n) / z3.RealVal(d)


def zi(v):
    return v.z if isinstance(v, Sym) else zint(v)


def eq_dim(a, b):
    """extent equality -> Python bool when decidable, else z3"""
    if isinstance(a, int) and isinstance(b, int):
        return a == b
    return zi(a) == zi(b)


def conj(*xs):
    xs = [x for x in xs if x is not True]
    if any(x is False for x in xs):
        return False
    return z3.And(*xs) if xs else True


def forall_idx(shape, body):
    """forall index tuple within `shape`: body(ix)"""
    ix = [z3.Int(fresh_name("ix")) for _ in shape]
    rng = z3.And(*[z3.And(i >= 0, i < zi(s)) for i, s in zip(ix, shape)])
    return z3.ForAll(ix, z3.Implies(rng, body(ix)))


def in4(a):
    """view an (X,Y,Z) or (X,Y,Z,C) source as (shape4, elem4)"""
    if a.ndim == 4:
        return list(a.shape), a.elem
    return list(a.shape) + [1], (lambda ix, _e=a.elem: _e(ix[:3]))


def writes(E):
    return [p for nm, p in E.call_log if nm == "tifffile.imwrite"]


def dtype_variants():
    """(source dtype, requested dtype) pairs: every floating / unsigned source against every target given as a class,
    plus targets given as np.dtype instances, plus no request"""
    out = {}
    for s in FLOATS + UINTS:
        out[f"{s}->as-is"] = (s, None)
        for d in FLOATS + UINTS:
            out[f"{s}->{d}"] = (s, getattr(np, d))
    for s, d in (("float32", "uint8"), ("float16", "uint16"), ("uint16", "float32"), ("uint8", "uint16"), ("float64", "float32"), ("uint32", "float64")):
        out[f"{s}->dtype({d})"] = (s, np.dtype(d))
    return out


# =========================================================================== save_tiff
def save_factor(src, dst):
    """the documented scaling factor of a save: float -> unsigned: UINT_MAX[target]; unsigned -> float: 1/UINT_MAX[source]; else 1"""
    if is_f(src) and is_u(dst):
        return rq(UMAX[np.dtype(dst).name])
    if is_u(src) and is_f(dst):
        return rq(1, UMAX[np.dtype(src).name])
    return rq(1)


def save_expected(src, dst):
    """voxel written for a source voxel v: unchanged without a request, else v * factor computed in DOUBLE precision
    (exact over the reals) and then converted to the requested dtype"""
    if dst is None:
        return lambda v: v
    c = CAST("float64", dst)
    f = save_factor(src, dst)
    return lambda v: c(v * f)


def st_setup(src, dst, ndim=4, compression="zlib", kw=None, as_stack=False):
    def f(S):
        dims = [S.int(n) for n in "XYZCQ"[:ndim]]
        for d in dims:
            S.assume(d.z >= 0)
        a = ImgArr.source(dims, src, "data")
        a.frozen = True
        data = a
        if as_stack:
            from swcgeom.images.io import NDArrayImageStack

            data = S.obj(NDArrayImageStack, imgs=a)
            data.frozen = True
        kwargs = PDict({k: (PDict(dict(v)) if isinstance(v, dict) else v) for k, v in (kw or {}).items()})
        return dict(data=data, fname="out.tif", dtype=dst, compression=compression, kwargs=kwargs,
                    __ghost__=dict(src_arr=a, user_kw=dict(kw or {})))

    return f


def _src(E):
    return E.spec_extra["src_arr"]


def st_once(E, v, o):
    w = writes(E)
    return len(w) == 1 and w[0]["nargs"] == 2 and w[0]["file"] == v["fname"] and isinstance(w[0]["data"], ImgArr)


def st_shape(E, v, o):
    (w,) = writes(E)
    sh, _ = in4(_src(E))
    got = w["data"].shape
    return len(got) == 4 and conj(eq_dim(got[0], sh[2]), eq_dim(got[1], sh[0]), eq_dim(got[2], sh[1]), eq_dim(got[3], sh[3]))


def st_dtype(E, v, o):
    (w,) = writes(E)
    want = _src(E).dtype if v["dtype"] is None else np.dtype(v["dtype"])
    return w["data"].dtype == want


def st_voxels(E, v, o):
    (w,) = writes(E)
    a = _src(E)
    sh, el = in4(a)
    exp = save_expected(a.dtype, v["dtype"])
    out = w["data"]
    if out.ndim != 4:
        return False
    # file order is (Z, X, Y, C)
    return forall_idx([sh[2], sh[0], sh[1], sh[3]], lambda ix: out.elem(ix) == exp(el([ix[1], ix[2], ix[0], ix[3]])))


def _kw(E):
    (w,) = writes(E)
    return w["kwargs"]


def st_axes(E, v, o):
    md = _kw(E).get("metadata")
    user = E.spec_extra["user_kw"].get("metadata", {})
    want = user.get("axes", "ZXYC")
    if not isinstance(md, PDict) or md.items.get("axes") != want:
        return False
    return want == "ZXYC" or "axes" in user  # the writer's own axes string is ZXYC


def st_user_metadata_kept(E, v, o):
    md = _kw(E).get("metadata")
    user = E.spec_extra["user_kw"].get("metadata", {})
    return isinstance(md, PDict) and all(md.items.get(k) == x for k, x in user.items()) and set(md.items) == set(user) | {"axes"}


def st_photometric(E, v, o):
    sh, _ = in4(_src(E))
    got = _kw(E).get("photometric")
    user = E.spec_extra["user_kw"]
    if "photometric" in user:
        return got == user["photometric"]
    c = sh[3]
    if isinstance(c, int):
        return got == ("rgb" if c == 3 else "minisblack")
    if got == "rgb":
        return zi(c) == 3
    if got == "minisblack":
        return zi(c) != 3
    return False


def st_compression(E, v, o):
    kw, user, comp = _kw(E), E.spec_extra["user_kw"], v["compression"]
    if comp is False:
        return all(kw.get(k, None) == user.get(k, None) for k in ("compression", "compressionargs")) and ("compression" in kw) == ("compression" in user)
    ok = kw.get("compression") == user.get("compression", comp)
    ca = kw.get("compressionargs")
    if "compressionargs" in user:
        return ok and isinstance(ca, PDict) and ca.items == user["compressionargs"]
    if comp == "zlib":
        return ok and isinstance(ca, PDict) and ca.items == {"level": 6}
    return ok and ca is None


def st_only_known_options(E, v, o):
    kw, user = _kw(E), E.spec_extra["user_kw"]
    extra = set(kw) - set(user) - {"compression", "compressionargs", "photometric", "metadata"}
    return not extra and all(kw[k] == user[k] for k in user if k not in ("metadata", "compressionargs"))


def st_assert_only(E, v, o):
    a = E.spec_extra["src_arr"]
    if a.ndim not in (3, 4):
        return True
    if a.ndim == 3:
        return False
    c = a.shape[3]
    return z3.And(zi(c) != 1, zi(c) != 3)


def reg_save_tiff(R):
    variants = {}
    for name, (s, d) in dtype_variants().items():
        variants[name] = st_setup(s, d)
    variants["3d:uint8->as-is"] = st_setup("uint8", None, ndim=3)
    variants["3d:float32->uint16"] = st_setup("float32", np.uint16, ndim=3)
    variants["3d:uint16->float32"] = st_setup("uint16", np.float32, ndim=3)
    variants["2d:uint8"] = st_setup("uint8", None, ndim=2)
    variants["5d:uint8"] = st_setup("uint8", None, ndim=5)
    variants["no-compression"] = st_setup("uint8", None, compression=False)
    variants["lzw"] = st_setup("uint16", np.float32, compression="lzw")
    variants["user-options"] = st_setup("float32", np.uint8, kw={"metadata": {"unit": "um"}, "compression": "lzma", "software": "x"})
    variants["user-photometric"] = st_setup("uint8", None, kw={"photometric": "minisblack", "compressionargs": {"level": 1}})
    variants["from-ImageStack"] = st_setup("float32", np.uint8, as_stack=True)
    R.add(
        f"{IO}:save_tiff",
        prop="C20",
        variants=variants,
        raises={"AssertionError": ("only-when-not-XYZ(C)-with-1-or-3-channels", st_assert_only)},
        ensures=[
            ("writes-exactly-one-file-with-the-given-name", st_once),
            ("written-shape-is-(Z,X,Y,C)-with-C=1-for-3-D-input", st_shape),
            ("written-dtype-is-the-requested-one", st_dtype),
            ("written-voxel-[z,x,y,c]-is-the-rescaled-input-voxel-[x,y,z,c]-product-in-double-precision", st_voxels),
            ("axes-string-ZXYC-in-metadata", st_axes),
            ("user-metadata-kept", st_user_metadata_kept),
            ("photometric-rgb-iff-3-channels", st_photometric),
            ("compression-options", st_compression),
            ("no-other-option-invented-user-options-forwarded", st_only_known_options),
            "returns-nothing :: result is None",
        ],
        notes="dtype is concrete per variant (6 sources x (none + 6 classes) + 6 np.dtype instances); extents are symbolic; "
              "input array is frozen: any in-place write is a failed frame obligation",
    )


# =========================================================================== NDArrayImageStack.__init__
def load_expected(raw, dst):
    """voxel held after NDArrayImageStack(imgs, dtype=dst) for a raw voxel v (documented rescaling):
       unsigned -> float : v / UINT_MAX[raw]   (converted to the target first, quotient rounded to the target float format)
       float -> unsigned : v * UINT_MAX[target] (product in double precision), then converted
       otherwise         : plain conversion"""
    if dst is None:
        return lambda v: v
    raw, dst = np.dtype(raw), np.dtype(dst)
    if is_f(dst) and is_u(raw):
        c, r, f = CAST(raw, dst), RND(dst), rq(1, UMAX[raw.name])
        return lambda v: r(f * c(v))
    if is_u(dst) and is_f(raw):
        c, f = CAST("float64", dst), rq(UMAX[dst.name])
        return lambda v: c(f * v)  # product in DOUBLE precision (exact over the reals), then converted
    c = CAST(raw, dst)
    return lambda v: c(v)


def nd_setup(raw, dst, ndim=4):
    def f(S):
        from swcgeom.images.io import NDArrayImageStack

        dims = [S.int(n) for n in "XYZCQ"[:ndim]]
        for d in dims:
            S.assume(d.z >= 0)
        a = ImgArr.source(dims, raw, "imgs")
        a.frozen = True
        return dict(self=S.obj(NDArrayImageStack), imgs=a, dtype=dst, __ghost__=dict(src_arr=a))

    return f


def nd_held(v):
    s = v["self"]
    return s.fields.get("imgs") if isinstance(s, Obj) else None


def nd_shape(E, v, o):
    out = nd_held(v)
    if not isinstance(out, ImgArr) or out.ndim != 4:
        return False
    sh, _ = in4(_src(E))
    return conj(*[eq_dim(g, w) for g, w in zip(out.shape, sh)])


def nd_dtype(E, v, o):
    out = nd_held(v)
    want = _src(E).dtype if v["dtype"] is None else np.dtype(v["dtype"])
    return isinstance(out, ImgArr) and out.dtype == want


def nd_voxels(E, v, o):
    out = nd_held(v)
    a = _src(E)
    if not isinstance(out, ImgArr) or out.ndim != 4:
        return False
    sh, el = in4(a)
    exp = load_expected(a.dtype, v["dtype"])
    return forall_idx(sh, lambda ix: out.elem(ix) == exp(el(ix)))


def nd_input_contents_kept(E, v, o):
    a = _src(E)
    f = a.fn
    return forall_idx(a.shape, lambda ix: a.elem(ix) == f(*ix))


def nd_no_copy_without_request(E, v, o):
    a = _src(E)
    if v["dtype"] is None and a.ndim == 4:
        return nd_held(v) is a
    return True


def nd_only_field(E, v, o):
    return set(v["self"].fields) == {"imgs"}


def nd_assert_only(E, v, o):
    return E.spec_extra["src_arr"].ndim not in (3, 4)


def reg_ndarray(R):
    variants = {name: nd_setup(s, d) for name, (s, d) in dtype_variants().items()}
    variants["3d:uint8->as-is"] = nd_setup("uint8", None, ndim=3)
    variants["3d:uint8->float32"] = nd_setup("uint8", np.float32, ndim=3)
    variants["3d:float32->dtype(uint8)"] = nd_setup("float32", np.dtype("uint8"), ndim=3)
    variants["2d"] = nd_setup("uint8", None, ndim=2)
    variants["5d"] = nd_setup("uint8", np.float32, ndim=5)
    R.add(
        f"{IO}:NDArrayImageStack.__init__",
        prop="C20",
        variants=variants,
        raises={"AssertionError": ("only-when-not-3-or-4-dimensional", nd_assert_only)},
        ensures=[
            ("holds-(X,Y,Z,C)-with-C=1-for-3-D-input", nd_shape),
            ("held-dtype-is-the-requested-one", nd_dtype),
            ("held-voxel-is-the-documented-rescaling-of-the-raw-voxel", nd_voxels),
            ("raw-array-contents-untouched", nd_input_contents_kept),
            ("no-copy-without-a-dtype-request", nd_no_copy_without_request),
            ("sets-only-imgs", nd_only_field),
        ],
        notes="precision: the float -> unsigned product is stated in the raw float format and the unsigned -> float quotient in the "
              "target float format, as numpy computes them for a Python-number factor; see report (float16 raw with a 16/32-bit target)",
    )


# =========================================================================== TiffImageStack.__init__
ORDER = {"X": 0, "Y": 1, "Z": 2, "C": 3, "I": 2}  # canonical axis order of the library (I = vaa3d's name of Z)


def known_axes(axes, ndim):
    return len(axes) == ndim and all(c in ORDER for c in axes)


def effective_axes(axes, ndim):
    """axes string the reader works with: the file's when usable, else the writer's default"""
    if known_axes(axes, ndim):
        return axes
    return "ZXYC" if ndim == 4 else "ZXY"


def tf_setup(axes, ndim=None, raw="uint8", dst=None):
    ndim = len(axes) if ndim is None else ndim

    def f(S):
        from swcgeom.images.io import TiffImageStack

        dims = [S.int(f"n{k}") for k in range(ndim)]
        for d in dims:
            S.assume(d.z >= 0)
        a = ImgArr.source(dims, raw, "file")
        a.frozen = True
        return dict(self=S.obj(TiffImageStack), fname="in.tif", dtype=dst, kwargs=PDict({}),
                    __ghost__=dict(src_arr=a, tiff_content=(a, axes), file_axes=axes))

    return f


def tf_layout(E):
    """(file array, for each result axis k < ndim: the file axis that must land there) — written from the axes string:
    the result lists the file's axes in canonical order X < Y < Z(I) < C; a 3-D file gains a trailing axis of extent 1"""
    a = _src(E)
    ax = effective_axes(E.spec_extra["file_axes"], a.ndim)
    src_of = sorted(range(a.ndim), key=lambda p: ORDER[ax[p]])
    return a, ax, src_of


def tf_shape(E, v, o):
    out = nd_held(v)
    a, ax, src_of = tf_layout(E)
    if not isinstance(out, ImgArr) or out.ndim != 4:
        return False
    want = [a.shape[p] for p in src_of] + ([1] if a.ndim == 3 else [])
    return conj(*[eq_dim(g, w) for g, w in zip(out.shape, want)])


def tf_xyzc(E, v, o):
    """for a file that has X, Y, Z (and C when 4-D): result axis k is exactly the file axis labelled 'XYZC'[k]"""
    out = nd_held(v)
    a, ax, src_of = tf_layout(E)
    ax = ax.replace("I", "Z")
    if not isinstance(out, ImgArr) or out.ndim != 4:
        return False
    if not set("XYZ") <= set(ax) or len(set(ax)) != len(ax):
        return True
    pos = {c: ax.index(c) for c in ax}
    ok = [eq_dim(out.shape[k], a.shape[pos[c]]) for k, c in enumerate("XYZC") if c in pos]
    if "C" not in pos:
        ok.append(eq_dim(out.shape[3], 1))
    exp = load_expected(a.dtype, v["dtype"])

    def body(ix):
        fx = [None] * a.ndim
        for k, c in enumerate("XYZC"):
            if c in pos:
                fx[pos[c]] = ix[k]
        return out.elem(ix) == exp(a.elem(fx))

    return conj(*ok, forall_idx(out.shape, body))


def tf_voxels(E, v, o):
    out = nd_held(v)
    a, ax, src_of = tf_layout(E)
    if not isinstance(out, ImgArr) or out.ndim != 4:
        return False
    exp = load_expected(a.dtype, v["dtype"])

    def body(ix):
        fx = [None] * a.ndim
        for k, p in enumerate(src_of):
            fx[p] = ix[k]
        return out.elem(ix) == exp(a.elem(fx))

    return forall_idx(out.shape, body)


def tf_dtype(E, v, o):
    out = nd_held(v)
    want = _src(E).dtype if v["dtype"] is None else np.dtype(v["dtype"])
    return isinstance(out, ImgArr) and out.dtype == want


def tf_warns(E, v, o):
    a = _src(E)
    bad = not known_axes(E.spec_extra["file_axes"], a.ndim)
    return len(E.warn_log) == (1 if bad else 0)


def tf_file_protocol(E, v, o):
    names = [nm for nm, _ in E.call_log if nm.startswith(("tifffile.", "TiffFile.", "TiffPageSeries."))]
    opened = [p for nm, p in E.call_log if nm == "tifffile.TiffFile"]
    return names == ["tifffile.TiffFile", "TiffFile.__enter__", "TiffPageSeries.asarray", "TiffFile.__exit__"] and opened[0]["file"] == v["fname"]


def reg_tiff(R):
    variants = {}
    for n in (4, 3):
        for p in itertools.permutations("XYZC", n):
            variants["axes=" + "".join(p)] = tf_setup("".join(p))
    for ax in ("XYI", "IXYC", "YIX"):  # vaa3d's I
        variants["axes=" + ax] = tf_setup(ax)
    variants["unknown-letters-4d:QXYS"] = tf_setup("QXYS")
    variants["unknown-letters-3d:YXS"] = tf_setup("YXS")
    variants["length-mismatch:ZXY-on-4d"] = tf_setup("ZXY", ndim=4)
    variants["length-mismatch:ZXYC-on-3d"] = tf_setup("ZXYC", ndim=3)
    variants["axes=ZXYC,uint8->float32"] = tf_setup("ZXYC", raw="uint8", dst=np.float32)
    variants["axes=ZXYC,float32->uint8"] = tf_setup("ZXYC", raw="float32", dst=np.uint8)
    variants["axes=ZXYC,float32->dtype(uint16)"] = tf_setup("ZXYC", raw="float32", dst=np.dtype("uint16"))
    variants["axes=ZXY,uint16->float32"] = tf_setup("ZXY", raw="uint16", dst=np.float32)
    R.add(
        f"{IO}:TiffImageStack.__init__",
        prop="C20",
        variants=variants,
        ensures=[
            ("axes-in-canonical-order-X<Y<Z<C-trailing-1-for-3-D", tf_shape),
            ("voxel-[canonical-index]-is-the-file-voxel-at-the-same-labelled-index", tf_voxels),
            ("files-with-X,Y,Z-come-back-as-(X,Y,Z,C)", tf_xyzc),
            ("held-dtype-is-the-requested-one", tf_dtype),
            ("warns-iff-the-axes-string-is-unusable", tf_warns),
            ("opens-reads-closes-the-named-file-once", tf_file_protocol),
            ("sets-only-imgs", nd_only_field),
        ],
        notes="one variant per axes string: all 24 + 24 permutations of 4 / 3 distinct letters of XYZC, vaa3d's I, unusable strings; "
              "extents symbolic; file contents opaque",
    )


# =========================================================================== round trip lemma (ties the two contracts)
def lemmas():
    """save_tiff's postcondition followed by TiffImageStack's (variant axes=ZXYC, no dtype request) gives back
    shape (X, Y, Z, C) and the written values: a consequence of the two contracts' clauses, stated over
    uninterpreted arrays D (data), W (written = file), Rr (read)."""
    I = z3.IntSort()
    D = z3.Function("rt_data", I, I, I, I, z3.RealSort())
    W = z3.Function("rt_file", I, I, I, I, z3.RealSort())
    Rd = z3.Function("rt_read", I, I, I, I, z3.RealSort())
    Xn, Yn, Zn, Cn = z3.Ints("rt_X rt_Y rt_Z rt_C")
    out = []
    for s, d in (("uint8", None), ("uint16", None), ("float32", None), ("float32", np.uint8), ("uint8", np.float32), ("float16", np.uint16)):
        exp = save_expected(s, d)
        # what save_tiff ensures (st_shape / st_voxels) for input shape (X,Y,Z,C): file shape (Z,X,Y,C)
        wsh = [Zn, Xn, Yn, Cn]
        h_save = forall_idx(wsh, lambda ix: W(*ix) == exp(D(ix[1], ix[2], ix[0], ix[3])))
        # what TiffImageStack ensures (tf_shape / tf_voxels) for a 4-D file with axes ZXYC of that shape
        ax = "ZXYC"
        src_of = sorted(range(4), key=lambda p: ORDER[ax[p]])
        rsh = [wsh[p] for p in src_of]

        def rd(ix):
            fx = [None] * 4
            for k, p in enumerate(src_of):
                fx[p] = ix[k]
            return Rd(*ix) == W(*fx)

        h_read = forall_idx(rsh, rd)
        goal = z3.And(rsh[0] == Xn, rsh[1] == Yn, rsh[2] == Zn, rsh[3] == Cn, forall_idx([Xn, Yn, Zn, Cn], lambda ix: Rd(*ix) == exp(D(*ix))))
        out.append((f"tiff-round-trip-gives-back-(X,Y,Z,C)-and-the-rescaled-voxels[{s}->{'as-is' if d is None else np.dtype(d).name}]", [h_save, h_read], goal))
    # documented rescaling composes to the identity on uint8 -> float64 -> uint8 when the final conversion truncates
    x = z3.Int("rt_v")
    out.append(("uint8->float64->uint8-rescaling-is-the-identity-when-the-cast-truncates", [x >= 0, x <= 255],
                z3.ToInt((z3.ToReal(x) * rq(1, 255)) * rq(255)) == x))
    out.extend(_IO.lemmas())
    return out


# =========================================================================== ToImageStack
I_ = z3.IntSort()
Rl = z3.RealSort()
SP = X.SP  # sampler_p0..p8(ref): (min x,y,z, max x,y,z, stride x,y,z) a RangeSampler was built from
SAMPLE = z3.Function("sdf_sample", I_, I_, I_)  # ghost: voxel block returned by sampler.sample(scene)
FRAME = z3.Function("frame_of", I_, I_, I_, Rl, I_, I_)  # ghost: (factor * voxel[..., a, b]).astype(dtype) as a value
DT_CODE = {"uint8": 8, "uint16": 16, "float32": 32, "float64": 64}
EPS = rq(1, 1000000)


class VoxVal:
    """what the loop of `transform` does with a sampled block, kept symbolic step by step"""

    def __init__(self, z, stage="voxel", idx=None, factor=None):
        self.z, self.stage, self.idx, self.factor = z, stage, idx, factor

    def __pyvc_getitem__(self, eng, idx):
        if self.stage != "voxel" or not isinstance(idx, tuple):
            raise X.Unsupported("subscript form on a sampled block")
        if len(idx) == 3 and idx[0] is Ellipsis:
            a, b = idx[1], idx[2]
        elif len(idx) == 4 and idx[0] == slice(None) and idx[1] == slice(None):
            a, b = idx[2], idx[3]
        else:
            raise X.Unsupported("subscript form on a sampled block")
        if not isinstance(a, int) or not isinstance(b, int):
            raise X.Unsupported("symbolic channel index")
        return VoxVal(self.z, "plane", (a, b))

    def __pyvc_binop__(self, eng, op, x, y):
        import ast

        other = y if x is self else x
        if self.stage != "plane" or not isinstance(op, ast.Mult) or isinstance(other, VoxVal):
            raise X.Unsupported("arithmetic form on a sampled block")
        return VoxVal(self.z, "scaled", self.idx, other.value if isinstance(other, X.NpScalar) else other)

    def __pyvc_getattr__(self, eng, name):
        if name == "astype":
            def astype(e, r, a, k):
                st = r if r.stage == "scaled" else VoxVal(r.z, "scaled", r.idx if r.idx else (-1, -1), 1)
                code = DT_CODE.get(np.dtype(a[0]).name, 0)
                return Sym(FRAME(st.z, st.idx[0], st.idx[1], to_z3(st.factor, "real"), code), "ref")

            return X.NativeMethod(astype, self, name)
        raise X.Unsupported(f"ndarray.{name} on a sampled block")


def _sampler_sample(eng, recv, args, kwargs):
    X.used(eng, "RangeSampler.sample(scene): an (X, Y, 1, 3) block that is a function of the sampler and the scene (sdflit, compiled: assumed)")
    (scene,) = args
    return VoxVal(SAMPLE(recv.z, to_z3(scene, "int")))


SAMPLER_PROTO = {"sample": _sampler_sample}


def lview(p):
    """(column arrays, length) of a list that is concrete-empty or symbolic"""
    if isinstance(p, Iter):
        p = p.seq
    if p.items is not None:
        if p.items:
            raise ValueError("concrete non-empty list in a clause")
        return None, z3.IntVal(0)
    return p.cols, zint(p.n)


def tis_obj(S):
    from swcgeom.transforms.image_stack import ToImageStack

    res = NArr((3,), [S.real("res_x"), S.real("res_y"), S.real("res_z")], "real")
    res.frozen = True
    o = S.obj(ToImageStack, resolution=res)
    o.frozen = True
    return o


def res_of(v):
    return [to_z3(t, "real") for t in v["self"].fields["resolution"].items]


def res_positive(E, v, o):
    return z3.And(*[r > 0 for r in res_of(v)])


def box3(S, name):
    a = NArr((3,), [S.real(f"{name}_{c}") for c in "xyz"], "real")
    a.frozen = True
    return a


def gs_terms(v):
    lo = [to_z3(t, "real") for t in v["coord_min"].items]
    hi = [to_z3(t, "real") for t in v["coord_max"].items]
    st = res_of(v)
    start = [lo[k] + st[k] / 2 for k in range(3)]  # the first sample CENTRE: half a voxel inside the box
    return lo, hi, st, start


def gs_expected(v, j):
    """the 9 numbers of the j-th sampler (j: z3 Int): from the property + the sampler's documented (min, max, stride) form"""
    lo, hi, st, start = gs_terms(v)
    zj = start[2] + z3.ToReal(j) * st[2]
    return [start[0], start[1], zj, hi[0], hi[1], zj + st[2] - EPS, st[0], st[1], st[2]]


def gs_inv(which):
    def f(E, v, o):
        cols, n = lview(v["__yield__"])
        lo, hi, st, start = gs_terms(v)
        z = to_z3(v["z"], "real")
        j = z3.Int(fresh_name("j"))
        if which == "z":
            return z3.And(n >= 0, z == start[2] + z3.ToReal(n) * st[2])
        if cols is None:
            return True
        ref = z3.Select(cols[0], j)
        if which == "yielded":
            return z3.ForAll([j], z3.Implies(z3.And(0 <= j, j < n), z3.And(*[SP[k](ref) == e for k, e in enumerate(gs_expected(v, j))])))
        if which == "below":
            return z3.ForAll([j], z3.Implies(z3.And(0 <= j, j < n), start[2] + z3.ToReal(j) * st[2] < hi[2]))

    return f


def gs_post(which):
    def f(E, v, o):
        cols, n = lview(v["result"])
        lo, hi, st, start = gs_terms(v)
        j = z3.Int(fresh_name("j"))
        if cols is None:
            cols = [z3.K(I_, z3.IntVal(0))]
        ref = z3.Select(cols[0], j)
        if which == "first":
            r0 = z3.Select(cols[0], 0)
            return z3.Implies(n > 0, z3.And(*[SP[k](r0) == lo[k] + st[k] / 2 for k in range(3)]))
        if which == "xy":
            return z3.ForAll([j], z3.Implies(z3.And(0 <= j, j < n), z3.And(SP[0](ref) == lo[0] + st[0] / 2, SP[1](ref) == lo[1] + st[1] / 2,
                                                                               SP[3](ref) == hi[0], SP[4](ref) == hi[1],
                                                                               SP[6](ref) == st[0], SP[7](ref) == st[1], SP[8](ref) == st[2])))
        if which == "apart":
            nxt = z3.Select(cols[0], j + 1)
            return z3.ForAll([j], z3.Implies(z3.And(0 <= j, j + 1 < n), SP[2](nxt) - SP[2](ref) == st[2]))
        if which == "zj":
            return z3.ForAll([j], z3.Implies(z3.And(0 <= j, j < n), SP[2](ref) == lo[2] + st[2] / 2 + z3.ToReal(j) * st[2]))
        if which == "one-z":
            return z3.ForAll([j], z3.Implies(z3.And(0 <= j, j < n), z3.And(SP[5](ref) == SP[2](ref) + st[2] - EPS,
                                                                               z3.Implies(st[2] > EPS, z3.And(SP[2](ref) <= SP[5](ref), SP[5](ref) < SP[2](ref) + st[2])))))
        if which == "count-lower":
            return z3.ForAll([j], z3.Implies(z3.And(0 <= j, j < n), lo[2] + st[2] / 2 + z3.ToReal(j) * st[2] < hi[2]))
        if which == "count-upper":
            return z3.And(n >= 0, lo[2] + st[2] / 2 + z3.ToReal(n) * st[2] >= hi[2])
        if which == "count":
            return z3.ForAll([j], z3.Implies(j >= 0, (j < n) == (lo[2] + st[2] / 2 + z3.ToReal(j) * st[2] < hi[2])))

    return f


def gs_result(S, fr):
    p = S.plist("ref", name="samplers")
    p.proto = SAMPLER_PROTO
    S.eng.ghost["samplers_result"] = p
    return Iter(p)


def gs_setup(offset=None):
    def f(S):
        return dict(self=tis_obj(S), coord_min=box3(S, "cmin"), coord_max=box3(S, "cmax"), offset=offset(S) if offset else None)

    return f


def reg_samplers(R):
    R.add(
        f"{TR}:ToImageStack._get_samplers",
        prop="C20",
        variants={"default-offset": gs_setup(), "explicit-offset-array": gs_setup(lambda S: box3(S, "off"))},
        requires=[("resolution-positive", res_positive)],
        raises={"ValueError": ("only-for-an-explicit-offset-array-(its-truth-value-is-ambiguous)", lambda E, v, o: v["offset"] is not None)},
        returns=gs_result,
        options=dict(modular=True),
        # the loop contract is DERIVED from the loop as written (pyvc/progression.py: start, step, bound and loop form are read off the
        # code, the derived invariants are proved like hand-written ones), so that every such detail reaches the postconditions below;
        # the hand-written invariants (they name the local `z` of the while form) remain the contract of a loop outside that shape
        loops={0: _progression.derived(fallback=dict(
            invariant=[("z-is-the-centre-of-the-next-slice", gs_inv("z")), ("samplers-yielded-so-far", gs_inv("yielded")),
                       ("every-yielded-centre-is-below-zmax", gs_inv("below"))],
            types={"__yield__": "ref"}, modifies=["__yield__"]))},
        ensures=[
            ("first-sample-centre-is-coord_min+resolution/2-in-each-axis", gs_post("first")),
            ("x,y-range-and-stride-of-every-sampler", gs_post("xy")),
            ("z-centre-of-slice-j-is-zmin+j*res_z", gs_post("zj")),
            ("consecutive-z-slices-are-res_z-apart", gs_post("apart")),
            ("one-z-sample-per-slice", gs_post("one-z")),
            ("every-slice-centre-is-below-zmax", gs_post("count-lower")),
            ("the-next-centre-would-not-be-below-zmax", gs_post("count-upper")),
            ("number-of-slices-is-the-number-of-k>=0-with-zmin+k*res_z<zmax", gs_post("count")),
        ],
        notes="unbounded (symbolic box and resolution, loop cut by invariants; the generator's yields are a symbolic list); "
              "offset=None only: an explicit array offset makes `offset or ...` raise ValueError (see report)",
    )


# --------------------------------------------------------------------------- transform (ranges=None)
def tr_setup(S):
    from contracts.common import sym_tree

    t = sym_tree(S, "t", frozen=True)
    return dict(self=tis_obj(S), x=t, verbose=False, ranges=None)


def tr_setup_ranges(S):
    d = tr_setup(S)
    d["ranges"] = (box3(S, "rlo"), box3(S, "rhi"))
    return d


def calls(E, name):
    return [p for nm, p in E.call_log if nm == name]


def tr_box(which):
    def f(E, v, o):
        from contracts.common import col, nof

        cs = calls(E, "ToImageStack._get_samplers")
        if len(cs) != 1:
            return False
        lo, hi = cs[0]["coord_min"], cs[0]["coord_max"]
        if not isinstance(lo, NArr) or not isinstance(hi, NArr) or lo.shape != (3,) or hi.shape != (3,):
            return False
        if v["ranges"] is not None:  # explicit ranges: the box is the requested one
            rl, rh = v["ranges"]
            return z3.And(*[to_z3(a, "real") == to_z3(b, "real") for a, b in zip(list(lo.items) + list(hi.items), list(rl.items) + list(rh.items))])
        t = v["x"]
        n = nof(t)
        r = col(t, "r").arr
        i = z3.Int(fresh_name("i"))
        out = []
        for k, c in enumerate("xyz"):
            p = col(t, c).arr
            lk, hk = to_z3(lo.items[k], "real"), to_z3(hi.items[k], "real")
            inr = z3.And(i >= 0, i < n)
            if which == "lower":
                out.append(z3.ForAll([i], z3.Implies(inr, lk <= z3.Select(p, i) - z3.Select(r, i))))
            elif which == "upper":
                out.append(z3.ForAll([i], z3.Implies(inr, hk >= z3.Select(p, i) + z3.Select(r, i))))
            elif which == "tight":
                out.append(z3.Exists([i], z3.And(inr, lk > z3.Select(p, i) - z3.Select(r, i) - 1)))
                out.append(z3.Exists([i], z3.And(inr, hk < z3.Select(p, i) + z3.Select(r, i) + 1)))
            elif which == "integral":
                out.append(z3.And(z3.IsInt(lk), z3.IsInt(hk)))
        return z3.And(*out)

    return f


def tr_scene(E, v, o):
    cs = calls(E, "ToImageStack._get_scene")
    return len(cs) == 1 and cs[0]["x"] is v["x"]


def tr_samplers_call(E, v, o):
    cs = calls(E, "ToImageStack._get_samplers")
    return len(cs) == 1 and cs[0]["offset"] is None and cs[0]["self"] is v["self"]


def tr_frames(E, v, o, k=None):
    """frames yielded (so far: the first k) are, in order, uint8(255 * block[..., 0, 0]) of each sampler's block of THE scene"""
    p = E.ghost.get("samplers_result")
    Y = v["__yield__"] if k is not None else v["result"]
    cols, n = lview(Y)
    sc = calls(E, "ToImageStack._get_scene")
    if p is None or len(sc) != 1:
        return False
    scene = E.ghost.get("scene_result")  # what the one _get_scene call returned
    if scene is None:
        return False
    upto = zint(p.n) if k is None else to_z3(k, "int")
    if cols is None:
        return n == upto
    j = z3.Int(fresh_name("j"))
    want = FRAME(SAMPLE(z3.Select(p.cols[0], j), scene.z), 0, 0, z3.RealVal(255), DT_CODE["uint8"])
    return z3.And(n == upto, z3.ForAll([j], z3.Implies(z3.And(0 <= j, j < upto), z3.Select(cols[0], j) == want)))


def tr_slices(E, v, o):
    """the property's clause at the top level: the frames are, in order, the z slices at EVERY voxel centre  box_lo_z + (k + 1/2) res_z  that lies
    below the top of the box handed to _get_samplers, each sampled over the x / y range of that box from half a voxel inside its lower corner
    (follows from _get_samplers' postconditions at the call; stated here so that the function the property observes carries it)"""
    p = E.ghost.get("samplers_result")
    cs = calls(E, "ToImageStack._get_samplers")
    if p is None or len(cs) != 1:
        return False
    lo = [to_z3(t, "real") for t in cs[0]["coord_min"].items]
    hi = [to_z3(t, "real") for t in cs[0]["coord_max"].items]
    st = res_of(v)
    cols, nf = lview(v["result"])
    n = zint(p.n)
    j = z3.Int(fresh_name("j"))
    ref = z3.Select(p.cols[0], j)
    centre = lo[2] + st[2] / 2 + z3.ToReal(j) * st[2]
    return z3.And(nf == n,
                  z3.ForAll([j], z3.Implies(j >= 0, (j < n) == (centre < hi[2]))),
                  z3.ForAll([j], z3.Implies(z3.And(0 <= j, j < n), z3.And(SP[2](ref) == centre, SP[5](ref) == centre + st[2] - EPS,
                                                                           SP[0](ref) == lo[0] + st[0] / 2, SP[1](ref) == lo[1] + st[1] / 2, SP[3](ref) == hi[0], SP[4](ref) == hi[1],
                                                                           SP[6](ref) == st[0], SP[7](ref) == st[1], SP[8](ref) == st[2]))))


# --------------------------------------------------------------------------- _get_scene (traverse client rule)
# Whole-scene statement: the scene's object list is in one-to-one correspondence with the (parent, child) edges of the tree --
# ghost `at` (child node -> position of its edge's object) and `who` (position -> child node) are mutually inverse -- and the
# object of edge (p, c) is the round cone joining the two node spheres, or the containing sphere when the end spheres are nested.
SCENE_WF = ["ids-are-positions", "node-0-is-the-root-and-parents-exist", "every-node-reaches-the-root"]
SLEN = z3.Function("scene_len", I_, I_)  # ghost view of a scene HANDLE (call sites see the result of _get_scene as a reference)
SCOL = [z3.Function(f"scene_col{k}", I_, I_, {"int": I_, "real": Rl, "ref": I_}[kd]) for k, kd in enumerate(X.SCENE_ROW_KINDS)]
NESTED = z3.Function("end_spheres_nested", I_, I_, z3.BoolSort())  # ghost: NESTED(p, c) := |a_p - a_c|^2 <= (r_p - r_c)^2, see sc_nested_def
SBLACK = z3.Function("scene_background_is_black", I_, z3.BoolSort())
SBUILT = z3.Function("scene_index_built_after_the_last_object", I_, z3.BoolSort())


class GhostEdgeMap:
    """ghost object of _get_scene's proof: at[c] = position of the object of edge (parent(c), c), who[j] = child node of object j"""


def scene_wf(which):
    from contracts.C04 import depth
    from contracts.common import col, nof

    def f(E, v, o):
        t = v["x"]
        n, P, ids = nof(t), col(t, "pid").arr, col(t, "id").arr
        i = z3.Int(fresh_name("i"))
        inr = z3.And(i > 0, i < n)
        if which == "ids-are-positions":
            return z3.ForAll([i], z3.Implies(z3.And(i >= 0, i < n), z3.Select(ids, i) == i))
        if which == "node-0-is-the-root-and-parents-exist":
            return z3.And(z3.Select(P, 0) == -1, z3.ForAll([i], z3.Implies(inr, z3.And(z3.Select(P, i) >= 0, z3.Select(P, i) < n))))
        if which == "every-node-reaches-the-root":
            return z3.And(depth(0) == 0, z3.ForAll([i], z3.Implies(inr, z3.And(depth(i) == depth(z3.Select(P, i)) + 1, depth(i) > 0))))
        raise KeyError(which)

    return (which, f)


EFFECT_EDGE = "effect/object-added-while-visiting-child-k-of-n-is-the-round-cone-of-the-edge-(n,child-k)-or-the-containing-sphere-when-nested"


def row_is(row, exp):
    return z3.And(*[to_z3(g, kd if kd != "ref" else "int") == e for g, e, kd in zip(row, exp, X.SCENE_ROW_KINDS)])


def sc_add_hook(E, scene, row):
    """EFFECT obligation at every scene.add_object(...) of _get_scene (its closure `leave` runs on node handles of the tree): the object
    that reaches the scene while child k of node n is visited is the one the property names for the edge (n, child k).  Externally
    meaningful (what the rasteriser will draw), so a change that adds another object is a failed obligation of the property, not an
    incomplete proof; the loop invariants (internal) only carry it to the postcondition."""
    from swcgeom.core.tree import Tree

    v = E.visible_vars()
    node, ch, k = v.get("n"), v.get("children"), v.get("_k0")
    mat = v.get("material")
    ok = False
    if isinstance(node, Obj) and node.cls is Tree.Node and getattr(ch, "cols", None) is not None and k is not None and hasattr(mat, "z"):
        t, p, c = node.fields["attach"], to_z3(node.fields["idx"], "int"), z3.Select(ch.cols[0], to_z3(k, "int"))
        sc_nested_def(E, t, p, c)
        ok = row_is(row, sc_expected(t, p, c, mat.z))
    E.prove(f"{E.cur_contract.short}/{EFFECT_EDGE}", ok, "postcondition")


def sc_setup(S):
    from contracts.common import nof, sym_tree

    S.eng.ghost["scene_add_hook"] = sc_add_hook
    t = sym_tree(S, "t", frozen=True)
    G = Obj(GhostEdgeMap, dict(at=SArr(z3.K(I_, z3.IntVal(-1)), nof(t), "int", name="at"), who=SArr(z3.K(I_, z3.IntVal(-1)), nof(t), "int", name="who")))
    return dict(self=tis_obj(S), x=t, G20=G)


def sc_geom(t, p, c):
    from contracts.common import col

    a = [z3.Select(col(t, k).arr, p) for k in "xyz"]
    b = [z3.Select(col(t, k).arr, c) for k in "xyz"]
    return a, b, z3.Select(col(t, "r").arr, p), z3.Select(col(t, "r").arr, c)


def sc_nested_def(E, t, p, c):
    """DEFINITION of the ghost predicate at one edge: the end spheres of (p, c) are nested iff |a-b| <= |ra-rb|, stated without the
    square root.  Instantiated at the edge of the current loop iteration only: a nonlinear fact under a quantifier (in the traversal
    invariant, in the loop invariants) would send every failing obligation into nonlinear model search."""
    a, b, ra, rb = sc_geom(t, p, c)
    d2 = sum(((a[k] - b[k]) * (a[k] - b[k]) for k in range(3)), z3.RealVal(0))
    E.assume(NESTED(p, c) == (d2 <= (ra - rb) * (ra - rb)))
    E.assumptions.add("ghost definition: end_spheres_nested(p, c) := |a_p - a_c|^2 <= (r_p - r_c)^2 (instantiated at the edge of each loop iteration)")


def sc_expected(t, p, c, mat):
    """object for the edge (p, c): the sphere of the containing end when the end spheres are nested, else the round cone (a, b, ra, rb)"""
    a, b, ra, rb = sc_geom(t, p, c)
    nested = NESTED(p, c)
    big_n = ra >= rb
    zero = z3.RealVal(0)
    row = [z3.If(nested, 0, 1)]
    row += [z3.If(nested, z3.If(big_n, a[k], b[k]), a[k]) for k in range(3)]
    row += [z3.If(nested, zero, b[k]) for k in range(3)]
    row += [z3.If(nested, z3.If(big_n, ra, rb), ra), z3.If(nested, zero, rb)]
    row += [mat]
    return row


def sc_view(res):
    """(columns as functions of the position, length, background-is-black, index-built) of a scene value or a scene handle"""
    if isinstance(res, X.SceneVal):
        cols, ln = lview(res.objects)
        black = res.background is not None and all((not isinstance(c, Sym)) and c == 0 for c in res.background)
        sel = (lambda k, j: z3.Select(cols[k], j)) if cols is not None else None
        return sel, ln, black, res.built
    z = res.z
    return (lambda k, j: SCOL[k](z, j)), SLEN(z), SBLACK(z), SBUILT(z)


def sc_edges_fact(t, sel, ln, at, who, mat, covered):
    """one object per covered edge and nothing else; `covered(c)`: the edge above node c has been handled"""
    from contracts.common import col, nof

    n, P = nof(t), col(t, "pid").arr
    j, c = z3.Int(fresh_name("j")), z3.Int(fresh_name("c"))
    inl = lambda q: z3.And(q >= 0, q < ln)
    edge = lambda q: z3.And(q > 0, q < n, covered(q))
    if sel is None:  # no object yet
        return z3.ForAll([c], z3.Not(edge(c)))
    wj = z3.Select(who, j)
    exp = sc_expected(t, z3.Select(P, wj), wj, mat)
    return z3.And(ln >= 0,
                  z3.ForAll([j], z3.Implies(inl(j), z3.And(edge(wj), z3.Select(at, wj) == j, *[sel(k, j) == e for k, e in enumerate(exp)]))),
                  z3.ForAll([c], z3.Implies(edge(c), z3.And(inl(z3.Select(at, c)), z3.Select(who, z3.Select(at, c)) == c))))


def sc_J(E, v, ENT, LEFT, ctx):
    sel, ln, _, _ = sc_view(v["scene"])
    E.ghost["c20-scene-length-at-the-last-J"] = ln
    G = v["G20"]
    return sc_edges_fact(v["x"], sel, ln, G.fields["at"].arr, G.fields["who"].arr, v["material"].z, lambda q: z3.Select(LEFT, z3.Select(ctx.P, q)))


def sc_Ql(E, v, x, val, ctx):
    """the value left for node x is the handle of node x on this tree"""
    from swcgeom.core.tree import Tree

    if not (isinstance(val, Obj) and val.cls is Tree.Node and val.fields.get("attach") is v["x"]):
        return False
    return to_z3(val.fields["idx"], "int") == x


def sc_node_value(E, node):
    from swcgeom.core.tree import Tree

    t = E.top_old["x"]
    live = E.visible_vars().get("x", t)
    return Obj(Tree.Node, dict(attach=live, idx=Sym(node, "int"), names=live.fields["names"]))


def sc_children(E, v, x, ctx):
    """the list `leave` receives at node x: the handles of x's children in table order (a NodeList of symbolic length)"""
    from pyvc.ext_C07 import NodeList
    from swcgeom.core.tree import Tree

    k = z3.Int(fresh_name("k"))
    q = NodeList()
    q.items, q.cols, q.kinds, q.n, q.tup, q.name = None, [z3.Lambda([k], ctx.kid(x, k))], ["int"], ctx.nkids(x), False, "children"
    q.attach, q.node_cls, q.names = v["x"], Tree.Node, v["x"].fields["names"]
    q.frozen = True
    E.assumptions.add("list-model: a list of Node handles on one tree is stored as the list of their indices (handles are value objects: attach / idx / names are never reassigned, identity is never observed)")
    return q


def sc_ghost_leave(E, v, x, ctx):
    """ghost update after leave(x, children): the objects appended are those of the edges (x, k-th child), in table order"""
    G = v["G20"]
    ln0 = E.ghost["c20-scene-length-at-the-last-J"]
    c, j = z3.Int(fresh_name("c")), z3.Int(fresh_name("j"))
    at0, who0 = G.fields["at"].arr, G.fields["who"].arr
    G.fields["at"].arr = z3.Lambda([c], z3.If(z3.And(ctx.R(c), z3.Select(ctx.P, c) == x), ln0 + ctx.rank(c), z3.Select(at0, c)))
    G.fields["who"].arr = z3.Lambda([j], z3.If(z3.And(j >= ln0, j < ln0 + ctx.nkids(x)), ctx.kid(x, j - ln0), z3.Select(who0, j)))


def sc_loop(which):
    """invariants of the loop of the INLINED closure `leave` (its own contract proves them for opaque nodes; here nodes are handles)"""

    def f(E, v, o, entry):
        from contracts.common import col

        sel, ln, _, _ = sc_view(v["scene"])
        sel0, n0, _, _ = sc_view(entry["scene"])
        ch, node = v["children"], v["n"]
        k = to_z3(v["_k0"], "int")
        j = z3.Int(fresh_name("j"))
        if which == "count":
            return ln == n0 + k
        if sel is None:
            return True  # nothing added yet (count says so)
        if which == "kept":
            if sel0 is None:
                return True
            return z3.ForAll([j], z3.Implies(z3.And(0 <= j, j < n0), z3.And(*[sel(q, j) == sel0(q, j) for q in range(len(X.SCENE_ROW_KINDS))])))
        if which == "edges":
            exp = sc_expected(node.fields["attach"], to_z3(node.fields["idx"], "int"), z3.Select(ch.cols[0], j), v["material"].z)
            return z3.ForAll([j], z3.Implies(z3.And(0 <= j, j < k), z3.And(*[sel(q, n0 + j) == e for q, e in enumerate(exp)])))

    return f


def sc_loop_hint(E, vars, back=1):
    """proof step: the code's test  norm(a-b) <= |ra-rb|  is the spec's square-root-free test"""
    from contracts.common import col

    # the child being visited is children[_k0] (the ghost index of the loop), whatever the loop variable is called
    node, ch, k = vars.get("n"), vars.get("children"), vars.get("_k0")
    if not isinstance(node, Obj) or getattr(ch, "cols", None) is None or k is None:
        return
    t = node.fields["attach"]
    r = col(t, "r").arr
    # (at an add_object call _k0 is the child being visited: back = 0; when the invariant is re-proved it has already been advanced: back = 1)
    for kk in (to_z3(k, "int") - back,):
        cz = z3.Select(ch.cols[0], z3.simplify(kk))
        d = z3.Select(r, to_z3(node.fields["idx"], "int")) - z3.Select(r, cz)
        sc_nested_def(E, t, to_z3(node.fields["idx"], "int"), cz)
        for key, y in list(E.ghost.items()):
            if isinstance(key, tuple) and key and key[0] == "sqrt":
                _lemmas.use(E, "nonneg-below-abs-iff-square-below-square", y.z, d)
                _lemmas.use(E, "nonneg-below-abs-iff-square-below-square", y.z, -d)


def sc_post(which):
    def f(E, v, o):
        from contracts.common import col, nof

        res = v["result"]
        sel, ln, black, built = sc_view(res)
        if which == "background-is-black":
            return black
        if which == "index-built-after-the-last-object":
            return built
        t = o["x"]
        if isinstance(res, X.SceneVal):  # the carrier's own proof: the ghost maps are the witnesses
            at, who, mat = v["G20"].fields["at"].arr, v["G20"].fields["who"].arr, v["material"].z
        else:  # call site: witnesses exist (Skolem constants), the material is the red one
            at = z3.Const(fresh_name("at"), z3.ArraySort(I_, I_))
            who = z3.Const(fresh_name("who"), z3.ArraySort(I_, I_))
            mat = X.MATERIAL(z3.RealVal(1), z3.RealVal(0), z3.RealVal(0))
        if which == "material-is-red":
            return mat == X.MATERIAL(z3.RealVal(1), z3.RealVal(0), z3.RealVal(0))
        return sc_edges_fact(t, sel, ln, at, who, mat, lambda q: z3.BoolVal(True))

    return f


def reg_scene(R, scene_result):
    from pyvc.traverse_rule import Rule

    LV = f"{TR}:ToImageStack._get_scene.<locals>.leave"
    rule = Rule(sc_J, Ql=sc_Ql, modifies=[("scene.objects", X.SCENE_ROW_KINDS), "G20"], leave_kind=sc_node_value, leave_list=sc_children,
                ghost_leave=sc_ghost_leave, fork_steps=True)
    R.add(f"{TR}:ToImageStack._get_scene", prop="C20", setup=sc_setup,
          requires=[scene_wf(w) for w in SCENE_WF],
          returns=scene_result,
          ensures=[("exactly-one-object-per-(parent,child)-edge-the-round-cone-or-the-containing-sphere-and-nothing-else", sc_post("edges")),
                   ("every-object-carries-the-red-material", sc_post("material-is-red")),
                   ("background-is-black", sc_post("background-is-black")),
                   ("index-built-after-the-last-object", sc_post("index-built-after-the-last-object"))],
          inlined_loops={LV: {0: dict(invariant=[("one-object-per-child-so-far", sc_loop("count")), ("earlier-objects-untouched", sc_loop("kept")),
                                                 ("object-j-is-the-edge-(n,child-j)", sc_loop("edges"))],
                                      modifies=["scene.objects"])}},
          options=dict(traverse_rule=rule, hints={"loop0/preserved/object-j-is-the-edge-(n,child-j)": sc_loop_hint, EFFECT_EDGE: lambda E, vars: sc_loop_hint(E, vars, back=0)}),
          notes="traverse client rule; J: the scene's objects are in bijection (ghost at / who) with the edges below the nodes left so far; "
                "the leave step runs the REAL closure on a node with a symbolic number of children (its loop cut by the invariants above)")


def reg_transform(R):
    def scene_result(S, fr):
        r = S.eng.ghost["scene_result"] = S.int("scene")
        return Sym(r.z, "ref")

    reg_scene(R, scene_result)
    R.add(
        f"{TR}:ToImageStack.transform",
        prop="C20",
        variants={"ranges=None,verbose=False": tr_setup, "ranges-given,verbose=False": tr_setup_ranges},
        requires=[("resolution-positive", res_positive)] + [scene_wf(w) for w in SCENE_WF],
        loops={0: dict(invariant=[("frames-so-far", lambda E, v, o: tr_frames(E, v, o, k=v["_k0"]))], types={"__yield__": "ref"}, modifies=["__yield__"])},
        ensures=[
            ("box-lower-corner-is-below-every-node-sphere", tr_box("lower")),
            ("box-upper-corner-is-above-every-node-sphere", tr_box("upper")),
            ("box-is-tight-to-less-than-one-unit", tr_box("tight")),
            ("box-corners-are-whole-numbers", tr_box("integral")),
            ("one-scene-built-from-this-tree", tr_scene),
            ("samplers-requested-once-for-that-box-with-the-default-half-voxel-offset", tr_samplers_call),
            ("one-uint8-frame-per-z-slice-in-order-red-channel-times-255", tr_frames),
            ("one-slice-for-every-voxel-centre-below-the-box-top-in-order-each-over-the-x,y-range-of-the-box", tr_slices),
        ],
        notes="tree of symbolic size n >= 1; the frame loop is cut by an invariant over the generator's symbolic yield list",
    )


# --------------------------------------------------------------------------- _get_scene.<locals>.leave
NX = [z3.Function(f"node_{c}", I_, Rl) for c in "xyz"]
NR = z3.Function("node_r", I_, Rl)
NODE_PROTO = {
    ".r": lambda eng, o: Sym(NR(o.z), "real"),
    "xyz": lambda eng, o, a, k: NArr((3,), [Sym(f(o.z), "real") for f in NX], "real"),
}
LOGK = ["int"] + ["real"] * 8 + ["ref"]  # (tag 0 Sphere / 1 RoundCone, a xyz, b xyz, ra, rb, material)


def _add_object(eng, recv, args, kwargs):
    X.used(eng, "ObjectsScene.add_object(obj) appends obj to the scene's object list (ghost log); nothing else changes")
    (obj,) = args
    if not isinstance(obj, X.SdfVal) or obj.kind != "SDFObject":
        raise X.ProgExc(TypeError, "add_object expects an SDFObject")
    sdf, mat = obj.params
    row = tuple([X.SDF_TAG[sdf.kind]] + list(sdf.params) + [Sym(mat.z, "ref")])
    log = eng.spec_extra["scene_objects"]
    # EFFECT obligation (see sc_add_hook): the object added while child k of n is visited is the property's object of the edge (n, child k)
    v = eng.visible_vars()
    node, ch, k = v.get("n"), v.get("children"), v.get("_k0")
    ok = False
    if isinstance(node, Opaque) and getattr(ch, "cols", None) is not None and k is not None:
        ok = row_is(row, lv_expected(node.z, z3.Select(ch.cols[0], to_z3(k, "int")), eng.spec_extra["material"].z))
    eng.prove(f"{eng.cur_contract.short}/{EFFECT_EDGE}", ok, "postcondition")
    eng.models.LIST_METHODS["append"](eng, log, [row], {})
    return None


def lv_setup(S):
    n = S.opaque(NODE_PROTO, "n")
    ch = S.plist("ref", name="children")
    ch.proto = NODE_PROTO
    ch.frozen = True
    log = PList.fresh(LOGK, name="objs")
    S.assume(log.n >= 0)
    scene = S.opaque({"add_object": _add_object}, "scene")
    material = S.opaque({}, "material")
    return dict(n=n, children=ch, __closure__=dict(scene=scene, material=material, scene_objects=log),
                __ghost__=dict(scene_objects=log, log0=(list(log.cols), log.n), material=material))


def lv_expected(nz, cz, mat):
    """object for the edge (n, c): the sphere of the containing end when the end spheres are nested (|a-b| <= |ra-rb|,
    stated without the square root), else the round cone (a, b, ra, rb)"""
    a = [f(nz) for f in NX]
    b = [f(cz) for f in NX]
    ra, rb = NR(nz), NR(cz)
    d2 = sum(((a[k] - b[k]) * (a[k] - b[k]) for k in range(3)), z3.RealVal(0))
    nested = d2 <= (ra - rb) * (ra - rb)
    big_n = ra >= rb
    zero = z3.RealVal(0)
    row = [z3.If(nested, 0, 1)]
    row += [z3.If(nested, z3.If(big_n, a[k], b[k]), a[k]) for k in range(3)]
    row += [z3.If(nested, zero, b[k]) for k in range(3)]
    row += [z3.If(nested, z3.If(big_n, ra, rb), ra), z3.If(nested, zero, rb)]
    row += [mat]
    return row


def lv_clause(which, final=False):
    def f(E, v, o):
        log = E.spec_extra["scene_objects"]
        cols0, n0 = E.spec_extra["log0"]
        mat = E.spec_extra["material"].z
        ch = v["children"]
        k = zint(ch.n) if final else to_z3(v["_k0"], "int")
        j = z3.Int(fresh_name("j"))
        if which == "count":
            return zint(log.n) == n0 + k
        if which == "kept":
            return z3.ForAll([j], z3.Implies(z3.And(0 <= j, j < n0), z3.And(*[z3.Select(c1, j) == z3.Select(c0, j) for c1, c0 in zip(log.cols, cols0)])))
        if which == "edges":
            exp = lv_expected(v["n"].z, z3.Select(ch.cols[0], j), mat)
            return z3.ForAll([j], z3.Implies(z3.And(0 <= j, j < k), z3.And(*[z3.Select(c1, n0 + j) == e for c1, e in zip(log.cols, exp)])))

    return f


@_lemmas.lemma("nonneg-below-abs-iff-square-below-square", 2)
def _le_abs_sq(y, t):
    return z3.Implies(y >= 0, (y <= z3.If(t >= 0, t, -t)) == (y * y <= t * t))


def lv_hint(E, vars, back=1):
    """proof step: the code's test  norm(a-b) <= |ra-rb|  is the spec's square-root-free test"""
    node, ch, k = vars.get("n"), vars.get("children"), vars.get("_k0")
    if not isinstance(node, Opaque) or getattr(ch, "cols", None) is None or k is None:
        return
    roots = [y for k_, y in E.ghost.items() if isinstance(k_, tuple) and k_ and k_[0] == "sqrt"]
    for kk in (to_z3(k, "int") - back,):  # at an add_object call _k0 is the child being visited (back = 0); at `preserved` it has been advanced (back = 1)
        t = NR(node.z) - NR(z3.Select(ch.cols[0], z3.simplify(kk)))
        for y in roots:
            _lemmas.use(E, "nonneg-below-abs-iff-square-below-square", y.z, t)
            _lemmas.use(E, "nonneg-below-abs-iff-square-below-square", y.z, -t)


def reg_leave(R):
    R.add(
        f"{TR}:ToImageStack._get_scene.<locals>.leave",
        prop="C20",
        variants={"any-number-of-children": lv_setup},
        options=dict(hints={"loop0/preserved/object-j-is-the-edge-(n,child-j)": lv_hint, EFFECT_EDGE: lambda E, vars: lv_hint(E, vars, back=0)}),
        loops={0: dict(invariant=[("one-object-per-child-so-far", lv_clause("count")), ("earlier-objects-untouched", lv_clause("kept")),
                                  ("object-j-is-the-edge-(n,child-j)", lv_clause("edges"))],
                       modifies=["scene_objects"])},
        ensures=[
            ("adds-exactly-one-object-per-(parent,child)-pair", lv_clause("count", True)),
            ("objects-already-in-the-scene-untouched", lv_clause("kept", True)),
            ("object-is-the-containing-sphere-when-nested-else-the-round-cone-of-the-edge", lv_clause("edges", True)),
            "returns-its-node :: same(result, n)",
        ],
        notes="nodes are opaque with the protocol (.r, .xyz()); children is a list of symbolic length; the scene is a ghost object list",
    )


def closed(f):
    """a clause that cannot even be evaluated on the changed code (renamed local, different value shape ...) is a FAILED
    clause, not a machinery error"""

    def g(E, v, o):
        try:
            return f(E, v, o)
        except (KeyError, AttributeError, TypeError, IndexError, ValueError, AssertionError):
            return False

    return g


def _close_all(R):
    def fix(cl):
        return (cl[0], closed(cl[1])) if isinstance(cl, tuple) and callable(cl[1]) else cl

    for c in R.values():
        if c.prop != "C20":
            continue
        c.requires = [fix(x) for x in c.requires]
        c.ensures = [fix(x) for x in c.ensures]
        c.raises = {k: fix(x) for k, x in c.raises.items()}
        for sp in c.loops.values():
            sp = getattr(sp, "fallback", sp)  # a derived loop contract: its hand-written fallback
            if isinstance(sp, dict):
                sp["invariant"] = [fix(x) for x in sp.get("invariant", [])]


from contracts import C20_io as _IO  # noqa: E402  (second contract file of this property: readers, dispatch, writer plumbing)


def register(R):
    reg_save_tiff(R)
    reg_ndarray(R)
    reg_tiff(R)
    reg_samplers(R)
    reg_transform(R)
    reg_leave(R)
    _IO.register(R)
    _close_all(R)
