"""C11 — morphometrics do not depend on pose or numbering.

Two-run (relational) property, decided as LEMMAS over the contracts of C10 / C12 / C13 (/ C14):
  * the code of every scalar feature equals a spec function (C10, C13 contracts, re-verified here through DEPENDS);
  * every such spec function reads coordinates only through squared distances d2 (checked syntactically below:
    the spec builders of contracts/C10.py may touch the x/y/z columns only inside d2);
  * rigid motions built by the C12-verified builders preserve d2 (rotation lemmas live in contracts/C12.py; the
    translation / composition lemmas are below)  ==>  every feature is unchanged, exactly, over the reals;
  * scaling by s > 0 multiplies d2 by s^2, hence distances (and every length spec, a sum of distances) by s, leaves
    ratios of lengths unchanged, and multiplies every closed-form volume spec of C13 by s^3.
Renumbering invariance of sums needs a re-indexing (induction) lemma that z3 cannot do; it stays bounded only.

C11's own carriers (register) are stated in the vocabulary of contracts/C10.py, whose import installs the process-wide library models
of pyvc/ext_C10.py: vcheck therefore loads this module only for C11 itself (its source mentions ext_C10 -- see vcheck.load_registry).
"""
import ast
import inspect

import z3

from contracts import C13

DEPENDS = ["C10", "C12", "C13"]


TREE = "swcgeom/core/tree.py"


def register(R):
    """C11's own carriers: A TRANSFORM'S RESULT IS MEASURED BY ITS OWN COORDINATES.

    The lemmas below turn "every feature equals a spec that reads coordinates through d2" (C10 / C13) and "the transforms apply the
    stated map" (C12) into pose invariance -- PROVIDED the feature of the transformed tree is computed from the transformed tree.  The C10
    contracts state each query on an object as a setup describes it (a plain field table); an object that reaches a query THROUGH A
    HISTORY -- measured, then copied by a transform (`DictSWC.copy` = deepcopy: every instance attribute travels), then given new
    coordinates -- is what the property actually quantifies over ("rotating ... a neuron changes none of ...": the neuron was usually
    looked at before).  So the queries are verified here once more on such objects, the history being the REAL code run in the setup
    (`S.call`): the earlier query, the real `copy()`, the coordinate columns replaced the way `AffineTransform.apply` replaces them
    (`y.ndata[name] = new array`), or the real `Scale.transform` chain as a whole."""
    from contracts.C10 import dist, tree_of_size
    from contracts.common import col
    from pyvc.values import to_z3

    def own_length(E, v, o):
        t = v["self"]
        n = col(t, "pid").n
        pid = col(t, "pid").arr
        ys = [dist(E, t, z3.Select(pid, i), z3.IntVal(i)) for i in range(1, n)]
        return to_z3(v["result"], "real") == (sum(ys) if ys else z3.RealVal(0))

    def measured(S, n, query=True):
        t0 = tree_of_size(S, n, name="t0")
        t0.frozen = False  # the earlier query ran on the caller's own object: it may have kept whatever it wanted there
        S.assume(z3.Select(col(t0, "pid").arr, 0) == -1)
        if query:
            S.call((t0, "length"))
        return t0

    def moved_copy(n, query):
        def setup(S):
            t0 = measured(S, n, query)
            y = S.call((t0, "copy"))  # what every transform does first (AffineTransform.apply, sort_tree, cat_tree ...)
            nd = y.fields["ndata"]
            for c in "xyz":  # ... and then: y.ndata[names.x] = <new coordinates>; ANY new coordinates (rotation, scaling, translation, jitter)
                nd.items[c] = S.arr("real", n=n, name=f"moved_{c}")
            return dict(self=y)

        return setup

    def moved_in_place(n):
        def setup(S):
            t0 = measured(S, n)
            for c in "xyz":
                t0.fields["ndata"].items[c] = S.arr("real", n=n, name=f"moved_{c}")
            return dict(self=t0)

        return setup

    def scaled_by_the_real_chain(n):
        def setup(S):
            import swcgeom.transforms.geometry as G

            t0 = measured(S, n)
            s = S.real("s")
            S.assume(s.z > 0)
            y = S.call((G.Scale, "transform"), t0, s, s, s)
            return dict(self=y)

        return setup

    variants = {}
    for n in (2, 3):
        variants[f"copy-of-a-measured-tree-of-{n}-nodes-with-new-coordinates"] = moved_copy(n, True)
        variants[f"copy-of-a-fresh-tree-of-{n}-nodes-with-new-coordinates"] = moved_copy(n, False)
        variants[f"measured-tree-of-{n}-nodes-given-new-coordinates-in-place"] = moved_in_place(n)
        variants[f"measured-tree-of-{n}-nodes-scaled-by-Scale.transform"] = scaled_by_the_real_chain(n)
    R.add(f"{TREE}:Tree.length", prop="C11", variants=variants,
          ensures=[("a-transformed-tree-is-measured-by-its-own-coordinates-(sum-of-its-parent-child-distances)", own_length)],
          notes="the object reaches the query through a history run on the real code: measured, copied (deepcopy), coordinates replaced / Scale.transform; "
                "2 and 3 nodes, parent pointers and all coordinates symbolic")


def _spec_reads_coordinates_only_through_d2():
    """syntactic dependency check of the C10 spec vocabulary; returns a z3 Bool constant"""
    from contracts import C10

    tree = ast.parse(inspect.getsource(C10))
    bad = []
    for fn in ast.walk(tree):
        if isinstance(fn, ast.FunctionDef) and fn.name != "d2":
            for n in ast.walk(fn):
                # any literal mention of a coordinate column outside d2
                if isinstance(n, ast.Constant) and n.value in ("x", "y", "z", "xyz"):
                    bad.append((fn.name, n.lineno))
                if isinstance(n, ast.Call) and isinstance(n.func, ast.Attribute) and n.func.attr in ("x", "y", "z", "xyz", "xyzr"):
                    bad.append((fn.name, n.lineno))
    return z3.BoolVal(not bad), bad


def lemmas():
    out = []
    ok, bad = _spec_reads_coordinates_only_through_d2()
    out.append(("feature-specs-read-coordinates-only-through-squared-distances", [], ok))

    P = z3.Reals("px py pz")
    Q = z3.Reals("qx qy qz")
    T = z3.Reals("tx ty tz")
    s = z3.Real("s")
    d2 = lambda a, b: sum(((a[k] - b[k]) * (a[k] - b[k]) for k in range(3)), z3.RealVal(0))
    # translation is an isometry; uniform scaling multiplies squared distances by s^2
    out.append(("translation-preserves-distances", [], d2([P[k] + T[k] for k in range(3)], [Q[k] + T[k] for k in range(3)]) == d2(P, Q)))
    out.append(("scaling-multiplies-squared-distances-by-s-squared", [], d2([s * P[k] for k in range(3)], [s * Q[k] for k in range(3)]) == s * s * d2(P, Q)))
    # distance itself is homogeneous of degree 1:  y = dist, y' = dist of the scaled pair  ==>  y' = s*y  (s > 0)
    y, y2, a = z3.Reals("y y2 a")
    out.append(("distance-is-homogeneous-of-degree-1", [s > 0, a >= 0, y >= 0, y * y == a, y2 >= 0, y2 * y2 == s * s * a], y2 == s * y))
    # sums of distances scale by s; ratios (tortuosity, contraction) are unchanged
    l1, l2, c1 = z3.Reals("l1 l2 c1")
    out.append(("length-is-homogeneous-of-degree-1", [s > 0], (s * l1 + s * l2) == s * (l1 + l2)))
    out.append(("length-ratios-are-scale-free", [s > 0, l1 + l2 != 0], (s * c1) / (s * l1 + s * l2) == c1 / (l1 + l2)))
    # counts / Sholl: a crossing test  rho_p <= r < rho_c  is unchanged when all three are scaled
    rp, rc, r = z3.Reals("rp rc r")
    cross = lambda p, c, q: z3.Or(z3.And(p <= q, c > q), z3.And(c <= q, p > q))
    out.append(("sholl-crossing-test-is-scale-free", [s > 0], cross(s * rp, s * rc, s * r) == cross(rp, rc, r)))
    # closed-form volumes (C13 specs) are homogeneous of degree 3 in (radii, heights, distances)
    r1, r2, h, d = z3.Reals("r1 r2 h d")
    pos = [s > 0, r1 > 0, r2 > 0, h > 0, d > 0]
    out.append(("sphere-volume-is-homogeneous-of-degree-3", pos, C13.V_sphere(s * r1) == s * s * s * C13.V_sphere(r1)))
    out.append(("cap-volume-is-homogeneous-of-degree-3", pos, C13.V_cap(s * r1, s * h) == s * s * s * C13.V_cap(r1, h)))
    out.append(("frustum-volume-is-homogeneous-of-degree-3", pos, C13.V_fr(s * r1, s * r2, s * h) == s * s * s * C13.V_fr(r1, r2, h)))
    out.append(("lens-volume-is-homogeneous-of-degree-3", pos, C13.V_lens(s * r1, s * r2, s * d) == s * s * s * C13.V_lens(r1, r2, d)))
    # angle between two vectors: cos = a.b / (|a||b|) is invariant under scaling and under any map preserving dot products
    ax, ay, az, bx, by, bz, na, nb = z3.Reals("ax ay az bx by bz na nb")
    dot = ax * bx + ay * by + az * bz
    out.append(("angle-cosine-is-scale-free", [s > 0, na > 0, nb > 0], ((s * ax) * (s * bx) + (s * ay) * (s * by) + (s * az) * (s * bz)) / ((s * na) * (s * nb)) == dot / (na * nb)))
    # dot products of difference vectors are determined by squared distances (polarisation): so angles depend on d2 only
    O = z3.Reals("ox oy oz")
    u = [P[k] - O[k] for k in range(3)]
    w = [Q[k] - O[k] for k in range(3)]
    out.append(("dot-product-is-determined-by-squared-distances", [], 2 * sum((u[k] * w[k] for k in range(3)), z3.RealVal(0)) == d2(P, O) + d2(Q, O) - d2(P, Q)))
    return out
