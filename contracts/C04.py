"""C04 — tree traversal is structural recursion at any depth: contract of `_traverse_dfs`.

Ghost state (object G handed in by setup, havocked at the loop heads like program state):
  structure   gE[x], gL[x]  number of times node x was entered / left (updated by ghost code after `cur = ...` / `vals[idx] = ...`),
              tE[x], tL[x]  logical times of those events (clock clk), posE[x], posL[x] stack position of x's pending enter / leave frame;
  observation ecnt/epre/ev  what the `enter` callback saw: number of calls with node x, the `pre` value it received, the value it returned;
              lcnt/largs/lv what the `leave` callback saw: calls, the list it received (contents + length), the value it returned.
Spec vocabulary: Sub(x) "x lies in the subtree of the start node" (ghost predicate, characterised by four facts that hold on every
well-formed parent table: Sub(root); children of Sub nodes are Sub; the parent of a non-start Sub node is Sub; the start node's parent is
not Sub — acyclicity); nch(k, i) = number of rows j < i with pid[j] = k; rrow(k, j) = the j-th row whose parent is k.
"""
import ast

import z3

from pyvc.spec import Registry
from pyvc.values import Callback, Obj, PDict, PList, SArr, Sym, fresh, fresh_name, next_uid, to_z3, zint

BASE = "swcgeom/core/swc_utils/base.py"
I, B = z3.IntSort(), z3.BoolSort()
Sub = z3.Function("Sub", I, B)
nch = z3.Function("nch", I, I, I)
rrow = z3.Function("rrow", I, I, I)
depth = z3.Function("depth", I, I)


class Ghost:
    """marker class of the ghost-state object"""


def K0():
    return z3.K(I, z3.IntVal(0))


def _arr(G, f):
    return G.fields[f].arr


def _set(G, f, a):
    G.fields[f].arr = a


def observe(E, label, goal):
    """an obligation about the callback call being made; the fact is NOT added to the path condition (fewer hypotheses: sound; keeps
    the later invariant obligations as they were)"""
    mark = len(E.pc)
    E.prove(label, goal, "callback")
    del E.pc[mark:]


def make_setup(enter_given, leave_given):
    def f(S):
        n = S.int("n")
        S.assume(n.z >= 1)
        ids, pids = S.arr("int", n=n, name="ids"), S.arr("int", n=n, name="pids")
        P = pids.arr
        i, x, k, a = z3.Ints("i_wf x_sub k_nch a_row")
        rng = lambda t: z3.And(t >= 0, t < n.z)
        # well-formed table: ids are positions, node 0 is the root, every other parent is a node, every node reaches the root
        S.assume(z3.ForAll([i], z3.Implies(rng(i), z3.Select(ids.arr, i) == i)))
        S.assume(z3.Select(P, 0) == -1)
        S.assume(z3.ForAll([i], z3.Implies(z3.And(i > 0, i < n.z), rng(z3.Select(P, i)))))
        S.assume(depth(0) == 0)
        S.assume(z3.ForAll([i], z3.Implies(z3.And(i > 0, i < n.z), z3.And(depth(i) == depth(z3.Select(P, i)) + 1, depth(i) > 0))))
        root = S.int("root")
        S.assume(rng(root.z))
        # ghost: the subtree predicate and its characteristic facts
        S.assume(Sub(root.z))
        S.assume(z3.ForAll([x], z3.Implies(Sub(x), rng(x))))
        S.assume(z3.ForAll([x], z3.Implies(z3.And(rng(x), z3.Select(P, x) >= 0, Sub(z3.Select(P, x))), Sub(x))))
        S.assume(z3.ForAll([x], z3.Implies(z3.And(Sub(x), x != root.z), z3.And(z3.Select(P, x) >= 0, Sub(z3.Select(P, x))))))
        S.assume(z3.Implies(z3.Select(P, root.z) >= 0, z3.Not(Sub(z3.Select(P, root.z)))))
        # ghost: child counting and the row behind the j-th child
        S.assume(z3.ForAll([k], nch(k, 0) == 0))
        S.assume(z3.ForAll([k, i], z3.Implies(i >= 0, nch(k, i + 1) == nch(k, i) + z3.If(z3.Select(P, i) == k, 1, 0)), patterns=[nch(k, i + 1)]))
        S.assume(z3.ForAll([k, i], z3.Implies(i >= 0, nch(k, i) >= 0), patterns=[nch(k, i)]))
        pa = z3.Select(P, a)
        S.assume(z3.ForAll([a], z3.Implies(a >= 0, rrow(pa, nch(pa, a)) == a)))
        G = Obj(Ghost, dict(
            clk=0,
            gE=SArr(K0(), n.z, "int", name="gE"), gL=SArr(K0(), n.z, "int", name="gL"),
            tE=SArr(K0(), n.z, "int", name="tE"), tL=SArr(K0(), n.z, "int", name="tL"),
            posE=SArr(K0(), n.z, "int", name="posE"), posL=SArr(K0(), n.z, "int", name="posL"),
            ecnt=SArr(K0(), n.z, "int", name="ecnt"), epre=SArr(K0(), n.z, "int", name="epre"), ev=SArr(K0(), n.z, "int", name="ev"),
            lcnt=SArr(K0(), n.z, "int", name="lcnt"), lv=SArr(K0(), n.z, "int", name="lv"),
            largs=PDict.fresh("intlist", name="largs", empty=True),
        ))
        G.fields["clk"] = Sym(z3.IntVal(0), "int")
        G.py = dict(mark=0)

        # Every callback call is checked, AT THE CALL, to be one of the events the property allows (this is `Step` of
        # lean/TraverseRule.lean, clause by clause; what the callbacks saw so far is in the observation arrays ecnt/ev/lcnt/lv):
        def enter_model(E, args, kwargs):
            xz, prez = to_z3(args[0], "int"), to_z3(args[1], "oref")
            par = z3.Select(P, xz)
            seen, left = (lambda t: z3.Select(_arr(G, "ecnt"), t)), (lambda t: z3.Select(_arr(G, "lcnt"), t))
            observe(E, "_traverse_dfs/enter/called-for-a-node-of-the-subtree-not-entered-before", z3.And(rng(xz), Sub(xz), seen(xz) == 0))
            open_parent = [par >= 0, seen(par) == 1, prez == z3.Select(_arr(G, "ev"), par)] + ([left(par) == 0] if leave_given else [])
            observe(E, "_traverse_dfs/enter/start-node-gets-None-any-other-node-the-value-its-parents-call-returned-and-the-parent-is-not-left-yet",
                    z3.If(xz == root.z, prez == 0, z3.And(*open_parent)))
            v = fresh("oref", "entv")
            _set(G, "ecnt", z3.Store(_arr(G, "ecnt"), xz, z3.Select(_arr(G, "ecnt"), xz) + 1))
            _set(G, "epre", z3.Store(_arr(G, "epre"), xz, prez))
            _set(G, "ev", z3.Store(_arr(G, "ev"), xz, v.z))
            return v

        def leave_model(E, args, kwargs):
            xz, ch = to_z3(args[0], "int"), args[1]
            if not isinstance(ch, PList):
                E.prove("_traverse_dfs/leave/receives-a-list", False, "callback")
                return fresh("oref", "lv")
            # each call gets its own list: one allocated in this very iteration (a shared list would let a callback's edits leak)
            E.prove("_traverse_dfs/leave/receives-a-list-allocated-for-this-call", ch.uid >= G.py["mark"], "ownership")
            if ch.items is not None:
                arr = K0()
                for j, item in enumerate(ch.items):
                    arr = z3.Store(arr, j, to_z3(item, "oref"))
                ln = z3.IntVal(len(ch.items))
            else:
                arr, ln = ch.cols[0], zint(ch.n)
            seen, left = (lambda t: z3.Select(_arr(G, "ecnt"), t)), (lambda t: z3.Select(_arr(G, "lcnt"), t))
            c_, j_ = z3.Int(fresh_name("c")), z3.Int(fresh_name("j"))
            observe(E, "_traverse_dfs/leave/called-for-an-entered-node-not-left-before-all-of-whose-children-are-left",
                    z3.And(rng(xz), Sub(xz), left(xz) == 0, *([seen(xz) == 1] if enter_given else []),
                           z3.ForAll([c_], z3.Implies(z3.And(rng(c_), z3.Select(P, c_) == xz), left(c_) == 1))))
            observe(E, "_traverse_dfs/leave/receives-exactly-the-values-its-childrens-calls-returned-in-table-order",
                    z3.And(ln == nch(xz, n.z), z3.ForAll([j_], z3.Implies(z3.And(0 <= j_, j_ < ln), z3.Select(arr, j_) == z3.Select(_arr(G, "lv"), rrow(xz, j_))))))
            la = G.fields["largs"]
            la.val, la.lens = z3.Store(la.val, xz, arr), z3.Store(la.lens, xz, ln)
            v = fresh("oref", "lefv")
            _set(G, "lcnt", z3.Store(_arr(G, "lcnt"), xz, z3.Select(_arr(G, "lcnt"), xz) + 1))
            _set(G, "lv", z3.Store(_arr(G, "lv"), xz, v.z))
            return v

        S.eng.assumptions.add("assumed-lemma:traverse client rule event model: the obligations _traverse_dfs/enter/... and _traverse_dfs/leave/... are the premises of Step.enter / "
                              "Step.leave of lean/TraverseRule.lean (read clause by clause; ent / left = the callback was called with that node)")
        return dict(topology=(ids, pids), root=root, enter=Callback("enter", enter_model) if enter_given else None,
                    leave=Callback("leave", leave_model) if leave_given else None, G=G)

    return f


# --------------------------------------------------------------------------- views of the program state
def T(v):
    ids, pids = v["topology"]
    return pids.arr, ids.nz(), to_z3(v["root"], "int")


def stack_view(st):
    """(idx array, is_enter array, length) of the stack, concrete or symbolic"""
    if st.items is None:
        return st.cols[0], st.cols[1], zint(st.n)
    ia, ba = K0(), z3.K(I, z3.BoolVal(False))
    for p, (x, e) in enumerate(st.items):
        ia, ba = z3.Store(ia, p, to_z3(x, "int")), z3.Store(ba, p, to_z3(e, "bool"))
    return ia, ba, z3.IntVal(len(st.items))


def dict_view(d, vk="oref"):
    if d.items is None:
        return d.dom, d.val
    dom, val = z3.K(I, z3.BoolVal(False)), K0()
    for k, x in d.items.items():
        dom, val = z3.Store(dom, to_z3(k, "int"), z3.BoolVal(True)), z3.Store(val, to_z3(k, "int"), to_z3(x, vk))
    return dom, val


def cm_view(d):
    if d.items is not None:
        return z3.K(I, z3.BoolVal(False)), z3.K(I, K0()), K0()
    return d.dom, d.val, d.lens


# --------------------------------------------------------------------------- loop 0: the children map
def inv0(which):
    def f(E, v, o):
        P, n, root = T(v)
        dom, val, lens = cm_view(v["children_map"])
        i = to_z3(v["_k0"], "int")
        k, j, a = z3.Ints("k_cm j_cm a_cm")  # fixed bound names: the same fact about the same map is the same term wherever it is stated
        pa = z3.Select(P, a)
        if which == "sizes":
            return z3.ForAll([k], z3.If(z3.Select(dom, k), z3.And(z3.Select(lens, k) == nch(k, i), nch(k, i) > 0), nch(k, i) == 0))
        if which == "rows-listed":
            return z3.ForAll([a], z3.Implies(z3.And(0 <= a, a < i), z3.And(z3.Select(dom, pa), nch(pa, a) < z3.Select(lens, pa), z3.Select(z3.Select(val, pa), nch(pa, a)) == a)))
        if which == "listed-are-rows":
            r = rrow(k, j)
            return z3.ForAll([k, j], z3.Implies(z3.And(z3.Select(dom, k), 0 <= j, j < z3.Select(lens, k)),
                                                z3.And(0 <= r, r < i, z3.Select(P, r) == k, z3.Select(z3.Select(val, k), j) == r, nch(k, r) == j)))

    return f


INV0 = [("children-sizes", inv0("sizes")), ("rows-listed", inv0("rows-listed")), ("listed-are-rows", inv0("listed-are-rows"))]


def cm_facts(v):
    """the children-map facts at i = n (available after loop 0, unchanged afterwards)"""
    vv = dict(v)
    vv["_k0"] = Sym(T(v)[1], "int")
    return [inv0(w)(None, vv, None) for w in ("sizes", "rows-listed", "listed-are-rows")]


# --------------------------------------------------------------------------- loop 1: the explicit-stack traversal
def S1(v):
    """everything the invariants talk about"""
    G = v["G"]
    P, n, root = T(v)
    idx, ise, ln = stack_view(v["stack"])
    pdom, pval = dict_view(v["params"])
    vdom, vval = dict_view(v["vals"])
    d = dict(P=P, n=n, root=root, idx=idx, ise=ise, ln=ln, pdom=pdom, pval=pval, vdom=vdom, vval=vval, clk=to_z3(G.fields["clk"], "int"))
    for f in ("gE", "gL", "tE", "tL", "posE", "posL", "ecnt", "epre", "ev", "lcnt", "lv"):
        d[f] = _arr(G, f)
    la = G.fields["largs"]
    d["largs"], d["largs_len"] = la.val, la.lens
    d["enter"], d["leave"] = v["enter"] is not None, v["leave"] is not None
    return d


def sel(a, i):
    return z3.Select(a, i)


def inv1(which):
    def f(E, v, o):
        s = S1(v)
        P, n, root = s["P"], s["n"], s["root"]
        x, p, c, j = (z3.Int(f"{t}_{which}") for t in "xpcj")  # fixed bound names: the same clause over the same state is the same term
        R = lambda t: z3.And(t >= 0, t < n)
        gE, gL, tE, tL, posE, posL = s["gE"], s["gL"], s["tE"], s["tL"], s["posE"], s["posL"]
        ENT, LEFT = (lambda t: sel(gE, t) == 1), (lambda t: sel(gL, t) == 1)
        idx, ise, ln = s["idx"], s["ise"], s["ln"]
        px = sel(P, x)
        if which == "counts":
            body = [z3.Or(sel(gE, x) == 0, sel(gE, x) == 1), z3.Or(sel(gL, x) == 0, sel(gL, x) == 1), sel(gL, x) <= sel(gE, x), z3.Implies(ENT(x), Sub(x))]
            if s["enter"]:
                body.append(sel(s["ecnt"], x) == sel(gE, x))
            if s["leave"]:
                body.append(sel(s["lcnt"], x) == sel(gL, x))
            return z3.And(ln >= 0, s["clk"] >= 0, z3.ForAll([x], z3.And(*body)))
        if which == "frames":
            fx = sel(idx, p)
            cur_of_parent = sel(s["ev"], sel(P, fx)) if s["enter"] else z3.IntVal(0)
            ent_frame = z3.And(z3.Not(ENT(fx)), sel(s["pdom"], fx),
                               z3.If(fx == root, sel(s["pval"], fx) == 0,
                                     z3.And(ENT(sel(P, fx)), z3.Not(LEFT(sel(P, fx))), sel(s["pval"], fx) == cur_of_parent, sel(posL, sel(P, fx)) < p)))
            lev_frame = z3.And(ENT(fx), z3.Not(LEFT(fx)))
            return z3.ForAll([p], z3.Implies(z3.And(0 <= p, p < ln), z3.And(Sub(fx), z3.If(sel(ise, p), ent_frame, lev_frame))))
        if which == "frame-positions":
            fx = sel(idx, p)
            return z3.ForAll([p], z3.Implies(z3.And(0 <= p, p < ln), z3.If(sel(ise, p), sel(posE, fx) == p, sel(posL, fx) == p)))
        if which == "entered-after-parent":
            body = [ENT(px), sel(tE, px) < sel(tE, x)]
            if s["enter"]:
                body.append(sel(s["epre"], x) == sel(s["ev"], px))
            first = z3.Implies(ENT(root), sel(s["epre"], root) == 0) if s["enter"] else z3.BoolVal(True)
            times = z3.ForAll([x], z3.And(z3.Implies(ENT(x), z3.And(0 <= sel(tE, x), sel(tE, x) < s["clk"])),
                                          z3.Implies(LEFT(x), z3.And(sel(tE, x) < sel(tL, x), sel(tL, x) < s["clk"]))))
            return z3.And(first, times, z3.ForAll([x], z3.Implies(z3.And(ENT(x), x != root), z3.And(*body))))
        if which == "pending-leave-frame":
            q = sel(posL, x)
            return z3.ForAll([x], z3.Implies(z3.And(ENT(x), z3.Not(LEFT(x))), z3.And(0 <= q, q < ln, sel(idx, q) == x, z3.Not(sel(ise, q)))))
        if which == "children-of-entered":
            q = sel(posE, c)
            root_ok = z3.Or(ENT(root), z3.And(0 <= sel(posE, root), sel(posE, root) < ln, sel(idx, sel(posE, root)) == root, sel(ise, sel(posE, root))))
            return z3.And(root_ok, z3.ForAll([c], z3.Implies(z3.And(R(c), sel(P, c) >= 0, ENT(sel(P, c))),
                                                              z3.Or(ENT(c), z3.And(0 <= q, q < ln, sel(idx, q) == c, sel(ise, q))))))
        if which == "stack-discipline":
            return z3.ForAll([c], z3.Implies(z3.And(R(c), c != root, ENT(c), z3.Not(LEFT(c))), sel(posL, c) > sel(posL, sel(P, c))))
        if which == "values-waiting":
            want = sel(s["lv"], c) if s["leave"] else z3.IntVal(0)
            return z3.ForAll([c], z3.And(sel(s["vdom"], c) == z3.And(LEFT(c), z3.Or(c == root, z3.Not(LEFT(sel(P, c))))),
                                         z3.Implies(sel(s["vdom"], c), sel(s["vval"], c) == want)))
        if which == "left-after-children":
            kids = z3.ForAll([x, c], z3.Implies(z3.And(LEFT(x), R(c), sel(P, c) == x), z3.And(LEFT(c), sel(tL, c) < sel(tL, x))))
            if not s["leave"]:
                return kids
            got = z3.ForAll([x, j], z3.Implies(z3.And(LEFT(x), 0 <= j, j < nch(x, n)), sel(sel(s["largs"], x), j) == sel(s["lv"], rrow(x, j))))
            return z3.And(kids, got, z3.ForAll([x], z3.Implies(LEFT(x), sel(s["largs_len"], x) == nch(x, n))))
        raise KeyError(which)

    return f


INV1_NAMES = ["counts", "frames", "frame-positions", "entered-after-parent", "pending-leave-frame", "children-of-entered", "stack-discipline",
              "values-waiting", "left-after-children"]
INV1 = [(nm, inv1(nm)) for nm in INV1_NAMES]


def cm_kept(E, v, o, entry):
    """the children map is not touched by the traversal loop, and it is complete (facts of loop 0 at i = n)"""
    return z3.And(*cm_facts(v))


# --------------------------------------------------------------------------- loop 2: pushing the children of the node just entered
def inv2(which):
    def f(E, v, o, entry):
        s, s0 = S1(v), S1(entry)
        P, n, root = s["P"], s["n"], s["root"]
        j = to_z3(v["_k2"], "int")
        me = to_z3(v["idx"], "int")
        dom, val, lens = cm_view(v["children_map"])
        chd = lambda q: sel(sel(val, me), q)
        cur = to_z3(v["cur"], "oref")
        p, y, q = (z3.Int(f"{t}_{which}") for t in "pyq")
        mine = lambda t: z3.And(t >= 0, t < n, sel(P, t) == me, nch(me, t) < j)  # t is one of the first j children of `me`
        if which == "stack-grows-by-the-children":
            return z3.And(s["ln"] == s0["ln"] + j,
                          z3.ForAll([p], z3.Implies(z3.And(0 <= p, p < s0["ln"]), z3.And(sel(s["idx"], p) == sel(s0["idx"], p), sel(s["ise"], p) == sel(s0["ise"], p)))),
                          z3.ForAll([q], z3.Implies(z3.And(s0["ln"] <= q, q < s0["ln"] + j), z3.And(sel(s["idx"], q) == chd(q - s0["ln"]), sel(s["ise"], q)))))
        if which == "params-of-the-children":
            return z3.ForAll([y], z3.If(mine(y), z3.And(sel(s["pdom"], y), sel(s["pval"], y) == cur, sel(s["posE"], y) == s0["ln"] + nch(me, y)),
                                        z3.And(sel(s["pdom"], y) == sel(s0["pdom"], y), sel(s["pval"], y) == sel(s0["pval"], y), sel(s["posE"], y) == sel(s0["posE"], y))))
        if which == "rest-unchanged":
            same = [s[f] == s0[f] for f in ("gE", "gL", "tE", "tL", "posL", "ecnt", "epre", "ev", "lcnt", "lv", "largs", "largs_len", "vdom", "vval", "clk")]
            return z3.And(*same)
        raise KeyError(which)

    return f


INV2 = [(nm, inv2(nm)) for nm in ("stack-grows-by-the-children", "params-of-the-children", "rest-unchanged")]


# --------------------------------------------------------------------------- ghost code
def g_enter(E, v):
    G = v["G"]
    x = to_z3(v["idx"], "int")
    clk = to_z3(G.fields["clk"], "int")
    _set(G, "gE", z3.Store(_arr(G, "gE"), x, sel(_arr(G, "gE"), x) + 1))
    _set(G, "tE", z3.Store(_arr(G, "tE"), x, clk))
    G.fields["clk"] = Sym(clk + 1, "int")


def g_push_leave(E, v):
    G = v["G"]
    _, _, ln = stack_view(v["stack"])
    _set(G, "posL", z3.Store(_arr(G, "posL"), to_z3(v["idx"], "int"), ln - 1))


def g_push_child(E, v):
    G = v["G"]
    _, _, ln = stack_view(v["stack"])
    _set(G, "posE", z3.Store(_arr(G, "posE"), to_z3(v["child"], "int"), ln - 1))


def g_leave(E, v):
    G = v["G"]
    x = to_z3(v["idx"], "int")
    clk = to_z3(G.fields["clk"], "int")
    _set(G, "gL", z3.Store(_arr(G, "gL"), x, sel(_arr(G, "gL"), x) + 1))
    _set(G, "tL", z3.Store(_arr(G, "tL"), x, clk))
    G.fields["clk"] = Sym(clk + 1, "int")


def g_iteration_starts(E, v):
    v["G"].py["mark"] = next_uid()


def g_init(E, v):
    # the start frame (root, True) sits at position 0
    G = v["G"]
    _set(G, "posE", z3.Store(_arr(G, "posE"), to_z3(v["root"], "int"), 0))


def _assigns_result_of(callback, target):
    """anchor: a simple assignment to `target` (unparsed text) whose right-hand side calls the callback `callback`; the names of
    the other locals in it (`pre`, `children`) are free to change"""
    def f(txt):
        try:
            st = ast.parse(txt).body[0]
        except SyntaxError:
            return False
        return (isinstance(st, ast.Assign) and len(st.targets) == 1 and ast.unparse(st.targets[0]) == target
                and any(isinstance(c, ast.Call) and isinstance(c.func, ast.Name) and c.func.id == callback for c in ast.walk(st.value)))

    return f


GHOST = [
    ("stack: list[tuple[int, bool]] = [(root, True)]", g_init),
    ("idx, is_enter = stack.pop()", g_iteration_starts),
    (_assigns_result_of("enter", "cur"), g_enter),
    ("stack.append((idx, False))", g_push_leave),
    ("stack.append((child, True))", g_push_child),  # the ghost position is taken where the frame is pushed (the value may be stored before or after)
    (_assigns_result_of("leave", "vals[idx]"), g_leave),
]


# --------------------------------------------------------------------------- postconditions (from the property statement)
def post(which):
    def f(E, v, o):
        if "G" not in v:
            return True  # at a call site: callers only learn that the call happened (call log) and get an unconstrained result
        G = v["G"]
        P, n, root = T(v)
        x, j = z3.Int(fresh_name("x")), z3.Int(fresh_name("j"))
        R = lambda t: z3.And(t >= 0, t < n)
        one = lambda a, t: sel(_arr(G, a), t) == z3.If(Sub(t), 1, 0)
        px = sel(P, x)
        if which.startswith("enter") and v["enter"] is None:
            return True  # no enter callback in this variant
        if which.startswith("leave") and v["leave"] is None:
            return True
        if which == "enter-exactly-once-per-subtree-node-and-never-outside":
            return z3.ForAll([x], z3.Implies(R(x), one("ecnt", x)))
        if which == "leave-exactly-once-per-subtree-node-and-never-outside":
            return z3.ForAll([x], z3.Implies(R(x), one("lcnt", x)))
        if which == "enter-after-parent-with-the-parents-value":
            return z3.And(sel(_arr(G, "epre"), root) == 0,
                          z3.ForAll([x], z3.Implies(z3.And(Sub(x), x != root), z3.And(sel(_arr(G, "tE"), px) < sel(_arr(G, "tE"), x), sel(_arr(G, "epre"), x) == sel(_arr(G, "ev"), px)))))
        if which == "leave-after-all-children-with-exactly-their-values":
            la = G.fields["largs"]
            return z3.And(z3.ForAll([x], z3.Implies(Sub(x), z3.And(sel(la.lens, x) == nch(x, n), sel(_arr(G, "tE"), x) < sel(_arr(G, "tL"), x)))),
                          z3.ForAll([x, j], z3.Implies(z3.And(Sub(x), 0 <= j, j < nch(x, n)),
                                                       z3.And(sel(sel(la.val, x), j) == sel(_arr(G, "lv"), rrow(x, j)), sel(_arr(G, "tL"), rrow(x, j)) < sel(_arr(G, "tL"), x)))))
        if which == "returns-the-start-nodes-value":
            want = sel(_arr(G, "lv"), root) if v["leave"] is not None else z3.IntVal(0)
            return to_z3(v["result"], "oref") == want
        if which == "every-subtree-node-entered-and-left-structurally":
            return z3.ForAll([x], z3.Implies(R(x), z3.And(one("gE", x), one("gL", x))))
        raise KeyError(which)

    return f


def exit_hint(E, v):
    """At the normal exit the stack is empty.  Tree induction over the subtree (root first, then every node whose parent is
    entered) is the one inductive step z3 cannot do: it is instantiated here for P(x) := gE[x] = 1 and proved from its
    premises; the schema itself is lemma `tree_induction` (Lean, /verif/lean)."""
    if "G" not in v or "stack" not in v:
        return
    s = S1(v)
    P, n, root, gE = s["P"], s["n"], s["root"], s["gE"]
    c, x = z3.Int(fresh_name("c")), z3.Int(fresh_name("x"))
    base = sel(gE, root) == 1
    step = z3.ForAll([c], z3.Implies(z3.And(Sub(c), c != root, sel(gE, sel(P, c)) == 1), sel(gE, c) == 1))
    E.prove("_traverse_dfs/step/start-node-entered", base, "annotation")
    E.prove("_traverse_dfs/step/children-of-entered-nodes-entered", step, "annotation")
    E.assume(z3.Implies(z3.And(base, step), z3.ForAll([x], z3.Implies(Sub(x), sel(gE, x) == 1))))
    E.assumptions.add("assumed-lemma:tree_induction (P(root) and (P(parent x) -> P(x)) for subtree nodes => P on the subtree; depth witness) instantiated for P = entered")




def _bound_names(t, cache={}):
    """names of the variables bound by the quantifiers of a formula"""
    key = t.get_id()
    if key in cache and cache[key][0].eq(t):
        return cache[key][1]
    out, todo, seen = set(), [t], set()
    while todo:
        a = todo.pop()
        if a.get_id() in seen:
            continue
        seen.add(a.get_id())
        if z3.is_quantifier(a):
            out.update(a.var_name(i) for i in range(a.num_vars()))
            todo.append(a.body())
        elif z3.is_app(a):
            todo.extend(a.children())
    cache[key] = (t, out)
    return out


def leave_branch_step(nm, uses=()):
    """Proof step for the leave branch of the stack loop: popping a leave frame keeps invariant `nm`.  It is proved from an explicit
    SUBSET of the path condition (sound): the quantifier-free facts (the popped frame read off the invariants, the branch taken, the
    ghost updates) and, of the quantified facts, only invariant `nm` itself, `counts` and those named in `uses` - recognised by the fixed
    names of their bound variables.  The solver's work then does not depend on the order or number of the other hypotheses (children
    map, child counting, values, times, the bulk pop), nor on its seed.  The clause obligation that follows finds the very same term
    among its hypotheses."""
    allowed = {f"{t}_{w}" for w in (nm, "counts", *uses) for t in "xpcj"}

    def h(E, v):
        if "is_enter" not in v or "stack" not in v:
            return
        if E.feasible(to_z3(v["is_enter"], "bool")):
            return  # the enter branch needs the children map and the inner loop's invariants: proved from the whole path condition
        from pyvc.engine import Oblig

        goal = inv1(nm)(E, v, None)
        hyps = [f for f in E.pc if _bound_names(f) <= allowed]
        note = "annotation [context: quantifier-free facts + invariants " + ", ".join((nm, "counts", *uses)) + "]" + (f" [variant {E.variant}]" if getattr(E, "variant", "") else "")
        E.obligs.append(Oblig(f"{E.prop}/_traverse_dfs/step/popping-a-leave-frame-keeps/{nm}", hyps, goal, "annotation", note))
        E.pc.append(goal)

    return h


# --------------------------------------------------------------------------- proof annotations (each is its own obligation)
def ann_top_frame(E, v, o):
    """the frame just popped, read off the invariants at its position (= the new stack length)"""
    s = S1(v)
    P, root, ln = s["P"], s["root"], s["ln"]
    me, is_enter = to_z3(v["idx"], "int"), to_z3(v["is_enter"], "bool")
    ENT, LEFT = (lambda t: sel(s["gE"], t) == 1), (lambda t: sel(s["gL"], t) == 1)
    par = sel(P, me)
    ent = z3.And(z3.Not(ENT(me)), sel(s["pdom"], me), sel(s["posE"], me) == ln,
                 z3.If(me == root, sel(s["pval"], me) == 0,
                       z3.And(par >= 0, ENT(par), z3.Not(LEFT(par)), sel(s["pval"], me) == (sel(s["ev"], par) if s["enter"] else 0), sel(s["posL"], par) < ln)))
    lev = z3.And(ENT(me), z3.Not(LEFT(me)), sel(s["posL"], me) == ln)
    return z3.And(Sub(me), me >= 0, me < s["n"], z3.If(is_enter, ent, lev))


def ann_children_untouched(E, v, o):
    """a node that is only now being entered has no entered child and no child frame on the stack"""
    s = S1(v)
    P, n, root, ln = s["P"], s["n"], s["root"], s["ln"]
    me = to_z3(v["idx"], "int")
    c, p = z3.Int(fresh_name("c")), z3.Int(fresh_name("p"))
    kids = z3.ForAll([c], z3.Implies(z3.And(c >= 0, c < n, sel(P, c) == me), z3.And(c != root, c != me, sel(s["gE"], c) == 0, sel(s["gL"], c) == 0)))
    # "below the frame just popped" = positions < posE[me] (the popped enter frame sat there; the leave frame of `me` may or may not be pushed yet)
    below = sel(s["posE"], me)
    frames = z3.ForAll([p], z3.Implies(z3.And(0 <= p, p < below), z3.And(sel(s["idx"], p) != me, z3.Or(sel(s["idx"], p) == root, sel(P, sel(s["idx"], p)) != me))))
    return z3.And(kids, frames)


ANNOT = {
    "idx": [("popped-frame-satisfies-the-frame-invariant", ann_top_frame)],
    "cur": [("children-of-the-entered-node-are-untouched", ann_children_untouched)],
}


# The depth clause of the property ("no recursion limit at depth 1e5"): nothing on the traversal path may recurse.  Obligation
# <carrier>/safety/no-recursive-call-on-the-traversal-path, computed by pyvc/callgraph.py from the call graph of the modules as they are now
# (the carrier, every repository function it refers to, nested defs, lambdas): a reachable cycle that no declared measure bounds fails it.
# `receivers`: the one receiver on the path whose class the syntax does not show (`self.attach` of a node handle is its Tree).
NO_RECURSION = dict(label="no-recursive-call-on-the-traversal-path", receivers={"self.attach": "swcgeom/core/tree.py:Tree"})


def register(R: Registry):
    posts_both = ["enter-exactly-once-per-subtree-node-and-never-outside", "leave-exactly-once-per-subtree-node-and-never-outside",
                  "enter-after-parent-with-the-parents-value", "leave-after-all-children-with-exactly-their-values", "returns-the-start-nodes-value",
                  "every-subtree-node-entered-and-left-structurally"]
    hints = {("post/" + posts_both[-1]): exit_hint}
    for nm in ("pending-leave-frame", "children-of-entered"):
        hints["loop1/preserved/" + nm] = leave_branch_step(nm)
    R.add(
        f"{BASE}:_traverse_dfs",
        prop="C04",
        variants={"enter+leave": make_setup(True, True), "enter-only": make_setup(True, False), "leave-only": make_setup(False, True)},
        ensures=[(nm, post(nm)) for nm in [posts_both[-1]] + posts_both[:-1]],
        loops={
            0: dict(invariant=INV0, types={"children_map": "intlist"}),
            1: dict(invariant=[("children-map-complete", cm_kept)] + INV1, types={"stack": ["int", "bool"], "vals": "oref", "params": "oref"}, modifies=["G"]),
            2: dict(invariant=INV2, modifies=["G"]),
        },
        returns="oref",
        options=dict(ghost_after=GHOST, hints=hints, asserts_after=ANNOT, modular=True, truth_hook=lambda E, x: truth_of_callback_values(E, x),
                     no_recursion=NO_RECURSION, recursion_limit_model=True),
        notes="callbacks are arbitrary (uninterpreted results, recorded by ghost observation arrays); termination of the stack loop is not proved",
    )


# =========================================================================== the same function on EVERY parent table of at most NMAX nodes
# Second registration of `_traverse_dfs` (allowed: obligations of equal name are merged).  The table, the start node and which
# callbacks are given are concrete, the callbacks stay arbitrary (fresh uninterpreted results, arbitrary truthiness); no loop
# contract: the three loops simply execute.  The postconditions are the same clauses of the property, evaluated over the LOG OF THE
# CALLBACK CALLS ACTUALLY MADE, so they do not rest on any invariant: a change of a loop body that the symbolic-size proof can only
# report as "invariant no longer provable" (internal obligation, exit 2) shows here as a counter-model of a postcondition.
NMAX = 5


def parent_tables(nmax=NMAX):
    """every parent table with node 0 as the root, ids = positions, any numbering (not only parent-first), 1..nmax nodes"""
    import itertools

    out = []
    for n in range(1, nmax + 1):
        for rest in itertools.product(range(n), repeat=n - 1):
            pid = (-1,) + rest
            ok = True
            for x in range(1, n):
                seen, y = set(), x
                while y != 0 and y not in seen:
                    seen.add(y)
                    y = pid[y]
                ok = ok and y == 0
            if ok:
                out.append(pid)
    return out


class Log:
    """ghost call log of one run on a concrete table: events (kind, node, argument, returned value, list snapshot, list uid) in call order"""

    def __init__(self, pid, root):
        self.pid, self.root, self.n, self.events = tuple(pid), root, len(pid), []
        self.kids = {x: [c for c in range(self.n) if pid[c] == x] for x in range(self.n)}  # children in table order
        sub, todo = set(), [root]
        while todo:  # the subtree of the start node: least set containing it and closed under children
            x = todo.pop()
            if x not in sub:
                sub.add(x)
                todo.extend(self.kids[x])
        self.sub = sub

    def calls(self, kind, x=None):
        return [(t, e) for t, e in enumerate(self.events) if e[0] == kind and (x is None or (isinstance(e[1], int) and e[1] == x))]


def _node(x):
    try:
        import numpy as _np

        return int(x) if isinstance(x, (int, _np.integer)) and not isinstance(x, bool) else x
    except Exception:
        return x


def _same_value(a, b):
    """z3 Bool / bool: the two callback values are the same object (None = the null reference)"""
    try:
        return to_z3(a, "oref") == to_z3(b, "oref")
    except TypeError:
        return a is b


def fixed_setup(pid, root, enter_given, leave_given):
    def f(S):
        from pyvc.values import NArr

        n = len(pid)
        log = Log(pid, root)

        def enter_model(E, args, kwargs):
            v = fresh("oref", "entv")
            log.events.append(("enter", _node(args[0]), args[1] if len(args) > 1 else kwargs, v, None, None))
            return v

        def leave_model(E, args, kwargs):
            ch = args[1] if len(args) > 1 else None
            v = fresh("oref", "lefv")
            items = list(ch.items) if isinstance(ch, PList) and ch.items is not None else None
            log.events.append(("leave", _node(args[0]), ch, v, items, getattr(ch, "uid", None)))
            return v

        ids, pids = NArr((n,), list(range(n)), "int"), NArr((n,), list(pid), "int")
        ids.frozen = pids.frozen = True
        return dict(topology=(ids, pids), root=root, enter=Callback("enter", enter_model) if enter_given else None,
                    leave=Callback("leave", leave_model) if leave_given else None, F=log)

    return f


def fixed_post(which):
    def f(E, v, o):
        if "F" not in v:
            return True
        L = v["F"]
        zand = lambda xs: z3.And(*[x if not isinstance(x, bool) else z3.BoolVal(x) for x in xs]) if xs else True
        once = lambda kind: all(len(L.calls(kind, x)) == (1 if x in L.sub else 0) for x in range(L.n)) and len(L.calls(kind)) == len(L.sub)
        if which.startswith("enter") and v["enter"] is None:
            return True
        if which.startswith("leave") and v["leave"] is None:
            return True
        if which == "enter-exactly-once-per-subtree-node-and-never-outside":
            return once("enter")
        if which == "leave-exactly-once-per-subtree-node-and-never-outside":
            return once("leave")
        if which == "enter-after-parent-with-the-parents-value":
            if not once("enter"):
                return False
            out = []
            for x in sorted(L.sub):
                (t, e), = L.calls("enter", x)
                if x == L.root:
                    out.append(_same_value(e[2], None))
                    continue
                (tp, ep), = L.calls("enter", L.pid[x])
                out += [tp < t, _same_value(e[2], ep[3])]
            return zand(out)
        if which == "leave-after-all-children-with-exactly-their-values":
            if not once("leave") or (v["enter"] is not None and not once("enter")):
                return False
            out = []
            for x in sorted(L.sub):
                (t, e), = L.calls("leave", x)
                if v["enter"] is not None:
                    out.append(L.calls("enter", x)[0][0] < t)
                kids = L.kids[x]
                if e[4] is None or len(e[4]) != len(kids):
                    return False
                for j, c in enumerate(kids):  # the j-th value is the one the leave call of the j-th child (table order) returned, made earlier
                    (tc, ec), = L.calls("leave", c)
                    out += [tc < t, _same_value(e[4][j], ec[3])]
            return zand(out)
        if which == "leave-receives-a-list-of-its-own-at-every-call":
            uids = [e[5] for _, e in L.calls("leave")]
            return all(u is not None and u not in E.entry_uids for u in uids) and len(set(uids)) == len(uids)
        if which == "returns-the-start-nodes-value":
            if v["leave"] is None:
                return v["result"] is None
            hits = L.calls("leave", L.root)
            return len(hits) == 1 and _same_value(v["result"], hits[0][1][3])
        raise KeyError(which)

    return f


Truthy = z3.Function("Truthy", I, B)  # bool(v) of an arbitrary object v handed back by a callback (None is false, nothing else is known)


def truth_of_callback_values(E, v):
    """`if cur:` on a value a callback returned: the kind `oref` alone does not decide it (0, '', [] and False are not None)"""
    if isinstance(v, Sym) and v.kind == "oref":
        return E.sbool(z3.And(v.z != 0, Truthy(v.z)))
    return NotImplemented


def register_fixed(R):
    variants = {}
    for pid in parent_tables():
        for root in range(len(pid)):
            for nm, (e, l) in (("enter+leave", (True, True)), ("enter-only", (True, False)), ("leave-only", (False, True))):
                variants[f"table {list(pid)} start {root} {nm}"] = fixed_setup(pid, root, e, l)
    posts = ["enter-exactly-once-per-subtree-node-and-never-outside", "leave-exactly-once-per-subtree-node-and-never-outside",
             "enter-after-parent-with-the-parents-value", "leave-after-all-children-with-exactly-their-values",
             "leave-receives-a-list-of-its-own-at-every-call", "returns-the-start-nodes-value"]
    R.add(f"{BASE}:_traverse_dfs", prop="C04", variants=variants, ensures=[(nm, fixed_post(nm)) for nm in posts],
          # recursion_limit_model: a call that re-enters an active function may raise RecursionError (unknown stack budget), after exactly
          # the callback calls made before it: a fallback behind `except RecursionError` then repeats calls in the log
          options=dict(truth_hook=truth_of_callback_values, recursion_limit_model=True),
          notes=f"every parent table of at most {NMAX} nodes x every start node x which callbacks are given; callbacks arbitrary; loops executed, not cut")


# =========================================================================== wrappers: traverse, Tree.traverse, Tree.Node.traverse
TREE = "swcgeom/core/tree.py"


def _cb(name, log):
    def model(E, args, kwargs):
        v = fresh("oref", name + "_ret")
        log.append((args, kwargs, v))
        return v

    return Callback(name, model)


def register_wrappers(R):
    from pyvc.spec import SpecFn  # noqa: F401

    # ---- swc_utils.traverse: mode dispatch
    # Variants: which of enter / leave / root the caller passes (what is omitted must reach _traverse_dfs as ITS default: no callback,
    # start node 0), and the `mode` argument: omitted, "dfs", or something else (then ValueError and nothing is traversed).
    def tr_setup(mode, given):
        def f(S):
            n = S.int("n")
            S.assume(n.z >= 1)
            called = []
            kw = {}
            if "enter" in given:
                kw["enter"] = Callback("enter", lambda E, a, k: (called.append("enter"), fresh("oref", "e"))[1])
            if "leave" in given:
                kw["leave"] = Callback("leave", lambda E, a, k: (called.append("leave"), fresh("oref", "l"))[1])
            if "root" in given:
                kw["root"] = S.int("root")
            d = dict(topology=(S.arr("int", n=n, name="ids"), S.arr("int", n=n, name="pids")), kwargs=PDict(kw), __ghost__=dict(called=called))
            if mode is not None:
                d["mode"] = mode
            return d

        return f

    def _same_arg(E, a, b):
        if a is None or b is None or isinstance(a, Callback) or isinstance(b, Callback):
            return a is b
        return to_z3(a, "int") == to_z3(b, "int")

    def tr_post(E, v, o):
        if E.cur_key != f"{BASE}:traverse":
            return True  # effect clause about the callee's own execution: says nothing at a call site
        calls = [kw for nm, kw in E.call_log if nm == "_traverse_dfs"]
        if len(calls) != 1 or E.spec_extra["called"]:
            return False  # exactly one delegation, and the dispatcher itself calls no callback
        c = calls[0]
        kw = v["kwargs"].items
        return z3.And(c["topology"] is v["topology"], c["enter"] is kw.get("enter"), c["leave"] is kw.get("leave"), _same_arg(E, c["root"], kw.get("root", 0)),
                      to_z3(v["result"], "oref") == to_z3(c["__result__"], "oref"))

    def tr_bad_mode(E, v, o):
        return v["mode"] != "dfs" and not E.call_log and not E.spec_extra["called"]

    tr_variants = {}
    for mode, mname in ((None, "mode omitted"), ("dfs", "mode dfs"), ("bfs", "mode bfs"), ("", "mode empty"), ("DFS", "mode DFS")):
        for given in (("enter", "leave", "root"), ("enter",), ("leave", "root"), ()):
            tr_variants[f"{mname}; passes {' '.join(given) or 'nothing'}"] = tr_setup(mode, given)
    R.add(f"{BASE}:traverse", prop="C04", variants=tr_variants, returns="oref", options=dict(modular=True, no_recursion=NO_RECURSION),
          raises={"ValueError": ("any-mode-but-dfs-and-nothing-was-traversed", tr_bad_mode)},
          ensures=[("delegates-once-to-the-iterative-dfs-with-the-same-arguments-and-returns-its-result", tr_post),
                   ("returns-normally-only-in-dfs-mode", lambda E, v, o: True if E.cur_key != f"{BASE}:traverse" else v["mode"] == "dfs")])

    # ---- Tree.traverse: callbacks receive node handles of the same tree, same ids, same other arguments
    from contracts.common import col, nof, sym_tree

    def tt_setup(enter_given, leave_given, extra=("root",)):
        def f(S):
            t = sym_tree(S, "t", frozen=True)
            elog, llog = [], []
            kw = {}
            if "root" in extra:
                kw["root"] = S.int("root")
            if "mode" in extra:
                kw["mode"] = "dfs"
            d = dict(self=t, enter=_cb("enter", elog) if enter_given else None, leave=_cb("leave", llog) if leave_given else None, kwargs=PDict(kw))
            d["__ghost__"] = dict(elog=elog, llog=llog, passed=dict(kw))
            return d

        return f

    def tt_exit(E, v, o):
        """exercise the wrapped callbacks that were handed to swc_utils.traverse on an arbitrary in-range node id"""
        calls = [kw for nm, kw in E.call_log if nm == "traverse"]
        v["__calls__"] = calls
        if len(calls) != 1:
            return
        kw = dict(calls[0]["kwargs"].items) if isinstance(calls[0].get("kwargs"), PDict) and calls[0]["kwargs"].items is not None else {}
        for nm in ("enter", "leave"):  # swc_utils.traverse collects them in **kwargs today; a signature that names them is followed too
            if nm in calls[0]:
                kw[nm] = calls[0][nm]
        t = v["self"]
        k = fresh("int", "k")
        E.assume(z3.And(k.z >= 0, k.z < nof(t)))
        probe = {}
        for nm, extra in (("enter", fresh("oref", "pre")), ("leave", PList([fresh("oref", "c0"), fresh("oref", "c1")]))):
            w = kw.get(nm)
            if w is None:
                probe[nm] = None
                continue
            log = E.spec_extra["elog" if nm == "enter" else "llog"]
            before = len(log)
            r = E.call(w, [k, extra], {})
            probe[nm] = dict(k=k, extra=extra, ret=r, seen=log[before:])
        v["__probe__"] = probe

    def _call_arg(c, name, default=None):
        """argument `name` of a logged call, whether the callee names it as a parameter or collects it in **kwargs"""
        if name in c and name != "kwargs":
            return c[name]
        kw = c.get("kwargs")
        if isinstance(kw, PDict) and kw.items is not None and name in kw.items:
            return kw.items[name]
        return default

    def _same_int(a, b):
        return to_z3(a, "int") == to_z3(b, "int")

    def tt_post(E, v, o, only_delegation=False):
        if E.cur_key != f"{TREE}:Tree.traverse":
            return True
        calls = v.get("__calls__", [])
        if len(calls) != 1:
            return False
        c = calls[0]
        t = v["self"]
        topo = c["topology"]
        passed = E.spec_extra["passed"]  # what the caller passed besides the callbacks: the start node and / or the mode, or nothing
        # the WHOLE table of this tree (the very id / pid columns), the caller's start node (node 0 if none) and mode ("dfs" if none)
        ok = [isinstance(topo, tuple) and len(topo) == 2 and topo[0] is col(t, "id"), isinstance(topo, tuple) and len(topo) == 2 and topo[1] is col(t, "pid"),
              _call_arg(c, "mode", "dfs") == passed.get("mode", "dfs"), _same_int(_call_arg(c, "root", 0), passed.get("root", 0)),
              to_z3(v["result"], "oref") == to_z3(c["__result__"], "oref")]
        if only_delegation:
            return z3.And(*[x if not isinstance(x, bool) else z3.BoolVal(x) for x in ok])
        for nm in ("enter", "leave"):
            user = v[nm]
            if user is None:
                ok.append(_call_arg(c, nm) is None)
                continue
            pr = v["__probe__"][nm]
            if pr is None or len(pr["seen"]) != 1:
                return False
            args, kwargs, ret = pr["seen"][0]
            node = args[0]
            if not (isinstance(node, Obj) and node.fields.get("attach") is t and len(args) == 2 and not kwargs):
                return False
            ok.append(to_z3(node.fields["idx"], "int") == pr["k"].z)           # handle of the SAME node id
            ok.append(args[1] is pr["extra"] if isinstance(pr["extra"], PList) else to_z3(args[1], "oref") == to_z3(pr["extra"], "oref"))  # other argument passed through
            ok.append(to_z3(pr["ret"], "oref") == ret.z)                        # callback's value returned unchanged
        return z3.And(*[x if not isinstance(x, bool) else z3.BoolVal(x) for x in ok])

    R.add(f"{TREE}:Tree.traverse", prop="C04",
          variants={"enter+leave": tt_setup(True, True), "enter-only": tt_setup(True, False), "leave-only": tt_setup(False, True),
                    "enter+leave, no start node given": tt_setup(True, True, ()), "leave-only, no start node given": tt_setup(False, True, ()),
                    "enter+leave, start node and mode given": tt_setup(True, True, ("root", "mode"))},
          ghost_exit=tt_exit, returns="oref",
          # the wrapper hands closures to swc_utils.traverse; its contract does not rely on their effects (it probes them itself)
          options=dict(modular=True, modular_traverse_ok=True, no_recursion=NO_RECURSION),
          ensures=[("delegates-once-with-the-whole-table-of-this-tree-the-callers-start-node-and-mode-and-returns-the-result", lambda E, v, o: tt_post(E, v, o, True)),
                   ("callbacks-see-handles-of-the-same-nodes-and-values-pass-through-unchanged", tt_post)])

    # ---- Tree.Node.traverse: starts at this node
    def tn_setup(enter_given, leave_given, mode_given=False):
        def f(S):
            from swcgeom.core.tree import Tree

            t = sym_tree(S, "t", frozen=True)
            i = S.int("idx")
            S.assume(z3.And(i.z >= 0, i.z < nof(t)))
            kw = {}
            if enter_given:
                kw["enter"] = _cb("enter", [])
            if leave_given:
                kw["leave"] = _cb("leave", [])
            if mode_given:
                kw["mode"] = "dfs"
            return dict(self=S.obj(Tree.Node, attach=t, idx=i, names=t.fields["names"]), kwargs=PDict(kw))

        return f

    def tn_post(E, v, o):
        calls = [kw for nm, kw in E.call_log if nm == "Tree.traverse"]
        if len(calls) != 1:
            return False
        c = calls[0]
        mine = v["kwargs"].items
        return z3.And(c["self"] is v["self"].fields["attach"], _call_arg(c, "enter") is mine.get("enter"), _call_arg(c, "leave") is mine.get("leave"),
                      _call_arg(c, "mode", "dfs") == mine.get("mode", "dfs"),
                      _same_int(_call_arg(c, "root", 0), v["self"].fields["idx"]), to_z3(v["result"], "oref") == to_z3(c["__result__"], "oref"))

    R.add(f"{TREE}:Tree.Node.traverse", prop="C04",
          variants={"enter+leave": tn_setup(True, True), "enter-only": tn_setup(True, False), "leave-only": tn_setup(False, True), "enter+leave, mode given": tn_setup(True, True, True)},
          options=dict(no_recursion=NO_RECURSION),
          ensures=[("traverses-the-owning-tree-starting-at-this-node", tn_post)])


# =========================================================================== composition: the three entry points END TO END on small tables
# "Tree.traverse = _traverse_dfs with Node-wrapped callbacks" (and swc_utils.traverse = _traverse_dfs, Tree.Node.traverse = Tree.traverse
# from this node) as OBLIGATIONS: a further registration of each entry point on every parent table of at most COMP_NMAX nodes x every
# start node, with the callees INLINED from the repository (`inline_calls`: nothing is taken from the modular contracts above), arbitrary
# user callbacks, and the clauses of the property itself (the same `fixed_post` clauses, same names) evaluated over the log of the calls
# the USER's callbacks received -- for the tree entry points with the node handles read back to node ids, plus the clause that every
# handle is a handle of this very tree.  Delegation + wrapper transparency (the symbolic-size clauses above) are thereby tied to the
# property for the whole call chain at these sizes.
COMP_NMAX = 4
COMP_INLINE = ["swc_utils/base.py:traverse", "swc_utils/base.py:_traverse_dfs", "core/tree.py:Tree.traverse"]


def fixed_tree(S, pid, name="t"):
    """a Tree whose id / pid columns are the given concrete table (id[i] = i); the other columns symbolic; frozen"""
    from contracts.common import COLS
    from pyvc.values import NArr
    from swcgeom.core.swc_utils import get_names, get_types
    from swcgeom.core.tree import Tree

    n, cols = len(pid), {}
    for c, k in COLS.items():
        its = list(range(n)) if c == "id" else list(pid) if c == "pid" else [S.int(f"{name}_{c}{i}") if k == "int" else S.real(f"{name}_{c}{i}") for i in range(n)]
        a = NArr((n,), its, k)
        a.frozen = True
        cols[c] = a
    nd = PDict(cols)
    nd.frozen = True
    t = S.obj(Tree, ndata=nd, names=get_names(), types=get_types(), source="", comments=PList([]))
    t.frozen = True
    return t


def comp_setup(entry, pid, root, enter_given, leave_given):
    def f(S):
        from pyvc.values import NArr

        n = len(pid)
        log = Log(pid, root)
        log.handles_ok = True
        tree = fixed_tree(S, pid) if entry != "traverse" else None

        def node_of(x):
            if tree is None:
                return _node(x)
            # the tree entry points hand out node handles: read the node id back, and check whose handle it is
            if not (isinstance(x, Obj) and x.fields.get("attach") is tree):
                log.handles_ok = False
                return x
            return _node(x.fields["idx"])

        def enter_model(E, args, kwargs):
            v = fresh("oref", "entv")
            log.events.append(("enter", node_of(args[0]), args[1] if len(args) > 1 else kwargs, v, None, None))
            return v

        def leave_model(E, args, kwargs):
            ch = args[1] if len(args) > 1 else None
            v = fresh("oref", "lefv")
            items = list(ch.items) if isinstance(ch, PList) and ch.items is not None else None
            log.events.append(("leave", node_of(args[0]), ch, v, items, getattr(ch, "uid", None)))
            return v

        cbs = {}
        if enter_given:
            cbs["enter"] = Callback("enter", enter_model)
        if leave_given:
            cbs["leave"] = Callback("leave", leave_model)
        shown = dict(enter=cbs.get("enter"), leave=cbs.get("leave"), F=log)  # what the clauses read (`fixed_post`)
        if entry == "traverse":
            ids, pids = NArr((n,), list(range(n)), "int"), NArr((n,), list(pid), "int")
            ids.frozen = pids.frozen = True
            return dict(topology=(ids, pids), kwargs=PDict(dict(cbs, root=root)), __ghost__=shown)
        if entry == "Tree.traverse":
            return dict(self=tree, enter=cbs.get("enter"), leave=cbs.get("leave"), kwargs=PDict(dict(root=root)), __ghost__=shown)
        from swcgeom.core.tree import Tree

        return dict(self=S.obj(Tree.Node, attach=tree, idx=root, names=tree.fields["names"]), kwargs=PDict(cbs), __ghost__=shown)

    return f


def comp_post(which):
    inner = fixed_post(which) if which != "callbacks-receive-handles-of-this-very-tree" else None

    def f(E, v, o):
        if "F" not in E.spec_extra:
            return True  # at a call site of the entry point (another registration's business)
        vv = dict(v)
        vv.update(E.spec_extra)  # enter / leave / F as the setup handed them in, whatever the entry point calls its parameters
        if inner is None:
            return bool(E.spec_extra["F"].handles_ok)
        return inner(E, vv, o)

    return f


def register_composition(R):
    posts = ["enter-exactly-once-per-subtree-node-and-never-outside", "leave-exactly-once-per-subtree-node-and-never-outside",
             "enter-after-parent-with-the-parents-value", "leave-after-all-children-with-exactly-their-values",
             "leave-receives-a-list-of-its-own-at-every-call", "returns-the-start-nodes-value", "callbacks-receive-handles-of-this-very-tree"]
    for entry, key in (("traverse", f"{BASE}:traverse"), ("Tree.traverse", f"{TREE}:Tree.traverse"), ("Tree.Node.traverse", f"{TREE}:Tree.Node.traverse")):
        variants = {}
        for pid in parent_tables(COMP_NMAX):
            for root in range(len(pid)):
                for nm, (e, l) in (("enter+leave", (True, True)), ("enter-only", (True, False)), ("leave-only", (False, True))):
                    if (e and l) or len(pid) <= 3:  # a missing callback changes nothing in the wrappers: the single-callback runs stop at 3 nodes
                        variants[f"end to end: table {list(pid)} start {root} {nm}"] = comp_setup(entry, pid, root, e, l)
        R.add(key, prop="C04", variants=variants, ensures=[(nm, comp_post(nm)) for nm in posts],
              options=dict(truth_hook=truth_of_callback_values, recursion_limit_model=True, inline_calls=COMP_INLINE, modular_traverse_ok=True),
              notes=f"end to end on every parent table of at most {COMP_NMAX} nodes: callees inlined, the property's clauses over the calls the user's callbacks received")


_reg0 = register


def register(R):  # noqa: F811
    _reg0(R)
    register_fixed(R)
    register_wrappers(R)
    register_composition(R)


def lemmas():
    """call-graph obligation: no function on the traversal path calls itself (directly, through a helper of the module, mutually, or
    through a nested closure), so the interpreter's recursion limit cannot be hit however deep the tree is.  Kept under its old name;
    the per-carrier obligations `<carrier>/safety/no-recursive-call-on-the-traversal-path` (pyvc/callgraph.py) name the cycle."""
    from pyvc import callgraph, extract

    bad = []
    for key in (f"{BASE}:_traverse_dfs", f"{BASE}:traverse", f"{TREE}:Tree.traverse", f"{TREE}:Tree.Node.traverse"):
        ok, text = callgraph.describe(key, None, NO_RECURSION["receivers"])
        if not ok:
            bad.append((key, text))
        node, _, _ = extract.find(key)
        fns = [node] + [x for x in ast.walk(node) if isinstance(x, (ast.FunctionDef, ast.Lambda)) and x is not node]
        for fn in fns:
            name = getattr(fn, "name", None)
            if name is None:
                continue
            for c in ast.walk(fn):
                if isinstance(c, ast.Call):
                    callee = c.func.id if isinstance(c.func, ast.Name) else (c.func.attr if isinstance(c.func, ast.Attribute) and isinstance(c.func.value, ast.Name) and c.func.value.id in ("self", "cls") else None)
                    if callee == name and not (key.endswith("Tree.traverse") and name == "traverse" and isinstance(c.func, ast.Name)):
                        bad.append((key, name, c.lineno))
    # _traverse_dfs must not call back into traverse either
    node, _, _ = extract.find(f"{BASE}:_traverse_dfs")
    for c in ast.walk(node):
        if isinstance(c, ast.Call) and isinstance(c.func, ast.Name) and c.func.id in ("traverse", "_traverse_dfs"):
            bad.append(("_traverse_dfs", c.func.id, c.lineno))
    return [("traversal-path-is-free-of-recursion", [], z3.BoolVal(not bad))]
