"""C14 — tree volume = union of node spheres and frusta: sidecar contracts (no edit of /repo).

Carriers: volume.py:get_volume (level names, range assert, dispatch), the closure _get_volume_frustum_cone.<locals>.leave
(volume' = volume + the node's inclusion-exclusion share, for symbolic accuracy 1..9 and 0..3 children), and
VolSphereFrustumConeIntersection._get_volume (modular; both taper directions, on top of C13's contract of the closed form),
_get_volume_frustum_cone (the summation over the tree, traverse client rule).
lemmas(): the union lemma over C13's antiderivative forms.  Rests on C13 (DEPENDS): its carriers are re-verified here.

ASSUMED (listed in evidence.trusted_base): the Monte-Carlo volume of generic SDF objects (levels >= 5 with >= 2 children) and the
Monte-Carlo-only worker of level 10 (sampling), the sdflit handle model.
"""
import z3

from contracts.C09 import node_obj
from contracts import C13
from contracts.C13 import F, G, PI, R, V_fr, V_sf, V_sphere, sf_split, zmin
from contracts.common import col, nof, sym_tree
from pyvc.lemmas import lemma as _lemma, use as _use
from pyvc.spec import Registry
from pyvc.values import NArr, Obj, Opaque, PList, Sym, fresh, fresh_name, to_z3

VOL = "swcgeom/analysis/volume.py"
VO = "swcgeom/utils/volumetric_object.py"
DEPENDS = ["C13"]


# ---------------------------------------------------------------------------
# spec functions (on top of C13's F, G, V_sphere, V_fr)
def V_fr_tot(r1, r2, h):
    """frustum of height h >= 0 (a degenerate frustum, h = 0, has volume 0)"""
    return z3.If(h > 0, V_fr(r1, r2, h), z3.RealVal(0))


# VSF is V_sf behind an opaque name: callers (leave) reason with the NAME only (linear arithmetic over atoms); the defining
# equation VSF(r1, r2, h) = V_sf(r1, r2, h) is revealed where the closed form itself is proved (the intersection's _get_volume).
VSF = z3.Function("V_sphere_frustum", z3.RealSort(), z3.RealSort(), z3.RealSort(), z3.RealSort())


VFR = z3.Function("V_frustum", z3.RealSort(), z3.RealSort(), z3.RealSort(), z3.RealSort())  # opaque name of V_fr_tot
VSPH = z3.Function("V_sphere", z3.RealSort(), z3.RealSort())  # opaque name of V_sphere (whole-tree statement)


# ghost vocabulary for the Monte-Carlo objects: SDF handles are terms, MU is "the measure of the set the handle denotes"
_I, _Re = z3.IntSort(), z3.RealSort()
SDF_SPHERE = z3.Function("sdf_sphere", _Re, _Re, _Re, _Re, _I)
SDF_FRUSTUM = z3.Function("sdf_frustum", _Re, _Re, _Re, _Re, _Re, _Re, _Re, _Re, _I)
SDF_OP = {nm: z3.Function("sdf_" + nm, _I, _I, _I) for nm in ("intersect", "merge", "subtract")}
MU = z3.Function("measure", _I, _Re)


# ---------------------------------------------------------------------------
# library model: sdflit (Rust extension).  The analytic levels never look inside an SDF handle: constructors and the
# boolean combinators return an opaque handle (a ghost TERM recording how it was built) whose only modelled method is
# .into() (identity).  Sampling methods (bounding_box / inside) are NOT modelled: a path that reaches Monte-Carlo
# sampling without an assumed contract is a machinery error, not a pass.
def _handle(z):
    h = Opaque(z, {})
    h.proto["into"] = lambda e, recv, a, k: recv
    return h


def _note(eng, what):
    eng.assumptions.add("sdflit." + what + ": builds an opaque SDF handle (a ghost term of its arguments), no effect on Python state; .into() is the identity")


def _sdf_sphere(eng, args, kwargs):
    _note(eng, "Sphere")
    c, r = args
    return _handle(SDF_SPHERE(*[R(x) for x in c], R(r)))


def _sdf_frustum(eng, args, kwargs):
    _note(eng, "FrustumCone")
    a, b, ra, rb = args
    return _handle(SDF_FRUSTUM(*[R(x) for x in a], *[R(x) for x in b], R(ra), R(rb)))


def _sdf_op(nm):
    def model(eng, args, kwargs):
        _note(eng, nm)
        a, b = args
        return _handle(SDF_OP[nm](a.z, b.z))

    return model


def _register_models():
    import sdflit
    from pyvc import models

    models.EXTRA_MODELS[sdflit.Sphere] = _sdf_sphere
    models.EXTRA_MODELS[sdflit.FrustumCone] = _sdf_frustum
    for nm in SDF_OP:
        models.EXTRA_MODELS[getattr(sdflit, nm)] = _sdf_op(nm)


_register_models()


def child_sphere(S, k):
    """a VolSphere as its constructor leaves it (what an earlier `leave` returned): symbolic centre and radius, its SDF handle"""
    from swcgeom.utils.volumetric_object import VolSphere

    c = NArr((3,), [S.real(f"c{k}_{a}") for a in "xyz"], "real")
    r = S.real(f"c{k}_r")
    return S.obj(VolSphere, center=c, radius=r, sdf=_handle(SDF_SPHERE(*[R(x) for x in c.items], R(r))))


SFI_KEY = f"{VO}:VolSphereFrustumConeIntersection._get_volume"

def leave_setup(nchildren, equal_radii=False):
    def setup(S):
        t = sym_tree(S, "t")
        n = node_obj(S, t)
        ch = PList([child_sphere(S, k) for k in range(nchildren)])
        if equal_radii:
            rn = node_geom(n)[1]
            for c in ch.items:
                S.assume(R(c.fields["radius"]) == rn)
        acc, vol = S.int("accuracy"), S.real("volume0")
        closure = dict(accuracy=acc, volume=vol)
        return dict(n=n, children=ch, __closure__=closure, __ghost__=dict(closure=closure, volume0=vol, accuracy=acc))

    return setup


def node_geom(n):
    """(centre, radius) of Tree.Node n as z3 terms read from the tree's columns"""
    t, i = n.fields["attach"], to_z3(n.fields["idx"], "int")
    return [z3.Select(col(t, a).arr, i) for a in "xyz"], z3.Select(col(t, "r").arr, i)


def sphere_geom(s):
    return [R(x) for x in s.fields["center"].items], R(s.fields["radius"])


def d2(a, b):
    return sum(((x - y) * (x - y) for x, y in zip(a, b)), z3.RealVal(0))


def centre_distance(E, a, b, name="d"):
    """ghost d = |a - b| (definitional: the non-negative square root of a sum of squares exists).  E.sqrt keeps ONE root per
    argument polynomial, so the distance written here is the very symbol np.linalg.norm produced in the code."""
    return R(E.sqrt(Sym(d2(a, b), "real"), nonneg_known=True))


def leave_pre(E, v, o):
    """in-range node; from level 3 on (sphere/frustum intersections are taken): positive radii and distinct centres"""
    n, acc = v["n"], to_z3(E.spec_extra["accuracy"], "int")
    i = to_z3(n.fields["idx"], "int")
    cn, rn = node_geom(n)
    cl = [rn > 0]
    for c in v["children"].items:
        cc, rc = sphere_geom(c)
        cl += [rc > 0, d2(cn, cc) > 0]
    return z3.And(i >= 0, i < nof(n.fields["attach"]), acc >= 1, acc <= 9, z3.Implies(acc >= 3, z3.And(*cl)))


def edge_bands(rp, rc, h2):
    """both sphere/frustum intersections of one compartment lie outside the library's own tolerance bands (C13.outside_tolerance_bands:
    radii and squared length only, no coordinate): the parent's sphere sits on the c1 end of the frustum, the child's on the c2 end"""
    return z3.And(C13.outside_tolerance_bands(rp, rc, h2, at_c1=z3.BoolVal(True)), C13.outside_tolerance_bands(rc, rp, h2, at_c1=z3.BoolVal(False)))


def leave_bands(E, v, o):
    n, acc = v["n"], to_z3(E.spec_extra["accuracy"], "int")
    cn, rn = node_geom(n)
    cl = [edge_bands(rn, rc, d2(cn, cc)) for cc, rc in (sphere_geom(c) for c in v["children"].items)]
    return z3.Implies(acc >= 3, z3.And(*cl)) if cl else True


def leave_delta(E, v, o):
    n, acc = o["n"], to_z3(E.spec_extra["accuracy"], "int")
    cn, rn = node_geom(n)
    kids = [sphere_geom(c) for c in o["children"].items]
    ds = [centre_distance(E, cn, cc, f"d{k}") for k, (cc, rc) in enumerate(kids)]
    zero = z3.RealVal(0)
    frusta = sum((VFR(rn, rc, d) for (cc, rc), d in zip(kids, ds)), zero)
    ends = sum((VSF(rn, rc, d) + VSF(rc, rn, d) for (cc, rc), d in zip(kids, ds)), zero)
    fr_h = [SDF_FRUSTUM(*cn, *cc, rn, rc) for cc, rc in kids]
    sp_h = SDF_SPHERE(*cn, rn)
    pairs = sum((MU(SDF_OP["subtract"](SDF_OP["intersect"](fr_h[i], fr_h[j]), sp_h)) for i in range(len(kids)) for j in range(i + 1, len(kids))), zero)
    delta = V_sphere(rn) + z3.If(acc >= 2, frusta, zero) - z3.If(acc >= 3, ends, zero) - z3.If(acc >= 5, pairs, zero)
    return R(E.spec_extra["closure"]["volume"]) == R(E.spec_extra["volume0"]) + delta


@_lemma("frustum-closed-form-is-the-integral-form", 3)
def _frustum_closed(r1, r2, h):
    return z3.Implies(h >= 0, z3.RealVal(1) / 3 * PI * h * (r1 * r1 + r1 * r2 + r2 * r2) == V_fr_tot(r1, r2, h))


def leave_hint(E, vars):
    """per child: the code's closed form of the frustum volume is the integral form V_fr_tot (= the opaque name VFR).
    The defining equation of VFR is in scope only for this step, so that the final sum is linear arithmetic over atoms."""
    cn, rn = node_geom(vars["n"])
    for k, c in enumerate(vars["children"].items):
        cc, rc = sphere_geom(c)
        d = centre_distance(E, cn, cc)
        before = list(E.pc)
        E.assume(VFR(rn, rc, d) == V_fr_tot(rn, rc, d))  # definition of the ghost name
        _use(E, "frustum-closed-form-is-the-integral-form", rn, rc, d)  # instance of the abstract lemma (its own obligation)
        step = z3.RealVal(1) / 3 * PI * d * (rn * rn + rn * rc + rc * rc) == VFR(rn, rc, d)
        E.prove(f"_get_volume_frustum_cone.<locals>.leave/step/frustum-{k}-closed-form-is-the-integral-form", step, "annotation")
        E.pc[:] = before + [step]  # keep the proved consequence only; the two nonlinear equations leave the context again


def leave_returns_sphere(E, v, o):
    from swcgeom.utils.volumetric_object import VolSphere

    s = v["result"]
    if not (isinstance(s, Obj) and s.cls is VolSphere):
        return False
    cn, rn = node_geom(o["n"])
    cs, rs = sphere_geom(s)
    fresh_obj = s.uid not in E.entry_uids and s.fields["center"].uid not in E.entry_uids
    return z3.And(z3.BoolVal(fresh_obj), rs == rn, *[a == b for a, b in zip(cs, cn)], s.fields["sdf"].z == SDF_SPHERE(*cn, rn))


def leave_children_kept(E, v, o):
    """frame: the children list and the child spheres are what they were (same objects, same centre / radius)"""
    new, old = v["children"].items, o["children"].items
    if len(new) != len(old):
        return False
    cl = []
    for a, b in zip(new, old):
        if a.uid != b.uid:
            return False
        (ca, ra), (cb, rb) = sphere_geom(a), sphere_geom(b)
        cl += [ra == rb] + [x == y for x, y in zip(ca, cb)]
    return z3.And(*cl) if cl else True


def sfi_setup(end, taper):
    def setup(S):
        from swcgeom.utils.volumetric_object import VolSphereFrustumConeIntersection

        d = C13._concentric_setup(end)(S)
        S.assume(d["r2"].z < d["r1"].z if taper else d["r2"].z >= d["r1"].z)
        sp, fc = d["sphere"], d["frustum_cone"]
        sp.fields["sdf"], fc.fields["sdf"] = _handle(z3.Int(fresh_name("sdf"))), _handle(z3.Int(fresh_name("sdf")))
        me = S.obj(VolSphereFrustumConeIntersection, obj1=sp, obj2=fc, sdf=_handle(SDF_OP["intersect"](sp.fields["sdf"].z, fc.fields["sdf"].z)))
        return dict(self=me, hh=d["hh"], r1=d["r1"], r2=d["r2"])

    return setup


def sfi_pre(E, v, o):
    """the sphere is centred on one end of the frustum with that end's radius (exactly), positive radii, distinct end centres"""
    s, f = v["self"].fields["obj1"], v["self"].fields["obj2"]
    cs, rs = sphere_geom(s)
    c1, c2 = [R(x) for x in f.fields["c1"].items], [R(x) for x in f.fields["c2"].items]
    r1, r2 = R(f.fields["r1"]), R(f.fields["r2"])
    at1 = z3.And(rs == r1, *[a == b for a, b in zip(cs, c1)])
    at2 = z3.And(rs == r2, *[a == b for a, b in zip(cs, c2)])
    return z3.And(z3.Or(at1, at2), r1 > 0, r2 > 0, d2(c1, c2) > 0)


def sfi_bands(E, v, o):
    s, f = v["self"].fields["obj1"], v["self"].fields["obj2"]
    cs, rs = sphere_geom(s)
    c1, c2 = [R(x) for x in f.fields["c1"].items], [R(x) for x in f.fields["c2"].items]
    r1, r2 = R(f.fields["r1"]), R(f.fields["r2"])
    at1 = z3.And(rs == r1, *[a == b for a, b in zip(cs, c1)])
    return C13.outside_tolerance_bands(rs, r1 + r2 - rs, d2(c1, c2), at_c1=at1)


def sfi_post(E, v, o):
    s, f = o["self"].fields["obj1"], o["self"].fields["obj2"]
    cs, rs = sphere_geom(s)
    c1, c2 = [R(x) for x in f.fields["c1"].items], [R(x) for x in f.fields["c2"].items]
    r1, r2 = R(f.fields["r1"]), R(f.fields["r2"])
    # the sphere's radius is one of the end radii: the other end's radius is r1 + r2 - rs
    return R(v["result"]) == VSF(rs, r1 + r2 - rs, centre_distance(E, c1, c2, "h"))


def sfi_reveal(E, fr):
    """definition of the ghost name VSF at the carrier's own arguments"""
    r1, r2, hh = R(fr.vars["r1"]), R(fr.vars["r2"]), R(fr.vars["hh"])
    E.assume(VSF(r1, r2, hh) == V_sf(r1, r2, hh))


def sfi_hint(E, vars):
    f = vars["self"].fields["obj2"]
    c1, c2 = [R(x) for x in f.fields["c1"].items], [R(x) for x in f.fields["c2"].items]
    E.prove("VolSphereFrustumConeIntersection._get_volume/step/height-is-the-centre-distance", centre_distance(E, c1, c2) == R(vars["hh"]), "annotation")


# ===========================================================================
# _get_volume_frustum_cone: the summation over the tree (traverse client rule)
#
# Ghost vocabulary of the whole-tree statement (definitional axioms are stated by `tree_vocabulary`, which is the
# ghost_entry of the contracts below: it runs in the carrier's own proof and at call sites alike):
#   NK(x), KID(x, k), RANK(c)  children of node x in table order (the order in which `traverse` hands their values to `leave`)
#   NDIST(a, b)                distance between the centres of nodes a and b (the non-negative root of the squared distance);
#                              its defining property NDIST >= 0, NDIST^2 = |a - b|^2 is instantiated by hand at the edges the
#                              leave step looks at (a nonlinear fact under a quantifier would poison every obligation)
#   SHARE(a, x)                what node x contributes at accuracy level a: sphere(x) + [level >= 2] sum over its child edges of the frustum
#                              - [level >= 3] the two sphere/frustum intersections of each child edge
#                              - [level >= 5] the Monte-Carlo terms (pairs of child frusta outside the node's sphere)
#   SUMV(a, S)                 sum of SHARE(a, .) over a finite node set S:  SUMV(a, {}) = 0,  SUMV(a, S + x) = SUMV(a, S) + SHARE(a, x) for x not in S
# The level is an ARGUMENT of SHARE / SUMV: a caller that hands a different level to the worker than the one its own clause speaks
# about gets two unrelated sums, never one symbol with two definitions.
MAXK = 3  # numbers of children the leave step is run for: 0..MAXK (that no node has more is a precondition, proved at the call)
_B = z3.BoolSort()
NK = z3.Function("children_count", _I, _I)
KID = z3.Function("child", _I, _I, _I)
RANK = z3.Function("child_rank", _I, _I)
NDIST = z3.Function("node_distance", _I, _I, _Re)
SHARE = z3.Function("node_share", _I, _I, _Re)
SUMV = z3.Function("sum_of_node_shares", _I, z3.ArraySort(_I, _B), _Re)
# EDGE_OK(p, c): the compartment between node p and its child c lies outside the library's own tolerance bands, i.e.
#   edge_bands(r_p, r_c, |xyz_p - xyz_c|^2)   (C13.outside_tolerance_bands at both ends; radii and squared length only).
# Like NDIST its defining equation is nonlinear, so it is instantiated by hand at the edges the leave step looks at (`edge_ok_at`).
EDGE_OK = z3.Function("compartment_outside_the_tolerance_bands", _I, _I, _B)
MCV = z3.Real("monte_carlo_only_estimate")  # what the (assumed) level-10 worker returns
EMPTY = z3.K(_I, z3.BoolVal(False))


def tpos(t, x):
    return [z3.Select(col(t, a).arr, x) for a in "xyz"]


def trad(t, x):
    return z3.Select(col(t, "r").arr, x)


NODES = z3.Const("all_nodes_of_the_table", z3.ArraySort(_I, _B))  # the node set {0, ..., n-1} (defined in tree_vocabulary)


def share_term(t, acc, x, nk=NK, kid=KID):
    """SHARE(acc, x) written out for a node with at most MAXK children"""
    zero = z3.RealVal(0)
    cn, rn = tpos(t, x), trad(t, x)
    ks = [kid(x, z3.IntVal(j)) for j in range(MAXK)]
    geo = [(tpos(t, c), trad(t, c), NDIST(x, c)) for c in ks]
    has = [nk(x) > j for j in range(MAXK)]
    frusta = sum((z3.If(has[j], VFR(rn, rc, d), zero) for j, (cc, rc, d) in enumerate(geo)), zero)
    ends = sum((z3.If(has[j], VSF(rn, rc, d) + VSF(rc, rn, d), zero) for j, (cc, rc, d) in enumerate(geo)), zero)
    fr_h = [SDF_FRUSTUM(*cn, *cc, rn, rc) for cc, rc, d in geo]
    sp_h = SDF_SPHERE(*cn, rn)
    pairs = sum((z3.If(has[j], MU(SDF_OP["subtract"](SDF_OP["intersect"](fr_h[i], fr_h[j]), sp_h)), zero)
                 for i in range(MAXK) for j in range(i + 1, MAXK)), zero)
    return VSPH(rn) + z3.If(acc >= 2, frusta, zero) - z3.If(acc >= 3, ends, zero) - z3.If(acc >= 5, pairs, zero)


def tree_vocabulary(E, old):
    """DEFINITIONS of the ghost symbols over the entry state (each symbol provably exists on any table: children can be
    enumerated in table order, a distance is the non-negative root of a sum of squares, a finite sum is a fold)."""
    t, acc = old["tree"], to_z3(old["accuracy"], "int") if not isinstance(old["accuracy"], str) else None
    if acc is None:
        acc = z3.IntVal({"low": 3, "middle": 5, "high": 8}.get(old["accuracy"], 0))
    key = ("c14-vocabulary", col(t, "pid").uid, acc.sexpr())
    if any(isinstance(k, tuple) and k and k[0] == "c14-vocabulary" and k[1] != key[1] for k in E.ghost):
        from pyvc.engine import Unsupported

        raise Unsupported("C14 vocabulary: two different trees in one proof")
    if key in E.ghost:
        return
    E.ghost[key] = True
    n, P = nof(t), col(t, "pid").arr
    x, c, k, k2 = (z3.Int(fresh_name(a)) for a in ("x", "c", "k", "m"))
    Rn = lambda a: z3.And(a >= 0, a < n)
    sel = z3.Select
    # children in table order (same axioms as pyvc/traverse_rule.py states for its per-call functions)
    E.assume(z3.ForAll([x], NK(x) >= 0))
    E.assume(z3.ForAll([x, k], z3.Implies(z3.And(0 <= k, k < NK(x)), z3.And(Rn(KID(x, k)), sel(P, KID(x, k)) == x, RANK(KID(x, k)) == k))))
    E.assume(z3.ForAll([x, k, k2], z3.Implies(z3.And(0 <= k, k < k2, k2 < NK(x)), KID(x, k) < KID(x, k2))))
    E.assume(z3.ForAll([c], z3.Implies(z3.And(Rn(c), sel(P, c) >= 0), z3.And(0 <= RANK(c), RANK(c) < NK(sel(P, c)), KID(sel(P, c), RANK(c)) == c))))
    E.assume(z3.ForAll([x], z3.Implies(Rn(x), SHARE(acc, x) == share_term(t, acc, x))))
    E.assume(z3.ForAll([x], sel(NODES, x) == Rn(x)))
    # the fold: SUMV(a, {}) = 0 here; the step equation SUMV(a, S + x) = SUMV(a, S) + SHARE(a, x) (x a node not in S) is instantiated by
    # `sumv_unfold` at the sets the proof mentions -- a universally quantified ARRAY variable sends the solver's model finder
    # into a search that ignores its time limit whenever an obligation fails
    E.assume(SUMV(acc, EMPTY) == 0)
    E.assumptions.add("ghost definitions (C14 whole-tree statement): children_count / child / child_rank (children in table order), "
                      "node_distance (non-negative root of the squared centre distance of two nodes; defining property instantiated at the edges of the leave step), "
                      "compartment_outside_the_tolerance_bands (C13.outside_tolerance_bands at both ends of a parent-child compartment: radii and squared length only; defining equation instantiated at the edges of the leave step), node_share (the per-node inclusion-exclusion share, "
                      f"written out for at most {MAXK} children), sum_of_node_shares (fold of node_share over a finite node set; its step equation instantiated at the sets of the leave step), all_nodes_of_the_table (the set of row positions)")


def gvfc_wf(which):
    from contracts.C04 import depth

    def f(E, v, o):
        t = v["tree"]
        n, P, ids = nof(t), col(t, "pid").arr, col(t, "id").arr
        i = z3.Int(fresh_name("i"))
        inr = z3.And(i > 0, i < n)
        if which == "ids-are-positions":
            return z3.ForAll([i], z3.Implies(z3.And(i >= 0, i < n), z3.Select(ids, i) == i))
        if which == "node-0-is-the-root-and-parents-exist":
            return z3.And(z3.Select(P, 0) == -1, z3.ForAll([i], z3.Implies(inr, z3.And(z3.Select(P, i) >= 0, z3.Select(P, i) < n))))
        if which == "every-node-reaches-the-root":
            return z3.And(depth(0) == 0, z3.ForAll([i], z3.Implies(inr, z3.And(depth(i) == depth(z3.Select(P, i)) + 1, depth(i) > 0))))
        if which == "at-most-three-children-per-node":
            return z3.ForAll([i], z3.Implies(z3.And(i >= 0, i < n), NK(i) <= MAXK))
        if which == "from-level-3-positive-radii-and-distinct-neighbour-centres":
            acc = to_z3(v["accuracy"], "int")
            return z3.Implies(acc >= 3, z3.And(trad(t, 0) > 0, z3.ForAll([i], z3.Implies(inr, z3.And(trad(t, i) > 0, d2(tpos(t, z3.Select(P, i)), tpos(t, i)) > 0)))))
        if which == "from-level-3-every-compartment-outside-the-librarys-own-tolerance-bands":
            acc = to_z3(v["accuracy"], "int")
            return z3.Implies(acc >= 3, z3.ForAll([i], z3.Implies(inr, EDGE_OK(z3.Select(P, i), i))))
        raise KeyError(which)

    return (which, f)


GVFC_BANDS = "from-level-3-every-compartment-outside-the-librarys-own-tolerance-bands"
GVFC_WF = ["ids-are-positions", "node-0-is-the-root-and-parents-exist", "every-node-reaches-the-root", "at-most-three-children-per-node"]
GVFC_PRE3 = "from-level-3-positive-radii-and-distinct-neighbour-centres"


def gvfc_setup(equal_radii=False):
    def setup(S):
        t = sym_tree(S, "t")
        if equal_radii:
            i = z3.Int(fresh_name("i"))
            S.assume(z3.ForAll([i], trad(t, i) == trad(t, 0)))
        return dict(tree=t, accuracy=S.int("accuracy"))

    return setup


def gvfc_child_value(E, node):
    """the value `leave` returned for child `node`.  Ql determines it (centre, radius, handle, cached volume of THE sphere of the
    node), so it is built from the node term directly (one-point rule) — the same terms the whole-tree statement is written in"""
    from swcgeom.utils.volumetric_object import VolSphere

    t = E.top_old["tree"]
    cn, rn = tpos(t, node), trad(t, node)
    c = NArr((3,), [Sym(a, "real") for a in cn], "real")
    return Obj(VolSphere, dict(center=c, radius=Sym(rn, "real"), sdf=_handle(SDF_SPHERE(*cn, rn)), volume=Sym(z3.RealVal(4) / 3 * PI * (rn * rn * rn), "real")))


def edge_ok_at(E, t, p, c):
    """instance of the DEFINITION of the ghost predicate EDGE_OK at the edge (p, c)"""
    E.assume(EDGE_OK(p, c) == edge_bands(trad(t, p), trad(t, c), d2(tpos(t, p), tpos(t, c))))


def gvfc_Ql(E, v, x, val, ctx):
    """the value left for node x is THE sphere of node x (centre, radius, SDF handle; its volume cache, if filled, holds the closed form)"""
    from swcgeom.utils.volumetric_object import VolSphere

    if not (isinstance(val, Obj) and val.cls is VolSphere):
        return False
    t = v["tree"]
    cn, rn = tpos(t, x), trad(t, x)
    cs, rs = sphere_geom(val)
    cl = [rs == rn, val.fields["sdf"].z == SDF_SPHERE(*cn, rn)] + [a == b for a, b in zip(cs, cn)]
    vol = val.fields.get("volume")
    if vol is not None:
        cl.append(R(vol) == z3.RealVal(4) / 3 * PI * (rn * rn * rn))
    E.ghost.setdefault("c14-step-values", []).append((x, val))
    step_node = E.ghost.get("traverse-step-node")
    if step_node is not None and not z3.eq(step_node, x):  # x is a child of the node of this leave step
        edge_ok_at(E, t, step_node, x)
    return z3.And(*cl)


def gvfc_J(E, v, ENT, LEFT, ctx):
    """volume so far = sum of the shares of the nodes left so far"""
    E.ghost["c14-node-set-of-the-last-J"] = LEFT
    acc = to_z3(v["accuracy"], "int")
    sumv_unfold(E, acc, LEFT, nof(v["tree"]))
    return R(v["volume"]) == SUMV(acc, LEFT)


def sumv_unfold(E, acc, S, n):
    """instance of the defining step equation of SUMV at a set written  S0 + {x}  (a z3 Store of `true`)"""
    if z3.is_app(S) and S.decl().kind() == z3.Z3_OP_STORE and z3.is_true(S.arg(2)):
        S0, x = S.arg(0), S.arg(1)
        E.assume(z3.Implies(z3.And(x >= 0, x < n, z3.Not(z3.Select(S0, x))), SUMV(acc, S) == SUMV(acc, S0) + SHARE(acc, x)))


def gvfc_step_hints(E, v, x, ctx):
    """proof steps of the leave step (each its own obligation): per child, the distance the code computed is NDIST(node, child) and the
    code's closed form of the frustum volume is the integral form (= the opaque name VFR)"""
    t = v["tree"]
    cn, rn = tpos(t, x), trad(t, x)
    lab = "_get_volume_frustum_cone/traverse/leave/step"
    steps = []
    for j, (cz, val) in enumerate(E.ghost.get("c14-step-values", [])):
        cc, rc = sphere_geom(val)
        q = d2(cn, cc)
        y = centre_distance(E, cn, cc)  # the root np.linalg.norm produced (one ghost root per argument polynomial)
        d = NDIST(x, cz)
        E.assume(z3.And(d >= 0, d * d == q))  # definition of the ghost function NDIST at this edge (q is a sum of squares)
        _use(E, "nonneg-roots-of-equal-squares-are-equal", y, d)
        E.prove(f"{lab}/distance-to-child-{j}-is-the-edge-length", y == d, "annotation")
        before = list(E.pc)
        E.assume(VFR(rn, rc, d) == V_fr_tot(rn, rc, d))  # definition of the ghost name
        _use(E, "frustum-closed-form-is-the-integral-form", rn, rc, d)
        step = z3.RealVal(1) / 3 * PI * d * (rn * rn + rn * rc + rc * rc) == VFR(rn, rc, d)
        E.prove(f"{lab}/frustum-{j}-closed-form-is-the-integral-form", step, "annotation")
        E.pc[:] = before + [step]
        steps.append(step)
    before = list(E.pc)
    E.assume(VSPH(rn) == V_sphere(rn))  # definition of the ghost name
    step = z3.RealVal(4) / 3 * PI * (rn * rn * rn) == VSPH(rn)
    E.prove(f"{lab}/sphere-closed-form-is-the-integral-form", step, "annotation")
    steps.append(step)
    # what remains (the invariant after the step, the returned value) is linear arithmetic over atoms: the nonlinear hypotheses
    # (definitions of roots, lemma instances, distinct-centre preconditions) are dropped -- weakening the context is always sound
    # and keeps a FAILING obligation from sending the solver into nonlinear model search
    E.pc[:] = [h for h in before if not _nonlinear(h)] + steps


def _nonlinear(h):
    stack, seen = [h], set()
    while stack:
        x = stack.pop()
        if x.get_id() in seen:
            continue
        seen.add(x.get_id())
        if z3.is_quantifier(x):
            stack.append(x.body())
            continue
        if z3.is_app(x):
            k = x.decl().kind()
            ch = x.children()
            if k == z3.Z3_OP_MUL and sum(1 for c in ch if not z3.is_rational_value(c) and not z3.is_int_value(c)) >= 2:
                return True
            if k in (z3.Z3_OP_DIV, z3.Z3_OP_IDIV, z3.Z3_OP_MOD) and not (z3.is_rational_value(ch[1]) or z3.is_int_value(ch[1])):
                return True
            if k == z3.Z3_OP_POWER:
                return True
            stack.extend(ch)
    return False


@_lemma("nonneg-roots-of-equal-squares-are-equal", 2)
def _roots_equal(a, b):
    return z3.Implies(z3.And(a >= 0, b >= 0, a * a == b * b), a == b)


def gvfc_post(E, v, o):
    acc = to_z3(o["accuracy"], "int")
    return z3.If(acc <= 9, R(v["result"]) == SUMV(acc, NODES), R(v["result"]) == MCV)


def gvfc_post_hint(E, vars):
    """the node set the traversal covered (the subtree of node 0, the set the rule's conclusion speaks about) is the set of all nodes"""
    S_all = E.ghost.get("c14-node-set-of-the-last-J")
    if S_all is None:
        return
    E.prove("_get_volume_frustum_cone/step/traversal-covered-exactly-the-nodes-of-the-table", S_all == NODES, "annotation")


def register(Rg: Registry):
    Rg.add(f"{VOL}:_get_volume_frustum_cone.<locals>.leave", prop="C14",
           variants={f"{k}-children": leave_setup(k) for k in (0, 1, 2, 3)},
           requires=[("node-in-range-levels-1-to-9-and-from-level-3-positive-radii-distinct-centres", leave_pre),
                     ("from-level-3-every-child-compartment-outside-the-librarys-own-tolerance-bands", leave_bands)],
           ensures=[("volume-grows-by-the-nodes-inclusion-exclusion-share", leave_delta),
                    ("returns-the-nodes-sphere", leave_returns_sphere),
                    ("children-untouched", leave_children_kept)],
           options=dict(hints={"post/volume-grows-by-the-nodes-inclusion-exclusion-share": leave_hint}),
           notes="children lists of exactly 0, 1, 2, 3 spheres (variants), everything else symbolic (accuracy 1..9 symbolic). "
                 "General radii; no assumed contract below level 5 (levels >= 5 with >= 2 children: Monte-Carlo objects, assumed).")

    # sphere ∩ frustum, sphere concentric with one end, BOTH taper directions: the dispatch of _get_volume on top of C13's verified
    # contract of calc_concentric_intersect_volume (used modularly: its precondition is an obligation here)
    Rg.add(SFI_KEY, prop="C14",
           variants={f"sphere-at-{e}-end/{nm}": sfi_setup(e, tp) for e in ("c1", "c2") for nm, tp in (("widening", False), ("taper", True))},
           requires=[("concentric-with-one-end", sfi_pre), ("radii-and-height-outside-the-librarys-own-tolerance-bands", sfi_bands)],
           returns="real",
           ensures=[("equals-integral-of-the-smaller-profile", sfi_post)],
           lemmas=[sfi_reveal],
           options=dict(hints={"post/equals-integral-of-the-smaller-profile": sfi_hint}),
           notes="the closed form itself (both taper directions) is proved in contracts/C13.py")

    # ASSUMED contract (never verified): Monte-Carlo volume of a generic SDF object.  "Returns the measure of the set the
    # SDF handle denotes" — sampling error is ignored, so levels >= 5 with >= 2 children are proved RELATIVE to this idealisation.
    Rg.add(f"{VO}:VolMCObject._get_volume", prop="C14", trusted=True, returns="real",
           modifies=["self.cache_volume", "self.cache_volume_n_samples"],
           ensures=[("is-the-measure-of-the-denoted-set", lambda E, v, o: z3.And(R(v["result"]) == MU(v["self"].fields["sdf"].z), R(v["result"]) >= 0))])

    # ------------------------------------------------------------------ _get_volume_frustum_cone (the summation)
    from pyvc.traverse_rule import Rule

    # ASSUMED (sampling): the level-10 worker returns some real, named MCV
    Rg.add(f"{VOL}:_get_volume_frustum_cone_mc_only", prop="C14", trusted=True, returns="real",
           ensures=[("is-the-monte-carlo-estimate", lambda E, v, o: R(v["result"]) == MCV)])
    rule = Rule(gvfc_J, Ql=gvfc_Ql, modifies=[("local", "volume", "real")], leave_kind=gvfc_child_value, leave_arities=list(range(MAXK + 1)),
                kids=(NK, KID, RANK), ghost_leave=gvfc_step_hints, fork_steps=True)
    Rg.add(f"{VOL}:_get_volume_frustum_cone", prop="C14",
           setup=gvfc_setup(False),
           requires=[gvfc_wf(w) for w in GVFC_WF] + [("level-1-to-10", lambda E, v, o: z3.And(to_z3(v["accuracy"], "int") >= 1, to_z3(v["accuracy"], "int") <= 10)), gvfc_wf(GVFC_PRE3), gvfc_wf(GVFC_BANDS)],
           ghost_entry=tree_vocabulary, returns="real",
           ensures=[("volume-is-the-sum-over-all-nodes-of-the-nodes-inclusion-exclusion-share", gvfc_post)],
           options=dict(traverse_rule=rule, hints={"post/volume-is-the-sum-over-all-nodes-of-the-nodes-inclusion-exclusion-share": gvfc_post_hint}),
           notes="traverse client rule with J: volume = sum of node_share over the nodes left so far; the leave step runs the REAL closure for "
                 "0..3 children (that no node has more is a precondition); general radii; no assumed contract below level 5")

    # ------------------------------------------------------------------ get_volume (dispatcher)
    LEVELS = {"low": 3, "middle": 5, "high": 8}

    def gv_setup(acc, method="frustum_cone"):
        def setup(S):
            a = S.int("accuracy") if acc is int else acc
            return dict(tree=sym_tree(S, "t"), method=method, accuracy=a)

        return setup

    def level_of(a):
        return LEVELS.get(a) if isinstance(a, str) else a

    def with_level(clause):
        """a precondition of the worker, stated for get_volume's own `accuracy` (a level name stands for its number)"""
        lab, f = clause

        def g(E, v, o):
            lvl = level_of(v["accuracy"])
            if lvl is None:
                return True  # unknown level name: the call raises before the worker is reached
            return f(E, dict(v, accuracy=lvl), o)

        return (lab, g)

    def gv_dispatch(E, v, o):
        calls = [vs for nm, vs in E.call_log if nm == "_get_volume_frustum_cone"]
        if len(calls) != 1 or calls[0]["tree"].uid != o["tree"].uid:
            return False
        lvl = level_of(o["accuracy"])
        if lvl is None:
            return False
        return to_z3(calls[0]["accuracy"], "int") == to_z3(lvl, "int")

    def gv_value(E, v, o):
        lvl = level_of(o["accuracy"])
        if lvl is None:
            return False
        return z3.If(to_z3(lvl, "int") <= 9, R(v["result"]) == SUMV(to_z3(lvl, "int"), NODES), R(v["result"]) == MCV)

    def gv_level_ok(E, v, o):
        lvl = level_of(o["accuracy"])
        return False if lvl is None else z3.And(to_z3(lvl, "int") >= 1, to_z3(lvl, "int") <= 10)

    def gv_bad_level(E, v, o):
        a = v["accuracy"]
        return False if isinstance(a, str) else z3.Or(to_z3(a, "int") <= 0, to_z3(a, "int") > 10)

    Rg.add(f"{VOL}:get_volume", prop="C14",
           variants={"int-level": gv_setup(int), "low": gv_setup("low"), "middle": gv_setup("middle"), "high": gv_setup("high"),
                     "unknown-name": gv_setup("ultra"), "unknown-method": gv_setup(int, "voxel")},
           requires=[gvfc_wf(w) for w in GVFC_WF] + [with_level(gvfc_wf(GVFC_PRE3)), with_level(gvfc_wf(GVFC_BANDS))],
           ghost_entry=tree_vocabulary,
           raises={"AssertionError": ("only-for-a-level-outside-1-to-10", gv_bad_level),
                   "KeyError": ("only-for-an-unknown-level-name", lambda E, v, o: isinstance(v["accuracy"], str) and v["accuracy"] not in LEVELS),
                   "ValueError": ("only-for-an-unknown-method", lambda E, v, o: v["method"] != "frustum_cone")},
           ensures=[("names-map-to-3-5-8-and-one-call-of-the-worker-with-that-level-and-tree", gv_dispatch),
                    ("volume-is-the-sum-over-all-nodes-of-the-nodes-inclusion-exclusion-share-at-that-level", gv_value),
                    ("accepted-level-is-1-to-10", gv_level_ok),
                    ("method-is-frustum-cone", lambda E, v, o: o["method"] == "frustum_cone")],
           notes="level names are concrete strings (variants); integer level symbolic; the worker is used through its VERIFIED contract")


# ===========================================================================
# Union lemma (pure real arithmetic over the spec functions; obligations C14/lemma/...)
def lemmas():
    """One compartment laid on the z-axis: parent sphere (radius rp) at z = 0, child sphere (rc) at z = d, frustum between.
    Squared profiles at height z: sp = rp^2 - z^2, sc = rc^2 - (d - z)^2 (a negative value = the sphere does not reach z),
    fr = (rp + (rc - rp) z / d)^2 on [0, d].  Volumes of solids of revolution are pi * integral of the squared profile, written
    with the antiderivatives F (sphere) and G (frustum) of C13.  Together the lemmas say: under d >= rp, d >= rc the union's
    profile max(sp+, fr, sc+) on [0, d] is  sp on [0, mp], fr on [mp, d - mc], sc on [d - mc, d]  (mp, mc the split points of
    V_sf at the two ends), its integral is V_fr + (hemisphere_p - V_sf_p) + (hemisphere_c - V_sf_c), outside [0, d] only the own
    end sphere is present; hence per edge  V_fr - V_sf_p - V_sf_c  and per node one full sphere — what `leave` adds at levels >= 3."""
    out = []
    rp, rc, d, z = z3.Reals("rp rc d z")
    r1, r2, h = z3.Reals("r1 r2 h")
    zmax = lambda x, y: z3.If(x >= y, x, y)
    pos = lambda x: zmax(x, z3.RealVal(0))
    fr = lambda t: (rp + (rc - rp) * t / d) * (rp + (rc - rp) * t / d)
    sp = lambda t: rp * rp - t * t
    sc = lambda t: rc * rc - (d - t) * (d - t)
    hemi = lambda r: PI * (F(r, r) - F(r, 0))

    # --- the split point used in V_sf is where the two profiles cross (justifies V_sf = pi * integral of min(rho_S, rho_F)^2)
    f1 = lambda t: (r1 + (r2 - r1) * t / h) * (r1 + (r2 - r1) * t / h)
    s1 = lambda t: r1 * r1 - t * t
    m, top = sf_split(r1, r2, h), zmin(h, r1)
    one = [r1 > 0, r2 > 0, h > 0]
    out.append(("sf-split-point-lies-in-the-integration-range", one, z3.And(m >= 0, m <= top)))
    out.append(("sf-frustum-profile-is-the-smaller-one-before-the-split-point", one + [z >= 0, z <= m], f1(z) <= s1(z)))
    out.append(("sf-sphere-profile-is-the-smaller-one-after-the-split-point", one + [z >= m, z <= top, m < top], s1(z) <= f1(z)))
    out.append(("sf-without-taper-is-the-spec-of-C13", one + [r2 >= r1], V_sf(r1, r2, h) == C13.V_sf_widening(r1, h)))

    # --- scalar algebra of the taper branch of calc_concentric_intersect_volume (the division form of C13's `taper-case/*` lemmas;
    #     the code's vector geometry that leads to these formulas is proved in contracts/C13.py):
    # with t* the larger root of the sphere/slant-line quadratic, h1 = t* h, r3 = r1 + t* (r2 - r1), the code's case formulas give V_sf
    cap = lambda r, hh: PI * hh * hh * (3 * r - hh) / 3
    frc = lambda ra, rb, hh: z3.RealVal(1) / 3 * PI * hh * (ra * ra + ra * rb + rb * rb)
    ts = 2 * r1 * (r1 - r2) / (h * h + (r2 - r1) * (r2 - r1))
    h1, r3 = ts * h, r1 + ts * (r2 - r1)
    tap = one + [r2 < r1]
    out.append(("taper-branch-formulas-give-V_sf/frustum-inside-the-sphere", tap + [ts > 1], frc(r1, r2, h) == V_sf(r1, r2, h)))
    out.append(("taper-branch-formulas-give-V_sf/frustum-higher-than-the-sphere", tap + [ts <= 1, h >= r1], cap(r1, r1 - h1) + frc(r1, r3, h1) == V_sf(r1, r2, h)))
    out.append(("taper-branch-formulas-give-V_sf/frustum-lower-than-the-sphere", tap + [ts <= 1, h < r1],
                cap(r1, r1 - h1) + frc(r1, r3, h1) - cap(r1, r1 - h) == V_sf(r1, r2, h)))

    # --- sub-lemma: the lens of the two end spheres lies inside the frustum (holds for every spacing d > 0)
    any_d = [rp > 0, rc > 0, d > 0, z >= 0, z <= d]
    out.append(("lens-of-the-end-spheres-lies-inside-the-frustum", any_d, z3.Or(sp(z) <= fr(z), sc(z) <= fr(z))))
    a, b, f = z3.Reals("a b f")
    out.append(("max-of-profiles-decomposes-when-at-most-one-sphere-exceeds-the-frustum", [a >= 0, b >= 0, f >= 0, z3.Or(a <= f, b <= f)],
                zmax(a, zmax(f, b)) == f + (a - zmin(a, f)) + (b - zmin(b, f))))

    # --- the union's profile on one compartment, piece by piece
    spaced = [rp > 0, rc > 0, d >= rp, d >= rc]
    mp, mc = sf_split(rp, rc, d), sf_split(rc, rp, d)
    mx = zmax(pos(sp(z)), zmax(fr(z), pos(sc(z))))
    inside = spaced + [z >= 0, z <= d]
    out.append(("union-breakpoints-are-ordered", spaced, z3.And(0 <= mp, mp <= d - mc, d - mc <= d)))
    out.append(("union-profile-is-the-parent-sphere-up-to-its-split-point", inside + [z <= mp], mx == sp(z)))
    out.append(("union-profile-is-the-frustum-between-the-split-points", inside + [z >= mp, z <= d - mc], mx == fr(z)))
    out.append(("union-profile-is-the-child-sphere-after-its-split-point", inside + [z >= d - mc], mx == sc(z)))
    out.append(("outside-the-compartment-only-the-own-end-sphere-is-present", spaced, z3.And(z3.Implies(z < 0, sc(z) < 0), z3.Implies(z > d, sp(z) < 0))))

    # --- integral of the union's profile over [0, d] (by pieces, with the antiderivatives) = V_fr + free parts of the hemispheres
    def pieces(ra, rb, dd):
        ma, mb = sf_split(ra, rb, dd), sf_split(rb, ra, dd)
        return PI * (F(ra, ma) - F(ra, 0)) + PI * (G(ra, rb, dd, dd - mb) - G(ra, rb, dd, ma)) + PI * (F(rb, mb) - F(rb, 0))

    def edge(ra, rb, dd):
        return V_fr(ra, rb, dd) - V_sf(ra, rb, dd) - V_sf(rb, ra, dd)

    out.append(("union-integral-over-a-compartment-is-frustum-plus-free-hemisphere-parts", spaced,
                pieces(rp, rc, d) == V_fr(rp, rc, d) + (hemi(rp) - V_sf(rp, rc, d)) + (hemi(rc) - V_sf(rc, rp, d))))
    out.append(("hemisphere-is-half-the-sphere", [], 2 * hemi(rp) == V_sphere(rp)))
    # two-node tree: outer hemisphere + compartment + outer hemisphere = what leave adds at levels >= 3 (leaf: sphere; parent: sphere + edge)
    out.append(("two-node-capsule-is-the-sum-of-the-leave-increments", spaced,
                hemi(rp) + pieces(rp, rc, d) + hemi(rc) == V_sphere(rc) + (V_sphere(rp) + edge(rp, rc, d))))
    # three collinear nodes (chain 0-1-2, or a root 1 with arms 0 and 2 on opposite sides): compartments are adjacent intervals
    ra, rb, rcc, dab, dbc = z3.Reals("ra rb rcc dab dbc")
    chain = [ra > 0, rb > 0, rcc > 0, dab >= ra, dab >= rb, dbc >= rb, dbc >= rcc]
    out.append(("three-collinear-nodes-union-is-the-sum-of-the-leave-increments", chain,
                hemi(ra) + pieces(ra, rb, dab) + pieces(rb, rcc, dbc) + hemi(rcc)
                == V_sphere(ra) + V_sphere(rb) + V_sphere(rcc) + edge(ra, rb, dab) + edge(rb, rcc, dbc)))
    return out
