"""C19 — population containers: sidecar contracts (no edit of /repo)."""
import z3

from pyvc.spec import Registry, SpecFn
from pyvc import ext_C19 as X
from pyvc.values import Iter, Opaque, PList, Sym, fresh, fresh_name, to_z3

POP = "swcgeom/core/population.py"

# ---------------------------------------------------------------------------
# The protocol `Trees` (opaque members of a chain): __len__ and __getitem__ are
# uninterpreted functions tlen(ref) >= 0 and item(ref, k).
_I = z3.IntSort()
TLEN = z3.Function("tlen", _I, _I)
ITEM = z3.Function("item", _I, _I, _I)


def _p_len(eng, recv, args, kwargs):
    eng.assume(TLEN(recv.z) >= 0)
    return Sym(TLEN(recv.z), "int")


def _p_getitem(eng, recv, args, kwargs):
    if isinstance(args[0], slice):
        # the protocol `Trees` is __getitem__(int) / __len__: every container of the module (LazyLoadingTrees, ChainTrees: `key < -length`
        # in _get_idx; NestTrees: a list used as an index of its container) answers a slice key with TypeError
        eng.assumptions.add("C19-model: a `Trees` container (protocol: __getitem__(int), __len__) answers a slice key with TypeError")
        from pyvc.engine import ProgExc

        raise ProgExc(TypeError, "slice key handed to a Trees container")
    if not eng.spec_mode and not getattr(eng, "pure_mode", 0):
        # ghost log: a lookup in a member is a REQUEST for that member's tree (it may load a file there); clauses count
        # these with ncalls('Trees.__getitem__') / callarg('Trees.__getitem__', j, 'self' | 'key')
        eng.call_log.append(("Trees.__getitem__", dict(self=Sym(recv.z, "ref"), key=args[0])))
    return Sym(ITEM(recv.z, to_z3(args[0], "int")), "ref")


TREES_PROTO = {"__len__": _p_len, "__getitem__": _p_getitem}

GHOST = {
    "tlen": SpecFn(lambda e, a, k: Sym(TLEN(to_z3(a[0].z if isinstance(a[0], Opaque) else a[0], "int")), "int"), "tlen"),
    "item": SpecFn(lambda e, a, k: Sym(ITEM(to_z3(a[0].z if isinstance(a[0], Opaque) else a[0], "int"), to_z3(a[1], "int")), "ref"), "item"),
}


def _members(S, name="members"):
    p = S.plist("ref", name=name)
    p.proto = TREES_PROTO
    i = z3.Int(fresh_name("i"))
    S.assume(z3.ForAll([i], TLEN(z3.Select(p.cols[0], i)) >= 0))
    return p


def chain_obj(S):
    from swcgeom.core.population import ChainTrees

    trees = _members(S, "trees")
    cumsum = S.arr("int", name="cumsum")
    return S.obj(ChainTrees, trees=trees, cumsum=cumsum)


WF_CHAIN = [
    "wf-cumsum-len :: len_(self.cumsum) == len_(self.trees) + 1",
    "wf-cumsum-0 :: self.cumsum[0] == 0",
    "wf-cumsum-step :: forall(0, len_(self.trees), lambda m: self.cumsum[m + 1] - self.cumsum[m] == tlen(self.trees[m]))",
    "wf-cumsum-mono :: forall(lambda a, b: implies(0 <= a and a <= b and b <= len_(self.trees), self.cumsum[a] <= self.cumsum[b]))",
]


def register(R: Registry):
    # ---------------------------------------------------------------- _get_idx
    R.add(
        f"{POP}:_get_idx",
        prop="C19",
        setup=lambda S: dict(key=S.int("key"), length=S.int("length")),
        requires=["length >= 0"],
        raises={"IndexError": "out-of-range-only :: key < -length or key >= length"},
        returns="int",
        ensures=[
            "in-range-accepted :: -length <= old(key) and old(key) < length",
            "non-negative-kept :: implies(old(key) >= 0, result == old(key))",
            "negative-wraps :: implies(old(key) < 0, result == old(key) + length)",
            "result-in-range :: 0 <= result and result < length",
        ],
    )

    # ------------------------------------------------------ ChainTrees.__len__
    R.add(
        f"{POP}:ChainTrees.__len__",
        prop="C19",
        setup=lambda S: dict(self=chain_obj(S), __ghost__=GHOST),
        requires=WF_CHAIN,
        returns="int",
        ensures=["total-length :: result == self.cumsum[len_(self.trees)]"],
    )

    # -------------------------------------------------- ChainTrees.__getitem__
    R.add(
        f"{POP}:ChainTrees.__getitem__",
        prop="C19",
        setup=lambda S: dict(self=chain_obj(S), key=S.int("key"), __ghost__=GHOST),
        requires=WF_CHAIN,
        raises={"IndexError": "out-of-range-only :: key < -self.cumsum[len_(self.trees)] or key >= self.cumsum[len_(self.trees)]"},
        returns="ref",
        ensures=[
            "in-range-accepted :: -self.cumsum[len_(self.trees)] <= key and key < self.cumsum[len_(self.trees)]",
            # the whole view: the element is the one of the unique member whose
            # cumulative window contains the normalised index
            "element-of-the-right-member :: exists(0, len_(self.trees), lambda m: "
            "self.cumsum[m] <= ite(key < 0, key + self.cumsum[len_(self.trees)], key) and "
            "ite(key < 0, key + self.cumsum[len_(self.trees)], key) < self.cumsum[m + 1] and "
            "same(result, item(self.trees[m], ite(key < 0, key + self.cumsum[len_(self.trees)], key) - self.cumsum[m])))",
            # "only when that file's tree is requested", through a chain: exactly ONE member is asked, for exactly that tree
            "exactly-one-member-lookup-for-the-requested-tree :: ncalls('Trees.__getitem__') == 1 and exists(0, len_(self.trees), lambda m: "
            "self.cumsum[m] <= ite(key < 0, key + self.cumsum[len_(self.trees)], key) and "
            "ite(key < 0, key + self.cumsum[len_(self.trees)], key) < self.cumsum[m + 1] and "
            "same(callarg('Trees.__getitem__', 0, 'self'), self.trees[m]) and "
            "callarg('Trees.__getitem__', 0, 'key') == ite(key < 0, key + self.cumsum[len_(self.trees)], key) - self.cumsum[m])",
        ],
        loops={
            0: dict(
                invariant=[
                    "bounds :: 1 <= i and i <= j and j <= len_(self.trees)",
                    "lower :: self.cumsum[i - 1] <= idx",
                    "upper :: idx < self.cumsum[j]",
                ],
                decreases="j - i",
            )
        },
    )

    # ------------------------------------------------------ ChainTrees.__init__
    def init_list(S):
        from swcgeom.core.population import ChainTrees

        m = _members(S, "arg")
        return dict(self=S.obj(ChainTrees), trees=m, members=m, __ghost__=GHOST)

    def init_iter(S):
        from swcgeom.core.population import ChainTrees

        m = _members(S, "arg")
        return dict(self=S.obj(ChainTrees), trees=Iter(m), members=m, __ghost__=GHOST)

    R.add(
        f"{POP}:ChainTrees.__init__",
        prop="C19",
        variants={"list": init_list, "one-shot-iterator": init_iter},
        ensures=[
            # written from the property: "chaining populations concatenates them in
            # order with the right total length" for ANY iterable of members
            "members-kept :: len_(self.trees) == len_(members) and forall(0, len_(members), lambda m: same(self.trees[m], members[m]))",
            "cumsum-length :: len_(self.cumsum) == len_(self.trees) + 1",
            "cumsum-0 :: self.cumsum[0] == 0",
            "cumsum-step :: forall(0, len_(self.trees), lambda m: self.cumsum[m + 1] - self.cumsum[m] == tlen(self.trees[m]))",
            "cumsum-mono :: forall(lambda a, b: implies(0 <= a and a <= b and b <= len_(self.trees), self.cumsum[a] <= self.cumsum[b]))",
        ],
    )


# ===========================================================================
# LazyLoadingTrees / Population / Populations / NestTrees
TREE = "swcgeom/core/tree.py"
TREE_OF = z3.Function("tree_of", _I, _I)  # ghost: the tree stored in a file
GHOST["tree_of"] = SpecFn(lambda e, a, k: Sym(TREE_OF(to_z3(a[0], "int")), "oref"), "tree_of")

# GHOST STATE of a LazyLoadingTrees object: the field `reads` (a list of ints, one per file) counts the calls of
# Tree.from_swc made for that slot.  The program never touches it: it is created by the constructor's ghost_exit (also when
# the constructor is inlined at a call site), incremented by the ghost_exit of `load` once per LOGGED Tree.from_swc call,
# and every other method sees it only through the contracts of `load` / `__getitem__`.  The object invariant
# 0 <= reads[j] <= 1  and  (reads[j] == 0  <->  trees[j] is None)  makes "each file is read at most once" a clause that
# every method re-establishes, and the frame clauses ("only the requested slot's counter may move") make "only on request" one.


def lazy_obj(S, name="lz"):
    from swcgeom.core.population import LazyLoadingTrees
    from pyvc.values import PDict

    swcs = S.plist("ref", name=name + "_swcs")
    trees = S.plist("oref", name=name + "_trees")
    reads = S.plist("int", name=name + "_reads")
    return S.obj(LazyLoadingTrees, swcs=swcs, trees=trees, kwargs=PDict({}), reads=reads)


def wf_lazy(p="self"):
    return [
        f"wf-same-length :: len_({p}.trees) == len_({p}.swcs) and len_({p}.reads) == len_({p}.swcs)",
        f"wf-cache-is-file-content :: forall(0, len_({p}.swcs), lambda j: implies(not same({p}.trees[j], None), same({p}.trees[j], tree_of({p}.swcs[j]))))",
        f"wf-each-file-read-at-most-once-and-cached-iff-read :: forall(0, len_({p}.swcs), lambda j: 0 <= {p}.reads[j] and {p}.reads[j] <= 1 and iff({p}.reads[j] == 0, same({p}.trees[j], None)))",
    ]


def frame_lazy(p="self", slot=None):
    """what a method may do to the cache and the read counters: nothing outside `slot` (an expression), a cached tree is never
    dropped or replaced, no counter ever decreases, and the counter of `slot` moves by one exactly when that slot was empty"""
    out = [
        f"files-untouched :: len_({p}.swcs) == len_(old({p}.swcs)) and forall(0, len_({p}.swcs), lambda j: same({p}.swcs[j], old({p}.swcs)[j]))",
        f"lengths-kept :: len_({p}.trees) == len_(old({p}.trees)) and len_({p}.reads) == len_(old({p}.reads))",
    ]
    if slot is None:
        out.append(f"nothing-read-nothing-loaded :: forall(0, len_({p}.trees), lambda j: same({p}.trees[j], old({p}.trees)[j]) and {p}.reads[j] == old({p}.reads)[j])")
    else:
        out += [
            f"only-the-requested-slot-may-change :: forall(0, len_({p}.trees), lambda j: implies(j != {slot}, same({p}.trees[j], old({p}.trees)[j]) and {p}.reads[j] == old({p}.reads)[j]))",
            f"requested-file-read-only-if-not-cached :: {p}.reads[{slot}] == old({p}.reads)[{slot}] + ite(same(old({p}.trees)[{slot}], None), 1, 0) "
            f"and implies(not same(old({p}.trees)[{slot}], None), same({p}.trees[{slot}], old({p}.trees)[{slot}]))",
        ]
    return out


WF_LAZY = wf_lazy("self")
NORM = "ite(key < 0, key + len_(self.swcs), key)"
# a method / an item step may call the reader itself at most once, and then for the file of the slot that was requested
DIRECT_READ = "ncalls('Tree.from_swc') <= 1 and implies(ncalls('Tree.from_swc') == 1, same(callarg('Tree.from_swc', 0, 'swc_file'), {p}.swcs[{slot}]))"


def _direct_reads(calls):
    return sum(1 for nm, _ in calls if nm == "Tree.from_swc")


def _bump(reads, slot, n):
    """ghost update reads[slot] += n"""
    if n:
        kz = to_z3(slot, "int")
        reads.cols = [z3.Store(reads.cols[0], kz, z3.Select(reads.cols[0], kz) + n)]


def _count_reads(E, v, o):
    """ghost_exit of LazyLoadingTrees.load: reads[key] += number of Tree.from_swc calls this execution made"""
    _bump(v["self"].fields["reads"], v["key"], _direct_reads(E.call_log))


def _count_getitem_reads(E, v, o):
    """ghost_exit of LazyLoadingTrees.__getitem__: a Tree.from_swc call made by __getitem__ ITSELF (not through `load`, whose
    contract counts its own) is a read on behalf of the requested slot"""
    n = _direct_reads(E.call_log)
    if n:
        key, ln = to_z3(o["key"], "int"), v["self"].fields["swcs"].nz()
        _bump(v["self"].fields["reads"], Sym(z3.If(key < 0, key + ln, key), "int"), n)


def _count_item_reads(E, v, k, item, calls):
    """item ghost of LazyLoadingTrees.__iter__ (pyvc/ext_C19.py: with_item_ghost): a Tree.from_swc call made while item k is
    produced, by the element ITSELF (not through __getitem__ / load, whose contracts count their own), is a read on behalf of slot k"""
    _bump(v["self"].fields["reads"], k, _direct_reads(calls))


def _init_reads(E, v, o):
    """ghost_exit of LazyLoadingTrees.__init__ (also run where the constructor is inlined): no file has been read"""
    from pyvc.values import zint

    s = v["self"]
    n = s.fields["swcs"]
    r = PList()
    r.items, r.kinds, r.tup, r.name = None, ["int"], False, "reads"
    r.cols = [z3.K(_I, z3.IntVal(0))]
    r.n = zint(len(n.items)) if n.items is not None else n.n
    s.fields["reads"] = r


def register_lazy(R):
    # ASSUMED contract of the reader.  `not None` is the proved clause C02 `Tree.from_swc/post/something-is-returned`
    # (contracts/C02.py, registered under the alias key Tree.<locals>.from_swc because its carrier is verified over an abstract
    # file); `tree_of(file)` NAMES the tree a file denotes (reader deterministic, file system static while the population is
    # used; what that tree is, is C01/C02).  Unreadable / malformed files (C02: ValueError) are outside C19's quantifier.
    R.add(
        f"{TREE}:Tree.from_swc",
        prop="C19",
        trusted=True,
        returns="oref",
        ensures=["not same(result, None)", "same(result, tree_of(swc_file))"],
    )
    R.add(
        f"{POP}:LazyLoadingTrees.__len__",
        prop="C19",
        setup=lambda S: dict(self=lazy_obj(S), __ghost__=GHOST),
        returns="int",
        # every public method keeps the object invariant: asking for the length reads nothing and changes nothing at all
        ensures=["number-of-files :: result == len_(self.swcs)",
                 "asking-for-the-length-requests-nothing :: ncalls('Tree.from_swc') == 0 and ncalls('LazyLoadingTrees.load') == 0 and ncalls('LazyLoadingTrees.__getitem__') == 0"]
        + frame_lazy("self"),
    )
    R.add(
        f"{POP}:LazyLoadingTrees.__init__",
        prop="C19",
        setup=lambda S: (lambda m: dict(self=S.obj(__import__("swcgeom.core.population", fromlist=["x"]).LazyLoadingTrees), swcs=m, __ghost__=GHOST))(S.plist("ref", name="files")),
        ghost_exit=_init_reads,
        options=dict(ghost_exit_inlined=True),
        ensures=[
            "files-kept :: len_(self.swcs) == len_(swcs) and forall(0, len_(swcs), lambda j: same(self.swcs[j], swcs[j]))",
            "nothing-loaded :: len_(self.trees) == len_(self.swcs) and forall(0, len_(self.swcs), lambda j: same(self.trees[j], None))",
            "construction-reads-no-file :: ncalls('Tree.from_swc') == 0",
            "no-file-counted-as-read :: len_(self.reads) == len_(self.swcs) and forall(0, len_(self.swcs), lambda j: self.reads[j] == 0)",
        ] + [c.replace("wf-", "inv-established/") for c in wf_lazy("self")],
    )
    R.add(
        f"{POP}:LazyLoadingTrees.load",
        prop="C19",
        setup=lambda S: dict(self=lazy_obj(S), key=S.int("key"), __ghost__=GHOST),
        requires=WF_LAZY + ["key-in-range :: 0 <= key and key < len_(self.swcs)"],
        modifies=["self.trees", "self.reads"],
        ghost_exit=_count_reads,
        ensures=[
            "loaded :: not same(self.trees[key], None)",
            "is-the-file-content :: same(self.trees[key], tree_of(self.swcs[key]))",
            "length-kept :: len_(self.trees) == len_(old(self.trees))",
            "others-untouched :: forall(0, len_(self.trees), lambda j: implies(j != key, same(self.trees[j], old(self.trees)[j])))",
            "cached-tree-kept-without-reading :: implies(not same(old(self.trees)[key], None), same(self.trees[key], old(self.trees)[key]) and ncalls('Tree.from_swc') == 0)",
            "reads-own-file-exactly-once :: implies(same(old(self.trees)[key], None), ncalls('Tree.from_swc') == 1 and same(callarg('Tree.from_swc', 0, 'swc_file'), self.swcs[key]))",
            "never-reads-twice :: ncalls('Tree.from_swc') <= 1",
            # the per-file read counter (ghost): counts the logged reads, stays <= 1, moves for the requested slot only
            "read-counter-counts-the-read :: self.reads[key] == old(self.reads)[key] + ite(same(old(self.trees)[key], None), 1, 0)",
            "other-counters-untouched :: len_(self.reads) == len_(old(self.reads)) and forall(0, len_(self.reads), lambda j: implies(j != key, self.reads[j] == old(self.reads)[j]))",
            "each-file-read-at-most-once :: self.reads[key] <= 1",
        ] + [c.replace("wf-", "inv-kept/") for c in wf_lazy("self")],
    )
    R.add(
        f"{POP}:LazyLoadingTrees.__getitem__",
        prop="C19",
        setup=lambda S: dict(self=lazy_obj(S), key=S.int("key"), __ghost__=GHOST),
        requires=WF_LAZY,
        modifies=["self.trees", "self.reads"],
        raises={"IndexError": "out-of-range-only :: key < -len_(self.swcs) or key >= len_(self.swcs)"},
        returns="oref",
        ghost_exit=_count_getitem_reads,
        ensures=[
            "in-range-accepted :: -len_(self.swcs) <= key and key < len_(self.swcs)",
            f"tree-of-the-ith-file :: same(result, tree_of(self.swcs[{NORM}])) and not same(result, None)",
            f"a-direct-read-is-of-the-requested-file-only :: {DIRECT_READ.format(p='self', slot=NORM)}",
            f"only-that-entry-changes :: len_(self.trees) == len_(old(self.trees)) and forall(0, len_(self.trees), lambda j: implies(j != {NORM}, same(self.trees[j], old(self.trees)[j])))",
            f"loads-only-the-requested-file :: ncalls('LazyLoadingTrees.load') == 1 and callarg('LazyLoadingTrees.load', 0, 'key') == {NORM}",
            f"returns-the-cached-tree :: same(result, self.trees[{NORM}])",
        ] + [c for c in frame_lazy("self", NORM) if not c.startswith("files-untouched")] + [c.replace("wf-", "inv-kept/") for c in wf_lazy("self")],
    )

    def pop_obj(S):
        from swcgeom.core.population import Population

        return S.obj(Population, trees=lazy_obj(S), root="")

    R.add(
        f"{POP}:Population.__init__",
        prop="C19",
        setup=lambda S: dict(self=S.obj(__import__("swcgeom.core.population", fromlist=["x"]).Population), swcs=lazy_obj(S), __ghost__=GHOST),
        requires=wf_lazy("swcs"),
        ensures=[
            "holds-the-trees :: same(self.trees, swcs)",
            "at-most-a-probe-of-the-first-file :: ncalls('LazyLoadingTrees.__getitem__') <= 1 and implies(ncalls('LazyLoadingTrees.__getitem__') == 1, callarg('LazyLoadingTrees.__getitem__', 0, 'key') == 0)",
            "no-direct-read :: ncalls('Tree.from_swc') == 0 and ncalls('LazyLoadingTrees.load') == 0",
            "only-the-first-file-may-have-been-read :: len_(swcs.reads) == len_(old(swcs.reads)) and forall(1, len_(swcs.reads), lambda j: swcs.reads[j] == old(swcs.reads)[j] and same(swcs.trees[j], old(swcs.trees)[j]))",
        ] + [c.replace("wf-", "inv-kept/") for c in wf_lazy("swcs")],
    )
    R.add(
        f"{POP}:Population.__len__",
        prop="C19",
        variants={"lazy": lambda S: dict(self=pop_obj(S), __ghost__=GHOST),
                  "any-trees": lambda S: dict(self=S.obj(__import__("swcgeom.core.population", fromlist=["x"]).Population, trees=Opaque(z3.Int(fresh_name("trees")), TREES_PROTO), root=""), __ghost__=GHOST)},
        returns="int",
        ensures=["number-of-trees :: result == len_(self.trees)"],
    )
    R.add(
        f"{POP}:Population.__getitem__",
        prop="C19",
        variants={
            "int": lambda S: dict(self=pop_obj(S), key=S.int("key"), __ghost__=GHOST),
        },
        requires=wf_lazy("self.trees"),
        raises={"IndexError": "out-of-range-only :: key < -len_(self.trees.swcs) or key >= len_(self.trees.swcs)"},
        ensures=[
            "tree-of-the-ith-file :: same(result, tree_of(self.trees.swcs[ite(key < 0, key + len_(self.trees.swcs), key)]))",
            "one-delegated-lookup :: ncalls('LazyLoadingTrees.__getitem__') == 1",
        ] + frame_lazy("self.trees", "ite(key < 0, key + len_(self.trees.swcs), key)") + [c.replace("wf-", "inv-kept/") for c in wf_lazy("self.trees")],
    )


_register0 = register


def register(R):  # noqa: F811
    _register0(R)
    register_lazy(R)


# ---------------------------------------------------------------------------
# NestTrees (index indirection used for slices / filters) and Populations.__getitem__
def register_nest(R):
    from pyvc.values import zint

    def nest_obj(S):
        from swcgeom.core.population import NestTrees

        trees = Opaque(z3.Int(fresh_name("trees")), TREES_PROTO)
        idx = S.plist("int", name="idx")
        return S.obj(NestTrees, trees=trees, idx=idx)

    def nest_init(one_shot):
        def f(S):
            from swcgeom.core.population import NestTrees

            trees = Opaque(z3.Int(fresh_name("trees")), TREES_PROTO)
            src = S.plist("int", name="arg")
            return dict(self=S.obj(NestTrees), trees=trees, idx=Iter(src) if one_shot else src, members=src)

        return f

    def init_post(E, v, o):
        s, src = v["self"], v["members"]
        L = s.fields.get("idx")
        if not isinstance(L, PList) or L is src or not E.is_same(s.fields.get("trees"), v["trees"]):
            return False
        k = z3.Int(fresh_name("k"))
        n = zint(src.n)
        Ln = zint(len(L.items)) if L.items is not None else zint(L.n)
        get = (lambda t: z3.Select(L.cols[0], t)) if L.items is None else None
        if get is None:
            return False
        return z3.And(Ln == n, z3.ForAll([k], z3.Implies(z3.And(k >= 0, k < n), get(k) == z3.Select(src.cols[0], k))))

    R.add(f"{POP}:NestTrees.__init__", prop="C19",
          variants={"index-list": nest_init(False), "one-shot-iterable": nest_init(True)},
          ensures=[("keeps-the-container-and-a-private-list-of-the-indices-in-order", init_post)])

    R.add(f"{POP}:NestTrees.__len__", prop="C19", setup=lambda S: dict(self=nest_obj(S)), returns="int",
          ensures=["number-of-selected-indices :: result == len_(self.idx)"])

    def get_post(E, v, o):
        s = v["self"]
        L = s.fields["idx"]
        key = to_z3(o["key"], "int")
        n = zint(L.n)
        pos = z3.If(key < 0, key + n, key)
        return z3.And(key >= -n, key < n, to_z3(v["result"], "ref") == ITEM(s.fields["trees"].z, z3.Select(L.cols[0], pos)))

    R.add(f"{POP}:NestTrees.__getitem__", prop="C19",
          setup=lambda S: dict(self=nest_obj(S), key=S.int("key")), returns="ref",
          raises={"IndexError": ("out-of-range-only", lambda E, v, o: z3.Or(to_z3(v["key"], "int") < -zint(v["self"].fields["idx"].n), to_z3(v["key"], "int") >= zint(v["self"].fields["idx"].n)))},
          ensures=[("the-tree-at-the-selected-index-of-the-underlying-container", get_post)],
          pure_inline=True,  # one-line indirection: callers (whose container may be a real LazyLoadingTrees) inline the body
          options=dict(strict_index=False))

    # Populations.__getitem__(int): one tree per population, in population order
    def pops_obj(S):
        from swcgeom.core.population import Populations

        ps = S.plist("ref", name="populations")
        ps.proto = TREES_PROTO
        return S.obj(Populations, populations=ps, len=S.int("len"), labels=PList([]))

    def pops_get_post(E, v, o):
        r, ps = v["result"], v["self"].fields["populations"]
        if not isinstance(r, PList) or r.items is not None:
            return False
        m = z3.Int(fresh_name("m"))
        key = to_z3(o["key"], "int")
        return z3.And(zint(r.n) == zint(ps.n), z3.ForAll([m], z3.Implies(z3.And(m >= 0, m < zint(ps.n)), z3.Select(r.cols[0], m) == ITEM(z3.Select(ps.cols[0], m), key))))

    R.add(f"{POP}:Populations.__getitem__", prop="C19",
          setup=lambda S: dict(self=pops_obj(S), key=S.int("key")),
          ensures=[("row-of-the-key-th-tree-of-every-population-in-order", pops_get_post)])
    R.add(f"{POP}:Populations.__len__", prop="C19", setup=lambda S: dict(self=pops_obj(S)), returns="int",
          ensures=["the-recorded-minimum-length :: result == self.len"])


_reg19 = register


def register(R):  # noqa: F811
    _reg19(R)
    register_nest(R)


# ---------------------------------------------------------------------------
# Iteration.  `__iter__` returns a generator expression whose element `self[i]` has a side effect (it may load file i), so the
# contract has two parts:  (1) postconditions about the CREATION of the iterator (a lazy iterator with one item per tree;
# nothing is read, nothing changes);  (2) the ITEM RULE (pyvc/ext_C19.py: arbitrary_item): for an arbitrary position k and an
# arbitrary state satisfying the object invariant, the REAL element expression is run for position k and the `item/...`
# obligations are proved: item k is the tree of the k-th file, only slot k may change, at most one read and none if cached,
# the invariant is kept (so it holds again when item k+1 is requested, whatever happened in between through other methods).
def _is_lazy_iter(n_expr):
    def f(E, v, o):
        r = v["result"]
        if not isinstance(r, X.LazySeq):
            return False
        return r.nz() == to_z3(_eval_term(E, n_expr, v), "int")

    return f


def _eval_term(E, text, vars):
    """value of a clause-language term over `vars`"""
    import ast as _ast

    from pyvc.engine import Frame
    from pyvc.spec import SPECLIB

    g = dict(SPECLIB)
    g.update(E.spec_extra)
    return E.ev(_ast.parse(text, mode="eval").body, Frame(vars=dict(vars), globs=g))


CREATION = "creating-the-iterator-requests-nothing :: ncalls('LazyLoadingTrees.__getitem__') == 0 and ncalls('LazyLoadingTrees.load') == 0 and ncalls('Tree.from_swc') == 0 and ncalls('Trees.__getitem__') == 0 and ncalls('ChainTrees.__getitem__') == 0"


def _requests_only_slot_k(p):
    """"only when that file's tree is requested": whatever the element asks of the container while item k is produced -- lookups
    (LazyLoadingTrees.__getitem__, any index form), explicit loads -- is for slot k (what it may do to the slot itself -- read its file once, hand out the cached tree --
    is said by the clauses next to this one).  The unchanged element `self[i]` makes exactly one lookup, of key k."""
    def f(E, v, o):
        lz = _eval_term(E, p, v)
        n, k = lz.fields["swcs"].nz(), to_z3(v["k"], "int")
        acc = []
        for nm, a in E.call_log:
            if nm not in ("LazyLoadingTrees.__getitem__", "LazyLoadingTrees.load"):
                continue
            if a.get("self") is not lz:
                return False
            key = to_z3(a["key"], "int")
            acc.append(z3.If(key < 0, key + n, key) == k if nm.endswith("__getitem__") else key == k)
        return z3.And(*acc) if acc else True

    return f


def item_lazy(p):
    return ([f"item-k-is-the-tree-of-the-k-th-file :: same(got, tree_of({p}.swcs[k])) and not same(got, None)",
             ("requests-exactly-item-k", _requests_only_slot_k(p)),
             # load-once over ANY history: what has been handed out is in the cache afterwards (so no later access reads it again) ...
             f"every-tree-handed-out-is-cached-afterwards :: same({p}.trees[k], got)",
             # ... and the element reads no file itself except (at most once) the k-th
             f"a-direct-read-is-of-the-k-th-file-only :: {DIRECT_READ.format(p=p, slot='k')}"]
            + frame_lazy(p, "k") + [c.replace("wf-", "inv-kept/") for c in wf_lazy(p)])


def register_iter(R):
    from swcgeom.core.population import ChainTrees, LazyLoadingTrees, Population  # noqa: F401

    def pop_lazy(S):
        return S.obj(Population, trees=lazy_obj(S), root="")

    def pop_any(S):
        return S.obj(Population, trees=Opaque(z3.Int(fresh_name("trees")), TREES_PROTO), root="")

    # ------------------------------------------------------------------ LazyLoadingTrees.__iter__
    R.add(f"{POP}:LazyLoadingTrees.__iter__", prop="C19",
          setup=lambda S: dict(self=lazy_obj(S), __ghost__=GHOST),
          requires=WF_LAZY,
          options=dict(genexp_hook=X.genexp_hook, generator_hook=X.generator_hook, item_ghost=_count_item_reads),
          ghost_exit=lambda E, v, o: X.arbitrary_item(E, v["result"], "LazyLoadingTrees.__iter__/item", dict(self=v["self"]), WF_LAZY, item_lazy("self")),
          ensures=[("a-lazy-iterator-with-one-item-per-file", _is_lazy_iter("len_(self.swcs)")), CREATION] + frame_lazy("self"))

    # ------------------------------------------------------------------ Population.__iter__
    def pop_iter_exit(E, v, o):
        s = v["self"]
        if isinstance(s.fields["trees"], Opaque):
            X.arbitrary_item(E, v["result"], "Population.__iter__/item", dict(self=s), [],
                             ["item-k-is-the-k-th-tree-of-the-container :: same(got, item(self.trees, k))",
                              "requests-exactly-item-k :: ncalls('Trees.__getitem__') == 1 and same(callarg('Trees.__getitem__', 0, 'self'), self.trees) and callarg('Trees.__getitem__', 0, 'key') == k"])
        else:
            X.arbitrary_item(E, v["result"], "Population.__iter__/item", dict(self=s), wf_lazy("self.trees"), item_lazy("self.trees"))

    R.add(f"{POP}:Population.__iter__", prop="C19",
          variants={"lazy": lambda S: dict(self=pop_lazy(S), __ghost__=GHOST), "any-trees": lambda S: dict(self=pop_any(S), __ghost__=GHOST)},
          requires=[("object-invariant-of-a-lazy-container", lambda E, v, o: True if isinstance(v["self"].fields["trees"], Opaque) else _all(E, wf_lazy("self.trees"), v))],
          options=dict(genexp_hook=X.genexp_hook, generator_hook=X.generator_hook),
          ghost_exit=pop_iter_exit,
          ensures=[("a-lazy-iterator-with-one-item-per-tree", _is_lazy_iter("len_(self.trees)")), CREATION,
                   ("creating-the-iterator-changes-nothing", lambda E, v, o: True if isinstance(v["self"].fields["trees"], Opaque) else _all(E, frame_lazy("self.trees"), v, o))])

    # ------------------------------------------------------------------ ChainTrees.__iter__
    R.add(f"{POP}:ChainTrees.__iter__", prop="C19",
          setup=lambda S: dict(self=chain_obj(S), __ghost__=GHOST),
          requires=WF_CHAIN,
          options=dict(genexp_hook=X.genexp_hook, generator_hook=X.generator_hook),
          ghost_exit=lambda E, v, o: X.arbitrary_item(
              E, v["result"], "ChainTrees.__iter__/item", dict(self=v["self"]), WF_CHAIN,
              ["item-k-is-the-element-of-the-member-whose-window-contains-k :: exists(0, len_(self.trees), lambda m: self.cumsum[m] <= k and k < self.cumsum[m + 1] and same(got, item(self.trees[m], k - self.cumsum[m])))",
               "requests-exactly-item-k :: ncalls('ChainTrees.__getitem__') == 1 and callarg('ChainTrees.__getitem__', 0, 'key') == k"]),
          ensures=[("a-lazy-iterator-with-one-item-per-chained-tree", _is_lazy_iter("self.cumsum[len_(self.trees)]")), CREATION])


def _all(E, clauses, v, o=None):
    from pyvc.spec import eval_clause, split_label

    acc = True
    for j, cl in enumerate(clauses):
        _, text = split_label(cl, f"c{j}")
        acc = E.and_(acc, eval_clause(E, text, v, None, old_vars=o, extra=E.spec_extra))
    return acc


_reg19b = register


def register(R):  # noqa: F811
    _reg19b(R)
    register_iter(R)


# ---------------------------------------------------------------------------
# Population.__getitem__(slice): a NestTrees over the SAME container whose index list is Python's slice selection of
# range(len(self)), in order; nothing is read.  (Element k of the slice is then item(trees, idx[k]) by NestTrees.__getitem__.)
def py_slice_spec(n, a, b, st):
    """(first, count) of list(range(n))[a:b:st] for a concrete step st != 0, written from the language reference
    (negative bounds count from the end, bounds are clipped, a missing bound means "as far as the step direction goes")"""
    if st > 0:
        lo_clip, hi_clip = z3.IntVal(0), n
    else:
        lo_clip, hi_clip = z3.IntVal(-1), n - 1

    def norm(x, missing):
        if x is None:
            return missing
        xz = to_z3(x, "int")
        y = z3.If(xz < 0, xz + n, xz)
        return z3.If(y < lo_clip, lo_clip, z3.If(y > hi_clip, hi_clip, y))

    if st > 0:
        s, e = norm(a, z3.IntVal(0)), norm(b, n)
        cnt = z3.If(e > s, (e - s + (st - 1)) / st, z3.IntVal(0))
    else:
        s, e = norm(a, n - 1), norm(b, z3.IntVal(-1))
        cnt = z3.If(s > e, (s - e + (-st - 1)) / (-st), z3.IntVal(0))
    return s, cnt


def register_slice(R):
    from pyvc.values import Obj, zint
    from swcgeom.core.population import NestTrees, Population

    def pop_lazy(S):
        return S.obj(Population, trees=lazy_obj(S), root="")

    def setup(a_sym, b_sym, st):
        def f(S):
            key = slice(S.int("start") if a_sym else None, S.int("stop") if b_sym else None, st)
            return dict(self=pop_lazy(S), key=key, __ghost__=GHOST)

        return f

    def parts(v, o):
        r, key = v["result"], o["key"]
        if not (isinstance(r, Obj) and r.cls is NestTrees and isinstance(r.fields.get("idx"), PList)):
            return None, None, None, None, None
        n = zint(v["self"].fields["trees"].fields["swcs"].n)
        st = 1 if key.step is None else key.step
        s, cnt = py_slice_spec(n, key.start, key.stop, st)
        return r, n, st, s, cnt

    def same_container(E, v, o):
        r = v["result"]
        return isinstance(r, Obj) and r.cls is NestTrees and r.fields.get("trees") is v["self"].fields["trees"] and isinstance(r.fields.get("idx"), PList) and r.fields["idx"].uid not in E.entry_uids

    def selection(E, v, o):
        r, n, st, s, cnt = parts(v, o)
        if r is None or r.fields["idx"].items is not None:
            return False
        L = r.fields["idx"]
        t = z3.Int(fresh_name("t"))
        return z3.And(zint(L.n) == cnt, z3.ForAll([t], z3.Implies(z3.And(t >= 0, t < cnt), z3.Select(L.cols[0], t) == s + t * st)))

    def valid(E, v, o):
        r, n, st, s, cnt = parts(v, o)
        if r is None or r.fields["idx"].items is not None:
            return False
        L = r.fields["idx"]
        t = z3.Int(fresh_name("t"))
        return z3.ForAll([t], z3.Implies(z3.And(t >= 0, t < zint(L.n)), z3.And(z3.Select(L.cols[0], t) >= 0, z3.Select(L.cols[0], t) < n)))

    def whole(E, v, o):
        """[:] selects 0..n-1, [::-1] selects n-1..0 (sanity anchors of the specification itself)"""
        r, n, st, s, cnt = parts(v, o)
        key = o["key"]
        if r is None or r.fields["idx"].items is not None:
            return False
        if key.start is not None or key.stop is not None or st not in (1, -1):
            return True
        L = r.fields["idx"]
        t = z3.Int(fresh_name("t"))
        return z3.And(zint(L.n) == n, z3.ForAll([t], z3.Implies(z3.And(t >= 0, t < n), z3.Select(L.cols[0], t) == (t if st == 1 else n - 1 - t))))

    ENS = ([("slice/an-index-view-of-the-same-container-with-a-private-index-list", same_container),
            ("slice/selects-exactly-the-positions-of-python's-slice-in-order", selection),
            ("slice/every-selected-position-is-a-valid-index", valid),
            ("slice/whole-and-reversed-anchors", whole),
            "slice/slicing-requests-no-tree :: ncalls('LazyLoadingTrees.__getitem__') == 0 and ncalls('LazyLoadingTrees.load') == 0 and ncalls('Tree.from_swc') == 0"]
           + ["slice/" + c for c in frame_lazy("self.trees")])
    for st in (None, 1, -1, 2, -3):  # one contract per step (a construct unsupported for one step must not hide the verdict of the others)
        variants = {}
        for a_sym, b_sym in ((True, True), (False, False), (True, False), (False, True)):
            nm = f"[{'a' if a_sym else ''}:{'b' if b_sym else ''}:{'' if st is None else st}]"
            variants[nm] = setup(a_sym, b_sym, st)
        R.add(f"{POP}:Population.__getitem__", prop="C19", variants=variants, requires=wf_lazy("self.trees"), ensures=ENS,
              notes=f"slice form, step {st}: start / stop symbolic or missing")


_reg19c = register


def register(R):  # noqa: F811
    _reg19c(R)
    register_slice(R)


# ---------------------------------------------------------------------------
# filter_population(pop, predicate): `[i for i, t in enumerate(pop) if predicate(t)]` consumes the population's LAZY iterator
# (every tree is requested once, in order), then wraps an index view.  The predicate is an arbitrary PURE function of the tree
# (uninterpreted PRED).  Ghost vocabulary (definitions, see `filter_defs`): P(j) = PRED(j-th tree), CNT(k) = number of j < k with
# P(j), KAP(m) = the m-th position that satisfies the predicate.
PRED = z3.Function("pred", _I, z3.BoolSort())
CNT = z3.Function("cnt_sel", _I, _I)
KAP = z3.Function("kap_sel", _I, _I)


def register_filter(R):
    from pyvc.values import Obj, zint
    from swcgeom.core.population import NestTrees, Population

    def tree_at(v, j):
        """the j-th tree of the population `pop` (a z3 term)"""
        t = v["pop"].fields["trees"]
        if isinstance(t, Opaque):
            return ITEM(t.z, j)
        return TREE_OF(z3.Select(t.fields["swcs"].cols[0], j))

    def nof(v):
        t = v["pop"].fields["trees"]
        return TLEN(t.z) if isinstance(t, Opaque) else zint(t.fields["swcs"].n)

    def P(v, j):
        return PRED(tree_at(v, j))

    def filter_defs(E, fr):
        """definitional facts about the fresh ghost functions CNT / KAP (CNT by recursion over positions; KAP is defined at the
        values CNT(j) of the selected positions j, which are pairwise different because CNT grows by one at each of them)"""
        v = fr.vars
        j = z3.Int(fresh_name("j"))
        E.assume(CNT(0) == 0)
        E.assume(z3.ForAll([j], z3.Implies(j >= 0, CNT(j + 1) == CNT(j) + z3.If(P(v, j), 1, 0)), patterns=[CNT(j + 1)]))
        E.assume(z3.ForAll([j], z3.Implies(z3.And(j >= 0, P(v, j)), KAP(CNT(j)) == j), patterns=[CNT(j)]))
        E.assumptions.add("ghost definitions (filter_population): CNT(k) = number of positions j < k whose tree satisfies the predicate (recursion), KAP(CNT(j)) = j for every such j")

    def inv(name, f):
        return (name, lambda E, v, o: f(v, to_z3(v["_k"], "int"), v["__out__"]))

    m, m2, j = z3.Int("m"), z3.Int("m2"), z3.Int("j")

    def lazy_part(v, k, out):
        t = v["pop"].fields["trees"]
        if isinstance(t, Opaque):
            return z3.BoolVal(True)
        T = t.fields["trees"].cols[0]
        return z3.ForAll([j], z3.Implies(z3.And(j >= 0, j < k), z3.Select(T, j) != 0))

    INV = [
        inv("count", lambda v, k, out: z3.And(zint(out.n) == CNT(k), CNT(k) >= 0, CNT(k) <= k)),
        inv("kept-so-far-are-the-selected-positions-in-order", lambda v, k, out: z3.ForAll([m], z3.Implies(z3.And(m >= 0, m < CNT(k)), z3.Select(out.cols[0], m) == KAP(m)))),
        inv("selected-positions-are-earlier-positions-that-satisfy-the-predicate", lambda v, k, out: z3.ForAll([m], z3.Implies(z3.And(m >= 0, m < CNT(k)), z3.And(KAP(m) >= 0, KAP(m) < k, P(v, KAP(m)), CNT(KAP(m)) == m)))),
        inv("every-earlier-position-that-satisfies-the-predicate-is-selected", lambda v, k, out: z3.ForAll([j], z3.Implies(z3.And(j >= 0, j < k, P(v, j)), z3.And(CNT(j) >= 0, CNT(j) < CNT(k), KAP(CNT(j)) == j)))),
        inv("increasing", lambda v, k, out: z3.ForAll([m, m2], z3.Implies(z3.And(m >= 0, m < m2, m2 < CNT(k)), KAP(m) < KAP(m2)))),
        inv("every-tree-requested-so-far-is-loaded", lazy_part),
        ("object-invariant", lambda E, v, o: True if isinstance(v["pop"].fields["trees"], Opaque) else _all(E, wf_lazy("pop.trees"), v)),
        ("files-untouched", lambda E, v, o: True if isinstance(v["pop"].fields["trees"], Opaque) else _all(E, frame_lazy("pop.trees")[:1], v, o)),
    ]

    def setup(lazy):
        def f(S):
            trees = lazy_obj(S) if lazy else Opaque(z3.Int(fresh_name("trees")), TREES_PROTO)
            pop = S.obj(Population, trees=trees, root="root")
            return dict(pop=pop, predicate=S.callback("predicate", lambda E, a, k: E.sbool(PRED(to_z3(a[0], "int")))), __ghost__=GHOST)

        return f

    def view(E, v, o):
        r = v["result"]
        if not (isinstance(r, Obj) and r.cls is Population and r.fields.get("root") == "root"):
            return False
        nt = r.fields.get("trees")
        return isinstance(nt, Obj) and nt.cls is NestTrees and nt.fields.get("trees") is v["pop"].fields["trees"] and isinstance(nt.fields.get("idx"), PList) and nt.fields["idx"].uid not in E.entry_uids

    def idx_of(v):
        return v["result"].fields["trees"].fields["idx"]

    def kept(E, v, o):
        L, n = idx_of(v), nof(v)
        return z3.And(zint(L.n) == CNT(n),
                      z3.ForAll([m], z3.Implies(z3.And(m >= 0, m < zint(L.n)), z3.And(z3.Select(L.cols[0], m) >= 0, z3.Select(L.cols[0], m) < n, P(v, z3.Select(L.cols[0], m))))))

    def complete(E, v, o):
        L, n = idx_of(v), nof(v)
        return z3.ForAll([j], z3.Implies(z3.And(j >= 0, j < n, P(v, j)), z3.And(CNT(j) >= 0, CNT(j) < zint(L.n), z3.Select(L.cols[0], CNT(j)) == j)))

    def ordered(E, v, o):
        L = idx_of(v)
        return z3.ForAll([m, m2], z3.Implies(z3.And(m >= 0, m < m2, m2 < zint(L.n)), z3.Select(L.cols[0], m) < z3.Select(L.cols[0], m2)))

    R.add(f"{POP}:filter_population", prop="C19",
          variants={"lazy": setup(True), "any-trees": setup(False)},
          requires=[("object-invariant-of-a-lazy-container", lambda E, v, o: True if isinstance(v["pop"].fields["trees"], Opaque) else _all(E, wf_lazy("pop.trees"), v))],
          lemmas=[filter_defs],
          options=dict(genexp_hook=X.genexp_hook, comprehension_hook=X.comprehension_hook,
                       comprehension_rule=dict(kind="int", label="filter", invariant=INV)),
          ensures=[("a-population-over-an-index-view-of-the-same-container-same-root", view),
                   ("keeps-only-positions-whose-tree-satisfies-the-predicate", kept),
                   ("keeps-every-position-whose-tree-satisfies-the-predicate", complete),
                   ("keeps-them-in-order-each-once", ordered),
                   ("each-file-read-at-most-once(object-invariant-kept)", lambda E, v, o: True if isinstance(v["pop"].fields["trees"], Opaque) else _all(E, wf_lazy("pop.trees") + frame_lazy("pop.trees")[:2], v, o))],
          notes="the predicate is an arbitrary pure function of the tree (uninterpreted); the list comprehension is cut at the rule's invariant")


_reg19d = register


def register(R):  # noqa: F811
    _reg19d(R)
    register_filter(R)


# ---------------------------------------------------------------------------
# Directory walking.  os.walk / os.path.* / filter enter as models (pyvc/ext_C19.py): a walk is a symbolic sequence of
# (dirpath, dirnames, filenames) triples determined by the root; paths are opaque references built by uninterpreted
# join / relpath / splitext.  THE ORDER that defines "the i-th file" is the order of find_swcs' result: directories in os.walk
# order, inside a directory the order of os.walk's filenames list -- the code does not sort.
# Ghost vocabulary:  SELN(fl, ext) / SELK(fl, ext, m) / SELR(fl, ext, j): the order-preserving selection of the names of the
# list fl whose extension is ext (characterised by the filter model's axioms);  OFF(root, ext, d) = number of selected files
# in the first d directories of the walk (recursion).
X.install()
SELN = z3.Function("sel_len", _I, _I, _I)
SELK = z3.Function("sel_pos", _I, _I, _I, _I)
SELR = z3.Function("sel_rank", _I, _I, _I, _I)
OFF = z3.Function("walk_off", _I, _I, _I, _I)
GHOST["path_exists"] = SpecFn(lambda e, a, k: e.sbool(X.EXISTS(X.zref(a[0]))), "path_exists")


def swc_filter(extz):
    return X.DeclaredFilter("names-with-the-extension", [extz], lambda e, x: X.EXTOF(e) == x, SELN, SELK, SELR)


def walk_defs(E, rz, xz):
    d = z3.Int(fresh_name("d"))
    E.assume(OFF(rz, xz, 0) == 0)
    E.assume(z3.ForAll([d], z3.Implies(d >= 0, OFF(rz, xz, d + 1) == OFF(rz, xz, d) + SELN(X.WFILES(rz, d), xz)), patterns=[OFF(rz, xz, d + 1)]))
    E.assumptions.add("ghost definition (find_swcs): OFF(root, ext, d) = number of names with the extension in the first d directories of the walk (recursion)")


def _lview(L):
    from pyvc.values import zint

    if L.items is not None:
        if L.items:
            raise X.Unsupported("concrete non-empty list in a walk clause")
        return z3.IntVal(0), (lambda t: z3.IntVal(0))
    return zint(L.n), (lambda t: z3.Select(L.cols[0], t))


def found_files(L, rz, xz, relpath, upto, with_axioms=True):
    """the list L holds, directory by directory (the first `upto` of the walk of rz), the joined paths of the selected names"""
    n, at = _lview(L)
    d, m, j = z3.Int(fresh_name("d")), z3.Int(fresh_name("m")), z3.Int(fresh_name("j"))
    fl = lambda t: X.WFILES(rz, t)
    rr = (lambda t: X.RELPATH(X.WDIR(rz, t), rz)) if relpath else (lambda t: X.WDIR(rz, t))
    off = lambda t: OFF(rz, xz, t)
    flt = swc_filter(xz)
    out = dict(
        length=n == off(upto),
        content=z3.ForAll([d, m], z3.Implies(z3.And(d >= 0, d < upto, m >= 0, m < SELN(fl(d), xz)),
                                            at(off(d) + m) == X.JOIN(rr(d), X.FNAME(fl(d), SELK(fl(d), xz, m))))),
        offsets=z3.ForAll([d], z3.Implies(z3.And(d >= 0, d <= upto), z3.And(off(d) >= 0, off(d) <= off(upto)))),
    )
    if with_axioms:
        out["selection"] = z3.ForAll([d], z3.Implies(z3.And(d >= 0, d < upto), z3.And(X.FLEN(fl(d)) >= 0, *flt.axioms(fl(d), X.FLEN(fl(d)), lambda t, _d=d: X.FNAME(fl(_d), t)))))
    return out


def register_dirs(R):
    from pyvc.values import zint
    from swcgeom.core.population import LazyLoadingTrees, Population

    def find_setup(relpath):
        return lambda S: dict(root=X.StrRef(S.int("root").z), ext=X.StrRef(S.int("ext").z), relpath=relpath, __ghost__=GHOST)

    def find_entry(E, old):
        rz, xz = X.zref(old["root"]), X.zref(old["ext"])
        X.declare_filter(E, swc_filter(xz))
        walk_defs(E, rz, xz)

    def inv(which):
        def f(E, v, o):
            rz, xz = X.zref(o["root"]), X.zref(o["ext"])
            return found_files(v["swcs"], rz, xz, bool(o["relpath"]), to_z3(v["_k0"], "int"))[which]

        return f

    def post(which):
        def f(E, v, o):
            rz, xz = X.zref(o["root"]), X.zref(o["ext"])
            r = v["result"]
            if not isinstance(r, PList):
                return False
            return found_files(r, rz, xz, bool(o["relpath"]), X.WLEN(rz))[which]

        return f

    def listed_only(E, v, o):
        """every entry is join(directory, name) of a name of that directory's list that carries the extension"""
        rz, xz = X.zref(o["root"]), X.zref(o["ext"])
        d, m = z3.Int(fresh_name("d")), z3.Int(fresh_name("m"))
        fl = lambda t: X.WFILES(rz, t)
        return z3.ForAll([d, m], z3.Implies(z3.And(d >= 0, d < X.WLEN(rz), m >= 0, m < SELN(fl(d), xz)),
                                            z3.And(SELK(fl(d), xz, m) >= 0, SELK(fl(d), xz, m) < X.FLEN(fl(d)), X.EXTOF(X.FNAME(fl(d), SELK(fl(d), xz, m))) == xz,
                                                   OFF(rz, xz, d) + m < OFF(rz, xz, d + 1))))

    def all_listed(E, v, o):
        """every name with the extension, of every directory of the walk, is listed (at the position its rank gives)"""
        rz, xz = X.zref(o["root"]), X.zref(o["ext"])
        n, at = _lview(v["result"])
        d, j = z3.Int(fresh_name("d")), z3.Int(fresh_name("j"))
        fl = lambda t: X.WFILES(rz, t)
        rr = (lambda t: X.RELPATH(X.WDIR(rz, t), rz)) if o["relpath"] else (lambda t: X.WDIR(rz, t))
        pos = OFF(rz, xz, d) + SELR(fl(d), xz, j)
        return z3.ForAll([d, j], z3.Implies(z3.And(d >= 0, d < X.WLEN(rz), j >= 0, j < X.FLEN(fl(d)), X.EXTOF(X.FNAME(fl(d), j)) == xz),
                                            z3.And(pos >= 0, pos < n, at(pos) == X.JOIN(rr(d), X.FNAME(fl(d), j)))))

    R.add(f"{POP}:Population.find_swcs", prop="C19",
          variants={"absolute": find_setup(False), "relpath": find_setup(True)},
          ghost_entry=find_entry,
          returns=lambda S, fr: S.plist("ref", name="found"),
          loops={0: dict(invariant=[("length", inv("length")), ("content", inv("content")), ("offsets", inv("offsets")), ("selection", inv("selection"))],
                         types={"swcs": "ref"})},
          ensures=[("number-of-files-found", post("length")),
                   ("i-th-file:directories-in-walk-order-names-in-listing-order-joined-with-the-directory", post("content")),
                   ("offsets-are-monotone", post("offsets")),
                   ("selection-is-order-preserving-in-every-directory", post("selection")),
                   ("only-names-with-the-extension-are-listed", listed_only),
                   ("every-name-with-the-extension-is-listed", all_listed),
                   "a-fresh-list :: is_fresh(result)"],
          notes="os.walk / os.path.join / relpath / splitext / filter are models (pyvc/ext_C19.py); walk, lists and extension symbolic")


_reg19e = register


def register(R):  # noqa: F811
    _reg19e(R)
    register_dirs(R)


# ---------------------------------------------------------------------------
# Population.from_swc / from_eswc: the population of the files found, in find_swcs' order; construction reads at most the
# first file (the constructor's `isinstance(swcs[0], str)` probe), through LazyLoadingTrees.__getitem__(0).
def register_from_swc(R):
    from pyvc.values import Obj, PDict, zint
    from swcgeom.core.population import LazyLoadingTrees, Population

    def res_lz(v):
        r = v["result"]
        if not (isinstance(r, Obj) and r.cls is Population):
            return None
        lz = r.fields.get("trees")
        if not (isinstance(lz, Obj) and lz.cls is LazyLoadingTrees and all(isinstance(lz.fields.get(f), PList) for f in ("swcs", "trees", "reads"))):
            return None
        return lz

    def shape(E, v, o):
        lz = res_lz(v)
        return lz is not None and E.is_same(v["result"].fields.get("root"), o["root"]) is True and lz.fields["swcs"].uid not in E.entry_uids

    def files(which):
        def f(E, v, o):
            lz = res_lz(v)
            if lz is None:
                return False
            rz, xz = X.zref(o["root"]), X.zref(o["ext"])
            return found_files(lz.fields["swcs"], rz, xz, False, X.WLEN(rz), with_axioms=False)[which]

        return f

    def one_walk(E, v, o):
        cs = [a for nm, a in E.call_log if nm == "Population.find_swcs"]
        return len(cs) == 1 and E.is_same(cs[0]["root"], o["root"]) is True and E.is_same(cs[0]["ext"], o["ext"]) is True and cs[0]["relpath"] is False

    def lazy_state(E, v, o):
        """nothing is loaded or counted as read, except possibly the first file (then exactly once, and it is that file's tree)"""
        lz = res_lz(v)
        if lz is None:
            return False
        S, T, Rd = (lz.fields[f] for f in ("swcs", "trees", "reads"))
        j = z3.Int(fresh_name("j"))
        n = zint(S.n)
        sel = z3.Select
        return z3.And(zint(T.n) == n, zint(Rd.n) == n,
                      z3.ForAll([j], z3.Implies(z3.And(j >= 1, j < n), z3.And(sel(T.cols[0], j) == 0, sel(Rd.cols[0], j) == 0))),
                      z3.Implies(n > 0, z3.And(sel(Rd.cols[0], 0) >= 0, sel(Rd.cols[0], 0) <= 1, (sel(Rd.cols[0], 0) == 0) == (sel(T.cols[0], 0) == 0),
                                               z3.Implies(sel(T.cols[0], 0) != 0, sel(T.cols[0], 0) == TREE_OF(sel(S.cols[0], 0))))))

    def kwargs_forwarded(E, v, o):
        lz = res_lz(v)
        if lz is None:
            return False
        kw = lz.fields.get("kwargs")
        want = o["kwargs"]
        if not (isinstance(kw, PDict) and kw.items is not None and set(kw.items) == set(want.items)):
            return False
        acc = True
        for k0, x in want.items.items():
            y = kw.items[k0]
            if isinstance(x, PList) and isinstance(y, PList) and x.items is not None and y.items is not None:
                acc = acc and len(x.items) == len(y.items) and all(a == b or a is b for a, b in zip(x.items, y.items))
            else:
                acc = acc and (x is y or E.is_same(x, y) is True)
        return acc

    PROBE = ("at-most-a-probe-of-the-first-file :: ncalls('Tree.from_swc') == 0 and ncalls('LazyLoadingTrees.load') == 0 and ncalls('LazyLoadingTrees.__getitem__') <= 1 "
             "and implies(ncalls('LazyLoadingTrees.__getitem__') == 1, callarg('LazyLoadingTrees.__getitem__', 0, 'key') == 0)")
    COMMON = [("a-population-on-a-lazy-container-rooted-at-root-with-a-private-file-list", shape),
              ("walks-the-directory-once-with-the-given-extension-absolute-paths", one_walk),
              ("number-of-trees-is-the-number-of-files-found", files("length")),
              ("i-th-tree-is-the-i-th-file-in-walk-order", files("content")),
              ("nothing-loaded-or-read-except-possibly-the-first-file", lazy_state),
              PROBE,
              ("reader-options-forwarded-unchanged", kwargs_forwarded)]

    def from_setup(with_kw):
        def f(S):
            kw = PDict({"extra_cols": PList(["a"])}) if with_kw else PDict({})
            return dict(cls=Population, root=X.StrRef(S.int("root").z), ext=X.StrRef(S.int("ext").z), kwargs=kw, __ghost__=GHOST)

        return f

    R.add(f"{POP}:Population.from_swc", prop="C19",
          variants={"no-options": from_setup(False), "with-reader-options": from_setup(True)},
          raises={"FileNotFoundError": "only-when-the-root-does-not-exist :: not path_exists(root)"},
          ensures=[("root-exists", lambda E, v, o: X.EXISTS(X.zref(o["root"])))] + COMMON,
          notes="os.path.exists is a model; find_swcs is used through its contract; the constructors are inlined")

    # from_eswc: the same population, the reader is told the extra columns: the given ones followed by the eswc columns
    def eswc_setup(given):
        def f(S):
            g = None if given is None else PList(list(given))
            return dict(cls=Population, root=X.StrRef(S.int("root").z), ext=X.StrRef(S.int("ext").z), extra_cols=g, given=g, kwargs=PDict({}), __ghost__=GHOST)

        return f

    def eswc_cols(E, v, o):
        from swcgeom.core.swc import eswc_cols as real

        lz = res_lz(v)
        if lz is None:
            return False
        kw = lz.fields["kwargs"]
        given = o["extra_cols"]
        want = (list(given.items) if given is not None else []) + [k for k, _ in real]
        got = kw.items.get("extra_cols") if kw.items is not None else None
        return isinstance(got, PList) and got.items == want and set(kw.items) == {"extra_cols"}

    def caller_list_untouched(E, v, o):
        """the caller's extra_cols list is copied, not extended in place"""
        g = v.get("given")
        return True if g is None else (g.items == list(o["given"].items) and g is not res_lz(v).fields["kwargs"].items.get("extra_cols"))

    R.add(f"{POP}:Population.from_eswc", prop="C19",
          variants={"no-extra-columns": eswc_setup(None), "two-extra-columns": eswc_setup(("u", "w"))},
          raises={"FileNotFoundError": "only-when-the-root-does-not-exist :: not path_exists(root)"},
          ensures=[c for c in COMMON if c[0] != "reader-options-forwarded-unchanged"] + [("extra-columns-are-the-given-ones-then-the-eswc-columns", eswc_cols), ("callers-column-list-untouched", caller_list_untouched)],
          notes="from_swc inlined")


_reg19f = register


def register(R):  # noqa: F811
    _reg19f(R)
    register_from_swc(R)


# ---------------------------------------------------------------------------
# Populations: constructor, iteration, number of populations, chaining
TREES_FIELD = z3.Function("trees_of_population", _I, _I)  # ghost: the `trees` container of a population (opaque member)
POP_PROTO = dict(TREES_PROTO)
POP_PROTO[".trees"] = lambda eng, v: Opaque(TREES_FIELD(v.z), TREES_PROTO)
ROOT_FIELD = z3.Function("root_of_population", _I, _I)  # ghost: the `root` string of a population (opaque member)


def _as_population(p):
    """an opaque member population as the object the REAL methods of `Population` run on: its container is the opaque `Trees`
    value trees_of_population(p), its root the string root_of_population(p)"""
    from swcgeom.core.population import Population
    from pyvc.values import Obj

    return Obj(Population, dict(trees=Opaque(TREES_FIELD(p.z), TREES_PROTO), root=X.StrRef(ROOT_FIELD(p.z))))


def _pop_getitem(eng, recv, args, kwargs):
    """`p[key]` of an opaque member population.  An int key is the protocol's item(p, key).  Any other key (a slice, built by
    `x[a:b]` with symbolic bounds and handed on) is answered by the REAL `Population.__getitem__` of the tree under check, run
    on the member as an object (`_as_population`): whatever it builds (a NestTrees view ...) is the value"""
    from pyvc.values import kind_of

    if kind_of(args[0]) in ("int", "bool") or isinstance(args[0], int):
        return _p_getitem(eng, recv, args, kwargs)
    o = _as_population(recv)
    return eng.call(eng.getattr_(o, "__getitem__"), [args[0]], {})


POP_PROTO["__getitem__"] = _pop_getitem


def _pop_len(eng, recv, args, kwargs):
    """len(p) of an opaque member population: tlen(p), which IS the length of its container (Population.__len__/post/number-of-trees)"""
    eng.assumptions.add("C19-model: an opaque member population p has len(p) == len(p.trees) (verified: Population.__len__/post/number-of-trees)")
    eng.assume(TLEN(recv.z) == TLEN(TREES_FIELD(recv.z)))
    return _p_len(eng, recv, args, kwargs)


POP_PROTO["__len__"] = _pop_len


# A comprehension over a symbolic-length sequence whose ELEMENT is a container object (`[p[a:b] for p in self.populations]`: one
# NestTrees view per member).  Such a list enters the rest of the proof the way every chain member does: as a list of `Trees`
# references, each known through tlen / item only.  The length and the items of the element are NOT assumed: the element's REAL
# `__len__` and `__getitem__` (repository code, inlined or through their contracts) are executed for an arbitrary position i of
# the comprehension and an arbitrary in-range position t of the element; what they return defines tlen(V(i)) and item(V(i), t)
# of the fresh reference V(i) (a definitional extension; obligations raised on the way are proved for arbitrary i, t).
def _trees_element(eng, vv, i, nz, kind):
    from pyvc.values import Obj, kind_of
    from pyvc import models as _M

    if kind not in ("list", "gen") or not isinstance(vv, Obj) or "__items__" in vv.fields or getattr(getattr(eng, "cur_contract", None), "prop", None) != "C19":
        return None
    ln_m, get_m = eng.find_method(vv.cls, "__len__"), eng.find_method(vv.cls, "__getitem__")
    if ln_m is None or get_m is None or ln_m[0] != "func" or get_m[0] != "func":
        return None
    from pyvc.npmodels import skolemizer
    from pyvc.values import next_uid

    rng = z3.And(i >= 0, i < nz)
    saved = list(eng.pc)
    eng.pc.append(rng)
    eng.pure_mode = getattr(eng, "pure_mode", 0) + 1
    try:
        ln = eng.call(eng.getattr_(vv, "__len__"), [], {})
        lz = to_z3(ln, "int")
        k1 = len(eng.pc)
        u1 = next_uid()
        t = z3.Int(f"vt_{next_uid()}")  # (not a `name!N` constant: it is a bound variable of the facts below, never a Skolem candidate)
        eng.pc.append(z3.And(t >= 0, t < lz))
        it = eng.call(eng.getattr_(vv, "__getitem__"), [Sym(t, "int")], {})
        facts_len, facts_item = eng.pc[len(saved) + 1:k1], eng.pc[k1 + 1:]
    finally:
        eng.pure_mode -= 1
        eng.pc = saved
    if isinstance(it, Opaque):
        it = Sym(it.z, "ref")
    if kind_of(it) not in ("ref", "oref"):
        return None
    # values created while the element / its length / its item were evaluated belong to the position (i) resp. (i, t): Skolem form
    sk_i, sk_it = skolemizer([i], getattr(eng, "comp_skolem_u0", u1)), skolemizer([i, t], u1)
    both = lambda e: sk_i(sk_it(e))
    lz, itz = sk_i(lz), both(to_z3(it, "int"))
    V = z3.Function(fresh_name("view"), _I, _I)
    for h in facts_len:
        eng.assume(z3.ForAll([i], z3.Implies(rng, sk_i(h))))
    for h in facts_item:
        eng.assume(z3.ForAll([i, t], z3.Implies(z3.And(rng, t >= 0, t < lz), both(h))))
    eng.assume(z3.ForAll([i], z3.Implies(rng, z3.And(TLEN(V(i)) == lz, lz >= 0)), patterns=[V(i)]))
    eng.assume(z3.ForAll([i, t], z3.Implies(z3.And(rng, t >= 0, t < lz), ITEM(V(i), t) == itz), patterns=[ITEM(V(i), t)]))
    eng.assumptions.add("ghost definition (list of container objects built over a symbolic-length sequence): element i is the `Trees` reference V(i) "
                        "with tlen(V(i)) = what the element's real __len__ returns and item(V(i), t) = what its real __getitem__(t) returns, 0 <= t < tlen")
    p = PList()
    p.items, p.kinds, p.tup, p.n = None, ["ref"], False, z3.simplify(nz)
    p.cols = [z3.Lambda([i], V(i))]
    p.proto = TREES_PROTO
    return Iter(p) if kind == "gen" else p


def _install_element_hook():
    from pyvc import models as _M

    if _trees_element not in _M.EXTRA_ELEMENT_HOOKS:
        _M.EXTRA_ELEMENT_HOOKS.append(_trees_element)


_install_element_hook()


def register_populations(R):
    from pyvc.values import Obj, zint
    from swcgeom.core.population import ChainTrees, Population, Populations

    # ------------------------------------------------------------------ Populations.__init__
    def init_setup(n, labels):
        def f(S):
            ps = PList([Opaque(z3.Int(fresh_name(f"p{i}")), TREES_PROTO) for i in range(n)])
            lab = None
            if labels is not None:
                lab = PList([X.StrRef(S.int(f"label{i}").z) for i in range(n if labels == "as-many" else n + 1)])
            return dict(self=S.obj(Populations), populations=ps, labels=lab, given=ps, given_labels=lab, __ghost__=GHOST)

        return f

    def init_min(E, v, o):
        s, ps = v["self"], o["given"].items
        m = to_z3(s.fields["len"], "int")
        return z3.And(z3.And(*[m <= TLEN(p.z) for p in ps]), z3.Or(*[m == TLEN(p.z) for p in ps]))

    def init_kept(E, v, o):
        s, ps = v["self"], v["given"]
        L = s.fields.get("populations")
        return isinstance(L, PList) and L is not ps and L.items is not None and len(L.items) == len(ps.items) and all(a is b for a, b in zip(L.items, ps.items)) and ps.items == o["given"].items

    def init_labels(E, v, o):
        s, n = v["self"], len(o["given"].items)
        L, g = s.fields.get("labels"), v["given_labels"]
        if not (isinstance(L, PList) and L.items is not None and len(L.items) == n):
            return False
        if g is None:
            return all(x == "" for x in L.items)
        return L is not g and all(a is b for a, b in zip(L.items, g.items)) and len(g.items) == len(o["given_labels"].items)

    R.add(f"{POP}:Populations.__init__", prop="C19",
          variants={"one-population": init_setup(1, None), "two-populations": init_setup(2, None), "three-populations-labelled": init_setup(3, "as-many"),
                    "two-populations-three-labels": init_setup(2, "too-many"), "no-population": init_setup(0, None)},
          raises={"AssertionError": ("only-when-the-number-of-labels-differs", lambda E, v, o: o["given_labels"] is not None and len(o["given_labels"].items) != len(o["given"].items)),
                  "ValueError": ("only-for-an-empty-list-of-populations", lambda E, v, o: len(o["given"].items) == 0)},
          ensures=[("at-least-one-population-and-matching-labels", lambda E, v, o: len(o["given"].items) > 0 and (o["given_labels"] is None or len(o["given_labels"].items) == len(o["given"].items))),
                   ("len-is-the-minimum-length-of-the-populations", init_min),
                   ("populations-kept-in-order-in-a-private-list", init_kept),
                   ("labels-are-the-given-ones-or-empty-strings-one-per-population", init_labels)],
          notes="fixed numbers of populations (0..3), each of symbolic length; `populations` a list (the code iterates its argument three times)")

    # ------------------------------------------------------------------ num_of_populations / __iter__
    def pops_obj(S):
        ps = S.plist("ref", name="populations")
        ps.proto = POP_PROTO
        return S.obj(Populations, populations=ps, len=S.int("len"), labels=PList([]))

    R.add(f"{POP}:Populations.num_of_populations", prop="C19", setup=lambda S: dict(self=pops_obj(S)), returns="int",
          ensures=["number-of-populations :: result == len_(self.populations)"])

    def row(E, v, o):
        r, ps = v["got"], v["self"].fields["populations"]
        if not isinstance(r, PList) or r.items is not None:
            return False
        m = z3.Int(fresh_name("m"))
        k = to_z3(v["k"], "int")
        return z3.And(zint(r.n) == zint(ps.n), z3.ForAll([m], z3.Implies(z3.And(m >= 0, m < zint(ps.n)), z3.Select(r.cols[0], m) == ITEM(z3.Select(ps.cols[0], m), k))))

    R.add(f"{POP}:Populations.__iter__", prop="C19",
          setup=lambda S: dict(self=pops_obj(S), __ghost__=GHOST),
          requires=["len-is-a-length :: self.len >= 0"],
          options=dict(genexp_hook=X.genexp_hook, generator_hook=X.generator_hook),
          ghost_exit=lambda E, v, o: X.arbitrary_item(E, v["result"], "Populations.__iter__/item", dict(self=v["self"]), [],
                                                      [("item-k-is-the-row-of-the-k-th-tree-of-every-population-in-order", row)]),
          ensures=[("a-lazy-iterator-with-len-rows", _is_lazy_iter("self.len")), CREATION])

    # ------------------------------------------------------------------ Populations.to_population
    def chain_of(v):
        r = v["result"]
        if not (isinstance(r, Obj) and r.cls is Population):
            return None
        c = r.fields.get("trees")
        return c if isinstance(c, Obj) and c.cls is ChainTrees else None

    def members(E, v, o):
        c, ps = chain_of(v), v["self"].fields["populations"]
        if c is None or not isinstance(c.fields.get("trees"), PList) or c.fields["trees"].items is not None:
            return False
        L = c.fields["trees"]
        m = z3.Int(fresh_name("m"))
        return z3.And(zint(L.n) == zint(ps.n), z3.ForAll([m], z3.Implies(z3.And(m >= 0, m < zint(ps.n)), z3.Select(L.cols[0], m) == TREES_FIELD(z3.Select(ps.cols[0], m)))))

    def chain_clause(text):
        def f(E, v, o):
            c = chain_of(v)
            if c is None:
                return False
            from pyvc.spec import eval_clause

            return eval_clause(E, text, dict(self=c, result=v["result"]), None, old_vars=o, extra=E.spec_extra)

        return f

    # THE PROPERTY'S CLAUSE, over the populations themselves (any member lengths: unequal, empty members, one member, none):
    # "chaining populations concatenates them in order with the right total length".  Member m of the chain is known through
    # tlen / item only, so a chain built from other containers than `p.trees` (views, copies) is judged by what it CONTAINS.
    def mlen(ps, m):
        return TLEN(TREES_FIELD(z3.Select(ps.cols[0], m)))

    def every_member_whole(E, v, o):
        c, ps = chain_of(v), v["self"].fields["populations"]
        if c is None or not isinstance(c.fields.get("trees"), PList) or c.fields["trees"].items is not None:
            return False
        L = c.fields["trees"]
        m, t = z3.Int(fresh_name("m")), z3.Int(fresh_name("t"))
        n = zint(ps.n)
        Lm = z3.Select(L.cols[0], m)
        return z3.And(zint(L.n) == n,
                      z3.ForAll([m], z3.Implies(z3.And(m >= 0, m < n), TLEN(Lm) == mlen(ps, m))),
                      z3.ForAll([m, t], z3.Implies(z3.And(m >= 0, m < n, t >= 0, t < mlen(ps, m)), ITEM(Lm, t) == ITEM(TREES_FIELD(z3.Select(ps.cols[0], m)), t))))

    def total_is_sum(E, v, o):
        c, ps = chain_of(v), v["self"].fields["populations"]
        if c is None or not isinstance(c.fields.get("cumsum"), X.SArr):
            return False
        C = c.fields["cumsum"]
        m = z3.Int(fresh_name("m"))
        n = zint(ps.n)
        total = chain_clause("len_(result) == self.cumsum[len_(self.trees)]")(E, v, o)
        return E.and_(z3.And(C.nz() == n + 1, z3.Select(C.arr, 0) == 0,
                             z3.ForAll([m], z3.Implies(z3.And(m >= 0, m < n), z3.Select(C.arr, m + 1) == z3.Select(C.arr, m) + mlen(ps, m))),
                             zint(c.fields["trees"].n) == n), total)

    def pops_inv(E, v, o):
        """object invariant of a Populations (established by Populations.__init__/post/len-is-the-minimum-length-of-the-populations)"""
        s = v["self"]
        ps, ln = s.fields["populations"], to_z3(s.fields["len"], "int")
        m = z3.Int(fresh_name("m"))
        n = zint(ps.n)
        return z3.And(n >= 1, z3.ForAll([m], z3.Implies(z3.And(m >= 0, m < n), z3.And(mlen(ps, m) >= 0, ln <= mlen(ps, m)))),
                      z3.Exists([m], z3.And(m >= 0, m < n, ln == mlen(ps, m))))

    def independent(label, f):
        """a postcondition that is NOT a hypothesis of the later ones (fewer hypotheses: sound): the property's two clauses each imply
        part of the other under the object invariant, so a chain that breaks both is reported under both names"""
        def g(E, v, o):
            n0 = len(E.pc)
            E.prove(f"Populations.to_population/post/{label}", f(E, v, o), "postcondition")
            del E.pc[n0:]
            return True

        return (label, g)

    R.add(f"{POP}:Populations.to_population", prop="C19",
          setup=lambda S: dict(self=pops_obj(S), __ghost__=GHOST),
          requires=[("object-invariant:at-least-one-population-and-len-is-the-minimum-member-length", pops_inv)],
          ensures=[("a-population-on-a-chain-with-no-root", lambda E, v, o: chain_of(v) is not None and v["result"].fields.get("root") == ""),
                   # (a failed clause is a hypothesis of the later ones: the property's own clauses come before the structural one and are independent)
                   independent("total-length-is-the-sum-of-all-member-lengths:prefix-sums-over-the-populations", total_is_sum),
                   independent("concatenation-of-all-members-in-order:one-chain-member-per-population-holding-all-of-its-trees-in-its-order", every_member_whole)]
                  # the older structural clause "members-are-the-populations'-containers-in-order" (the chain members ARE the `.trees` objects) demanded
                  # more than the property states: a chain of full views `p[:]` concatenates the same trees in the same order, lazily, and failed it.
                  # Removed in the fourth session; the two clauses above and the laziness clause below carry the property.
          + [(lab.strip().replace("wf-", "chain/"), chain_clause(txt.strip())) for lab, txt in (c.split("::", 1) for c in WF_CHAIN)]
          + [("total-length-is-the-sum-of-the-member-lengths(last-prefix-sum)", chain_clause("len_(result) == self.cumsum[len_(self.trees)]")),
             "at-most-a-probe-of-the-first-tree :: ncalls('ChainTrees.__getitem__') <= 1 and implies(ncalls('ChainTrees.__getitem__') == 1, callarg('ChainTrees.__getitem__', 0, 'key') == 0) and ncalls('Trees.__getitem__') == 0"],
          notes="any number of populations, each an opaque container of symbolic length; ChainTrees.__init__ and Population.__init__ are inlined, "
                "ChainTrees.__len__/__getitem__ (the constructor's probe) enter through their contracts")


_reg19g = register


def register(R):  # noqa: F811
    _reg19g(R)
    register_populations(R)


# ---------------------------------------------------------------------------
# Populations.from_swc: one population per root; with intersect=True (default) every population lists the SAME relative
# paths in the SAME order (the paths found under every root, each once), joined with its own root, so that row i holds
# same-named files.  set / intersection / list(set) / functools.reduce are models (pyvc/ext_C19.py): the order in which
# list(set) enumerates is left unconstrained (it depends on the hash seed), what is proved is that all populations share it.
def register_populations_from_swc(R):
    from pyvc.values import Obj, PDict, zint
    from swcgeom.core.population import LazyLoadingTrees, Population, Populations

    def setup(k, intersect, labels=False, check_same=False):
        def f(S):
            roots = PList([X.StrRef(S.int(f"root{a}").z) for a in range(k)])
            lab = PList([X.StrRef(S.int(f"label{a}").z) for a in range(k)]) if labels else None
            return dict(cls=Populations, roots=roots, ext=X.StrRef(S.int("ext").z), intersect=intersect, check_same=check_same, labels=lab,
                        kwargs=PDict({}), given_roots=roots, given_labels=lab, __ghost__=GHOST)

        return f

    def pops(v):
        """[(population, its lazy container)] of the result, or None"""
        r = v["result"]
        if not (isinstance(r, Obj) and r.cls is Populations):
            return None
        L = r.fields.get("populations")
        if not (isinstance(L, PList) and L.items is not None):
            return None
        out = []
        for p in L.items:
            if not (isinstance(p, Obj) and p.cls is Population):
                return None
            lz = p.fields.get("trees")
            if not (isinstance(lz, Obj) and lz.cls is LazyLoadingTrees and all(isinstance(lz.fields.get(f), PList) and lz.fields[f].items is None for f in ("swcs", "trees", "reads"))):
                return None
            out.append((p, lz))
        return out

    def searches(E, v, o):
        cs = [a for nm, a in E.call_log if nm == "Population.find_swcs"]
        roots = o["given_roots"].items
        return len(cs) == len(roots) and all(E.is_same(c["root"], r) is True and E.is_same(c["ext"], o["ext"]) is True and c["relpath"] is True for c, r in zip(cs, roots))

    def found(E):
        return [a["__result__"] for nm, a in E.call_log if nm == "Population.find_swcs"]

    def one_per_root(E, v, o):
        ps, roots = pops(v), o["given_roots"].items
        return ps is not None and len(ps) == len(roots) and all(E.is_same(p.fields.get("root"), r) is True for (p, _), r in zip(ps, roots))

    def rel_term(E, v, o, i):
        """the relative path of row i, read off population 0: its i-th file is join(root0, REL(i))"""
        ps = pops(v)
        t = z3.simplify(z3.Select(ps[0][1].fields["swcs"].cols[0], i))
        if t.decl().name() != X.JOIN.name() or not z3.simplify(t.arg(0) == X.zref(o["given_roots"].items[0])).eq(z3.BoolVal(True)):
            return None
        return t.arg(1)

    def same_named(E, v, o):
        ps = pops(v)
        if not ps:
            return False
        i = z3.Int(fresh_name("row"))
        rel = rel_term(E, v, o, i)
        if rel is None:
            return False
        n0 = zint(ps[0][1].fields["swcs"].n)
        acc = []
        for (p, lz), r in zip(ps, o["given_roots"].items):
            S_ = lz.fields["swcs"]
            acc.append(zint(S_.n) == n0)
            acc.append(z3.ForAll([i], z3.Implies(z3.And(i >= 0, i < n0), z3.Select(S_.cols[0], i) == X.JOIN(X.zref(r), rel))))
        return z3.And(*acc)

    def rows_found_everywhere(E, v, o):
        ps, F = pops(v), found(E)
        i = z3.Int(fresh_name("row"))
        rel = rel_term(E, v, o, i)
        if rel is None or len(F) != len(ps):
            return False
        n0 = zint(ps[0][1].fields["swcs"].n)
        ws = {id(L): (idx, n, col) for L, idx, n, col in E.ghost.get("set-witnesses", [])}
        acc = []
        for Fa in F:
            if len(F) == 1:
                acc.append(z3.And(n0 == zint(Fa.n), z3.ForAll([i], z3.Implies(z3.And(i >= 0, i < n0), rel == z3.Select(Fa.cols[0], i)))))
                continue
            if id(Fa) not in ws:
                return False
            idx, n, col = ws[id(Fa)]
            acc.append(z3.ForAll([i], z3.Implies(z3.And(i >= 0, i < n0), z3.And(idx(rel) >= 0, idx(rel) < zint(Fa.n), z3.Select(Fa.cols[0], idx(rel)) == rel))))
        return z3.And(*acc)

    def common_all_listed_once(E, v, o):
        ps, F = pops(v), found(E)
        if len(F) == 1:
            return True
        i, i2, x = z3.Int(fresh_name("row")), z3.Int(fresh_name("row2")), z3.Int(fresh_name("name"))
        rel = rel_term(E, v, o, i)
        enums = E.ghost.get("set-enumerations", [])
        if rel is None or len(enums) != 1:
            return False
        _, _, pos = enums[0]
        n0 = zint(ps[0][1].fields["swcs"].n)
        j = [z3.Int(fresh_name("j")) for _ in F]
        everywhere = z3.And(*[z3.And(jj >= 0, jj < zint(Fa.n), z3.Select(Fa.cols[0], jj) == x) for jj, Fa in zip(j, F)])
        rel_at = lambda t: z3.substitute(rel, (i, t))
        return z3.And(z3.ForAll([x] + j, z3.Implies(everywhere, z3.And(pos(x) >= 0, pos(x) < n0, rel_at(pos(x)) == x))),
                      z3.ForAll([i, i2], z3.Implies(z3.And(i >= 0, i < i2, i2 < n0), rel_at(i) != rel_at(i2))))

    def as_found(E, v, o):
        """intersect=False: population a lists the files found under its own root, in that order"""
        ps, F = pops(v), found(E)
        if ps is None or len(F) != len(ps):
            return False
        i = z3.Int(fresh_name("row"))
        acc = []
        for (p, lz), r, Fa in zip(ps, o["given_roots"].items, F):
            S_ = lz.fields["swcs"]
            acc.append(z3.And(zint(S_.n) == zint(Fa.n), z3.ForAll([i], z3.Implies(z3.And(i >= 0, i < zint(Fa.n)), z3.Select(S_.cols[0], i) == X.JOIN(X.zref(r), z3.Select(Fa.cols[0], i))))))
        return z3.And(*acc)

    def length(E, v, o):
        ps = pops(v)
        m = to_z3(v["result"].fields["len"], "int")
        ns = [zint(lz.fields["swcs"].n) for _, lz in ps]
        return z3.And(z3.And(*[m <= n for n in ns]), z3.Or(*[m == n for n in ns]))

    def labels(E, v, o):
        L, g, k = v["result"].fields.get("labels"), o["given_labels"], len(o["given_roots"].items)
        if not (isinstance(L, PList) and L.items is not None and len(L.items) == k):
            return False
        return all(x == "" for x in L.items) if g is None else all(E.is_same(a, b) is True for a, b in zip(L.items, g.items))

    def lazy(E, v, o):
        """in every population: nothing loaded or counted as read except possibly its first file; the object invariant holds"""
        acc = []
        for p, lz in pops(v):
            S_, T, Rd = (lz.fields[f] for f in ("swcs", "trees", "reads"))
            j = z3.Int(fresh_name("j"))
            n, sel = zint(S_.n), z3.Select
            acc.append(z3.And(zint(T.n) == n, zint(Rd.n) == n,
                              z3.ForAll([j], z3.Implies(z3.And(j >= 1, j < n), z3.And(sel(T.cols[0], j) == 0, sel(Rd.cols[0], j) == 0))),
                              z3.Implies(n > 0, z3.And(sel(Rd.cols[0], 0) >= 0, sel(Rd.cols[0], 0) <= 1, (sel(Rd.cols[0], 0) == 0) == (sel(T.cols[0], 0) == 0),
                                                       z3.Implies(sel(T.cols[0], 0) != 0, sel(T.cols[0], 0) == TREE_OF(sel(S_.cols[0], 0)))))))
        return z3.And(*acc)

    def probes(E, v, o):
        cs = [a for nm, a in E.call_log if nm == "LazyLoadingTrees.__getitem__"]
        ps = pops(v)
        direct = [nm for nm, _ in E.call_log if nm in ("Tree.from_swc", "LazyLoadingTrees.load")]
        if direct or len(cs) > len(ps):
            return False
        seen = []
        for c in cs:  # at most one probe per population, each of index 0
            if c["self"] in seen or not any(c["self"] is lz for _, lz in ps) or not (isinstance(c["key"], int) and c["key"] == 0):
                return False
            seen.append(c["self"])
        return True

    BASE = [("one-population-per-root-in-order-each-rooted-at-its-root", one_per_root),
            ("every-root-searched-once-for-relative-paths-with-the-extension", searches),
            ("len-is-the-minimum-population-length", length),
            ("labels-given-or-empty-one-per-population", labels),
            ("nothing-loaded-or-read-except-possibly-the-first-file-of-each-population", lazy),
            ("at-most-one-probe-of-file-0-per-population-no-direct-read", probes)]
    MATCH = [("row-i-holds-same-named-files:the-same-relative-path-joined-with-each-root-same-order-everywhere", same_named),
             ("every-row-name-was-found-under-every-root", rows_found_everywhere),
             ("every-name-found-under-all-roots-has-exactly-one-row", common_all_listed_once)]

    R.add(f"{POP}:Populations.from_swc", prop="C19",
          variants={"one-root": setup(1, True), "two-roots": setup(2, True), "three-roots-labelled": setup(3, True, labels=True)},
          ensures=BASE + MATCH,
          notes="fixed numbers of roots (1..3); walks, file lists, extension symbolic; find_swcs through its contract; constructors inlined")
    R.add(f"{POP}:Populations.from_swc", prop="C19",
          variants={"two-roots-no-intersection": setup(2, False)},
          ensures=BASE + [("without-intersection-each-population-lists-what-was-found-under-its-root-in-that-order", as_found)],
          notes="intersect=False: no matching; only the minimum length is recorded")

    # Populations.from_eswc: the same matching, every reader is told the extra columns (given ones, then the eswc columns)
    def eswc_setup(given):
        def f(S):
            roots = PList([X.StrRef(S.int(f"root{a}").z) for a in range(2)])
            g = None if given is None else PList(list(given))
            return dict(cls=Populations, roots=roots, extra_cols=g, ext=X.StrRef(S.int("ext").z), kwargs=PDict({}), given_roots=roots, given_labels=None, given=g, __ghost__=GHOST)

        return f

    def eswc_columns(E, v, o):
        from swcgeom.core.swc import eswc_cols as real

        given = o["given"]
        want = (list(given.items) if given is not None else []) + [k for k, _ in real]
        ps = pops(v)
        if not ps:
            return False
        for _, lz in ps:
            kw = lz.fields.get("kwargs")
            got = kw.items.get("extra_cols") if isinstance(kw, PDict) and kw.items is not None else None
            if not (isinstance(got, PList) and got.items == want and set(kw.items) == {"extra_cols"}):
                return False
        return v.get("given") is None or v["given"].items == list(given.items)

    R.add(f"{POP}:Populations.from_eswc", prop="C19",
          variants={"two-roots": eswc_setup(None), "two-roots-one-extra-column": eswc_setup(("u",))},
          ensures=BASE + MATCH + [("every-reader-gets-the-given-columns-then-the-eswc-columns-callers-list-untouched", eswc_columns)],
          notes="Populations.from_swc inlined")

    # Defect found here and FIXED in /repo (replayed natively: tools/replay_C19_check_same.py): with intersect=False the
    # option check_same=True is documented as "Check if the directories contains the same swc", but the code asserts a
    # NON-EMPTY LIST (`assert [fs[0] == a for a in fs[1:]]`), which is always true for two or more roots: directories with
    # different file sets are accepted and row i pairs differently named files.  (With ONE root the list is empty and the
    # call always raises AssertionError.)  The clause below is what the option promises; it failed on the code before the fix.
    def same_lists(E, v, o):
        F = found(E)
        i = z3.Int(fresh_name("row"))
        return z3.And(*[z3.And(zint(Fa.n) == zint(F[0].n), z3.ForAll([i], z3.Implies(z3.And(i >= 0, i < zint(F[0].n)), z3.Select(Fa.cols[0], i) == z3.Select(F[0].cols[0], i)))) for Fa in F[1:]])

    R.add(f"{POP}:Populations.from_swc", prop="C19",
          variants={"two-roots-check-same": setup(2, False, check_same=True)},
          raises={"AssertionError": ("only-when-some-root-lists-different-relative-paths", lambda E, v, o: z3.Not(same_lists(E, v, o)))},
          ensures=[("check_same:accepted-only-if-every-root-lists-the-same-relative-paths", same_lists)],
          notes="found a defect (fixed in /repo, see known_findings.jsonl): check_same never rejected")


_reg19h = register


def register(R):  # noqa: F811
    _reg19h(R)
    register_populations_from_swc(R)


# ---------------------------------------------------------------------------
# Population.map(fn): "returns one result per tree in order".  The process pool enters as an ASSUMED model
# (pyvc/ext_C19.py: Executor.map(fn, xs) = iterator over [fn(x) for x in xs], xs consumed in the caller, fn pure in workers);
# the argument plumbing is real code: `(t for t in self.trees)` is the LAZY iterator of the container, consumed by the model
# through the consumer rule with the invariant below (item j submitted = the j-th tree; cache / read-counter invariant kept).
X.install_pools()
APPLY = z3.Function("apply_fn", _I, _I)  # the mapped function (pure: it runs in worker processes on pickled copies)


def register_map(R):
    from pyvc.values import zint
    from swcgeom.core.population import ChainTrees, Population

    def setup(kind, verbose):
        def f(S):
            trees = lazy_obj(S) if kind == "lazy" else chain_obj(S)
            return dict(self=S.obj(Population, trees=trees, root=""), fn=S.callback("fn", lambda E, a, k: Sym(APPLY(to_z3(a[0], "int")), "oref")),
                        max_worker=None, verbose=verbose, __ghost__=GHOST)

        return f

    def is_lazy(v):
        return getattr(v["self"].fields["trees"].cls, "__name__", "") == "LazyLoadingTrees"

    def tree_k(v, j):
        """the j-th tree of the population: (condition, term)"""
        t = v["self"].fields["trees"]
        if is_lazy(v):
            return z3.BoolVal(True), (lambda x: x == TREE_OF(z3.Select(t.fields["swcs"].cols[0], j)))
        C, M = t.fields["cumsum"], t.fields["trees"]
        m = z3.Int(fresh_name("m"))
        return None, (lambda x: z3.Exists([m], z3.And(m >= 0, m < zint(M.n), z3.Select(C.arr, m) <= j, j < z3.Select(C.arr, m + 1),
                                                       x == ITEM(z3.Select(M.cols[0], m), j - z3.Select(C.arr, m)))))

    j = z3.Int("j")

    def submitted(E, v, o):
        xs, k = v["__out__"], to_z3(v["_k"], "int")
        _, is_tree = tree_k(v, j)
        return z3.And(zint(xs.n) == k, z3.ForAll([j], z3.Implies(z3.And(j >= 0, j < k), is_tree(z3.Select(xs.cols[0], j)))))

    def lazy_inv(E, v, o):
        if not is_lazy(v):
            return True
        t = v["self"].fields["trees"]
        k = to_z3(v["_k"], "int")
        T = t.fields["trees"].cols[0]
        return E.and_(_all(E, wf_lazy("self.trees") + frame_lazy("self.trees")[:1], v, o), z3.ForAll([j], z3.Implies(z3.And(j >= 0, j < k), z3.Select(T, j) != 0)))

    def chain_inv(E, v, o):
        return True if is_lazy(v) else _all(E, WF_CHAIN, dict(self=v["self"].fields["trees"]), o)

    RULE = dict(kind="oref", invariant=[("item-j-submitted-is-the-j-th-tree", submitted), ("cache-invariant-and-everything-requested-so-far-is-loaded", lazy_inv), ("chain-well-formed", chain_inv)])

    def results(E, v, o):
        r = v["result"]
        if v["verbose"]:
            res = r if isinstance(r, PList) else None
        else:
            res = r.seq if isinstance(r, Iter) and isinstance(r.seq, PList) and not r.consumed else None
        if res is None or res.items is not None:
            return False
        t = v["self"].fields["trees"]
        n = zint(t.fields["swcs"].n) if is_lazy(v) else z3.Select(t.fields["cumsum"].arr, zint(t.fields["trees"].n))
        x = z3.Int(fresh_name("x"))
        _, is_tree = tree_k(v, j)
        return z3.And(zint(res.n) == n, z3.ForAll([j], z3.Implies(z3.And(j >= 0, j < n), z3.Exists([x], z3.And(is_tree(x), z3.Select(res.cols[0], j) == APPLY(x))))))

    def each_once(E, v, o):
        return True if not is_lazy(v) else _all(E, wf_lazy("self.trees") + frame_lazy("self.trees")[:2], v, o)

    R.add(f"{POP}:Population.map", prop="C19",
          variants={"lazy-container": setup("lazy", False), "lazy-container-verbose": setup("lazy", True), "chained-container": setup("chain", False)},
          requires=[("object-invariant", lambda E, v, o: _all(E, wf_lazy("self.trees"), v) if is_lazy(v) else _all(E, WF_CHAIN, dict(self=v["self"].fields["trees"])))],
          options=dict(genexp_hook=X.genexp_hook, pool_rule=RULE),
          ensures=[("one-result-per-tree-in-order:result-k-is-fn-of-the-k-th-tree", results),
                   ("each-file-read-at-most-once(object-invariant-kept-files-untouched)", each_once)],
          notes="ASSUMED model of the process pool (see trusted_base); containers: LazyLoadingTrees, ChainTrees; fn an arbitrary pure function")


_reg19i = register


def register(R):  # noqa: F811
    _reg19i(R)
    register_map(R)


# ---------------------------------------------------------------------------
# PopulationTransform.__call__(population): "one result per tree, in order".  The loop `for t in population` consumes the
# population's LAZY iterator (pyvc.loops: the element is evaluated inside the arbitrary iteration, the cache / read counters are
# loop state).  Trees are references; their `source` attribute lives in a ghost field heap `sources` (reference -> string
# reference, contract option ref_attr_hook); the wrapped transform is an arbitrary pure function TF of the tree.
TPOP = "swcgeom/transforms/population.py"
TF = z3.Function("transform_of", _I, _I)


def _source_heap(E, v, name, val, store):
    if name != "source":
        return NotImplemented
    heap = E.ghost.get("heap:source")
    if heap is None:
        return NotImplemented
    if store:
        heap.arr = z3.Store(heap.arr, v.z, X.zref(val))
        return None
    return X.StrRef(z3.Select(heap.arr, v.z))


def register_transform(R):
    from pyvc.values import Obj, zint
    from swcgeom.core.population import Population
    from swcgeom.transforms.population import PopulationTransform

    def tf_model(eng, fn, args, kwargs):
        eng.assumptions.add("C19-model: the wrapped transform is an arbitrary PURE function of the tree (it touches neither the population nor any `source`)")
        return Sym(TF(to_z3(args[0], "int")), "oref")

    def setup(S):
        heap = S.arr("ref", name="source_of")
        S.eng.ghost["heap:source"] = heap
        pop = S.obj(Population, trees=lazy_obj(S), root=X.StrRef(S.int("root").z))
        return dict(self=S.obj(PopulationTransform, transform=Opaque(z3.Int(fresh_name("tf")), {"__call__": tf_model})), population=pop,
                    sources=heap, given=pop, __ghost__=GHOST)

    EMPTY = X.intern_str("")
    j, x = z3.Int("j"), z3.Int("x")

    def parts(v, o):
        lz = v["given"].fields["trees"]
        return lz.fields["swcs"].cols[0], zint(lz.fields["swcs"].n), lz.fields["trees"].cols[0], v["sources"].arr, o["sources"].arr

    def results_upto(L, v, o, k):
        S_, n, T, H, H0 = parts(v, o)
        if L.items is not None:
            return len(L.items) == 0 and z3.simplify(k == 0)
        return z3.And(zint(L.n) == k, z3.ForAll([j], z3.Implies(z3.And(j >= 0, j < k), z3.Select(L.cols[0], j) == TF(TREE_OF(z3.Select(S_, j))))))

    def loaded_upto(v, o, k):
        S_, n, T, H, H0 = parts(v, o)
        return z3.ForAll([j], z3.Implies(z3.And(j >= 0, j < k), z3.Select(T, j) != 0))

    def sources_kept(v, o):
        S_, n, T, H, H0 = parts(v, o)
        return z3.ForAll([x], z3.Implies(z3.Select(H0, x) != EMPTY, z3.Select(H, x) == z3.Select(H0, x)))

    def sources_filled(L, v, o, k):
        S_, n, T, H, H0 = parts(v, o)
        if L.items is not None:
            return True
        return z3.ForAll([j], z3.Implies(z3.And(j >= 0, j < k), z3.Or(z3.Select(H, z3.Select(L.cols[0], j)) != EMPTY, z3.Select(H0, TREE_OF(z3.Select(S_, j))) == EMPTY)))

    K = lambda v: to_z3(v["_k0"], "int")
    INV = [("result-j-is-the-transform-of-the-j-th-tree", lambda E, v, o: results_upto(v["trees"], v, o, K(v))),
           ("object-invariant-files-untouched", lambda E, v, o: _all(E, wf_lazy("given.trees") + frame_lazy("given.trees")[:1], v, o)),
           ("every-tree-requested-so-far-is-loaded", lambda E, v, o: loaded_upto(v, o, K(v))),
           ("a-non-empty-source-is-never-overwritten", lambda E, v, o: sources_kept(v, o)),
           ("every-result-so-far-has-a-source-unless-its-input-had-none", lambda E, v, o: sources_filled(v["trees"], v, o, K(v)))]

    def res_list(v):
        r = v["result"]
        if not (isinstance(r, Obj) and r.cls is Population):
            return None
        L = r.fields.get("trees")
        return L if isinstance(L, PList) and L.items is None else None

    def shape(E, v, o):
        L = res_list(v)
        return L is not None and L.uid not in E.entry_uids and E.is_same(v["result"].fields.get("root"), o["given"].fields["root"]) is True

    def n_of(v, o):
        return parts(v, o)[1]

    def input_untouched(E, v, o):
        g = v["given"]
        return g.fields["trees"].uid == o["given"].fields["trees"].uid and E.is_same(g.fields["root"], o["given"].fields["root"]) is True and v["population"] is g

    R.add(f"{TPOP}:PopulationTransform.__call__", prop="C19",
          setup=setup,
          requires=wf_lazy("population.trees"),
          options=dict(genexp_hook=X.genexp_hook, ref_attr_hook=_source_heap),
          loops={0: dict(invariant=INV, types={"trees": "oref"}, modifies=["sources"])},
          ensures=[("a-new-population-on-a-fresh-list-with-the-same-root", shape),
                   ("one-result-per-tree-in-order:result-k-is-the-transform-of-the-k-th-tree", lambda E, v, o: False if res_list(v) is None else results_upto(res_list(v), v, o, n_of(v, o))),
                   ("a-result-that-has-a-source-keeps-it", lambda E, v, o: sources_kept(v, o)),
                   ("a-result-without-a-source-inherits-its-input's", lambda E, v, o: False if res_list(v) is None else sources_filled(res_list(v), v, o, n_of(v, o))),
                   ("each-file-read-at-most-once(object-invariant-kept-files-untouched)", lambda E, v, o: _all(E, wf_lazy("given.trees") + frame_lazy("given.trees")[:2], v, o)),
                   ("input-population-keeps-its-container-and-root", input_untouched)],
          notes="population on a LazyLoadingTrees; the wrapped transform is an uninterpreted pure function; `source` attributes in a ghost heap")


_reg19j = register


def register(R):  # noqa: F811
    _reg19j(R)
    register_transform(R)
