"""C19 — population containers: sidecar contracts (no edit of /repo)."""
import z3

from pyvc.spec import Registry, SpecFn
from pyvc.values import Iter, Opaque, PList, Sym, fresh, fresh_name, to_z3

POP = "swcgeom/core/population.py"

# ---------------------------------------------------------------------------
# The protocol `Trees` (opaque members of a chain): __len__ and __getitem__ are
# uninterpreted functions tlen(ref) >= 0 and item(ref, k).
_I = z3.IntSort()
TLEN = z3.Function("tlen", _I, _I)
ITEM = z3.Function("item", _I, _I, _I)


def _p_len(eng, recv, args, kwargs):
    eng.assume(TLEN(recv.z) >= 0)
    return Sym(TLEN(recv.z), "int")


def _p_getitem(eng, recv, args, kwargs):
    return Sym(ITEM(recv.z, to_z3(args[0], "int")), "ref")


TREES_PROTO = {"__len__": _p_len, "__getitem__": _p_getitem}

GHOST = {
    "tlen": SpecFn(lambda e, a, k: Sym(TLEN(to_z3(a[0].z if isinstance(a[0], Opaque) else a[0], "int")), "int"), "tlen"),
    "item": SpecFn(lambda e, a, k: Sym(ITEM(to_z3(a[0].z if isinstance(a[0], Opaque) else a[0], "int"), to_z3(a[1], "int")), "ref"), "item"),
}


def _members(S, name="members"):
    p = S.plist("ref", name=name)
    p.proto = TREES_PROTO
    i = z3.Int(fresh_name("i"))
    S.assume(z3.ForAll([i], TLEN(z3.Select(p.cols[0], i)) >= 0))
    return p


def chain_obj(S):
    from swcgeom.core.population import ChainTrees

    trees = _members(S, "trees")
    cumsum = S.arr("int", name="cumsum")
    return S.obj(ChainTrees, trees=trees, cumsum=cumsum)


WF_CHAIN = [
    "wf-cumsum-len :: len_(self.cumsum) == len_(self.trees) + 1",
    "wf-cumsum-0 :: self.cumsum[0] == 0",
    "wf-cumsum-step :: forall(0, len_(self.trees), lambda m: self.cumsum[m + 1] - self.cumsum[m] == tlen(self.trees[m]))",
    "wf-cumsum-mono :: forall(lambda a, b: implies(0 <= a and a <= b and b <= len_(self.trees), self.cumsum[a] <= self.cumsum[b]))",
]


def register(R: Registry):
    # ---------------------------------------------------------------- _get_idx
    R.add(
        f"{POP}:_get_idx",
        prop="C19",
        setup=lambda S: dict(key=S.int("key"), length=S.int("length")),
        requires=["length >= 0"],
        raises={"IndexError": "out-of-range-only :: key < -length or key >= length"},
        returns="int",
        ensures=[
            "in-range-accepted :: -length <= old(key) and old(key) < length",
            "non-negative-kept :: implies(old(key) >= 0, result == old(key))",
            "negative-wraps :: implies(old(key) < 0, result == old(key) + length)",
            "result-in-range :: 0 <= result and result < length",
        ],
    )

    # ------------------------------------------------------ ChainTrees.__len__
    R.add(
        f"{POP}:ChainTrees.__len__",
        prop="C19",
        setup=lambda S: dict(self=chain_obj(S), __ghost__=GHOST),
        requires=WF_CHAIN,
        returns="int",
        ensures=["total-length :: result == self.cumsum[len_(self.trees)]"],
    )

    # -------------------------------------------------- ChainTrees.__getitem__
    R.add(
        f"{POP}:ChainTrees.__getitem__",
        prop="C19",
        setup=lambda S: dict(self=chain_obj(S), key=S.int("key"), __ghost__=GHOST),
        requires=WF_CHAIN,
        raises={"IndexError": "out-of-range-only :: key < -self.cumsum[len_(self.trees)] or key >= self.cumsum[len_(self.trees)]"},
        returns="ref",
        ensures=[
            "in-range-accepted :: -self.cumsum[len_(self.trees)] <= key and key < self.cumsum[len_(self.trees)]",
            # the whole view: the element is the one of the unique member whose
            # cumulative window contains the normalised index
            "element-of-the-right-member :: exists(0, len_(self.trees), lambda m: "
            "self.cumsum[m] <= ite(key < 0, key + self.cumsum[len_(self.trees)], key) and "
            "ite(key < 0, key + self.cumsum[len_(self.trees)], key) < self.cumsum[m + 1] and "
            "same(result, item(self.trees[m], ite(key < 0, key + self.cumsum[len_(self.trees)], key) - self.cumsum[m])))",
        ],
        loops={
            0: dict(
                invariant=[
                    "bounds :: 1 <= i and i <= j and j <= len_(self.trees)",
                    "lower :: self.cumsum[i - 1] <= idx",
                    "upper :: idx < self.cumsum[j]",
                ],
                decreases="j - i",
            )
        },
    )

    # ------------------------------------------------------ ChainTrees.__init__
    def init_list(S):
        from swcgeom.core.population import ChainTrees

        m = _members(S, "arg")
        return dict(self=S.obj(ChainTrees), trees=m, members=m, __ghost__=GHOST)

    def init_iter(S):
        from swcgeom.core.population import ChainTrees

        m = _members(S, "arg")
        return dict(self=S.obj(ChainTrees), trees=Iter(m), members=m, __ghost__=GHOST)

    R.add(
        f"{POP}:ChainTrees.__init__",
        prop="C19",
        variants={"list": init_list, "one-shot-iterator": init_iter},
        ensures=[
            # written from the property: "chaining populations concatenates them in
            # order with the right total length" for ANY iterable of members
            "members-kept :: len_(self.trees) == len_(members) and forall(0, len_(members), lambda m: same(self.trees[m], members[m]))",
            "cumsum-length :: len_(self.cumsum) == len_(self.trees) + 1",
            "cumsum-0 :: self.cumsum[0] == 0",
            "cumsum-step :: forall(0, len_(self.trees), lambda m: self.cumsum[m + 1] - self.cumsum[m] == tlen(self.trees[m]))",
            "cumsum-mono :: forall(lambda a, b: implies(0 <= a and a <= b and b <= len_(self.trees), self.cumsum[a] <= self.cumsum[b]))",
        ],
    )
