"""C09 — views are faithful windows: heap-level sidecar contracts."""
import z3

from contracts.common import COLS, col, nof, sym_tree, sym_tree_fixed
from pyvc import ext_C09 as X
from pyvc.spec import Registry
from pyvc.values import NArr, Obj, PDict, PList, SArr, Sym, fresh_name, kind_of, to_z3, zint

NODE = "swcgeom/core/node.py"
TREE = "swcgeom/core/tree.py"
PATH = "swcgeom/core/path.py"
BRANCH = "swcgeom/core/branch.py"
COMP = "swcgeom/core/compartment.py"
SWC = "swcgeom/core/swc.py"
KEYS = list(COLS)
OPTS = dict(models=X.MODELS)

from pyvc import ext_tables  # noqa: E402

ext_tables.chain(X.ModelsProxy)  # getattr-built caches / lookup tables: np.bincount, np.argsort, np.searchsorted, np.add.at, np.flatnonzero on symbolic columns


def built(S, cls, args, declared):
    """An arbitrary instance of a view class = what the REAL constructor builds from arbitrary arguments (`S.new`: `cls.__init__` is
    interpreted from the repository, so a field a change adds to the constructor is there, with the value the constructor computes, and
    the accessor that reads it is verified against its own contract instead of stopping at a missing attribute).  The fields the
    contracts speak about (`declared`) are the constructor's own postcondition (Path.__init__ / Compartment.__init__ are carriers);
    when the constructor leaves the modelled subset the declared representation is used and the constructor's own carrier
    reports the machinery error."""
    from pyvc.engine import Unsupported

    try:
        o = S.new(cls, *args)
    except Unsupported:
        o = S.obj(cls, **declared)
    # a view is a value: no accessor may write to the view object or to anything its constructor allocated for it (obligations
    # safety/frame-attr-write, safety/frame-write) -- so every later access finds it as the constructor left it, which is what closes the
    # argument over histories.  What the view merely refers to (the owner, handed in as an argument) keeps the setup's own frame.
    given = set()

    def reach(v):
        if id(v) in given or isinstance(v, (int, float, str, Sym, type(None))):
            return
        given.add(id(v))
        if isinstance(v, Obj):
            for x in v.fields.values():
                reach(x)
        elif isinstance(v, (PList, PDict)) and v.items is not None:
            for x in (v.items.values() if isinstance(v, PDict) else v.items):
                reach(x)
        elif isinstance(v, (tuple, list)):
            for x in v:
                reach(x)

    for a in args:
        reach(a)

    def freeze(v):
        if id(v) in given or not isinstance(v, (Obj, PList, PDict, SArr, NArr)):
            return
        given.add(id(v))
        v.frozen = True
        if isinstance(v, Obj):
            for x in v.fields.values():
                freeze(x)
        elif isinstance(v, (PList, PDict)) and v.items is not None:
            for x in (v.items.values() if isinstance(v, PDict) else v.items):
                freeze(x)

    freeze(o)
    return o


def node_obj(S, t, idx=None, cls=None):
    from swcgeom.core.tree import Tree

    i = S.int("idx") if idx is None else idx
    return built(S, cls or Tree.Node, (t, i), dict(attach=t, idx=i, names=t.fields["names"]))


def in_range(E, v, o):
    n = v["self"]
    i = to_z3(n.fields["idx"], "int")
    return z3.And(i >= 0, i < nof(n.fields["attach"]))


def register(R: Registry):
    # ------------------------------------------------------ Node.__getitem__
    def reads_owner_now(E, v, o):
        n = v["self"]
        c = col(n.fields["attach"], v["key"])
        return to_z3(v["result"], c.kind) == z3.Select(c.arr, to_z3(n.fields["idx"], "int"))

    R.add(f"{NODE}:Node.__getitem__", prop="C09", pure_inline=True,
          variants={k: (lambda S, _k=k: dict(self=node_obj(S, sym_tree(S, "t", frozen=True)), key=_k)) for k in KEYS},
          requires=[("handle-in-range", in_range)],
          ensures=[("reads-the-owner-column-at-call-time", reads_owner_now)])

    # ------------------------------------------------------ Node.__setitem__
    def writes_through(E, v, o):
        n, n0 = v["self"], o["self"]
        t, t0 = n.fields["attach"], n0.fields["attach"]
        i = to_z3(n0.fields["idx"], "int")
        k = v["k"]
        j = z3.Int(fresh_name("j"))
        out = []
        for c in KEYS:
            a1, a0 = col(t, c), col(t0, c)
            same_alloc = a1.uid == a0.uid
            if c == k:
                out.append(z3.And(same_alloc, z3.Select(a1.arr, i) == to_z3(v["v"], a1.kind),
                                  z3.ForAll([j], z3.Implies(z3.And(j >= 0, j < nof(t0), j != i), z3.Select(a1.arr, j) == z3.Select(a0.arr, j)))))
            else:
                out.append(z3.And(same_alloc, z3.ForAll([j], z3.Implies(z3.And(j >= 0, j < nof(t0)), z3.Select(a1.arr, j) == z3.Select(a0.arr, j)))))
        return z3.And(*out)

    def set_setup(k):
        def f(S):
            t = sym_tree(S, "t", frozen=False)
            val = S.int("v") if COLS[k] == "int" else S.real("v")
            return dict(self=node_obj(S, t), k=k, v=val)

        return f

    R.add(f"{NODE}:Node.__setitem__", prop="C09", pure_inline=True,
          variants={k: set_setup(k) for k in KEYS},
          requires=[("handle-in-range", in_range)],
          ensures=[("write-through-and-nothing-else", writes_through)])

    # property getters / setters delegate to the item accessors
    for k in KEYS:
        R.add(f"{NODE}:Node.{k}", prop="C09", pure_inline=True,
              setup=lambda S: dict(self=node_obj(S, sym_tree(S, "t", frozen=True))),
              requires=[("handle-in-range", in_range)],
              ensures=[(f"attribute-{k}-is-the-column-entry", (lambda kk: lambda E, v, o: to_z3(v["result"], COLS[kk]) == z3.Select(col(v["self"].fields["attach"], kk).arr, to_z3(v["self"].fields["idx"], "int")))(k))])
        R.add(f"{NODE}:Node.{k}@setter", prop="C09", pure_inline=True,
              setup=(lambda kk: lambda S: dict(self=node_obj(S, sym_tree(S, "t", frozen=False)), v=(S.int("v") if COLS[kk] == "int" else S.real("v")), k=kk))(k),
              requires=[("handle-in-range", in_range)],
              ensures=[("write-through-and-nothing-else", writes_through)])

    # ------------------------------------------------------ Tree.__getitem__
    def is_node(E, v, o):
        r, t = v["result"], v["self"]
        if not (isinstance(r, Obj) and r.fields.get("attach") is t):
            return False
        n, key = nof(t), to_z3(o["key"], "int")
        return to_z3(r.fields["idx"], "int") == z3.If(key < 0, key + n, key)

    def tree_slice_post(E, v, o):
        from swcgeom.core.tree import Tree

        t, h = v["self"], handles(v)
        if not X.is_list_of(h, Tree.Node, attach=t, names=t.fields["names"]):
            return False
        lo, st, cnt = slice_positions(o["key"], nof(t))
        k = qj("k")
        return z3.And(zint(h.n) == cnt, z3.ForAll([k], z3.Implies(z3.And(k >= 0, k < cnt), z3.Select(h.col("idx"), k) == lo + k * st)))

    tgi_variants = {"int": lambda S: dict(self=sym_tree(S, "t"), key=S.int("key"))}
    for nm in SLICES:
        tgi_variants["slice " + nm] = (lambda S, _nm=nm: dict(self=sym_tree(S, "t"), key=slice_variants(S)[_nm]))
    for k in KEYS:
        tgi_variants["str " + k] = (lambda S, _k=k: dict(self=sym_tree(S, "t"), key=_k))
    out_of_range = lambda E, v, o: z3.Or(to_z3(v["key"], "int") < -nof(v["self"]), to_z3(v["key"], "int") >= nof(v["self"]))
    never = lambda E, v, o: False

    R.add(f"{TREE}:Tree.__getitem__", prop="C09", variants=tgi_variants,
          raises={"IndexError": ("out-of-range-only", by_form(out_of_range, never, never))},
          ensures=[("in-range-accepted", by_form(lambda E, v, o: z3.And(to_z3(o["key"], "int") >= -nof(v["self"]), to_z3(o["key"], "int") < nof(v["self"])), None, None)),
                   ("handle-on-this-tree-at-the-normalised-index", by_form(is_node, None, None)),
                   ("slice-gives-the-handles-of-exactly-the-sliced-rows-in-order", by_form(None, tree_slice_post, None)),
                   ("name-gives-the-column-itself", by_form(None, None, lambda E, v, o: v["result"] is col(v["self"], v["key"])))],
          options=dict(OPTS))

    def str_variants():
        return {k: (lambda S, _k=k: dict(self=sym_tree(S, "t"), key=_k)) for k in KEYS}

    # Tree['x'] returns the column itself (aliasing is intended)
    R.add(f"{SWC}:DictSWC.get_ndata", prop="C09", pure_inline=True,
          variants=str_variants(),
          ensures=[("is-the-column-itself", lambda E, v, o: v["result"] is col(v["self"], v["key"]))])

    # ------------------------------------------------------ Tree.Node.parent
    def parent_post(E, v, o):
        n = v["self"]
        t = n.fields["attach"]
        i = to_z3(n.fields["idx"], "int")
        p = z3.Select(col(t, "pid").arr, i)
        r = v["result"]
        if r is None:
            return p == -1
        return z3.And(p != -1, r.fields["attach"] is t, to_z3(r.fields["idx"], "int") == p)

    R.add(f"{TREE}:Tree.Node.parent", prop="C09",
          setup=lambda S: dict(self=node_obj(S, sym_tree(S, "t"))),
          requires=[("handle-in-range", in_range)],
          ensures=[("handle-on-the-parent-or-none-for-a-root", parent_post)])

    # ------------------------------------------------------ Path.get_ndata
    def path_obj(S, t, cls=None, L=None):
        from swcgeom.core.path import Path

        if L is None:
            idx = S.arr("int", name="pidx")
            j = z3.Int(fresh_name("j"))
            S.assume(z3.ForAll([j], z3.Implies(z3.And(j >= 0, j < idx.nz()), z3.And(idx.get(j).z >= 0, idx.get(j).z < nof(t)))))
        else:
            idx = NArr((L,), [S.int(f"pidx{k}") for k in range(L)], "int")
            for x in idx.items:
                S.assume(z3.And(x.z >= 0, x.z < nof(t)))
        from swcgeom.core.compartment import Compartment

        idx.frozen = True
        klass = cls or Path
        args = (t, idx.items[0], idx.items[1]) if issubclass(klass, Compartment) else (t, idx)  # Compartment(attach, pid, idx)
        return built(S, klass, args, dict(attach=t, idx=idx, names=t.fields["names"], source=""))

    def gathers(E, v, o):
        p = v["self"]
        c = col(p.fields["attach"], v["key"])
        idx, r = p.fields["idx"], v["result"]
        j = z3.Int(fresh_name("j"))
        return z3.And(r.nz() == idx.nz(), r.uid not in E.entry_uids,
                      z3.ForAll([j], z3.Implies(z3.And(j >= 0, j < idx.nz()), r.get(j).z == z3.Select(c.arr, idx.get(j).z))))

    R.add(f"{PATH}:Path.get_ndata", prop="C09",
          variants={k: (lambda S, _k=k: dict(self=path_obj(S, sym_tree(S, "t")), key=_k)) for k in KEYS},
          ensures=[("fresh-gather-of-the-owner-column-in-order", gathers)])

    # ------------------------------------------------ Branch.get_compartments
    def consecutive_pairs(E, v, o):
        br = o["self"]
        res = v["result"]
        items = res.fields["__items__"].items
        L = br.fields["idx"].shape[0]
        if len(items) != L - 1:
            return False
        out = []
        for j, comp in enumerate(items):
            ci = comp.fields["idx"]
            if comp.fields["attach"] is not v["self"] or ci.shape != (2,):
                return False
            # a compartment reports, for every key, branch.get_ndata(key)[[j, j+1]]:
            # its window onto the branch must be positions (j, j+1)
            out.append(z3.And(to_z3(ci.items[0], "int") == j, to_z3(ci.items[1], "int") == j + 1))
        return z3.And(*out) if out else True

    def branch_setup(L):
        def f(S):
            from swcgeom.core.tree import Tree

            return dict(self=path_obj(S, sym_tree(S, "t"), cls=Tree.Branch, L=L))

        return f

    R.add(f"{BRANCH}:Branch.get_compartments", prop="C09",
          variants={f"attached-branch-of-{L}-nodes": branch_setup(L) for L in (2, 3, 4)},
          ensures=[("segments-are-the-consecutive-node-pairs", consecutive_pairs)],
          notes="branch length is fixed per variant (2, 3, 4 nodes); node ids and all attributes are symbolic")

    # ------------------------------------------------------------ DictSWC.copy
    def copy_post(E, v, o):
        y, x = v["result"], o["self"]
        if y is v["self"] or not isinstance(y, Obj) or y.cls is not x.cls or y.uid in E.entry_uids or list(y.fields["ndata"].items) != list(x.fields["ndata"].items):
            return False
        if y.fields["ndata"].uid in E.entry_uids or y.fields.get("names") != x.fields["names"] or y.fields.get("source") != x.fields["source"]:
            return False
        j = z3.Int(fresh_name("j"))
        out = []
        for k in x.fields["ndata"].items:
            a, b = col(y, k), col(x, k)
            if a.uid in E.entry_uids or getattr(a, "view_of", None) is not None:
                return False
            out.append(z3.And(a.nz() == b.nz(), z3.ForAll([j], z3.Implies(z3.And(j >= 0, j < b.nz()), z3.Select(a.arr, j) == z3.Select(b.arr, j)))))
        uids = [a.uid for a in y.fields["ndata"].items.values()]
        return z3.And(*out) if len(set(uids)) == len(uids) else False

    def copy_shares_nothing(E, v, o):
        """'fully independent': whatever column the original has -- the seven SWC columns and every additional one -- the copy's column of
        that name is an allocation of this call, no view, and no two columns of the copy are one allocation"""
        y, x = v["result"], v["self"]
        if not isinstance(y, Obj) or not isinstance(y.fields.get("ndata"), PDict) or y.fields["ndata"].items is None:
            return False
        mine = y.fields["ndata"].items
        theirs = {a.uid for a in x.fields["ndata"].items.values()}
        for k in x.fields["ndata"].items:
            a = mine.get(k)
            if not isinstance(a, (SArr, NArr)) or a.uid in theirs or a.uid in E.entry_uids or getattr(a, "view_of", None) is not None:
                return False
        return len({a.uid for a in mine.values()}) == len(mine)

    def copy_own_containers(E, v, o):
        y, x = v["result"], v["self"]
        if not isinstance(y, Obj):
            return False
        nd, cm = y.fields.get("ndata"), y.fields.get("comments")
        if not isinstance(nd, PDict) or nd is x.fields["ndata"] or nd.uid in E.entry_uids:
            return False
        return isinstance(cm, PList) and cm is not x.fields["comments"] and cm.uid not in E.entry_uids and cm.items == o["self"].fields["comments"].items

    R.add(f"{SWC}:DictSWC.copy", prop="C09", pure_inline=True,
          variants={"a-Tree-(Tree.copy)": lambda S: dict(self=sym_tree(S, "t", extra_cols=("level",))),
                    "a-plain-DictSWC": lambda S: dict(self=sym_tree(S, "t", cls=__import__("swcgeom.core.swc", fromlist=["DictSWC"]).DictSWC))},
          ensures=[("no-column-of-the-copy-shares-storage-with-the-original-(extra-columns-included)", copy_shares_nothing),
                   ("the-copy-has-its-own-column-table-and-comment-list", copy_own_containers),
                   ("equal-content-in-fresh-storage", copy_post),
                   ("original-untouched", lambda E, v, o: unchanged(E, v["self"], o["self"]))])

    register_path(R, path_obj)
    register_handles(R, path_obj)
    register_branch(R, path_obj)
    register_tree(R)
    register_swc(R, path_obj)
    # "views are faithful windows" over HISTORIES: whatever an accessor leaves on its inputs is arbitrary when the next one is entered
    # (pyvc/extra_attrs.py); the views / owners themselves are frozen (safety/frame-attr-write, safety/frame-write)
    for c in R.values():
        if c.prop == "C09":
            c.options.setdefault("extra_attrs_arbitrary", True)



# =====================================================================================================================
# Path: the window itself (construction, length, indexing, re-indexed ids, iteration)
def pidx(p):
    return p.fields["idx"]


def qj(name="j"):
    return z3.Int(fresh_name(name))


def slice_positions(sl, n):
    """Python's sequence slicing s[a:b:st] on a sequence of length n (language reference, 'Slicings' / sequence types
    note 5), st a concrete non-zero int or None: (first position, step, number of positions)."""
    st = 1 if sl.step is None else sl.step

    def norm(v, dflt, lo_clip, hi_clip):
        if v is None:
            return dflt
        vz = to_z3(v, "int")
        vz = z3.If(vz < 0, vz + n, vz)
        return z3.If(vz < lo_clip, lo_clip, z3.If(vz > hi_clip, hi_clip, vz))

    if st > 0:
        lo, hi = norm(sl.start, z3.IntVal(0), z3.IntVal(0), n), norm(sl.stop, n, z3.IntVal(0), n)
        cnt = z3.If(hi > lo, (hi - lo + (st - 1)) / st, z3.IntVal(0))
    else:
        lo, hi = norm(sl.start, n - 1, z3.IntVal(-1), n - 1), norm(sl.stop, z3.IntVal(-1), z3.IntVal(-1), n - 1)
        cnt = z3.If(lo > hi, (lo - hi + (-st - 1)) / (-st), z3.IntVal(0))
    return lo, st, cnt


def slice_variants(S):
    """the slice shapes verified (bounds symbolic, step concrete)"""
    a, b = S.int("a"), S.int("b")
    return {"a:b": slice(a, b), "a:": slice(a, None), ":b": slice(None, b), ":": slice(None, None), "a:b:1": slice(a, b, 1),
            "a:b:2": slice(a, b, 2), "a:b:3": slice(a, b, 3), "::-1": slice(None, None, -1), "a:b:-1": slice(a, b, -1), "a:b:-2": slice(a, b, -2),
            "a::-1": slice(a, None, -1), ":b:-1": slice(None, b, -1)}


SLICES = ["a:b", "a:", ":b", ":", "a:b:1", "a:b:2", "a:b:3", "::-1", "a:b:-1", "a:b:-2", "a::-1", ":b:-1"]


def by_form(int_c, slice_c, str_c):
    def f(E, v, o):
        key = o["key"] if o is not None else v["key"]
        if isinstance(key, slice):
            return slice_c(E, v, o) if slice_c else True
        if isinstance(key, str):
            return str_c(E, v, o) if str_c else True
        return int_c(E, v, o) if int_c else True

    return f

def handles(v):
    r = v["result"]
    return X._handles_of(r)


def register_path(R, path_obj):
    from swcgeom.core.path import Path

    def sym_path(S, frozen=True):
        return path_obj(S, sym_tree(S, "t", frozen=frozen))

    def idx_in_tree(E, v, o):
        """precondition of every view: the positions the window refers to are rows of the owner"""
        p = v["self"]
        idx, t = pidx(p), p.fields["attach"]
        j = qj()
        return z3.ForAll([j], z3.Implies(z3.And(j >= 0, j < idx.nz()), z3.And(idx.get(j).z >= 0, idx.get(j).z < nof(t))))

    PRE = [("window-positions-are-rows-of-the-owner", idx_in_tree)]

    # ------------------------------------------------------------------ Path.__init__
    def init_setup(form):
        def f(S):
            t = sym_tree(S, "t")
            if form == "array":
                idx = S.arr("int", name="ids")
            elif form == "list":
                idx = S.plist("int", name="ids")
            else:
                idx = PList([S.int(f"ids{k}") for k in range(3)])
            idx.frozen = True
            return dict(self=S.obj(Path), attach=t, idx=idx)

        return f

    def init_post(E, v, o):
        p, t, src = v["self"], v["attach"], o["idx"]
        a = p.fields.get("idx")
        if p.fields.get("attach") is not t or p.fields.get("names") is not t.fields["names"] or p.fields.get("source") != t.fields["source"]:
            return False
        if not isinstance(a, (SArr, NArr)) or a.kind != "int" or a.uid in E.entry_uids or getattr(a, "view_of", None) is not None:
            return False
        if isinstance(a, NArr):
            return z3.And(*[to_z3(x, "int") == to_z3(y, "int") for x, y in zip(a.items, src.items)]) if len(a.items) == len(src.items) else False
        j = qj()
        n0 = src.nz()
        return z3.And(a.nz() == n0, z3.ForAll([j], z3.Implies(z3.And(j >= 0, j < n0), a.get(j).z == src.get(j).z)))

    R.add(f"{PATH}:Path.__init__", prop="C09",
          variants={f"idx-given-as-{form}": init_setup(form) for form in ("array", "list", "list-of-3")},
          ensures=[("window-on-the-given-owner-with-a-private-copy-of-the-positions", init_post)])

    # ------------------------------------------------------------------ Path.__len__
    R.add(f"{PATH}:Path.__len__", prop="C09",
          setup=lambda S: dict(self=sym_path(S)), requires=PRE,
          ensures=[("number-of-window-positions", lambda E, v, o: to_z3(v["result"], "int") == pidx(v["self"]).nz())])

    # ------------------------------------------------------------------ Path.node / get_node
    # node(i) does not normalise i (path.node(-1) is the last node): the handle stands for the position i wraps to
    def node_post(E, v, o):
        r, p = v["result"], v["self"]
        if not (isinstance(r, Obj) and r.cls is Path.Node and r.fields.get("attach") is p and r.fields.get("names") is p.fields["names"]):
            return False
        n, i, j = pidx(p).nz(), to_z3(o["idx"], "int"), to_z3(r.fields["idx"], "int")
        return z3.And(j >= -n, j < n, z3.If(j < 0, j + n, j) == z3.If(i < 0, i + n, i))

    for fn in ("node", "get_node"):
        R.add(f"{PATH}:Path.{fn}", prop="C09",
              setup=lambda S: dict(self=sym_path(S), idx=S.int("i")),
              requires=PRE + [("position-in-[-len,len)", lambda E, v, o: z3.And(to_z3(v["idx"], "int") >= -pidx(v["self"]).nz(), to_z3(v["idx"], "int") < pidx(v["self"]).nz()))],
              ensures=[("handle-on-this-path-standing-for-the-given-(wrapped)-position", node_post)])

    # ------------------------------------------------------------------ Path.__getitem__
    def key_out_of_range(E, v, o):
        k, n = to_z3(v["key"], "int"), pidx(v["self"]).nz()
        return z3.Or(k < -n, k >= n)

    def item_post(E, v, o):
        r, p = v["result"], v["self"]
        if not (isinstance(r, Obj) and r.cls is Path.Node and r.fields.get("attach") is p and r.fields.get("names") is p.fields["names"]):
            return False
        k, n = to_z3(o["key"], "int"), pidx(p).nz()
        return to_z3(r.fields["idx"], "int") == z3.If(k < 0, k + n, k)

    def slice_post(E, v, o):
        p, h = v["self"], handles(v)
        if not X.is_list_of(h, Path.Node, attach=p, names=p.fields["names"]):
            return False
        lo, st, cnt = slice_positions(o["key"], pidx(p).nz())
        k = qj("k")
        return z3.And(zint(h.n) == cnt, z3.ForAll([k], z3.Implies(z3.And(k >= 0, k < cnt), z3.Select(h.col("idx"), k) == lo + k * st)))

    def str_post(E, v, o):
        p = v["self"]
        c = col(p.fields["attach"], v["key"])
        idx, r = pidx(p), v["result"]
        j = qj()
        return z3.And(r.nz() == idx.nz(), r.uid not in E.entry_uids,
                      z3.ForAll([j], z3.Implies(z3.And(j >= 0, j < idx.nz()), r.get(j).z == z3.Select(c.arr, idx.get(j).z))))

    gi_variants = {"int": lambda S: dict(self=sym_path(S), key=S.int("key"))}
    for nm in SLICES:
        gi_variants["slice " + nm] = (lambda S, _nm=nm: dict(self=sym_path(S), key=slice_variants(S)[_nm]))
    for k in KEYS:
        gi_variants["str " + k] = (lambda S, _k=k: dict(self=sym_path(S), key=_k))

    R.add(f"{PATH}:Path.__getitem__", prop="C09", variants=gi_variants, requires=PRE,
          raises={"IndexError": ("only-an-integer-outside-[-len,len)", by_form(key_out_of_range, lambda E, v, o: False, lambda E, v, o: False))},
          ensures=[("integer-in-[-len,len)-accepted", by_form(lambda E, v, o: z3.Not(key_out_of_range(E, o, o)), None, None)),
                   ("integer-gives-the-handle-at-the-normalised-position", by_form(item_post, None, None)),
                   ("slice-gives-the-handles-of-exactly-the-sliced-positions-in-order", by_form(None, slice_post, None)),
                   ("name-gives-a-fresh-gather-of-the-owner-column-in-window-order", by_form(None, None, str_post))],
          options=dict(OPTS))

    # ------------------------------------------------------------------ Path.id / pid (re-indexed), origin_id / origin_pid
    def arange_post(first):
        def f(E, v, o):
            r, n = v["result"], pidx(v["self"]).nz()
            if not isinstance(r, SArr) or r.kind != "int" or r.uid in E.entry_uids:
                return False
            j = qj()
            return z3.And(r.nz() == n, z3.ForAll([j], z3.Implies(z3.And(j >= 0, j < n), r.get(j).z == j + first)))

        return f

    R.add(f"{PATH}:Path.id", prop="C09", setup=lambda S: dict(self=sym_path(S)), requires=PRE,
          ensures=[("window-positions-renumbered-0..len-1-in-a-fresh-array", arange_post(0))])
    R.add(f"{PATH}:Path.pid", prop="C09", setup=lambda S: dict(self=sym_path(S)), requires=PRE,
          ensures=[("each-position-has-its-predecessor-as-parent-first-has--1-in-a-fresh-array", arange_post(-1))])

    def origin_post(which):
        def f(E, v, o):
            p = v["self"]
            c = col(p.fields["attach"], which)
            idx, r = pidx(p), v["result"]
            j = qj()
            return z3.And(r.nz() == idx.nz(), r.uid not in E.entry_uids,
                          z3.ForAll([j], z3.Implies(z3.And(j >= 0, j < idx.nz()), r.get(j).z == z3.Select(c.arr, idx.get(j).z))))

        return f

    R.add(f"{PATH}:Path.origin_id", prop="C09", setup=lambda S: dict(self=sym_path(S)), requires=PRE,
          ensures=[("the-owner's-ids-of-the-window-rows-in-order", origin_post("id"))])
    R.add(f"{PATH}:Path.origin_pid", prop="C09", setup=lambda S: dict(self=sym_path(S)), requires=PRE,
          ensures=[("the-owner's-parent-ids-of-the-window-rows-in-order", origin_post("pid"))])

    # ------------------------------------------------------------------ Path.keys
    def keys_post(E, v, o):
        r, t = v["result"], v["self"].fields["attach"]
        return isinstance(r, PList) and r.items == list(t.fields["ndata"].items.keys())

    R.add(f"{PATH}:Path.keys", prop="C09", setup=lambda S: dict(self=path_obj(S, sym_tree(S, "t", extra_cols=("level",)))),
          ensures=[("exactly-the-owner's-column-names-in-the-owner's-order", keys_post)])

    # ------------------------------------------------------------------ Path.__iter__
    def iter_post(E, v, o):
        p, h = v["self"], handles(v)
        if not X.is_list_of(h, Path.Node, attach=p, names=p.fields["names"]):
            return False
        k, n = qj("k"), pidx(p).nz()
        return z3.And(zint(h.n) == n, z3.ForAll([k], z3.Implies(z3.And(k >= 0, k < n), z3.Select(h.col("idx"), k) == k)))

    R.add(f"{PATH}:Path.__iter__", prop="C09", setup=lambda S: dict(self=sym_path(S)), requires=PRE,
          ensures=[("one-handle-per-window-position-in-order", iter_post)], options=dict(OPTS))

    # ------------------------------------------------------------------ Path.detach
    R.add(f"{PATH}:Path.detach", prop="C09",
          setup=lambda S: dict(self=path_obj(S, sym_tree(S, "t", extra_cols=("level",)))), requires=PRE,
          ensures=detach_clauses(Path, window_len=lambda p: pidx(p).nz(), window_pos=lambda p, j: pidx(p).get(j).z), options=dict(OPTS))


def owned_arrays(x):
    """every array reachable from a detached view: its position array and the columns of its private owner"""
    return [x.fields["idx"]] + list(x.fields["attach"].fields["ndata"].items.values())


def fresh_and_separate(E, arrs):
    """ownership: every array was allocated by this call (not an input's storage, not a view onto anything) and no two share storage"""
    uids = [a.uid for a in arrs]
    return all(isinstance(a, (SArr, NArr)) and a.uid not in E.entry_uids and getattr(a, "view_of", None) is None for a in arrs) and len(set(uids)) == len(uids)


def unchanged(E, now, old):
    """the owner's columns are the same allocations with the same content as at entry, and the same set of columns"""
    nd1, nd0 = now.fields["ndata"].items, old.fields["ndata"].items
    if list(nd1) != list(nd0):
        return False
    out = []
    for k in nd1:
        a1, a0 = nd1[k], nd0[k]
        if a1.uid != a0.uid:
            return False
        if isinstance(a1, SArr):
            out.append(z3.And(a1.nz() == a0.nz(), a1.arr == a0.arr))
        else:
            out.append(z3.And(*[to_z3(x, a1.kind) == to_z3(y, a1.kind) for x, y in zip(a1.items, a0.items)]) if len(a1.items) == len(a0.items) else False)
    return z3.And(*out)


def owner_of_any(x):
    """the DictSWC that finally owns the data behind a tree / a path-like view"""
    return x if "ndata" in x.fields else owner_of_any(x.fields["attach"])


def detach_clauses(cls, window_len, window_pos, owner_of=lambda p: p.fields["attach"]):
    """postconditions shared by Path.detach / Branch.detach: `window_len(p)` positions, the j-th being row `window_pos(p, j)` of the owner"""
    from swcgeom.core.swc import DictSWC

    def shape(E, v, o):
        r, p = v["result"], v["self"]
        if not (isinstance(r, Obj) and r.cls is cls and isinstance(r.fields.get("attach"), Obj) and r.fields["attach"].cls is DictSWC):
            return False
        a = r.fields["attach"]
        return (r is not p and a is not owner_of(p) and a.uid not in E.entry_uids and r.fields.get("names") is p.fields["names"] and a.fields.get("names") is p.fields["names"]
                and a.fields.get("source") == p.fields["source"] and r.fields.get("source") == p.fields["source"]
                and list(a.fields["ndata"].items) == list(owner_of(p).fields["ndata"].items))

    def content(E, v, o):
        r, p = v["result"], o["self"]
        t, n = owner_of(p), window_len(p)
        nd = r.fields["attach"].fields["ndata"].items
        j = qj()
        out = []
        for k, a in nd.items():
            if not isinstance(a, SArr):
                return False
            if k == "id":
                want = lambda jj: jj
            elif k == "pid":
                want = lambda jj: jj - 1
            else:
                want = lambda jj, _c=col(t, k): to_z3(_c.get(window_pos(p, jj)), a.kind)
            out.append(z3.And(a.nz() == n, z3.ForAll([j], z3.Implies(z3.And(j >= 0, j < n), a.get(j).z == want(j)))))
        return z3.And(*out)

    def positions(E, v, o):
        r, n = v["result"], window_len(o["self"])
        a, j = r.fields["idx"], qj()
        return z3.And(a.nz() == n, z3.ForAll([j], z3.Implies(z3.And(j >= 0, j < n), a.get(j).z == j)))

    return [("a-new-view-of-the-same-class-on-a-private-DictSWC-with-the-owner's-columns", shape),
            ("every-column-equals-the-window's-rows-in-order-ids-renumbered", content),
            ("the-new-window-is-all-of-its-private-owner-in-order", positions),
            ("fresh-storage-nothing-shared-with-the-original-or-between-columns", lambda E, v, o: fresh_and_separate(E, owned_arrays(v["result"]))),
            ("original-view-and-owner-untouched", lambda E, v, o: z3.And(unchanged(E, owner_of(v["self"]), owner_of(o["self"])), pidx(v["self"]).uid == pidx(o["self"]).uid, pidx(v["self"]).arr == pidx(o["self"]).arr))]


# =====================================================================================================================
# handles with a wrapped (negative) position, and handles of a path
def register_handles(R, path_obj):
    from swcgeom.core.path import Path
    from swcgeom.core.tree import Tree

    LOOSE = dict(strict_index=False)  # a negative position is numpy's wrapped index, not an error

    def wrapped(i, n):
        return z3.If(i < 0, i + n, i)

    def any_position(E, v, o):
        n = v["self"]
        i = to_z3(n.fields["idx"], "int")
        return z3.And(i >= -nof(n.fields["attach"]), i < nof(n.fields["attach"]))

    # Tree.node(i) does not normalise i: a handle may carry a position in [-n, 0); every access then wraps like numpy
    def reads_wrapped(E, v, o):
        n = v["self"]
        c = col(n.fields["attach"], v["key"])
        return to_z3(v["result"], c.kind) == z3.Select(c.arr, wrapped(to_z3(n.fields["idx"], "int"), c.nz()))

    R.add(f"{NODE}:Node.__getitem__", prop="C09", pure_inline=True,
          variants={k: (lambda S, _k=k: dict(self=node_obj(S, sym_tree(S, "t", frozen=True)), key=_k)) for k in KEYS},
          requires=[("handle-position-in-[-n,n)", any_position)],
          ensures=[("reads-the-owner-column-at-the-wrapped-position-at-call-time", reads_wrapped)], options=dict(LOOSE))

    def writes_wrapped(E, v, o):
        n, n0 = v["self"], o["self"]
        t, t0 = n.fields["attach"], n0.fields["attach"]
        i = wrapped(to_z3(n0.fields["idx"], "int"), nof(t0))
        j = qj()
        out = []
        for c in KEYS:
            a1, a0 = col(t, c), col(t0, c)
            if a1.uid != a0.uid:
                return False
            rng = z3.And(j >= 0, j < nof(t0))
            if c == v["k"]:
                out.append(z3.And(z3.Select(a1.arr, i) == to_z3(v["v"], a1.kind), z3.ForAll([j], z3.Implies(z3.And(rng, j != i), z3.Select(a1.arr, j) == z3.Select(a0.arr, j)))))
            else:
                out.append(z3.ForAll([j], z3.Implies(rng, z3.Select(a1.arr, j) == z3.Select(a0.arr, j))))
        return z3.And(*out)

    R.add(f"{NODE}:Node.__setitem__", prop="C09", pure_inline=True,
          variants={k: (lambda S, _k=k: dict(self=node_obj(S, sym_tree(S, "t", frozen=False)), k=_k, v=(S.int("v") if COLS[_k] == "int" else S.real("v")))) for k in KEYS},
          requires=[("handle-position-in-[-n,n)", any_position)],
          ensures=[("write-through-at-the-wrapped-position-and-nothing-else", writes_wrapped)], options=dict(LOOSE))

    def parent_wrapped(E, v, o):
        n = v["self"]
        t = n.fields["attach"]
        p = z3.Select(col(t, "pid").arr, wrapped(to_z3(n.fields["idx"], "int"), nof(t)))
        r = v["result"]
        if r is None:
            return p == -1
        return z3.And(p != -1, r.cls is Tree.Node, r.fields["attach"] is t, to_z3(r.fields["idx"], "int") == p)

    R.add(f"{TREE}:Tree.Node.parent", prop="C09",
          setup=lambda S: dict(self=node_obj(S, sym_tree(S, "t"))),
          requires=[("handle-position-in-[-n,n)", any_position)],
          ensures=[("handle-on-the-parent-of-the-wrapped-row-or-none-for-a-root", parent_wrapped)], options=dict(LOOSE))

    # a node of a path: position i of the window, i.e. row idx[i] of the owner
    def pnode(S):
        p = path_obj(S, sym_tree(S, "t", frozen=True))
        return node_obj(S, p, S.int("i"), cls=Path.Node)

    def pnode_pre(E, v, o):
        h = v["self"]
        p = h.fields["attach"]
        idx, t, i = pidx(p), p.fields["attach"], to_z3(h.fields["idx"], "int")
        j = qj()
        return z3.And(i >= -idx.nz(), i < idx.nz(), z3.ForAll([j], z3.Implies(z3.And(j >= 0, j < idx.nz()), z3.And(idx.get(j).z >= 0, idx.get(j).z < nof(t)))))

    def pnode_reads(E, v, o):
        h = v["self"]
        p = h.fields["attach"]
        c = col(p.fields["attach"], v["key"])
        i = wrapped(to_z3(h.fields["idx"], "int"), pidx(p).nz())
        return to_z3(v["result"], c.kind) == z3.Select(c.arr, pidx(p).get(i).z)

    R.add(f"{NODE}:Node.__getitem__", prop="C09", pure_inline=True,
          variants={k: (lambda S, _k=k: dict(self=pnode(S), key=_k)) for k in KEYS},
          requires=[("position-within-the-window-window-within-the-owner", pnode_pre)],
          ensures=[("path-node-reads-the-owner's-row-its-window-position-names-at-call-time", pnode_reads)], options=dict(LOOSE))

    # ------------------------------------------------------------------ Node.__init__ (every handle is built by it; the setups above run it)
    def handle_init_post(E, v, o):
        h, a = v["self"], v["attach"]
        same_pos = h.fields.get("idx") is o["idx"] or (kind_of(h.fields.get("idx")) is not None and z3.is_true(z3.simplify(to_z3(h.fields["idx"], "int") == to_z3(o["idx"], "int"))))
        return h.fields.get("attach") is a and same_pos and h.fields.get("names") is a.fields["names"]

    R.add(f"{NODE}:Node.__init__", prop="C09",
          variants={"on-a-tree": lambda S: dict(self=S.obj(Tree.Node), attach=sym_tree(S, "t"), idx=S.int("i")),
                    "on-a-path": lambda S: dict(self=S.obj(Path.Node), attach=path_obj(S, sym_tree(S, "t")), idx=S.int("i"))},
          ensures=[("handle-holds-the-owner-itself-the-given-position-and-the-owner's-names-(no-attribute-copied)", handle_init_post),
                   ("owner-untouched", lambda E, v, o: unchanged(E, owner_of_any(v["attach"]), owner_of_any(o["attach"])))])

    # ------------------------------------------------------------------ Tree.Node.is_root / is_soma (reads through the handle, wrapped position)
    def root_row(n):
        t = n.fields["attach"]
        return z3.Select(col(t, "pid").arr, wrapped(to_z3(n.fields["idx"], "int"), nof(t))) == -1

    def soma_row(n):
        t = n.fields["attach"]
        return z3.And(z3.Select(col(t, "type").arr, wrapped(to_z3(n.fields["idx"], "int"), nof(t))) == t.fields["types"].soma, root_row(n))

    for fn, want in (("is_root", root_row), ("is_soma", soma_row)):
        R.add(f"{TREE}:Tree.Node.{fn}", prop="C09",
              setup=lambda S: dict(self=node_obj(S, sym_tree(S, "t", frozen=True))),
              requires=[("handle-position-in-[-n,n)", any_position)],
              ensures=[({"is_root": "true-exactly-when-the-row-behind-the-handle-has-parent--1-at-call-time",
                         "is_soma": "true-exactly-when-the-row-behind-the-handle-is-a-root-of-soma-type-at-call-time"}[fn],
                        (lambda w: lambda E, v, o: to_z3(v["result"], "bool") == w(v["self"]))(want))],
              options=dict(LOOSE))

    # ------------------------------------------------------------------ Node.detach / xyz / xyzr / keys
    from swcgeom.core.node import Node
    from swcgeom.core.swc import DictSWC

    def tnode(S):
        return node_obj(S, sym_tree(S, "t", frozen=True, extra_cols=("level",)))

    def pnode_x(S):
        p = path_obj(S, sym_tree(S, "t", frozen=True, extra_cols=("level",)))
        return node_obj(S, p, S.int("i"), cls=Path.Node)

    def node_pre(E, v, o):
        return pnode_pre(E, v, o) if v["self"].cls is Path.Node else in_range(E, v, o)

    def owner_and_row(h):
        """(the DictSWC that finally owns the data, the row of it the handle stands for)"""
        a, i = h.fields["attach"], to_z3(h.fields["idx"], "int")
        if a.cls is Tree or "ndata" in a.fields:
            return a, i
        return a.fields["attach"], pidx(a).get(wrapped(i, pidx(a).nz())).z

    def node_detach_shape(E, v, o):
        r, h = v["result"], v["self"]
        t, _ = owner_and_row(h)
        if not (isinstance(r, Obj) and r.cls is Node and r is not h and isinstance(r.fields.get("attach"), Obj) and r.fields["attach"].cls is DictSWC):
            return False
        a = r.fields["attach"]
        return (a.uid not in E.entry_uids and r.fields.get("idx") == 0 and r.fields.get("names") is h.fields["names"] and a.fields.get("names") is h.fields["names"]
                and a.fields.get("source") == h.fields["attach"].fields["source"] and list(a.fields["ndata"].items) == list(t.fields["ndata"].items))

    def node_detach_content(E, v, o):
        r, h = v["result"], o["self"]
        t, row = owner_and_row(h)
        out = []
        for k, a in r.fields["attach"].fields["ndata"].items.items():
            if not (isinstance(a, NArr) and a.shape == (1,)):
                return False
            want = z3.IntVal(0) if k == "id" else (z3.IntVal(-1) if k == "pid" else z3.Select(col(t, k).arr, row))
            out.append(to_z3(a.items[0], a.kind) == want)
        return z3.And(*out)

    R.add(f"{NODE}:Node.detach", prop="C09",
          variants={"tree-node": lambda S: dict(self=tnode(S)), "path-node": lambda S: dict(self=pnode_x(S))},
          requires=[("handle-refers-to-a-row-of-its-owner", node_pre)],
          ensures=[("a-plain-Node-at-position-0-of-a-private-one-row-DictSWC-with-the-owner's-columns", node_detach_shape),
                   ("every-column-holds-the-node's-value-id-0-parent--1", node_detach_content),
                   ("fresh-storage-nothing-shared-with-the-original-or-between-columns", lambda E, v, o: fresh_and_separate(E, list(v["result"].fields["attach"].fields["ndata"].items.values()))),
                   ("original-owner-untouched", lambda E, v, o: unchanged(E, owner_and_row(v["self"])[0], owner_and_row(o["self"])[0]))],
          options=dict(LOOSE))

    def vec_post(names):
        def f(E, v, o):
            r, h = v["result"], v["self"]
            t, row = owner_and_row(h)
            if not (isinstance(r, NArr) and r.shape == (len(names),) and r.kind == "real" and r.uid not in E.entry_uids and r.view_of is None):
                return False
            return z3.And(*[to_z3(x, "real") == z3.Select(col(t, k).arr, row) for x, k in zip(r.items, names)])

        return f

    for fn, names in (("xyz", ("x", "y", "z")), ("xyzr", ("x", "y", "z", "r"))):
        R.add(f"{NODE}:Node.{fn}", prop="C09",
              variants={"tree-node": lambda S: dict(self=tnode(S)), "path-node": lambda S: dict(self=pnode_x(S))},
              requires=[("handle-refers-to-a-row-of-its-owner", node_pre)],
              ensures=[(f"fresh-vector-of-the-node's-{'-'.join(names)}-read-at-call-time", vec_post(names))], options=dict(LOOSE))

    def nkeys_post(E, v, o):
        r = v["result"]
        t, _ = owner_and_row(v["self"])
        return isinstance(r, PList) and r.items == list(t.fields["ndata"].items.keys())

    R.add(f"{NODE}:Node.keys", prop="C09",
          variants={"tree-node": lambda S: dict(self=tnode(S)), "path-node": lambda S: dict(self=pnode_x(S))},
          ensures=[("exactly-the-owner's-column-names-in-the-owner's-order", nkeys_post)])


# =====================================================================================================================
# Branch / Compartment / Compartments
def register_branch(R, path_obj):
    from swcgeom.core.branch import Branch
    from swcgeom.core.compartment import Compartment, Compartments
    from swcgeom.core.swc import DictSWC
    from swcgeom.core.tree import Tree

    def sym_branch(S, extra=False):
        return path_obj(S, sym_tree(S, "t", frozen=True, extra_cols=(("level",) if extra else ())), cls=Tree.Branch)

    def idx_in_tree(E, v, o):
        p = v["self"]
        idx, t = pidx(p), p.fields["attach"]
        if isinstance(idx, NArr):
            return z3.And(*[z3.And(to_z3(x, "int") >= 0, to_z3(x, "int") < nof(t)) for x in idx.items])
        j = qj()
        return z3.ForAll([j], z3.Implies(z3.And(j >= 0, j < idx.nz()), z3.And(idx.get(j).z >= 0, idx.get(j).z < nof(t))))

    PRE = [("window-positions-are-rows-of-the-owner", idx_in_tree)]

    def gathers(E, v, o):
        p = v["self"]
        c = col(p.fields["attach"], v["key"])
        idx, r = pidx(p), v["result"]
        j = qj()
        return z3.And(r.nz() == idx.nz(), r.uid not in E.entry_uids,
                      z3.ForAll([j], z3.Implies(z3.And(j >= 0, j < idx.nz()), r.get(j).z == z3.Select(c.arr, idx.get(j).z))))

    R.add(f"{BRANCH}:Branch.get_ndata", prop="C09",
          variants={k: (lambda S, _k=k: dict(self=sym_branch(S), key=_k)) for k in KEYS}, requires=PRE,
          ensures=[("fresh-gather-of-the-owner-column-in-order", gathers)])

    def keys_post(E, v, o):
        r, t = v["result"], v["self"].fields["attach"]
        return isinstance(r, PList) and r.items == list(t.fields["ndata"].items.keys())

    R.add(f"{BRANCH}:Branch.keys", prop="C09", setup=lambda S: dict(self=sym_branch(S, extra=True)),
          ensures=[("exactly-the-owner's-column-names-in-the-owner's-order", keys_post)])

    R.add(f"{BRANCH}:Branch.detach", prop="C09", setup=lambda S: dict(self=sym_branch(S, extra=True)), requires=PRE,
          ensures=detach_clauses(Branch, window_len=lambda p: pidx(p).nz(), window_pos=lambda p, j: pidx(p).get(j).z), options=dict(OPTS))

    # ------------------------------------------------------------------ Branch.get_compartments / get_segments, any length
    def pairs_post(E, v, o):
        br, res = v["self"], v["result"]
        h = X._handles_of(res)
        if not (isinstance(res, Obj) and res.cls is Compartments) or not X.is_list_of(h, Branch.Compartment, attach=br):
            return False
        if not X.has_vec(h, "idx", (2,)):
            return False
        n, k = pidx(br).nz(), qj("k")
        cnt = z3.If(n >= 1, n - 1, z3.IntVal(0))
        # compartment k reports, for every key, branch.get_ndata(key)[[k, k+1]]: its window onto the branch is (k, k+1)
        return z3.And(zint(h.n) == cnt, z3.ForAll([k], z3.Implies(z3.And(k >= 0, k < cnt), z3.And(z3.Select(h.vec("idx", 0), k) == k, z3.Select(h.vec("idx", 1), k) == k + 1))))

    for fn in ("get_compartments", "get_segments"):
        R.add(f"{BRANCH}:Branch.{fn}", prop="C09", setup=lambda S: dict(self=sym_branch(S)), requires=PRE,
              ensures=[("segments-are-the-consecutive-node-pairs-in-order", pairs_post)], options=dict(OPTS))

    # ------------------------------------------------------------------ Compartment
    def comp_init_post(E, v, o):
        c, a = v["self"], v["attach"]
        i = c.fields.get("idx")
        if c.fields.get("attach") is not a or c.fields.get("names") is not a.fields["names"] or c.fields.get("source") != a.fields["source"]:
            return False
        if not (isinstance(i, NArr) and i.shape == (2,) and i.kind == "int" and i.uid not in E.entry_uids and i.view_of is None):
            return False
        return z3.And(to_z3(i.items[0], "int") == to_z3(o["pid"], "int"), to_z3(i.items[1], "int") == to_z3(o["idx"], "int"))

    R.add(f"{COMP}:Compartment.__init__", prop="C09",
          variants={"on-a-tree": lambda S: dict(self=S.obj(Tree.Compartment), attach=sym_tree(S, "t"), pid=S.int("p"), idx=S.int("c")),
                    "on-a-branch": lambda S: dict(self=S.obj(Branch.Compartment), attach=sym_branch(S), pid=S.int("p"), idx=S.int("c"))},
          ensures=[("two-position-window-(parent,child)-on-the-given-owner", comp_init_post)])

    def sym_comp(S, extra=False, cls=None):
        return path_obj(S, sym_tree(S, "t", frozen=True, extra_cols=(("level",) if extra else ())), cls=cls or Tree.Compartment, L=2)

    def comp_gathers(E, v, o):
        c, r = v["self"], v["result"]
        cl = col(c.fields["attach"], v["key"])
        if not (isinstance(r, NArr) and r.shape == (2,) and r.uid not in E.entry_uids and r.view_of is None):
            return False
        return z3.And(*[to_z3(x, cl.kind) == z3.Select(cl.arr, to_z3(p, "int")) for x, p in zip(r.items, pidx(c).items)])

    R.add(f"{COMP}:Compartment.get_ndata", prop="C09",
          variants={k: (lambda S, _k=k: dict(self=sym_comp(S), key=_k)) for k in KEYS}, requires=PRE,
          ensures=[("fresh-pair-(parent-value,child-value)-of-the-owner-column", comp_gathers)])

    R.add(f"{COMP}:Compartment.keys", prop="C09", setup=lambda S: dict(self=sym_comp(S, extra=True)),
          ensures=[("exactly-the-owner's-column-names-in-the-owner's-order", keys_post)])

    def comp_detach_shape(E, v, o):
        r, c = v["result"], v["self"]
        if not (isinstance(r, Obj) and r.cls is Compartment and r is not c and isinstance(r.fields.get("attach"), Obj) and r.fields["attach"].cls is DictSWC):
            return False
        a, i = r.fields["attach"], r.fields.get("idx")
        return (a.uid not in E.entry_uids and r.fields.get("names") is c.fields["names"] and a.fields.get("names") is c.fields["names"]
                and a.fields.get("source") == c.fields["attach"].fields["source"] and list(a.fields["ndata"].items) == list(c.fields["attach"].fields["ndata"].items)
                and isinstance(i, NArr) and i.shape == (2,) and [x for x in i.items] == [0, 1])

    def comp_detach_content(E, v, o):
        r, c = v["result"], o["self"]
        t = c.fields["attach"]
        out = []
        for k, a in r.fields["attach"].fields["ndata"].items.items():
            if not (isinstance(a, NArr) and a.shape == (2,)):
                return False
            for pos in (0, 1):
                want = z3.IntVal(pos) if k == "id" else (z3.IntVal(pos - 1) if k == "pid" else z3.Select(col(t, k).arr, to_z3(pidx(c).items[pos], "int")))
                out.append(to_z3(a.items[pos], a.kind) == want)
        return z3.And(*out)

    R.add(f"{COMP}:Compartment.detach", prop="C09", setup=lambda S: dict(self=sym_comp(S, extra=True)), requires=PRE,
          ensures=[("a-plain-Compartment-(0,1)-on-a-private-two-row-DictSWC-with-the-owner's-columns", comp_detach_shape),
                   ("every-column-holds-(parent-value,child-value)-ids-renumbered", comp_detach_content),
                   ("fresh-storage-nothing-shared-with-the-original-or-between-columns", lambda E, v, o: fresh_and_separate(E, owned_arrays(v["result"]))),
                   ("original-owner-untouched", lambda E, v, o: unchanged(E, v["self"].fields["attach"], o["self"].fields["attach"]))],
          options=dict(OPTS))

    # ------------------------------------------------------------------ Compartments accessors (any number of compartments)
    def sym_comps(S, extra=False):
        """a Compartments list of m >= 0 compartments on one tree; compartment k is the window (P[k], C[k])"""
        from swcgeom.core.swc_utils import get_types

        t = sym_tree(S, "t", frozen=True)
        m = S.int("m")
        S.assume(m.z >= 0)
        P, C = S.arr("int", n=m, name="P"), S.arr("int", n=m, name="C")
        h = X.HandleList(Tree.Compartment, dict(attach=t, names=t.fields["names"], source="", types=get_types()), {},
                         {"idx": ((2,), "int", None, [P.arr, C.arr])}, m.z)
        return S.obj(Compartments, __items__=h, names=t.fields["names"]), t, P, C

    # ------------------------------------------------------------------ Compartments.__init__
    def comps_init_setup(S):
        cs, t, P, C = sym_comps(S)
        h = cs.fields["__items__"]
        return dict(self=S.obj(Compartments), segments=h, __ghost__=dict(tree=t, P=P, C=C))

    def comps_init_post(E, v, o):
        from swcgeom.core.swc_utils import get_names

        t, P, C = (E.spec_extra[x] for x in ("tree", "P", "C"))
        h = X._handles_of(v["self"])
        if not X.is_list_of(h, Tree.Compartment, attach=t) or not X.has_vec(h, "idx", (2,)):
            return False
        k, m = qj("k"), P.nz()
        names_ok = v["self"].fields.get("names") == get_names()  # the owner's names when there is a first compartment (they are the default here), the default otherwise
        return z3.And(names_ok, zint(h.n) == m, z3.ForAll([k], z3.Implies(z3.And(k >= 0, k < m), z3.And(z3.Select(h.vec("idx", 0), k) == P.get(k).z, z3.Select(h.vec("idx", 1), k) == C.get(k).z))))

    R.add(f"{COMP}:Compartments.__init__", prop="C09", setup=comps_init_setup,
          ensures=[("holds-exactly-the-given-compartments-in-order-names-of-the-first-or-the-default", comps_init_post)], options=dict(OPTS))

    def comps_setup(S, **kw):
        cs, t, P, C = sym_comps(S)
        return dict(self=cs, __ghost__=dict(tree=t, P=P, C=C), **kw)

    def comps_pre(E, v, o):
        t, P, C = (E.spec_extra[x] for x in ("tree", "P", "C"))
        k = qj("k")
        inr = lambda a: z3.And(a.get(k).z >= 0, a.get(k).z < nof(t))
        return z3.ForAll([k], z3.Implies(z3.And(k >= 0, k < P.nz()), z3.And(inr(P), inr(C))))

    CPRE = [("every-compartment-window-lies-in-the-tree", comps_pre)]

    def rows_post(key_of):
        def f(E, v, o):
            t, P, C = (E.spec_extra[x] for x in ("tree", "P", "C"))
            r, m = v["result"], P.nz()
            cl = col(t, key_of(v))
            if isinstance(r, NArr):  # no compartment at all: an empty array of the documented shape (0, 2)
                return z3.And(m == 0, r.shape == (0, 2))
            if not (isinstance(r, X.SRows) and r.inner == (2,) and r.uid not in E.entry_uids):
                return False
            k = qj("k")
            return z3.And(r.nz() == m, z3.ForAll([k], z3.Implies(z3.And(k >= 0, k < m), z3.And(z3.Select(r.cell(0), k) == z3.Select(cl.arr, P.get(k).z),
                                                                                              z3.Select(r.cell(1), k) == z3.Select(cl.arr, C.get(k).z)))))

        return f

    def shape_m2(E, v, o):
        r = v["result"]
        return (isinstance(r, X.SRows) and r.inner == (2,)) or (isinstance(r, NArr) and r.shape == (0, 2))

    R.add(f"{COMP}:Compartments.get_ndata", prop="C09",
          variants={k: (lambda S, _k=k: comps_setup(S, key=_k)) for k in KEYS}, requires=CPRE,
          ensures=[("one-row-(parent-value,child-value)-per-compartment-in-order-in-a-fresh-array", rows_post(lambda v: v["key"])),
                   # found a defect (fixed in /repo, see known_findings.jsonl): np.array([]) of an EMPTY Compartments (the segments of a
                   # one-node tree) had shape (0,), not the documented (n_sample, 2)
                   ("shape-(n_sample,2)-also-for-no-compartments", shape_m2)],
          options=dict(OPTS))

    for k in KEYS:
        R.add(f"{COMP}:Compartments.{k}", prop="C09", setup=lambda S: comps_setup(S), requires=CPRE,
              ensures=[(f"one-row-(parent-{k},child-{k})-per-compartment-in-order-in-a-fresh-array", rows_post(lambda v, _k=k: _k))], options=dict(OPTS))

    def stacked_post(names):
        def f(E, v, o):
            t, P, C = (E.spec_extra[x] for x in ("tree", "P", "C"))
            r, m = v["result"], P.nz()
            if isinstance(r, NArr):  # no compartment: the empty array of the documented shape
                return z3.And(m == 0, r.shape == (0, 2, len(names)))
            if not (isinstance(r, X.SRows) and r.inner == (2, len(names)) and r.uid not in E.entry_uids):
                return False
            k = qj("k")
            body = [z3.Select(r.cell(a, j), k) == to_z3(col(t, nm).get((P, C)[a].get(k).z), "real") for a in (0, 1) for j, nm in enumerate(names)]
            return z3.And(r.nz() == m, z3.ForAll([k], z3.Implies(z3.And(k >= 0, k < m), z3.And(*body))))

        return f

    # found a defect (fixed in /repo): on an EMPTY Compartments (a one-node tree has no segment) xyz()/xyzr() raised numpy's AxisError
    # (a ValueError) instead of returning an array of shape (0, 2, 3) / (0, 2, 4): obligation exc/unexpected-ValueError
    for fn, names in (("xyz", ("x", "y", "z")), ("xyzr", ("x", "y", "z", "r"))):
        R.add(f"{COMP}:Compartments.{fn}", prop="C09", setup=lambda S: comps_setup(S), requires=CPRE,
              ensures=[(f"(n_sample,2,{len(names)})-array-of-the-(parent,child)-{'-'.join(names)}-in-order", stacked_post(names))], options=dict(OPTS))

    # ------------------------------------------------------------------ Branch.from_xyzr
    def xyzr_setup(k):
        def f(S):
            n = S.int("n")
            S.assume(n.z >= 0)
            a = X.SRows([z3.Const(fresh_name(f"xyzr_{j}"), z3.ArraySort(z3.IntSort(), z3.RealSort())) for j in range(k)], n.z, (k,), "real")
            a.frozen = True
            return dict(cls=Branch, xyzr=a)

        return f

    def from_xyzr_shape(E, v, o):
        from swcgeom.core.swc_utils import get_names

        r = v["result"]
        if not (isinstance(r, Obj) and r.cls is Branch and isinstance(r.fields.get("attach"), Obj) and r.fields["attach"].cls is DictSWC):
            return False
        a = r.fields["attach"]
        return list(a.fields["ndata"].items) == KEYS and a.fields.get("names") == get_names() and r.fields.get("names") == get_names() and a.uid not in E.entry_uids

    def from_xyzr_content(E, v, o):
        m = o["xyzr"]
        n, j = m.nz(), qj()
        nd = v["result"].fields["attach"].fields["ndata"].items
        want = dict(id=lambda jj: jj, type=lambda jj: z3.IntVal(3), pid=lambda jj: jj - 1,
                    x=lambda jj: z3.Select(m.cells[0], jj), y=lambda jj: z3.Select(m.cells[1], jj), z=lambda jj: z3.Select(m.cells[2], jj),
                    r=(lambda jj: z3.Select(m.cells[3], jj)) if m.inner == (4,) else (lambda jj: z3.RealVal(1)))
        out = []
        for k, a in nd.items():
            if not isinstance(a, SArr) or a.kind != COLS[k]:
                return False
            out.append(z3.And(a.nz() == n, z3.ForAll([j], z3.Implies(z3.And(j >= 0, j < n), a.get(j).z == want[k](j)))))
        idx = pidx(v["result"])
        out.append(z3.And(idx.nz() == n, z3.ForAll([j], z3.Implies(z3.And(j >= 0, j < n), idx.get(j).z == j))))
        return z3.And(*out)

    R.add(f"{BRANCH}:Branch.from_xyzr", prop="C09",
          variants={"(n,4)": xyzr_setup(4), "(n,3)": xyzr_setup(3)},
          ensures=[("a-Branch-on-a-private-DictSWC-with-the-seven-SWC-columns", from_xyzr_shape),
                   ("a-chain-0..n-1-of-type-3-with-the-given-coordinates-radius-given-or-1-window-is-all-of-it", from_xyzr_content),
                   ("argument-untouched", lambda E, v, o: z3.And(*[a == b for a, b in zip(v["xyzr"].cells, o["xyzr"].cells)]))],
          notes="the x/y/z(/r) columns of from_xyzr((n,4)) are numpy VIEWS onto the argument (xyzr[:, j] is a basic slice): stated content-wise only")


# =====================================================================================================================
# Tree: iteration, node(), soma(), segments, children of wrapped handles, keys
def register_tree(R):
    from swcgeom.core.compartment import Compartments
    from swcgeom.core.tree import Tree

    # ------------------------------------------------------------------ Tree.__iter__
    def iter_post(E, v, o):
        t, h = v["self"], handles(v)
        if not X.is_list_of(h, Tree.Node, attach=t, names=t.fields["names"]):
            return False
        k, n = qj("k"), nof(t)
        return z3.And(zint(h.n) == n, z3.ForAll([k], z3.Implies(z3.And(k >= 0, k < n), z3.Select(h.col("idx"), k) == k)))

    R.add(f"{TREE}:Tree.__iter__", prop="C09", setup=lambda S: dict(self=sym_tree(S, "t")),
          ensures=[("one-handle-per-row-in-row-order", iter_post)], options=dict(OPTS))

    # ------------------------------------------------------------------ Tree.node
    # node(i) does not normalise i (tree.node(-1) is the last row): the handle stands for the row i wraps to
    def node_post(E, v, o):
        r, t = v["result"], v["self"]
        if not (isinstance(r, Obj) and r.cls is Tree.Node and r.fields.get("attach") is t and r.fields.get("names") is t.fields["names"]):
            return False
        n, i, j = nof(t), to_z3(o["idx"], "int"), to_z3(r.fields["idx"], "int")
        return z3.And(j >= -n, j < n, z3.If(j < 0, j + n, j) == z3.If(i < 0, i + n, i))

    R.add(f"{TREE}:Tree.node", prop="C09", setup=lambda S: dict(self=sym_tree(S, "t"), idx=S.int("i")),
          requires=[("position-in-[-n,n)", lambda E, v, o: z3.And(to_z3(v["idx"], "int") >= -nof(v["self"]), to_z3(v["idx"], "int") < nof(v["self"]))),],
          ensures=[("handle-on-this-tree-standing-for-the-given-(wrapped)-row", node_post)])

    # ------------------------------------------------------------------ Tree.soma
    def not_soma(E, v, o):
        t = v["self"]
        return z3.And(to_z3(v["type_check"], "bool"), z3.Select(col(t, "type").arr, 0) != t.fields["types"].soma)

    def soma_post(E, v, o):
        r, t = v["result"], v["self"]
        if not (isinstance(r, Obj) and r.cls is Tree.Node and r.fields.get("attach") is t and r.fields.get("idx") == 0):
            return False
        return z3.Not(not_soma(E, v, o))

    R.add(f"{TREE}:Tree.soma", prop="C09",
          variants={"checked": lambda S: dict(self=sym_tree(S, "t"), type_check=True), "unchecked": lambda S: dict(self=sym_tree(S, "t"), type_check=False),
                    "flag-unknown": lambda S: dict(self=sym_tree(S, "t"), type_check=S.bool("tc"))},
          raises={"ValueError": ("only-when-checking-and-row-0-is-not-of-soma-type", not_soma)},
          ensures=[("handle-on-row-0-of-this-tree", soma_post)])

    # ------------------------------------------------------------------ Tree.keys
    R.add(f"{TREE}:Tree.keys", prop="C09", setup=lambda S: dict(self=sym_tree(S, "t", extra_cols=("level",))),
          ensures=[("the-column-names-in-order", lambda E, v, o: isinstance(v["result"], PList) and v["result"].items == list(v["self"].fields["ndata"].items.keys()))])

    # ------------------------------------------------------------------ Tree.get_compartments / get_segments
    def segs_post(which):
        def f(E, v, o):
            t, res = v["self"], v["result"]
            h = X._handles_of(res)
            if not (isinstance(res, Obj) and res.cls is Compartments) or not X.is_list_of(h, Tree.Compartment, attach=t):
                return False
            if not X.has_vec(h, "idx", (2,)):
                return False
            n, k = nof(t), qj("k")
            pid, idc = col(t, "pid").arr, col(t, "id").arr
            par, chi = z3.Select(h.vec("idx", 0), k), z3.Select(h.vec("idx", 1), k)
            rng = z3.And(k >= 0, k < n - 1)
            if which == "count":
                return zint(h.n) == n - 1
            if which == "pairs":  # segment k is the (parent, child) pair of row k+1, whatever the numbering
                return z3.ForAll([k], z3.Implies(rng, z3.And(par == z3.Select(pid, k + 1), chi == z3.Select(idc, k + 1))))
            if which == "rows":  # corollary for trees whose ids are their row numbers
                i = qj("i")
                ids_are_rows = z3.ForAll([i], z3.Implies(z3.And(i >= 0, i < n), z3.Select(idc, i) == i))
                return z3.Implies(ids_are_rows, z3.ForAll([k], z3.Implies(rng, z3.And(chi == k + 1, par == z3.Select(pid, chi)))))

        return f

    for fn in ("get_compartments", "get_segments"):
        R.add(f"{TREE}:Tree.{fn}", prop="C09", setup=lambda S: dict(self=sym_tree(S, "t")),
              ensures=[("one-segment-per-non-root-row", segs_post("count")),
                       ("segment-k-is-the-(parent-id,own-id)-pair-of-row-k+1-in-row-order", segs_post("pairs")),
                       ("with-ids-as-row-numbers-segment-k-is-(parent-of-k+1,k+1)", segs_post("rows"))],
              options=dict(OPTS))

    # ------------------------------------------------------------------ Tree.Node.children, also through a wrapped (negative) handle
    # Tree.node(i - n) yields a handle whose position is negative; its children are the rows naming the id AT THE WRAPPED ROW as parent.
    # Ghost: crow(k) = row behind the k-th handle, crank(r) = place of row r in the result (both defined from the positions numpy's
    # boolean-mask selection picked; definitions of fresh symbols).
    crow = z3.Function("c9_crow", z3.IntSort(), z3.IntSort())
    crank = z3.Function("c9_crank", z3.IntSort(), z3.IntSort())

    def crow_def(E, v, o):
        flt = getattr(E, "last_filter", None)
        if flt is not None:
            k = qj("k")
            E.assume(z3.ForAll([k], z3.And(crow(k) == flt.kappa(k), crank(k) == flt.rho(k))))
            E.assumptions.add("ghost definition: c9_crow(k) / c9_crank(r) = the position maps of the boolean-mask selection in Tree.Node.children")

    def any_position(E, v, o):
        n = v["self"]
        i = to_z3(n.fields["idx"], "int")
        return z3.And(i >= -nof(n.fields["attach"]), i < nof(n.fields["attach"]))

    def children_post(which):
        def f(E, v, o):
            s_ = v["self"]
            t = s_.fields["attach"]
            n, i = nof(t), to_z3(s_.fields["idx"], "int")
            idc, pidc = col(t, "id").arr, col(t, "pid").arr
            me = z3.Select(idc, z3.If(i < 0, i + n, i))
            h = handles(v)
            if not X.is_list_of(h, Tree.Node):
                return False
            if which == "handles-on-this-tree":
                return X.is_list_of(h, Tree.Node, attach=t, names=t.fields["names"])
            m, idx = zint(h.n), h.col("idx")
            k, k2, r = qj("k"), qj("k2"), qj("r")
            if which == "every-handle-is-a-row-naming-the-wrapped-row's-id-as-parent":
                return z3.ForAll([k], z3.Implies(z3.And(0 <= k, k < m), z3.And(0 <= crow(k), crow(k) < n, z3.Select(pidc, crow(k)) == me, z3.Select(idx, k) == z3.Select(idc, crow(k)))))
            if which == "in-row-order-each-once":
                return z3.ForAll([k, k2], z3.Implies(z3.And(0 <= k, k < k2, k2 < m), crow(k) < crow(k2)))
            if which == "every-such-row-is-listed":
                return z3.ForAll([r], z3.Implies(z3.And(0 <= r, r < n, z3.Select(pidc, r) == me), z3.And(0 <= crank(r), crank(r) < m, crow(crank(r)) == r)))

        return f

    R.add(f"{TREE}:Tree.Node.children", prop="C09",
          setup=lambda S: dict(self=node_obj(S, sym_tree(S, "t", frozen=True))),
          requires=[("handle-position-in-[-n,n)", any_position)], ghost_exit=crow_def,
          ensures=[(w, children_post(w)) for w in ("handles-on-this-tree", "every-handle-is-a-row-naming-the-wrapped-row's-id-as-parent", "in-row-order-each-once", "every-such-row-is-listed")],
          options=dict(OPTS, strict_index=False))


# =====================================================================================================================
# SWCLike / DictSWC: sizes, stacked coordinates, adjacency matrix, construction, dict views
def register_swc(R, path_obj):
    from swcgeom.core.swc import DictSWC
    from swcgeom.core.swc_utils import get_names, get_types

    def on_tree(S):
        return dict(self=sym_tree(S, "t"))

    def on_path(S):
        return dict(self=path_obj(S, sym_tree(S, "t")))

    def path_pre(E, v, o):
        p = v["self"]
        if "idx" not in p.fields:
            return True
        idx, t = pidx(p), p.fields["attach"]
        j = qj()
        return z3.ForAll([j], z3.Implies(z3.And(j >= 0, j < idx.nz()), z3.And(idx.get(j).z >= 0, idx.get(j).z < nof(t))))

    PRE = [("a-path's-window-positions-are-rows-of-its-owner", path_pre)]

    def size_of(x):
        return pidx(x).nz() if "idx" in x.fields else nof(x)

    def cell(x, key, j):
        """entry j of column `key` as the view x reports it"""
        if "idx" in x.fields:
            return col(x.fields["attach"], key).get(pidx(x).get(j).z).z
        return col(x, key).get(j).z

    BOTH = {"tree": on_tree, "path": on_path}

    for fn, delta in (("number_of_nodes", 0), ("number_of_edges", -1), ("__len__", 0)):
        R.add(f"{SWC}:SWCLike.{fn}", prop="C09", variants=BOTH, requires=PRE,
              ensures=[("rows-of-the-view" + ("-minus-one" if delta else ""), (lambda d: lambda E, v, o: to_z3(v["result"], "int") == size_of(v["self"]) + d)(delta))])

    # ------------------------------------------------------------------ the seven column accessors
    def column_post(k):
        def f(E, v, o):
            r, x = v["result"], v["self"]
            if "idx" not in x.fields:
                return r is col(x, k)  # the owner hands out the column itself (aliasing intended)
            if k in ("id", "pid"):  # a path renumbers its nodes
                j, n = qj(), size_of(x)
                return z3.And(r.uid not in E.entry_uids, r.nz() == n, z3.ForAll([j], z3.Implies(z3.And(j >= 0, j < n), r.get(j).z == (j if k == "id" else j - 1))))
            j, n = qj(), size_of(x)
            return z3.And(r.uid not in E.entry_uids, r.nz() == n, z3.ForAll([j], z3.Implies(z3.And(j >= 0, j < n), r.get(j).z == cell(x, k, j))))

        return f

    for k in KEYS:
        variants = BOTH if k not in ("id", "pid") else {"tree": on_tree}  # Path overrides id() / pid() (verified above)
        R.add(f"{SWC}:SWCLike.{k}", prop="C09", variants=variants, requires=PRE,
              ensures=[(f"column-{k}-of-the-view-(the-owner's-column-itself-or-a-fresh-gather-in-window-order)", column_post(k))])

    # ------------------------------------------------------------------ xyz / xyzw / xyzr
    def stack_post(names):
        def f(E, v, o):
            r, x = v["result"], v["self"]
            if type(r).__name__ != "S2Arr" or r.transposed or r.k != len(names) or r.kind != "real" or r.uid in E.entry_uids:
                return False
            n, j = size_of(x), qj()
            body = [z3.Select(r.cols[c], j) == (z3.RealVal(1) if nm == "1" else cell(x, nm, j)) for c, nm in enumerate(names)]
            return z3.And(r.nz() == n, z3.ForAll([j], z3.Implies(z3.And(j >= 0, j < n), z3.And(*body))))

        return f

    for fn, names in (("xyz", ("x", "y", "z")), ("xyzw", ("x", "y", "z", "1")), ("xyzr", ("x", "y", "z", "r"))):
        R.add(f"{SWC}:SWCLike.{fn}", prop="C09", variants=BOTH, requires=PRE,
              ensures=[(f"fresh-(n,{len(names)})-array-row-j-is-({','.join(names)})-of-node-j", stack_post(names))])

    # ------------------------------------------------------------------ get_adjacency_matrix
    def pair_outside(E, v, o):
        x = v["self"]
        n, k = size_of(x), qj("k")
        par, chi = cell(x, "pid", k + 1), cell(x, "id", k + 1)
        if "idx" in x.fields:  # a path renumbers: node j has id j and parent j-1
            par, chi = k, k + 1
        return z3.Exists([k], z3.And(k >= 0, k < n - 1, z3.Not(z3.And(par >= 0, par < n, chi >= 0, chi < n))))

    def adjacency_post(E, v, o):
        import numpy as np

        r, x = v["result"], v["self"]
        if not isinstance(r, X.CooRecord) or r.dtype is not np.int32:
            return False
        n, k = size_of(x), qj("k")
        m = z3.If(n >= 1, n - 1, z3.IntVal(0))
        par, chi = cell(x, "pid", k + 1), cell(x, "id", k + 1)
        if "idx" in x.fields:
            par, chi = k, k + 1
        return z3.And(to_z3(r.shape[0], "int") == n, to_z3(r.shape[1], "int") == n, r.data.nz() == m, r.row.nz() == m, r.col.nz() == m,
                      z3.ForAll([k], z3.Implies(z3.And(k >= 0, k < m), z3.And(r.data.get(k).z == 1, r.row.get(k).z == par, r.col.get(k).z == chi))))

    R.add(f"{SWC}:SWCLike.get_adjacency_matrix", prop="C09", variants=BOTH, requires=PRE,
          raises={"ValueError": ("only-when-a-(parent,child)-pair-names-no-row", pair_outside)},
          ensures=[("n-by-n-int32-matrix-whose-triplets-are-exactly-(parent-id,own-id,1)-of-rows-1..n-1-in-order", adjacency_post),
                   ("every-pair-names-rows", lambda E, v, o: z3.Not(pair_outside(E, v, o)))],
          notes="scipy.sparse.coo_matrix is a recording model: entry (p, c) of the matrix is the sum of data over the triplets (p, c)")

    # ------------------------------------------------------------------ DictSWC.__init__ / keys / values / items
    def init_setup(comments, names):
        def f(S):
            t = sym_tree(S, "t", extra_cols=("level",))
            kw = PDict(dict(t.fields["ndata"].items))
            cm = None if comments is None else PList(["# a", "# b"])
            if cm is not None:
                cm.frozen = True
            return dict(self=S.obj(DictSWC), source="cell.swc", comments=cm, names=(get_names() if names else None), kwargs=kw)

        return f

    def init_post(E, v, o):
        d, kw = v["self"], o["kwargs"]
        nd = d.fields.get("ndata")
        if not isinstance(nd, PDict) or nd.items is None or list(nd.items) != list(kw.items):
            return False
        cm, c0 = d.fields.get("comments"), o["comments"]
        if not isinstance(cm, PList) or cm.items != ([] if c0 is None else c0.items):
            return False
        if not (d.fields.get("source") == "cell.swc" and d.fields.get("names") == get_names() and d.fields.get("types") == get_types()):
            return False
        # every column holds what was given under that name (the library keeps the very arrays; only their content is demanded here)
        return z3.And(*[z3.And(nd.items[k].nz() == kw.items[k].nz(), nd.items[k].arr == kw.items[k].arr) for k in nd.items])

    R.add(f"{SWC}:DictSWC.__init__", prop="C09",
          variants={f"comments-{'given' if c else 'omitted'}-names-{'given' if nm else 'omitted'}": init_setup(c, nm) for c in (None, True) for nm in (False, True)},
          ensures=[("one-column-per-keyword-with-the-given-content-comments-kept-names-and-types-defaulted", init_post)])

    def view_post(what):
        def f(E, v, o):
            r, nd = v["result"], v["self"].fields["ndata"].items
            if not isinstance(r, PList) or r.items is None or len(r.items) != len(nd):
                return False
            if what == "keys":
                return r.items == list(nd)
            if what == "values":
                return all(a is b for a, b in zip(r.items, nd.values()))
            return all(isinstance(a, tuple) and a[0] == k and a[1] is b for a, (k, b) in zip(r.items, nd.items()))

        return f

    for fn in ("keys", "values", "items"):
        R.add(f"{SWC}:DictSWC.{fn}", prop="C09", setup=lambda S: dict(self=sym_tree(S, "t", extra_cols=("level",))),
              ensures=[(f"the-{fn}-of-the-column-table-in-order-columns-by-identity", view_post(fn))])
