"""C09 — views are faithful windows: heap-level sidecar contracts."""
import z3

from contracts.common import COLS, col, nof, sym_tree, sym_tree_fixed
from pyvc import ext_C09 as X
from pyvc.spec import Registry
from pyvc.values import NArr, Obj, PDict, PList, SArr, Sym, fresh_name, to_z3, zint

NODE = "swcgeom/core/node.py"
TREE = "swcgeom/core/tree.py"
PATH = "swcgeom/core/path.py"
BRANCH = "swcgeom/core/branch.py"
SWC = "swcgeom/core/swc.py"
KEYS = list(COLS)
OPTS = dict(models=X.MODELS)


def node_obj(S, t, idx=None):
    from swcgeom.core.tree import Tree

    i = S.int("idx") if idx is None else idx
    return S.obj(Tree.Node, attach=t, idx=i, names=t.fields["names"])


def in_range(E, v, o):
    n = v["self"]
    i = to_z3(n.fields["idx"], "int")
    return z3.And(i >= 0, i < nof(n.fields["attach"]))


def register(R: Registry):
    # ------------------------------------------------------ Node.__getitem__
    def reads_owner_now(E, v, o):
        n = v["self"]
        c = col(n.fields["attach"], v["key"])
        return to_z3(v["result"], c.kind) == z3.Select(c.arr, to_z3(n.fields["idx"], "int"))

    R.add(f"{NODE}:Node.__getitem__", prop="C09", pure_inline=True,
          variants={k: (lambda S, _k=k: dict(self=node_obj(S, sym_tree(S, "t", frozen=True)), key=_k)) for k in KEYS},
          requires=[("handle-in-range", in_range)],
          ensures=[("reads-the-owner-column-at-call-time", reads_owner_now)])

    # ------------------------------------------------------ Node.__setitem__
    def writes_through(E, v, o):
        n, n0 = v["self"], o["self"]
        t, t0 = n.fields["attach"], n0.fields["attach"]
        i = to_z3(n0.fields["idx"], "int")
        k = v["k"]
        j = z3.Int(fresh_name("j"))
        out = []
        for c in KEYS:
            a1, a0 = col(t, c), col(t0, c)
            same_alloc = a1.uid == a0.uid
            if c == k:
                out.append(z3.And(same_alloc, z3.Select(a1.arr, i) == to_z3(v["v"], a1.kind),
                                  z3.ForAll([j], z3.Implies(z3.And(j >= 0, j < nof(t0), j != i), z3.Select(a1.arr, j) == z3.Select(a0.arr, j)))))
            else:
                out.append(z3.And(same_alloc, z3.ForAll([j], z3.Implies(z3.And(j >= 0, j < nof(t0)), z3.Select(a1.arr, j) == z3.Select(a0.arr, j)))))
        return z3.And(*out)

    def set_setup(k):
        def f(S):
            t = sym_tree(S, "t", frozen=False)
            val = S.int("v") if COLS[k] == "int" else S.real("v")
            return dict(self=node_obj(S, t), k=k, v=val)

        return f

    R.add(f"{NODE}:Node.__setitem__", prop="C09", pure_inline=True,
          variants={k: set_setup(k) for k in KEYS},
          requires=[("handle-in-range", in_range)],
          ensures=[("write-through-and-nothing-else", writes_through)])

    # property getters / setters delegate to the item accessors
    for k in KEYS:
        R.add(f"{NODE}:Node.{k}", prop="C09", pure_inline=True,
              setup=lambda S: dict(self=node_obj(S, sym_tree(S, "t", frozen=True))),
              requires=[("handle-in-range", in_range)],
              ensures=[(f"attribute-{k}-is-the-column-entry", (lambda kk: lambda E, v, o: to_z3(v["result"], COLS[kk]) == z3.Select(col(v["self"].fields["attach"], kk).arr, to_z3(v["self"].fields["idx"], "int")))(k))])
        R.add(f"{NODE}:Node.{k}@setter", prop="C09", pure_inline=True,
              setup=(lambda kk: lambda S: dict(self=node_obj(S, sym_tree(S, "t", frozen=False)), v=(S.int("v") if COLS[kk] == "int" else S.real("v")), k=kk))(k),
              requires=[("handle-in-range", in_range)],
              ensures=[("write-through-and-nothing-else", writes_through)])

    # ------------------------------------------------------ Tree.__getitem__
    def is_node(E, v, o):
        r, t = v["result"], v["self"]
        if not (isinstance(r, Obj) and r.fields.get("attach") is t):
            return False
        n, key = nof(t), to_z3(o["key"], "int")
        return to_z3(r.fields["idx"], "int") == z3.If(key < 0, key + n, key)

    R.add(f"{TREE}:Tree.__getitem__", prop="C09",
          variants={"int": lambda S: dict(self=sym_tree(S, "t"), key=S.int("key"))},
          raises={"IndexError": ("out-of-range-only", lambda E, v, o: z3.Or(to_z3(v["key"], "int") < -nof(v["self"]), to_z3(v["key"], "int") >= nof(v["self"])))},
          ensures=[("in-range-accepted", lambda E, v, o: z3.And(to_z3(o["key"], "int") >= -nof(v["self"]), to_z3(o["key"], "int") < nof(v["self"]))),
                   ("handle-on-this-tree-at-the-normalised-index", is_node)])
    R.add(f"{TREE}:Tree.__getitem__#str", prop="C09") if False else None

    def str_variants():
        return {k: (lambda S, _k=k: dict(self=sym_tree(S, "t"), key=_k)) for k in KEYS}

    # Tree['x'] returns the column itself (aliasing is intended)
    R.add(f"{SWC}:DictSWC.get_ndata", prop="C09", pure_inline=True,
          variants=str_variants(),
          ensures=[("is-the-column-itself", lambda E, v, o: v["result"] is col(v["self"], v["key"]))])

    # ------------------------------------------------------ Tree.Node.parent
    def parent_post(E, v, o):
        n = v["self"]
        t = n.fields["attach"]
        i = to_z3(n.fields["idx"], "int")
        p = z3.Select(col(t, "pid").arr, i)
        r = v["result"]
        if r is None:
            return p == -1
        return z3.And(p != -1, r.fields["attach"] is t, to_z3(r.fields["idx"], "int") == p)

    R.add(f"{TREE}:Tree.Node.parent", prop="C09",
          setup=lambda S: dict(self=node_obj(S, sym_tree(S, "t"))),
          requires=[("handle-in-range", in_range)],
          ensures=[("handle-on-the-parent-or-none-for-a-root", parent_post)])

    # ------------------------------------------------------ Path.get_ndata
    def path_obj(S, t, cls=None, L=None):
        from swcgeom.core.path import Path

        if L is None:
            idx = S.arr("int", name="pidx")
            j = z3.Int(fresh_name("j"))
            S.assume(z3.ForAll([j], z3.Implies(z3.And(j >= 0, j < idx.nz()), z3.And(idx.get(j).z >= 0, idx.get(j).z < nof(t)))))
        else:
            idx = NArr((L,), [S.int(f"pidx{k}") for k in range(L)], "int")
            for x in idx.items:
                S.assume(z3.And(x.z >= 0, x.z < nof(t)))
        return S.obj(cls or Path, attach=t, idx=idx, names=t.fields["names"], source="")

    def gathers(E, v, o):
        p = v["self"]
        c = col(p.fields["attach"], v["key"])
        idx, r = p.fields["idx"], v["result"]
        j = z3.Int(fresh_name("j"))
        return z3.And(r.nz() == idx.nz(), r.uid not in E.entry_uids,
                      z3.ForAll([j], z3.Implies(z3.And(j >= 0, j < idx.nz()), r.get(j).z == z3.Select(c.arr, idx.get(j).z))))

    R.add(f"{PATH}:Path.get_ndata", prop="C09",
          variants={k: (lambda S, _k=k: dict(self=path_obj(S, sym_tree(S, "t")), key=_k)) for k in KEYS},
          ensures=[("fresh-gather-of-the-owner-column-in-order", gathers)])

    # ------------------------------------------------ Branch.get_compartments
    def consecutive_pairs(E, v, o):
        br = o["self"]
        res = v["result"]
        items = res.fields["__items__"].items
        L = br.fields["idx"].shape[0]
        if len(items) != L - 1:
            return False
        out = []
        for j, comp in enumerate(items):
            ci = comp.fields["idx"]
            if comp.fields["attach"] is not v["self"] or ci.shape != (2,):
                return False
            # a compartment reports, for every key, branch.get_ndata(key)[[j, j+1]]:
            # its window onto the branch must be positions (j, j+1)
            out.append(z3.And(to_z3(ci.items[0], "int") == j, to_z3(ci.items[1], "int") == j + 1))
        return z3.And(*out) if out else True

    def branch_setup(L):
        def f(S):
            from swcgeom.core.tree import Tree

            return dict(self=path_obj(S, sym_tree(S, "t"), cls=Tree.Branch, L=L))

        return f

    R.add(f"{BRANCH}:Branch.get_compartments", prop="C09",
          variants={f"attached-branch-of-{L}-nodes": branch_setup(L) for L in (2, 3, 4)},
          ensures=[("segments-are-the-consecutive-node-pairs", consecutive_pairs)],
          notes="branch length is fixed per variant (2, 3, 4 nodes); node ids and all attributes are symbolic")

    # ------------------------------------------------------------ DictSWC.copy
    def copy_post(E, v, o):
        y, x = v["result"], o["self"]
        if y is v["self"] or set(y.fields["ndata"].items) != set(x.fields["ndata"].items):
            return False
        j = z3.Int(fresh_name("j"))
        out = []
        for k in KEYS:
            a, b = col(y, k), col(x, k)
            if a.uid in E.entry_uids:
                return False
            out.append(z3.And(a.nz() == b.nz(), z3.ForAll([j], z3.Implies(z3.And(j >= 0, j < b.nz()), z3.Select(a.arr, j) == z3.Select(b.arr, j)))))
        return z3.And(*out)

    R.add(f"{SWC}:DictSWC.copy", prop="C09", pure_inline=True,
          setup=lambda S: dict(self=sym_tree(S, "t")),
          ensures=[("equal-content-in-fresh-storage", copy_post)])

    register_path(R, path_obj)



# =====================================================================================================================
# Path: the window itself (construction, length, indexing, re-indexed ids, iteration)
def pidx(p):
    return p.fields["idx"]


def qj(name="j"):
    return z3.Int(fresh_name(name))


def slice_positions(sl, n):
    """Python's sequence slicing s[a:b:st] on a sequence of length n (language reference, 'Slicings' / sequence types
    note 5), st a concrete non-zero int or None: (first position, step, number of positions)."""
    st = 1 if sl.step is None else sl.step

    def norm(v, dflt, lo_clip, hi_clip):
        if v is None:
            return dflt
        vz = to_z3(v, "int")
        vz = z3.If(vz < 0, vz + n, vz)
        return z3.If(vz < lo_clip, lo_clip, z3.If(vz > hi_clip, hi_clip, vz))

    if st > 0:
        lo, hi = norm(sl.start, z3.IntVal(0), z3.IntVal(0), n), norm(sl.stop, n, z3.IntVal(0), n)
        cnt = z3.If(hi > lo, (hi - lo + (st - 1)) / st, z3.IntVal(0))
    else:
        lo, hi = norm(sl.start, n - 1, z3.IntVal(-1), n - 1), norm(sl.stop, z3.IntVal(-1), z3.IntVal(-1), n - 1)
        cnt = z3.If(lo > hi, (lo - hi + (-st - 1)) / (-st), z3.IntVal(0))
    return lo, st, cnt


def slice_variants(S):
    """the slice shapes verified (bounds symbolic, step concrete)"""
    a, b = S.int("a"), S.int("b")
    return {"a:b": slice(a, b), "a:": slice(a, None), ":b": slice(None, b), ":": slice(None, None), "a:b:1": slice(a, b, 1),
            "a:b:2": slice(a, b, 2), "a:b:3": slice(a, b, 3), "::-1": slice(None, None, -1), "a:b:-1": slice(a, b, -1), "a:b:-2": slice(a, b, -2),
            "a::-1": slice(a, None, -1), ":b:-1": slice(None, b, -1)}


SLICES = ["a:b", "a:", ":b", ":", "a:b:1", "a:b:2", "a:b:3", "::-1", "a:b:-1", "a:b:-2", "a::-1", ":b:-1"]


def handles(v):
    r = v["result"]
    return X._handles_of(r)


def register_path(R, path_obj):
    from swcgeom.core.path import Path

    def sym_path(S, frozen=True):
        return path_obj(S, sym_tree(S, "t", frozen=frozen))

    def idx_in_tree(E, v, o):
        """precondition of every view: the positions the window refers to are rows of the owner"""
        p = v["self"]
        idx, t = pidx(p), p.fields["attach"]
        j = qj()
        return z3.ForAll([j], z3.Implies(z3.And(j >= 0, j < idx.nz()), z3.And(idx.get(j).z >= 0, idx.get(j).z < nof(t))))

    PRE = [("window-positions-are-rows-of-the-owner", idx_in_tree)]

    # ------------------------------------------------------------------ Path.__init__
    def init_setup(form):
        def f(S):
            t = sym_tree(S, "t")
            if form == "array":
                idx = S.arr("int", name="ids")
            elif form == "list":
                idx = S.plist("int", name="ids")
            else:
                idx = PList([S.int(f"ids{k}") for k in range(3)])
            idx.frozen = True
            return dict(self=S.obj(Path), attach=t, idx=idx)

        return f

    def init_post(E, v, o):
        p, t, src = v["self"], v["attach"], o["idx"]
        a = p.fields.get("idx")
        if p.fields.get("attach") is not t or p.fields.get("names") is not t.fields["names"] or p.fields.get("source") != t.fields["source"]:
            return False
        if not isinstance(a, (SArr, NArr)) or a.kind != "int" or a.uid in E.entry_uids or getattr(a, "view_of", None) is not None:
            return False
        if isinstance(a, NArr):
            return z3.And(*[to_z3(x, "int") == to_z3(y, "int") for x, y in zip(a.items, src.items)]) if len(a.items) == len(src.items) else False
        j = qj()
        n0 = src.nz()
        return z3.And(a.nz() == n0, z3.ForAll([j], z3.Implies(z3.And(j >= 0, j < n0), a.get(j).z == src.get(j).z)))

    R.add(f"{PATH}:Path.__init__", prop="C09",
          variants={f"idx-given-as-{form}": init_setup(form) for form in ("array", "list", "list-of-3")},
          ensures=[("window-on-the-given-owner-with-a-private-copy-of-the-positions", init_post)])

    # ------------------------------------------------------------------ Path.__len__
    R.add(f"{PATH}:Path.__len__", prop="C09",
          setup=lambda S: dict(self=sym_path(S)), requires=PRE,
          ensures=[("number-of-window-positions", lambda E, v, o: to_z3(v["result"], "int") == pidx(v["self"]).nz())])

    # ------------------------------------------------------------------ Path.node / get_node
    def node_post(E, v, o):
        r, p = v["result"], v["self"]
        return isinstance(r, Obj) and r.cls is Path.Node and r.fields.get("attach") is p and r.fields.get("names") is p.fields["names"] and r.fields.get("idx") is v["idx"]

    for fn in ("node", "get_node"):
        R.add(f"{PATH}:Path.{fn}", prop="C09",
              setup=lambda S: dict(self=sym_path(S), idx=S.int("i")),
              ensures=[("handle-on-this-path-at-the-given-position", node_post)])

    # ------------------------------------------------------------------ Path.__getitem__
    def key_out_of_range(E, v, o):
        k, n = to_z3(v["key"], "int"), pidx(v["self"]).nz()
        return z3.Or(k < -n, k >= n)

    def item_post(E, v, o):
        r, p = v["result"], v["self"]
        if not (isinstance(r, Obj) and r.cls is Path.Node and r.fields.get("attach") is p and r.fields.get("names") is p.fields["names"]):
            return False
        k, n = to_z3(o["key"], "int"), pidx(p).nz()
        return to_z3(r.fields["idx"], "int") == z3.If(k < 0, k + n, k)

    def slice_post(E, v, o):
        p, h = v["self"], handles(v)
        if h is None or h.cls_ is not Path.Node or h.fixed.get("attach") is not p or h.fixed.get("names") is not p.fields["names"]:
            return False
        lo, st, cnt = slice_positions(o["key"], pidx(p).nz())
        k = qj("k")
        return z3.And(zint(h.n) == cnt, z3.ForAll([k], z3.Implies(z3.And(k >= 0, k < cnt), z3.Select(h.col("idx"), k) == lo + k * st)))

    def str_post(E, v, o):
        p = v["self"]
        c = col(p.fields["attach"], v["key"])
        idx, r = pidx(p), v["result"]
        j = qj()
        return z3.And(r.nz() == idx.nz(), r.uid not in E.entry_uids,
                      z3.ForAll([j], z3.Implies(z3.And(j >= 0, j < idx.nz()), r.get(j).z == z3.Select(c.arr, idx.get(j).z))))

    gi_variants = {"int": lambda S: dict(self=sym_path(S), key=S.int("key"))}
    for nm in SLICES:
        gi_variants["slice " + nm] = (lambda S, _nm=nm: dict(self=sym_path(S), key=slice_variants(S)[_nm]))
    for k in KEYS:
        gi_variants["str " + k] = (lambda S, _k=k: dict(self=sym_path(S), key=_k))

    def by_form(int_c, slice_c, str_c):
        def f(E, v, o):
            key = o["key"] if o is not None else v["key"]
            if isinstance(key, slice):
                return slice_c(E, v, o) if slice_c else True
            if isinstance(key, str):
                return str_c(E, v, o) if str_c else True
            return int_c(E, v, o) if int_c else True

        return f

    R.add(f"{PATH}:Path.__getitem__", prop="C09", variants=gi_variants, requires=PRE,
          raises={"IndexError": ("only-an-integer-outside-[-len,len)", by_form(key_out_of_range, lambda E, v, o: False, lambda E, v, o: False))},
          ensures=[("integer-in-[-len,len)-accepted", by_form(lambda E, v, o: z3.Not(key_out_of_range(E, o, o)), None, None)),
                   ("integer-gives-the-handle-at-the-normalised-position", by_form(item_post, None, None)),
                   ("slice-gives-the-handles-of-exactly-the-sliced-positions-in-order", by_form(None, slice_post, None)),
                   ("name-gives-a-fresh-gather-of-the-owner-column-in-window-order", by_form(None, None, str_post))],
          options=dict(OPTS))
