"""C09 — views are faithful windows: heap-level sidecar contracts."""
import z3

from contracts.common import COLS, col, nof, sym_tree, sym_tree_fixed
from pyvc.spec import Registry
from pyvc.values import NArr, Obj, PDict, SArr, Sym, fresh_name, to_z3, zint

NODE = "swcgeom/core/node.py"
TREE = "swcgeom/core/tree.py"
PATH = "swcgeom/core/path.py"
BRANCH = "swcgeom/core/branch.py"
SWC = "swcgeom/core/swc.py"
KEYS = list(COLS)


def node_obj(S, t, idx=None):
    from swcgeom.core.tree import Tree

    i = S.int("idx") if idx is None else idx
    return S.obj(Tree.Node, attach=t, idx=i, names=t.fields["names"])


def in_range(E, v, o):
    n = v["self"]
    i = to_z3(n.fields["idx"], "int")
    return z3.And(i >= 0, i < nof(n.fields["attach"]))


def register(R: Registry):
    # ------------------------------------------------------ Node.__getitem__
    def reads_owner_now(E, v, o):
        n = v["self"]
        c = col(n.fields["attach"], v["key"])
        return to_z3(v["result"], c.kind) == z3.Select(c.arr, to_z3(n.fields["idx"], "int"))

    R.add(f"{NODE}:Node.__getitem__", prop="C09", pure_inline=True,
          variants={k: (lambda S, _k=k: dict(self=node_obj(S, sym_tree(S, "t", frozen=True)), key=_k)) for k in KEYS},
          requires=[("handle-in-range", in_range)],
          ensures=[("reads-the-owner-column-at-call-time", reads_owner_now)])

    # ------------------------------------------------------ Node.__setitem__
    def writes_through(E, v, o):
        n, n0 = v["self"], o["self"]
        t, t0 = n.fields["attach"], n0.fields["attach"]
        i = to_z3(n0.fields["idx"], "int")
        k = v["k"]
        j = z3.Int(fresh_name("j"))
        out = []
        for c in KEYS:
            a1, a0 = col(t, c), col(t0, c)
            same_alloc = a1.uid == a0.uid
            if c == k:
                out.append(z3.And(same_alloc, z3.Select(a1.arr, i) == to_z3(v["v"], a1.kind),
                                  z3.ForAll([j], z3.Implies(z3.And(j >= 0, j < nof(t0), j != i), z3.Select(a1.arr, j) == z3.Select(a0.arr, j)))))
            else:
                out.append(z3.And(same_alloc, z3.ForAll([j], z3.Implies(z3.And(j >= 0, j < nof(t0)), z3.Select(a1.arr, j) == z3.Select(a0.arr, j)))))
        return z3.And(*out)

    def set_setup(k):
        def f(S):
            t = sym_tree(S, "t", frozen=False)
            val = S.int("v") if COLS[k] == "int" else S.real("v")
            return dict(self=node_obj(S, t), k=k, v=val)

        return f

    R.add(f"{NODE}:Node.__setitem__", prop="C09", pure_inline=True,
          variants={k: set_setup(k) for k in KEYS},
          requires=[("handle-in-range", in_range)],
          ensures=[("write-through-and-nothing-else", writes_through)])

    # property getters / setters delegate to the item accessors
    for k in KEYS:
        R.add(f"{NODE}:Node.{k}", prop="C09", pure_inline=True,
              setup=lambda S: dict(self=node_obj(S, sym_tree(S, "t", frozen=True))),
              requires=[("handle-in-range", in_range)],
              ensures=[(f"attribute-{k}-is-the-column-entry", (lambda kk: lambda E, v, o: to_z3(v["result"], COLS[kk]) == z3.Select(col(v["self"].fields["attach"], kk).arr, to_z3(v["self"].fields["idx"], "int")))(k))])
        R.add(f"{NODE}:Node.{k}@setter", prop="C09", pure_inline=True,
              setup=(lambda kk: lambda S: dict(self=node_obj(S, sym_tree(S, "t", frozen=False)), v=(S.int("v") if COLS[kk] == "int" else S.real("v")), k=kk))(k),
              requires=[("handle-in-range", in_range)],
              ensures=[("write-through-and-nothing-else", writes_through)])

    # ------------------------------------------------------ Tree.__getitem__
    def is_node(E, v, o):
        r, t = v["result"], v["self"]
        if not (isinstance(r, Obj) and r.fields.get("attach") is t):
            return False
        n, key = nof(t), to_z3(o["key"], "int")
        return to_z3(r.fields["idx"], "int") == z3.If(key < 0, key + n, key)

    R.add(f"{TREE}:Tree.__getitem__", prop="C09",
          variants={"int": lambda S: dict(self=sym_tree(S, "t"), key=S.int("key"))},
          raises={"IndexError": ("out-of-range-only", lambda E, v, o: z3.Or(to_z3(v["key"], "int") < -nof(v["self"]), to_z3(v["key"], "int") >= nof(v["self"])))},
          ensures=[("in-range-accepted", lambda E, v, o: z3.And(to_z3(o["key"], "int") >= -nof(v["self"]), to_z3(o["key"], "int") < nof(v["self"]))),
                   ("handle-on-this-tree-at-the-normalised-index", is_node)])
    R.add(f"{TREE}:Tree.__getitem__#str", prop="C09") if False else None

    def str_variants():
        return {k: (lambda S, _k=k: dict(self=sym_tree(S, "t"), key=_k)) for k in KEYS}

    # Tree['x'] returns the column itself (aliasing is intended)
    R.add(f"{SWC}:DictSWC.get_ndata", prop="C09", pure_inline=True,
          variants=str_variants(),
          ensures=[("is-the-column-itself", lambda E, v, o: v["result"] is col(v["self"], v["key"]))])

    # ------------------------------------------------------ Tree.Node.parent
    def parent_post(E, v, o):
        n = v["self"]
        t = n.fields["attach"]
        i = to_z3(n.fields["idx"], "int")
        p = z3.Select(col(t, "pid").arr, i)
        r = v["result"]
        if r is None:
            return p == -1
        return z3.And(p != -1, r.fields["attach"] is t, to_z3(r.fields["idx"], "int") == p)

    R.add(f"{TREE}:Tree.Node.parent", prop="C09",
          setup=lambda S: dict(self=node_obj(S, sym_tree(S, "t"))),
          requires=[("handle-in-range", in_range)],
          ensures=[("handle-on-the-parent-or-none-for-a-root", parent_post)])

    # ------------------------------------------------------ Path.get_ndata
    def path_obj(S, t, cls=None, L=None):
        from swcgeom.core.path import Path

        if L is None:
            idx = S.arr("int", name="pidx")
            j = z3.Int(fresh_name("j"))
            S.assume(z3.ForAll([j], z3.Implies(z3.And(j >= 0, j < idx.nz()), z3.And(idx.get(j).z >= 0, idx.get(j).z < nof(t)))))
        else:
            idx = NArr((L,), [S.int(f"pidx{k}") for k in range(L)], "int")
            for x in idx.items:
                S.assume(z3.And(x.z >= 0, x.z < nof(t)))
        return S.obj(cls or Path, attach=t, idx=idx, names=t.fields["names"], source="")

    def gathers(E, v, o):
        p = v["self"]
        c = col(p.fields["attach"], v["key"])
        idx, r = p.fields["idx"], v["result"]
        j = z3.Int(fresh_name("j"))
        return z3.And(r.nz() == idx.nz(), r.uid not in E.entry_uids,
                      z3.ForAll([j], z3.Implies(z3.And(j >= 0, j < idx.nz()), r.get(j).z == z3.Select(c.arr, idx.get(j).z))))

    R.add(f"{PATH}:Path.get_ndata", prop="C09",
          variants={k: (lambda S, _k=k: dict(self=path_obj(S, sym_tree(S, "t")), key=_k)) for k in KEYS},
          ensures=[("fresh-gather-of-the-owner-column-in-order", gathers)])

    # ------------------------------------------------ Branch.get_compartments
    def consecutive_pairs(E, v, o):
        br = o["self"]
        res = v["result"]
        items = res.fields["__items__"].items
        L = br.fields["idx"].shape[0]
        if len(items) != L - 1:
            return False
        out = []
        for j, comp in enumerate(items):
            ci = comp.fields["idx"]
            if comp.fields["attach"] is not v["self"] or ci.shape != (2,):
                return False
            # a compartment reports, for every key, branch.get_ndata(key)[[j, j+1]]:
            # its window onto the branch must be positions (j, j+1)
            out.append(z3.And(to_z3(ci.items[0], "int") == j, to_z3(ci.items[1], "int") == j + 1))
        return z3.And(*out) if out else True

    def branch_setup(L):
        def f(S):
            from swcgeom.core.tree import Tree

            return dict(self=path_obj(S, sym_tree(S, "t"), cls=Tree.Branch, L=L))

        return f

    R.add(f"{BRANCH}:Branch.get_compartments", prop="C09",
          variants={f"attached-branch-of-{L}-nodes": branch_setup(L) for L in (2, 3, 4)},
          ensures=[("segments-are-the-consecutive-node-pairs", consecutive_pairs)],
          notes="branch length is fixed per variant (2, 3, 4 nodes); node ids and all attributes are symbolic")

    # ------------------------------------------------------------ DictSWC.copy
    def copy_post(E, v, o):
        y, x = v["result"], o["self"]
        if y is v["self"] or set(y.fields["ndata"].items) != set(x.fields["ndata"].items):
            return False
        j = z3.Int(fresh_name("j"))
        out = []
        for k in KEYS:
            a, b = col(y, k), col(x, k)
            if a.uid in E.entry_uids:
                return False
            out.append(z3.And(a.nz() == b.nz(), z3.ForAll([j], z3.Implies(z3.And(j >= 0, j < b.nz()), z3.Select(a.arr, j) == z3.Select(b.arr, j)))))
        return z3.And(*out)

    R.add(f"{SWC}:DictSWC.copy", prop="C09", pure_inline=True,
          setup=lambda S: dict(self=sym_tree(S, "t")),
          ensures=[("equal-content-in-fresh-storage", copy_post)])
