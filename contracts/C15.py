"""C15 -- Neurolucida ASC conversion: sidecar contracts (no edit of /repo).

Part 1  Parser over an ABSTRACT TOKEN STREAM and an ABSTRACT AST HEAP (pyvc/ext_C15.py states both abstractions).
Part 2  NeurolucidaAscToSwc.from_ast / walk_ast: small fixed-shape ASTs (bounded shapes, symbolic numbers), and an ARBITRARY abstract
        AST in document order (symbolic size, depth and branch length; register_walk_general).
Part 3a Lexer at CHARACTER level over an abstract character stream (pyvc/ext_C15_text.py): _read_char, _read_word, _read_line, _token,
        __next__, __init__ on symbolic text.
Part 3b The link: Parser._read_token / Parser.__init__ on the real Lexer (the abstract token stream of Part 1 is what they really do).
Part 3  Lexer on concrete short inputs (effectively bounded: concrete strings).
Lemmas  premature end of the token stream cannot be accepted; Lexer.__next__ is a function of the text and the look-ahead.
"""
import os

import z3

from pyvc import ext_C15 as X
from pyvc.ext_C15 import DEPTH, NTOK, TTYPE, TUP, TVAL, tokref
from pyvc.spec import SpecFn
from pyvc.values import Obj, Sym, fresh, fresh_name, to_z3

X.install()

ASC = "swcgeom/transforms/neurolucida_asc.py"
P = f"{ASC}:Parser."


# ===========================================================================
# Part 1: the parser
def parser_obj(S):
    from swcgeom.transforms.neurolucida_asc import Lexer, Parser

    lex = S.obj(Lexer, g_cur=S.int("cur"))
    heap = X.new_heap(S)
    me = S.obj(Parser, lexer=lex, next_token=fresh("oref", "next_token"), source="", g_tip=fresh("ref", "tip"), g_heap=heap)
    S.eng.ghost["c15"] = {"heap": heap}
    S.assume(NTOK >= 0)
    S.assume(DEPTH(0) == 0)
    return me


def cur(v):
    return to_z3(v["self"].fields["lexer"].fields["g_cur"], "int")


def _remaining(eng, args, kwargs):
    c = to_z3(args[0].fields["lexer"].fields["g_cur"], "int")
    return Sym(z3.If(c < NTOK, NTOK - c, z3.IntVal(0)), "int")


REMAINING = {"remaining": SpecFn(_remaining, "remaining")}  # tokens not yet consumed (loop variants)


def nxt(v):
    t = v["self"].fields["next_token"]
    if isinstance(t, Obj):  # a real Token handed out by the linked lexer: the ghost stamp g_idx is its index in the stream
        return to_z3(t.fields["g_idx"], "int") + 1
    return to_z3(t, "oref")


def tip(v):
    return to_z3(v["self"].fields["g_tip"], "ref")


def H(v, f):
    x = v["self"].fields["g_heap"].fields[f]
    return x.arr if hasattr(x, "arr") else to_z3(x, "int")


def T(name):
    return X.tt(name)


def is_t(i, *names):
    return z3.Or(*[TTYPE(i) == T(n) for n in names])


def in_stream(i):
    return z3.And(i >= 0, i < NTOK)


# -- well-formedness of the parser state (pre- and postcondition of every method)
def wf(E, v, o):
    return z3.And(cur(v) >= 0, nxt(v) == tokref(cur(v)), H(v, "n") >= 0, H(v, "clock") >= 0)


WF = ("state-wf", wf)


def valid_node(name):
    return (f"{name}-is-a-node", lambda E, v, o: z3.And(to_z3(v[name], "ref") >= 1, to_z3(v[name], "ref") <= H(v, "n")))


# -- the heap frame: nodes that existed at entry are untouched (the parser only ADDS nodes)
def heap_frame(E, v, o):
    j = z3.Int(fresh_name("j"))
    same = [z3.Select(H(v, f), j) == z3.Select(H(o, f), j) for f in X.HEAP_INT + X.HEAP_REAL if f != "nch"]
    return z3.And(H(v, "n") >= H(o, "n"), H(v, "clock") >= H(o, "clock"),
                  z3.ForAll([j], z3.Implies(z3.And(j >= 1, j <= H(o, "n")), z3.And(*same))))


FRAME = ("existing-nodes-untouched", heap_frame)


def heap_unchanged(E, v, o):
    return z3.And(H(v, "n") == H(o, "n"), H(v, "clock") == H(o, "clock"), *[H(v, f) == H(o, f) for f in X.HEAP_INT + X.HEAP_REAL])


def new_hang_below(rootname):
    """every node created by the call is attached, and attached to another new node or to `root`"""
    def f(E, v, o):
        j = z3.Int(fresh_name("j"))
        pj = z3.Select(H(v, "par"), j)
        r = to_z3(o[rootname], "ref")
        return z3.ForAll([j], z3.Implies(z3.And(j > H(o, "n"), j <= H(v, "n")), z3.Or(pj == r, z3.And(pj > H(o, "n"), pj <= H(v, "n")))))

    return ("new-nodes-hang-below-root", f)


TIP_KEPT = ("tip-restored", lambda E, v, o: tip(v) == tip(o))


# -- exceptions: "may be raised at any time" = True when the carrier itself is checked, an unconstrained
#    boolean at call sites (callers must cope with both outcomes).  All rejection facts are stated the other way
#    round, as postconditions of the NORMAL return ("returns only if the input had the right shape").
def MAY(E, v, o):
    if o is E.top_old:
        return True
    return fresh("bool", "callee_raises")


def may(*names):
    return {n: (n, MAY) for n in names}


LEXERR = {"ValueError": ("lexer-error-propagates", MAY)}
REJECT = may("AssertionTokenTypeError", "TokenTypeError", "LiteralTokenError", "ValueError", "TypeError")


def consumed(k):
    return (f"consumes-exactly-{k}", lambda E, v, o: cur(v) == cur(o) + k)


def depth_delta(d):
    return (f"bracket-depth-changes-by-{d}", lambda E, v, o: DEPTH(cur(v)) == DEPTH(cur(o)) + d)


def register_leaves(R):
    S0 = lambda S: dict(self=parser_obj(S))
    # ------------------------------------------------------------ _read_token
    R.add(P + "_read_token", prop="C15", setup=S0, requires=[WF], raises=LEXERR,
          ensures=[WF, consumed(1), ("heap-untouched", heap_unchanged), TIP_KEPT,
                   ("depth-follows-the-consumed-token", lambda E, v, o: X.depth_step(cur(o)))],
          notes="abstract token stream (see pyvc/ext_C15.py)")
    # --------------------------------------------------------------- _consume
    R.add(P + "_consume", prop="C15", setup=S0, requires=[WF], raises=LEXERR,
          ensures=[WF, consumed(1), ("heap-untouched", heap_unchanged), TIP_KEPT,
                   ("returns-the-old-lookahead", lambda E, v, o: to_z3(v["result"], "oref") == nxt(o))])

    # ---------------------------------------------------------------- _assert
    def assert_setup(S):
        from swcgeom.transforms.neurolucida_asc import TokenType

        tok = fresh("oref", "token")
        S.assume(z3.And(tok.z >= 0, tok.z <= NTOK))
        ty = S.int("ty")
        S.assume(z3.And(ty.z >= 1, ty.z <= len(TokenType)))
        return dict(self=parser_obj(S), token=tok, type=X.SymEnum(ty.z, TokenType))

    def bad_token(E, v, o):
        t = to_z3(o["token"], "oref")
        return z3.Or(t == 0, TTYPE(t - 1) != o["type"].z)

    R.add(P + "_assert", prop="C15", setup=assert_setup, requires=[WF],
          raises={"AssertionTokenTypeError": ("only-for-EOF-or-wrong-type", bad_token)},
          ensures=[("accepted-token-is-present-and-of-the-type", lambda E, v, o: z3.Not(bad_token(E, v, o))),
                   ("returns-the-token", lambda E, v, o: to_z3(v["result"], "oref") == to_z3(o["token"], "oref")),
                   ("state-untouched", lambda E, v, o: z3.And(cur(v) == cur(o), nxt(v) == nxt(o), heap_unchanged(E, v, o)))])

    # ---------------------------------------------------- _assert_and_cunsume
    def aac_setup(S):
        from swcgeom.transforms.neurolucida_asc import TokenType

        ty = S.int("ty")
        S.assume(z3.And(ty.z >= 1, ty.z <= len(TokenType)))
        return dict(self=parser_obj(S), type=X.SymEnum(ty.z, TokenType))

    def bad_next(E, v, o):
        return z3.Or(nxt(o) == 0, TTYPE(cur(o)) != o["type"].z)

    R.add(P + "_assert_and_cunsume", prop="C15", setup=aac_setup, requires=[WF],
          raises={"AssertionTokenTypeError": ("only-for-EOF-or-wrong-type", bad_next), **LEXERR},
          ensures=[WF, consumed(1), ("heap-untouched", heap_unchanged), TIP_KEPT,
                   ("accepted-token-is-present-and-of-the-type", lambda E, v, o: z3.Not(bad_next(E, v, o))),
                   ("returns-the-consumed-token", lambda E, v, o: to_z3(v["result"], "oref") == nxt(o))])

    # ------------------------------------------------------------ _parse_node
    SR = lambda S: dict(self=parser_obj(S), root=fresh("ref", "root"), __ghost__=REMAINING)

    def point_shape(E, v, o):
        c = cur(o)
        return z3.And(c + 4 < NTOK, is_t(c, "FLOAT"), is_t(c + 1, "FLOAT"), is_t(c + 2, "FLOAT"), is_t(c + 3, "FLOAT"), is_t(c + 4, "BRACKET_RIGHT"))

    def node_added(E, v, o):
        c, r, nd = cur(o), to_z3(o["root"], "ref"), to_z3(v["result"], "ref")
        sel = lambda f, s=v: z3.Select(H(s, f), nd)
        return z3.And(nd == H(o, "n") + 1, H(v, "n") == H(o, "n") + 1, sel("kind") == X.at("NODE"), sel("par") == r,
                      sel("vx") == TVAL(c), sel("vy") == TVAL(c + 1), sel("vz") == TVAL(c + 2), sel("vr") == TVAL(c + 3),
                      sel("nch") == 0, sel("ord") == H(o, "clock"), H(v, "clock") == H(o, "clock") + 1,
                      z3.Select(H(v, "nch"), r) == z3.Select(H(o, "nch"), r) + 1)

    def depth_flat_then_close(E, v, o):
        c = cur(o)
        return z3.And(*[DEPTH(c + k) == DEPTH(c) for k in range(1, 5)], DEPTH(c + 5) == DEPTH(c) - 1)

    R.add(P + "_parse_node", prop="C15", setup=SR,
          requires=[WF, valid_node("root"), ("point-continues-the-branch-tip", lambda E, v, o: to_z3(v["root"], "ref") == tip(v))],
          modifies=["self"], returns="ref",
          raises={"AssertionTokenTypeError": ("only-for-a-malformed-point", lambda E, v, o: z3.Not(point_shape(E, v, o))), **LEXERR},
          ensures=[WF, FRAME, consumed(5),
                   ("point-is-FLOAT-FLOAT-FLOAT-FLOAT-close", point_shape),
                   ("one-NODE-child-with-the-four-values-added-to-root", node_added),
                   ("depth-flat-over-the-numbers-then-minus-1", depth_flat_then_close),
                   ("new-point-becomes-the-tip", lambda E, v, o: tip(v) == to_z3(v["result"], "ref"))],
          ghost_exit=lambda E, v, o: v["self"].fields.__setitem__("g_tip", v["result"]),
          notes="abstract token stream + abstract AST heap")

    # ----------------------------------------------------------- _parse_color
    def color_shape(E, v, o):
        c = cur(o)
        return z3.And(c + 2 < NTOK, is_t(c, "LITERAL"), is_t(c + 1, "LITERAL"), is_t(c + 2, "BRACKET_RIGHT"))

    def marker_added(kind):
        def f(E, v, o):
            r, nd = to_z3(o["root"], "ref"), to_z3(v["result"], "ref")
            return z3.And(nd == H(o, "n") + 1, H(v, "n") == H(o, "n") + 1, z3.Select(H(v, "kind"), nd) == X.at(kind),
                          z3.Select(H(v, "par"), nd) == r, z3.Select(H(v, "nch"), nd) == 0)

        return f

    R.add(P + "_parse_color", prop="C15", setup=SR, requires=[WF, valid_node("root")], modifies=["self"], returns="ref",
          raises={"AssertionTokenTypeError": ("only-for-a-malformed-colour", lambda E, v, o: z3.Not(color_shape(E, v, o))), **LEXERR},
          ensures=[WF, FRAME, TIP_KEPT, consumed(3), ("colour-is-LITERAL-LITERAL-close", color_shape),
                   ("one-COLOR-leaf-added-to-root", marker_added("COLOR")),
                   ("depth-minus-1", lambda E, v, o: z3.And(DEPTH(cur(o) + 1) == DEPTH(cur(o)), DEPTH(cur(o) + 2) == DEPTH(cur(o)), DEPTH(cur(o) + 3) == DEPTH(cur(o)) - 1))])

    # --------------------------------------------------------- _parse_comment
    def comment_shape(E, v, o):
        return z3.And(cur(o) < NTOK, is_t(cur(o), "COMMENT"))

    R.add(P + "_parse_comment", prop="C15", setup=SR, requires=[WF, valid_node("root")], modifies=["self"], returns="ref",
          raises={"AssertionTokenTypeError": ("only-if-not-a-comment", lambda E, v, o: z3.Not(comment_shape(E, v, o))), **LEXERR},
          ensures=[WF, FRAME, TIP_KEPT, consumed(1), ("token-is-a-COMMENT", comment_shape),
                   ("one-COMMENT-leaf-added-to-root", marker_added("COMMENT")), depth_delta(0)])

    # -------------------------------------------------------- _parse_comments
    def comments_run(E, v, o):
        j = z3.Int(fresh_name("j"))
        return z3.And(cur(v) >= cur(o), z3.ForAll([j], z3.Implies(z3.And(j >= cur(o), j < cur(v)), z3.And(TTYPE(j) == T("COMMENT"), DEPTH(j) == DEPTH(cur(o))))),
                      DEPTH(cur(v)) == DEPTH(cur(o)))

    def only_comment_leaves(E, v, o):
        j = z3.Int(fresh_name("j"))
        return z3.ForAll([j], z3.Implies(z3.And(j > H(o, "n"), j <= H(v, "n")),
                                         z3.And(z3.Select(H(v, "kind"), j) == X.at("COMMENT"), z3.Select(H(v, "par"), j) == to_z3(o["root"], "ref"))))

    R.add(P + "_parse_comments", prop="C15", setup=SR, requires=[WF, valid_node("root")], modifies=["self"], raises=LEXERR,
          ensures=[WF, FRAME, TIP_KEPT, ("skips-exactly-a-run-of-comments-at-constant-depth", comments_run),
                   ("stops-at-EOF-or-a-non-comment", lambda E, v, o: z3.Or(cur(v) >= NTOK, TTYPE(cur(v)) != T("COMMENT"))),
                   ("adds-only-COMMENT-leaves-below-root", only_comment_leaves)],
          loops={0: dict(invariant=[WF, FRAME, TIP_KEPT, ("run-so-far", comments_run), ("only-comment-leaves-so-far", only_comment_leaves),
                                    ("root-still-valid", lambda E, v, o: z3.And(to_z3(v["root"], "ref") == to_z3(o["root"], "ref")))],
                         decreases="remaining(self)")})


# ---------------------------------------------------------------------------
# the recursive-descent core: bracket depth DEPTH(cursor) = consumed '(' minus consumed ')'
def b2i(x):
    return to_z3(x, "int")


def depth_floor(lo, hi_incl, level):
    """the depth never drops below `level` on cursor positions lo .. hi"""
    j = z3.Int(fresh_name("j"))
    return z3.ForAll([j], z3.Implies(z3.And(j >= lo, j <= hi_incl), DEPTH(j) >= level))


K0 = z3.Int("c15_leading_comments")  # ghost: number of leading COMMENT tokens of the document


def register_core(R):
    REJ = {k: v for k, v in REJECT.items() if k != "TypeError"}
    # the descent recurses once per nesting level: CPython may stop it with RecursionError (never raised by the interpreted
    # code itself; listed so that CALLERS of these functions have to cope with a non-ValueError exception)
    REJ["RecursionError"] = ("RecursionError", MAY)

    # ---------------------------------------------------------- _parse_subtree
    def level(o):
        """own level of the branch: entry depth, minus the pending '(' when `opened`"""
        return DEPTH(cur(o)) - b2i(o["opened"])

    def current_ok(E, v, o):
        c = to_z3(v["current"], "ref")
        return z3.And(z3.Or(c == to_z3(o["root"], "ref"), z3.And(c > H(o, "n"), c <= H(v, "n"))), c == tip(v))

    def sub_stop(E, v, o):
        c = cur(v)
        return z3.Or(c >= NTOK, z3.And(is_t(c, "BRACKET_RIGHT", "OR"), DEPTH(c) == level(o)))

    sub_floor = ("never-below-own-level", lambda E, v, o: z3.And(cur(v) >= cur(o), depth_floor(cur(o), cur(v), level(o))))
    R.add(P + "_parse_subtree", prop="C15",
          setup=lambda S: dict(self=parser_obj(S), root=fresh("ref", "root"), opened=S.bool("opened"), __ghost__=REMAINING),
          requires=[WF, valid_node("root")], modifies=["self"], raises=REJ,
          lemmas=[lambda E, fr: fr.vars["self"].fields.__setitem__("g_tip", fr.vars["root"])],  # ghost: a branch starts with its root as tip
          ghost_exit=lambda E, v, o: v["self"].fields.__setitem__("g_tip", o["self"].fields["g_tip"]),  # ghost: leaving the branch restores the tip
          ensures=[WF, FRAME, TIP_KEPT, new_hang_below("root"),
                   ("stops-at-unconsumed-close-or-bar-of-its-own-level-or-EOF", sub_stop), sub_floor],
          loops={0: dict(invariant=[WF, FRAME, new_hang_below("root"), sub_floor,
                                    ("depth-is-own-level-plus-pending-open", lambda E, v, o: DEPTH(cur(v)) == level(o) + b2i(v["opened"])),
                                    ("current-is-the-branch-tip", current_ok)],
                         decreases="remaining(self)")},
          notes="abstract token stream + abstract AST heap; mutual recursion with _parse_split handled by the modular rule (partial correctness)")

    # ------------------------------------------------------------ _parse_split
    def split_closed(E, v, o):
        c0, c1 = cur(o), cur(v)
        return z3.And(c1 > c0, c1 <= NTOK, is_t(c1 - 1, "BRACKET_RIGHT"), DEPTH(c1) == DEPTH(c0) - 1, depth_floor(c0, c1 - 1, DEPTH(c0)))

    R.add(P + "_parse_split", prop="C15", setup=lambda S: dict(self=parser_obj(S), root=fresh("ref", "root"), __ghost__=REMAINING),
          requires=[WF, valid_node("root"), ("split-hangs-at-the-branch-tip", lambda E, v, o: to_z3(v["root"], "ref") == tip(v))],
          modifies=["self"], raises=REJ,
          ensures=[WF, FRAME, TIP_KEPT, new_hang_below("root"),
                   ("returns-just-after-the-close-that-matches-its-open", split_closed)],
          loops={0: dict(invariant=[WF, FRAME, TIP_KEPT, new_hang_below("root"),
                                    ("depth-is-split-level-plus-pending-open", lambda E, v, o: DEPTH(cur(v)) == DEPTH(cur(o)) + b2i(v["opened"])),
                                    ("never-below-split-level", lambda E, v, o: z3.And(cur(v) >= cur(o), depth_floor(cur(o), cur(v), DEPTH(cur(o)))))],
                         decreases="remaining(self)")})

    # ------------------------------------------------------------- _parse_tree
    def tree_node(E, v, o):
        nd, c = H(o, "n") + 1, cur(o)
        j = z3.Int(fresh_name("j"))
        pj = z3.Select(H(v, "par"), j)
        below = z3.ForAll([j], z3.Implies(z3.And(j > nd, j <= H(v, "n")), z3.And(pj >= nd, pj <= H(v, "n"))))  # everything else hangs below the TREE node
        return z3.And(below, H(v, "n") >= nd, z3.Select(H(v, "kind"), nd) == X.at("TREE"), z3.Select(H(v, "label"), nd) == TUP(c),
                      z3.Select(H(v, "par"), nd) == to_z3(o["root"], "ref"), in_stream(c), is_t(c, "LITERAL"), is_t(c + 1, "BRACKET_RIGHT"))

    def tree_stop(E, v, o):
        c = cur(v)
        return z3.And(c >= cur(o), z3.Or(c >= NTOK, z3.And(is_t(c, "BRACKET_RIGHT", "OR"), DEPTH(c) == DEPTH(cur(o)) - 1)),
                      depth_floor(cur(o), c, DEPTH(cur(o)) - 1))

    R.add(P + "_parse_tree", prop="C15", setup=lambda S: dict(self=parser_obj(S), root=fresh("ref", "root")),
          requires=[WF, valid_node("root")], modifies=["self"], raises=REJ,
          ensures=[WF, FRAME, TIP_KEPT, new_hang_below("root"),
                   ("one-TREE-node-labelled-by-the-literal-attached-to-root", tree_node),
                   ("stops-at-the-close-of-the-enclosing-level-or-EOF", tree_stop)])

    # ------------------------------------------------------------------ _parse
    def k0_def(E, fr):
        j = z3.Int(fresh_name("j"))
        E.assume(z3.And(K0 >= 0, K0 <= NTOK, z3.ForAll([j], z3.Implies(z3.And(j >= 0, j < K0), TTYPE(j) == T("COMMENT"))),
                        z3.Or(K0 == NTOK, TTYPE(K0) != T("COMMENT"))))
        E.assumptions.add("ghost definition: K0 = number of leading COMMENT tokens of the stream (least index of a non-comment token, or N)")

    def doc_inside(E, v, o, upto):
        j = z3.Int(fresh_name("j"))
        return z3.And(K0 < NTOK, is_t(K0, "BRACKET_LEFT"), z3.ForAll([j], z3.Implies(z3.And(j >= 0, j <= K0), DEPTH(j) == 0)),
                      upto > K0, depth_floor(K0 + 1, upto, z3.IntVal(1)))

    def parse_done(E, v, o):
        c = cur(v)
        return z3.And(c <= NTOK, is_t(c - 1, "BRACKET_RIGHT"), DEPTH(c) == 0, doc_inside(E, v, o, c - 1))

    def parse_root(E, v, o):
        r = to_z3(v["result"], "ref")
        j = z3.Int(fresh_name("j"))
        pj = z3.Select(H(v, "par"), j)
        return z3.And(r == H(o, "n") + 1, z3.Select(H(v, "kind"), r) == X.at("ROOT"), z3.Select(H(v, "par"), r) == 0,
                      z3.ForAll([j], z3.Implies(z3.And(j > r, j <= H(v, "n")), z3.And(pj >= r, pj <= H(v, "n")))))

    def parse_inv(E, v, o):
        c = cur(v)
        return z3.And(doc_inside(E, v, o, c), z3.Or(c >= NTOK, DEPTH(c) == 1))

    def root_inv(E, v, o):
        r = to_z3(v["root"], "ref")
        j = z3.Int(fresh_name("j"))
        pj = z3.Select(H(v, "par"), j)
        return z3.And(r == H(o, "n") + 1, r <= H(v, "n"), z3.Select(H(v, "kind"), r) == X.at("ROOT"), z3.Select(H(v, "par"), r) == 0,
                      z3.ForAll([j], z3.Implies(z3.And(j > r, j <= H(v, "n")), z3.And(pj >= r, pj <= H(v, "n")))))

    R.add(P + "_parse", prop="C15", setup=lambda S: dict(self=parser_obj(S), __ghost__=REMAINING),
          requires=[WF, ("called-on-a-fresh-parser", lambda E, v, o: cur(v) == 0)], modifies=["self"], returns="ref", raises=REJ,
          lemmas=[k0_def],
          ensures=[WF, FRAME, TIP_KEPT,
                   ("returns-only-after-the-close-matching-the-first-open-at-depth-0-inside-the-stream", parse_done),
                   ("result-is-a-fresh-ROOT-and-all-new-nodes-hang-below-it", parse_root)],
          loops={0: dict(invariant=[WF, FRAME, TIP_KEPT, ("inside-the-outer-brackets", parse_inv), ("root-is-the-fresh-ROOT", root_inv)],
                         decreases="remaining(self)")},
          notes="a document that ends before the final ')' cannot make _parse return normally: the normal exit needs a ')' token INSIDE the stream at depth 1")

    # ------------------------------------------------------------------- parse
    R.add(P + "parse", prop="C15", setup=lambda S: dict(self=parser_obj(S)),
          requires=[WF, ("called-on-a-fresh-parser", lambda E, v, o: cur(v) == 0)], lemmas=[k0_def],
          raises={"ValueError": ("every-failure-surfaces-as-ValueError", MAY)},
          ensures=[WF, FRAME,
                   ("returns-only-for-a-complete-document", parse_done),
                   ("result-is-a-fresh-ROOT-and-all-new-nodes-hang-below-it", parse_root)],
          notes="_parse is used through its contract; the traceback that the handler trims is modelled as a chain of 3 frames with unknown "
                "function names (pyvc/ext_C15.py) -- the traceback plays no role in the property")


# ===========================================================================
# Part 2: from_ast.<locals>.walk_ast on fixed-shape ASTs (real ASTNode objects, symbolic point values)
WALK = f"{ASC}:NeurolucidaAscToSwc.from_ast.<locals>.walk_ast"
COLS7 = ("id", "type", "x", "y", "z", "r", "pid")

# shape language: ("ROOT", kids) | ("TREE", label, kids) | ("NODE", kids) | ("COLOR",) | ("COMMENT",)
SHAPES = {
    "chain-of-3-points": ("ROOT", [("TREE", "AXON", [("NODE", [("NODE", [("NODE", [])])])])]),
    "point-with-two-children": ("ROOT", [("TREE", "DENDRITE", [("NODE", [("NODE", []), ("NODE", [])])])]),
    "colour-sibling-and-markers": ("ROOT", [("COLOR",), ("TREE", "AXON", [("COMMENT",), ("NODE", [("COLOR",), ("NODE", []), ("COMMENT",)])])]),
    "split-of-2-after-2-points": ("ROOT", [("TREE", "AXON", [("NODE", [("NODE", [("NODE", [("NODE", [])]), ("NODE", [])])])])]),
    "two-trees-and-nesting": ("ROOT", [("TREE", "AXON", [("NODE", [("TREE", "DENDRITE", [("NODE", [])]), ("NODE", [])])]), ("NODE", []),
                                       ("TREE", "DENDRITE", [("NODE", [])])]),
}


def reference_rows(shape):
    """Independent reference (recursive, from the property statement): points in document (pre-)order; parent = nearest
    enclosing point, type = label of the nearest enclosing tree.  Returns [(point_no, parent_point_no | None, label | None)]."""
    rows = []

    def go(n, parent, label):
        if n[0] == "NODE":
            k = len(rows)
            rows.append((k, parent, label))
            for ch in n[1]:
                go(ch, k, label)
        elif n[0] == "TREE":
            for ch in n[2]:
                go(ch, None, n[1])  # the AST parent of these points is the TREE, not a point
        elif n[0] == "ROOT":
            for ch in n[1]:
                go(ch, None, label)

    go(shape, None, None)
    return rows


def walk_setup(shape):
    def f(S):
        from pyvc.values import PDict, PList
        from swcgeom.core.swc_utils import get_names, get_types
        from swcgeom.transforms.neurolucida_asc import ASTNode, ASTType

        pts = []

        def mk(n):
            kind = n[0]
            kids = n[-1] if kind in ("ROOT", "TREE", "NODE") else []
            value = None
            if kind == "TREE":
                value = n[1]
            elif kind == "NODE":
                k = len(pts)
                value = tuple(S.real(f"p{k}_{c}") for c in "xyzr")
                pts.append(value)
            elif kind == "COLOR":
                value = ("Red",)
            elif kind == "COMMENT":
                value = ("a comment",)
            ch = PList([mk(c) for c in kids])
            ch.frozen = True
            o = S.obj(ASTNode, type=ASTType[kind], value=value, tokens=PList([]), children=ch, parent=None)
            o.frozen = True
            return o

        root = mk(shape)
        names, types = get_names(), get_types()
        s0 = S.int("first_free_id")
        kinds = dict(id="int", type="int", x="real", y="real", z="real", r="real", pid="int")
        before = {c: (S.int if kinds[c] == "int" else S.real)(f"row0_{c}") for c in COLS7}
        ndata = PDict({getattr(names, c): PList([before[c]]) for c in COLS7})
        clo = dict(next_id=s0, typee=PList([types.undefined]), ndata=ndata, names=names, types=types)
        # the function's own name is visible in its defining scope (so that a recursive version would run, and be reported
        # by the call-graph obligation rather than by a NameError)
        import swcgeom.transforms.neurolucida_asc as _m
        from pyvc import extract
        from pyvc.engine import Frame
        from pyvc.values import Func

        clo["walk_ast"] = Func(extract.find(WALK)[0], Frame(vars=clo, globs=_m.__dict__), _m.__dict__, WALK)
        return dict(root=root, pid=S.int("pid"), __closure__=clo,
                    __ghost__=dict(clo=clo, pts=pts, before=before, s0=s0, shape=shape, names=names, types=types))

    return f


def register_walk(R):
    def rows_ok(E, v, o):
        from swcgeom.core.swc_utils import get_types

        g = E.spec_extra
        clo, pts, s0, names, types = g["clo"], g["pts"], g["s0"], g["names"], g["types"]
        ref = reference_rows(g["shape"])
        tcode = {"AXON": types.axon, "DENDRITE": types.basal_dendrite, None: types.undefined}
        conj = [to_z3(clo["next_id"], "int") == s0.z + len(ref)]
        cols = {c: clo["ndata"].items[getattr(names, c)] for c in COLS7}
        for c in COLS7:
            if cols[c].items is None or len(cols[c].items) != 1 + len(ref):
                return False  # not exactly one row per point
            k = "int" if c in ("id", "type", "pid") else "real"
            conj.append(to_z3(cols[c].items[0], k) == to_z3(g["before"][c], k))  # earlier rows untouched
        for k, par, lab in ref:
            row = {c: cols[c].items[1 + k] for c in COLS7}
            conj.append(to_z3(row["id"], "int") == s0.z + k)
            conj.append(to_z3(row["pid"], "int") == (z3.IntVal(-1) if par is None else s0.z + par))
            conj.append(to_z3(row["type"], "int") == tcode[lab])
            for c, val in zip("xyzr", pts[k]):
                conj.append(to_z3(row[c], "real") == val.z)
        return z3.And(*conj)

    def type_stack_balanced(E, v, o):
        t = E.spec_extra["clo"]["typee"]
        return t.items is not None and len(t.items) == 1 and t.items[0] == E.spec_extra["types"].undefined

    def no_recursion(E, v, o):
        import ast as _ast

        from pyvc import extract

        node, _, _ = extract.find(WALK)
        return not any(isinstance(x, _ast.Call) and isinstance(x.func, _ast.Name) and x.func.id == "walk_ast" for x in _ast.walk(node))

    R.add(WALK, prop="C15", variants={k: walk_setup(sh) for k, sh in SHAPES.items()},
          ensures=[("one-row-per-point-in-document-order-with-parent-type-and-values", rows_ok),
                   ("type-stack-restored", type_stack_balanced),
                   ("call-graph/walk_ast-does-not-call-itself", no_recursion)],
          notes="BOUNDED SHAPES: five fixed AST shapes (chain of 3, fork, markers, split after a run, nested/sibling trees) with fully symbolic "
                "point values, first free id and one pre-existing row; expected rows come from an independent recursive reference in this file. "
                "The AST objects are frozen: any write to them is a failed frame obligation.")


# ---------------------------------------------------------------------------
# walk_ast on an ARBITRARY abstract AST (pyvc/ext_C15.py: W_* ghost functions): any number of nodes, any nesting depth, any
# branch length.  The AST is required to be numbered in document order (what the parser's allocation order gives):
# references R0 .. END(R0)-1, the subtree of x is the interval [x, END(x)), children partition (x, END(x)) in order.
# TREE nodes hang directly below the ROOT (the grammar of Parser._parse) and carry the label AXON or DENDRITE.
def register_walk_general(R):
    from pyvc.values import PDict, PList
    from swcgeom.core.swc_utils import get_names, get_types

    W = X
    names, types = get_names(), get_types()

    def stack_name():
        """name of walk_ast's work list: the local initialised with a one-element list holding a pair (read from the current source)"""
        import ast as _ast

        from pyvc import extract

        node, _, _ = extract.find(WALK)
        found = [t.id for st in node.body if isinstance(st, (_ast.Assign, _ast.AnnAssign)) and isinstance(st.value, _ast.List) and len(st.value.elts) == 1
                 and isinstance(st.value.elts[0], _ast.Tuple) for t in (st.targets if isinstance(st, _ast.Assign) else [st.target]) if isinstance(t, _ast.Name)]
        return found[0] if len(found) == 1 else "stack"

    try:
        STACK = stack_name()
    except Exception:  # reported when the carrier is verified
        STACK = "stack"
    KINDS7 = dict(id="int", type="int", x="real", y="real", z="real", r="real", pid="int")
    NODE, TREE, ROOT = (lambda: X.at("NODE")), (lambda: X.at("TREE")), (lambda: X.at("ROOT"))

    def setup(S):
        import swcgeom.transforms.neurolucida_asc as _m
        from pyvc import extract
        from pyvc.engine import Frame
        from pyvc.values import Func

        S.eng.ghost["c15"] = {"walk": True}
        r0, s0, L0, t0 = S.int("root"), S.int("first_free_id"), S.int("rows_before"), S.int("typee_len")
        S.assume(z3.And(L0.z >= 0, t0.z >= 1))
        cols = {c: PList.fresh(KINDS7[c], L0.z, name="col_" + c) for c in COLS7}
        typee = PList.fresh("int", t0.z, name="typee")
        ndata = PDict({getattr(names, c): cols[c] for c in COLS7})
        clo = dict(next_id=s0, typee=typee, ndata=ndata, names=names, types=types)
        clo["walk_ast"] = Func(extract.find(WALK)[0], Frame(vars=clo, globs=_m.__dict__), _m.__dict__, WALK)
        pid = S.int("pid")
        return dict(root=Sym(r0.z, "oref"), pid=pid, __closure__=clo,
                    __ghost__=dict(clo=clo, R0=r0.z, s0=s0.z, L0=L0.z, t0=t0.z, pid0=pid.z, cols0={c: cols[c].cols[0] for c in COLS7}, typee0=typee.cols[0]))

    G = lambda E, k: E.spec_extra[k]
    CL = lambda E: E.spec_extra["clo"]  # the closure cells of from_ast (next_id, typee, ndata): the frame's own variables do not include them
    E0 = lambda E: W.W_END(G(E, "R0"))
    in_ast = lambda E, x: z3.And(x >= G(E, "R0"), x < E0(E))

    # ---- the shape of the input AST (preconditions)
    def pre_root(E, v, o):
        r0 = G(E, "R0")
        return z3.And(r0 >= 1, W.W_END(r0) > r0, W.W_KIND(r0) == ROOT(), W.W_ENCL(r0) == 0, W.W_RK(r0) == 0)

    def pre_intervals(E, v, o):
        x = z3.Int("wa!x")
        n, e = W.W_NCH(x), W.W_END(x)
        body = z3.And(n >= 0, x < e, e <= E0(E), z3.Implies(n == 0, e == x + 1),
                      z3.Implies(n > 0, z3.And(W.W_CHILD(x, 0) == x + 1, W.W_END(W.W_CHILD(x, n - 1)) == e)))
        return z3.ForAll([x], z3.Implies(in_ast(E, x), body), patterns=[W.W_NCH(x), W.W_END(x)])

    def pre_children(E, v, o):
        x, j = z3.Int("wa!x"), z3.Int("wa!j")
        ch = W.W_CHILD(x, j)
        body = z3.And(ch > x, ch < W.W_END(x), W.W_PAR(ch) == x, W.W_ENCL(ch) == z3.If(W.W_KIND(x) == TREE(), x, W.W_ENCL(x)))
        return z3.ForAll([x, j], z3.Implies(z3.And(in_ast(E, x), j >= 0, j < W.W_NCH(x)), body), patterns=[ch])

    def pre_siblings(E, v, o):
        x, j, j2 = z3.Int("wa!x"), z3.Int("wa!j"), z3.Int("wa!j2")
        return z3.ForAll([x, j, j2], z3.Implies(z3.And(in_ast(E, x), j >= 0, j2 == j + 1, j2 < W.W_NCH(x)), W.W_CHILD(x, j2) == W.W_END(W.W_CHILD(x, j))),
                         patterns=[z3.MultiPattern(W.W_CHILD(x, j), W.W_CHILD(x, j2))])

    def pre_kinds(E, v, o):
        x = z3.Int("wa!x")
        k = W.W_KIND(x)
        lab = W.W_LABEL(x)
        body = z3.And(k >= 1, k <= 5, (k == ROOT()) == (x == G(E, "R0")), z3.Implies(z3.Or(k == X.at("COLOR"), k == X.at("COMMENT")), W.W_NCH(x) == 0),
                      z3.Implies(k == TREE(), z3.And(W.W_ENCL(x) == 0, z3.Or(lab == X.str_code("AXON"), lab == X.str_code("DENDRITE")))))
        return z3.ForAll([x], z3.Implies(in_ast(E, x), body), patterns=[k])

    def pre_rank(E, v, o):
        y, y2 = z3.Int("wa!y"), z3.Int("wa!y2")
        step = z3.ForAll([y], z3.Implies(in_ast(E, y), W.W_RK(y + 1) == W.W_RK(y) + z3.If(W.W_KIND(y) == NODE(), 1, 0)), patterns=[z3.MultiPattern(W.W_RK(y), W.W_KIND(y))])
        mono = z3.ForAll([y, y2], z3.Implies(z3.And(y >= G(E, "R0"), y < y2, y2 <= E0(E)),
                                             z3.And(W.W_RK(y) <= W.W_RK(y2), z3.Implies(W.W_KIND(y) == NODE(), W.W_RK(y) < W.W_RK(y2)))),
                         patterns=[z3.MultiPattern(W.W_RK(y), W.W_RK(y2))])
        return z3.And(step, mono)

    def pre_state(E, v, o):
        return z3.And(*[CL(E)["ndata"].items[getattr(names, c)].nz() == G(E, "L0") for c in COLS7], CL(E)["typee"].nz() == G(E, "t0"), to_z3(CL(E)["next_id"], "int") == G(E, "s0"))

    # ---- the stack as (length, node(i), pid(i))
    def stk(v):
        st = v[STACK]
        if st.items is None:
            return st.nz(), (lambda i: z3.Select(st.cols[0], i)), (lambda i: z3.Select(st.cols[1], i))

        def pick(col, kind):
            def f(i):
                z = to_z3(st.items[-1][col], kind) if st.items else z3.IntVal(0)
                for k in range(len(st.items) - 2, -1, -1):
                    z = z3.If(i == k, to_z3(st.items[k][col], kind), z)
                return z

            return f

        return z3.IntVal(len(st.items)), pick(0, "oref"), pick(1, "int")

    def pats(v, *ps):
        """quantifier patterns over stack entries: only when the stack is symbolic (a concrete stack gives terms without the bound variable)"""
        return list(ps) if v[STACK].items is None else []

    def beg(E, v, k):
        m, nd, _ = stk(v)
        return z3.If(nd(k) != 0, nd(k), z3.If(k == 0, E0(E), nd(k - 1)))

    def cur_ref(E, v):
        m, nd, _ = stk(v)
        return z3.If(m == 0, E0(E), beg(E, v, m - 1))

    def pid_of(E, x):
        return z3.If(x == G(E, "R0"), G(E, "pid0"), z3.If(W.W_KIND(W.W_PAR(x)) == NODE(), G(E, "s0") + W.W_RK(W.W_PAR(x)), z3.IntVal(-1)))

    def type_of(E, x):
        t = W.W_ENCL(x)
        return z3.If(t != 0, z3.If(W.W_LABEL(t) == X.str_code("AXON"), z3.IntVal(types.axon), z3.IntVal(types.basal_dendrite)),
                     z3.Select(G(E, "typee0"), G(E, "t0") - 1))

    def expected(E, c, y):
        if c == "id":
            return G(E, "s0") + W.W_RK(y)
        if c == "pid":
            return pid_of(E, y)
        if c == "type":
            return type_of(E, y)
        return W.W_V["xyzr".index(c)](y)

    # ---- invariants
    def j_stack(E, v, o):
        i = z3.Int(fresh_name("i"))
        m, nd, _ = stk(v)
        after = z3.If(i == 0, E0(E), beg(E, v, i - 1))
        return z3.ForAll([i], z3.Implies(z3.And(i >= 0, i < m, nd(i) != 0), z3.And(in_ast(E, nd(i)), W.W_END(nd(i)) == after)), patterns=pats(v, nd(i)))

    def j_pid(E, v, o):
        i = z3.Int(fresh_name("i"))
        m, nd, pd = stk(v)
        return z3.ForAll([i], z3.Implies(z3.And(i >= 0, i < m, nd(i) != 0), pd(i) == pid_of(E, nd(i))), patterns=pats(v, nd(i)))

    def j_cursor(E, v, o):
        c = cur_ref(E, v)
        m, _, _ = stk(v)
        return z3.And(m >= 0, c >= G(E, "R0"), c <= E0(E))

    def j_counts(E, v, o):
        c = cur_ref(E, v)
        return z3.And(to_z3(CL(E)["next_id"], "int") == G(E, "s0") + W.W_RK(c),
                      *[CL(E)["ndata"].items[getattr(names, col)].nz() == G(E, "L0") + W.W_RK(c) for col in COLS7])

    def j_rows(col):
        def f(E, v, o):
            y = z3.Int(fresh_name("y"))
            c = cur_ref(E, v)
            lst = CL(E)["ndata"].items[getattr(names, col)]
            return z3.ForAll([y], z3.Implies(z3.And(y >= G(E, "R0"), y < c, W.W_KIND(y) == NODE()),
                                             z3.Select(lst.cols[0], G(E, "L0") + W.W_RK(y)) == expected(E, col, y)), patterns=[W.W_RK(y)])

        return f

    def j_old_rows(E, v, o):
        i = z3.Int(fresh_name("i"))
        return z3.ForAll([i], z3.Implies(z3.And(i >= 0, i < G(E, "L0")),
                                         z3.And(*[z3.Select(CL(E)["ndata"].items[getattr(names, c)].cols[0], i) == z3.Select(G(E, "cols0")[c], i) for c in COLS7])))

    def j_types(E, v, o):
        i, k = z3.Int(fresh_name("i")), z3.Int(fresh_name("k"))
        m, nd, _ = stk(v)
        ty = CL(E)["typee"]
        t, t0 = ty.nz(), G(E, "t0")
        top = z3.Select(ty.cols[0], t - 1)
        label_code = lambda x: z3.If(W.W_LABEL(x) == X.str_code("AXON"), z3.IntVal(types.axon), z3.IntVal(types.basal_dendrite))
        return [
            ("marker-means-one-tree-type-pushed", z3.ForAll([k], z3.Implies(z3.And(k >= 0, k < m, nd(k) == 0), t == t0 + 1), patterns=pats(v, nd(k)))),
            ("top-entry-outside-a-tree-means-no-tree-type-pushed", z3.And(t >= t0, t <= t0 + 1, z3.Implies(m == 0, t == t0), z3.Implies(z3.And(m > 0, nd(m - 1) != 0, W.W_ENCL(nd(m - 1)) == 0), t == t0))),
            ("entry-inside-a-tree-is-not-the-bottom-entry", z3.ForAll([i], z3.Implies(z3.And(i >= 0, i < m, nd(i) != 0, W.W_ENCL(nd(i)) != 0), i >= 1), patterns=pats(v, nd(i)))),
            ("neighbouring-entries-lie-in-the-same-tree",
             z3.ForAll([i], z3.Implies(z3.And(i >= 1, i < m, nd(i) != 0, nd(i - 1) != 0), W.W_ENCL(nd(i)) == W.W_ENCL(nd(i - 1))), patterns=pats(v, nd(i)))),
            ("entries-above-the-marker-lie-in-a-tree",
             z3.ForAll([i, k], z3.Implies(z3.And(k >= 0, k < i, i < m, nd(k) == 0, nd(i) != 0), W.W_ENCL(nd(i)) != 0), patterns=pats(v, z3.MultiPattern(nd(i), nd(k))))),
            ("entry-inside-a-tree-sees-that-trees-type-on-top",
             z3.ForAll([i], z3.Implies(z3.And(i >= 0, i < m, nd(i) != 0, W.W_ENCL(nd(i)) != 0), z3.And(t == t0 + 1, top == label_code(W.W_ENCL(nd(i))))), patterns=pats(v, nd(i)))),
            ("entries-below-the-marker-are-nodes-outside-any-tree",
             z3.ForAll([i, k], z3.Implies(z3.And(i >= 0, i < k, k < m, nd(k) == 0), z3.And(nd(i) != 0, W.W_ENCL(nd(i)) == 0)), patterns=pats(v, z3.MultiPattern(nd(i), nd(k))))),
            ("callers-types-untouched", z3.ForAll([i], z3.Implies(z3.And(i >= 0, i < t0), z3.Select(ty.cols[0], i) == z3.Select(G(E, "typee0"), i)))),
        ]

    def part(fn, idx):
        return lambda E, v, o: fn(E, v, o)[idx][1]

    type_labels = ["marker-means-one-tree-type-pushed", "top-entry-outside-a-tree-means-no-tree-type-pushed", "entry-inside-a-tree-is-not-the-bottom-entry", "neighbouring-entries-lie-in-the-same-tree",
                   "entries-above-the-marker-lie-in-a-tree", "entry-inside-a-tree-sees-that-trees-type-on-top", "entries-below-the-marker-are-nodes-outside-any-tree",
                   "callers-types-untouched"]
    INV = ([("stack-is-the-pending-part-of-the-document-in-order", j_stack), ("stack-entries-carry-the-id-of-their-parent-point", j_pid),
            ("next-pending-node-lies-in-the-document", j_cursor), ("ids-and-row-count-follow-the-points-passed", j_counts), ("earlier-rows-untouched", j_old_rows)]
           + [(f"row-of-every-point-passed/{c}", j_rows(c)) for c in COLS7]
           + [(lab, part(j_types, k)) for k, lab in enumerate(type_labels)])

    # ---- proof steps (each its own obligation): what popping a node does to the position in the document
    def step_hint(E, vars):
        if "node" not in vars or STACK not in vars or not isinstance(vars["node"], Sym):
            return
        nd = to_z3(vars["node"], "oref")
        E.prove("NeurolucidaAscToSwc.from_ast.<locals>.walk_ast/loop0/step/the-next-pending-node-is-the-one-behind-the-node-just-taken",
                z3.Implies(nd != 0, cur_ref(E, vars) == nd + 1), "annotation")
        E.prove("NeurolucidaAscToSwc.from_ast.<locals>.walk_ast/loop0/step/rank-behind-the-node-just-taken",
                z3.Implies(nd != 0, W.W_RK(nd + 1) == W.W_RK(nd) + z3.If(W.W_KIND(nd) == NODE(), 1, 0)), "annotation")
        # the counting clause itself, from the quantifier-free facts of the path only (sound: a subset of the hypotheses); the clause
        # obligation that follows is then the very same term
        from pyvc.engine import Oblig, _has_quant

        if z3.is_true(z3.simplify(nd != 0)) or any(h.eq(z3.simplify(nd != 0)) or h.eq(z3.Not(nd == 0)) for h in E.pc):
            goal = z3.simplify(j_counts(E, vars, None))
            E.obligs.append(Oblig(f"{E.prop}/NeurolucidaAscToSwc.from_ast.<locals>.walk_ast/loop0/step/counts-after-taking-a-node", [h for h in E.pc if not _has_quant(h)], goal,
                                  "annotation", "annotation"))
            E.pc.append(goal)

    # ---- postconditions
    def post_rows(col):
        def f(E, v, o):
            y = z3.Int(fresh_name("y"))
            lst = CL(E)["ndata"].items[getattr(names, col)]
            return z3.ForAll([y], z3.Implies(z3.And(in_ast(E, y), W.W_KIND(y) == NODE()),
                                             z3.Select(lst.cols[0], G(E, "L0") + W.W_RK(y)) == expected(E, col, y)), patterns=[W.W_RK(y)])

        return f

    def post_counts(E, v, o):
        total = W.W_RK(E0(E))
        return z3.And(to_z3(CL(E)["next_id"], "int") == G(E, "s0") + total, *[CL(E)["ndata"].items[getattr(names, c)].nz() == G(E, "L0") + total for c in COLS7])

    def post_typee(E, v, o):
        i = z3.Int(fresh_name("i"))
        ty = CL(E)["typee"]
        return z3.And(ty.nz() == G(E, "t0"), z3.ForAll([i], z3.Implies(z3.And(i >= 0, i < G(E, "t0")), z3.Select(ty.cols[0], i) == z3.Select(G(E, "typee0"), i))))

    R.add(WALK, prop="C15", setup=setup,
          requires=[("root-is-the-ROOT-node", pre_root), ("subtrees-are-intervals-of-the-document-order", pre_intervals),
                    ("children-lie-inside-their-parent-and-know-it", pre_children), ("consecutive-children-are-adjacent-intervals", pre_siblings),
                    ("kinds-and-tree-labels", pre_kinds), ("rank-counts-the-points-before-a-node", pre_rank), ("accumulators-as-from_ast-hands-them-over", pre_state)],
          ensures=[("exactly-one-row-per-point-and-ids-continue", post_counts), ("earlier-rows-untouched", j_old_rows), ("callers-type-stack-restored", post_typee)]
          + [(f"row-of-point-number-k-in-document-order-is-that-point/{c}", post_rows(c)) for c in COLS7],
          loops={0: dict(invariant=INV, types={STACK: ["oref", "int"]})},
          options=dict(extend_hook=X.walk_extend_hook, hints={"preserved/next-pending-node-lies-in-the-document": step_hint}),
          notes="ARBITRARY abstract AST in document order (symbolic size, depth, branch length); rows: id = first free id + number of points before, "
                "type = label of the enclosing TREE (else the caller's current type), values = the point's, pid = id of the parent point or -1 (the given pid for the root)")


# ---------------------------------------------------------------------------
# ASTNode.add_child / ASTNode.__init__ on REAL objects: the facts the abstract heap model of pyvc/ext_C15.py relies on
def register_astnode(R):
    from pyvc.values import PList

    def node(S, name, nkids, ntok):
        from swcgeom.transforms.neurolucida_asc import ASTNode, ASTType

        kids = [S.obj(ASTNode, type=ASTType.NODE, value=None, tokens=PList([]), children=PList([]), parent=None) for _ in range(nkids)]
        return S.obj(ASTNode, type=ASTType.NODE, value=None, tokens=PList([S.int(f"{name}_tok{i}") for i in range(ntok)]), children=PList(kids), parent=None)

    def add_setup(nkids, ntok, ctok):
        def f(S):
            me, ch = node(S, "self", nkids, ntok), node(S, "child", 0, ctok)
            return dict(self=me, child=ch, __ghost__=dict(kids0=list(me.fields["children"].items), toks0=list(me.fields["tokens"].items), ctoks=list(ch.fields["tokens"].items)))

        return f

    def appended_last(E, v, o):
        g, me = E.spec_extra, v["self"]
        kids = me.fields["children"].items
        return kids is not None and len(kids) == len(g["kids0"]) + 1 and all(a is b for a, b in zip(kids, g["kids0"])) and kids[-1] is v["child"]

    def tokens_extended(E, v, o):
        g = E.spec_extra
        toks = v["self"].fields["tokens"].items
        want = g["toks0"] + g["ctoks"]
        return toks is not None and len(toks) == len(want) and all(a is b for a, b in zip(toks, want))

    def rest_untouched(E, v, o):
        me, ch, g = v["self"], v["child"], E.spec_extra
        return (me.fields["parent"] is None and set(me.fields) == set(o["self"].fields) and set(ch.fields) == set(o["child"].fields)
                and ch.fields["children"].items == [] and [a is b for a, b in zip(ch.fields["tokens"].items, g["ctoks"])] == [True] * len(g["ctoks"])
                and len(ch.fields["tokens"].items) == len(g["ctoks"]) and all(k.fields["parent"] is None for k in g["kids0"]))

    R.add(f"{ASC}:ASTNode.add_child", prop="C15",
          variants={"no-children-yet": add_setup(0, 1, 2), "two-children-already": add_setup(2, 3, 5), "child-without-tokens": add_setup(1, 0, 0)},
          ensures=[("child-appended-last", appended_last), ("child-parent-set", lambda E, v, o: v["child"].fields["parent"] is v["self"]),
                   ("tokens-extended-by-the-child's", tokens_extended), ("nothing-else-changed", rest_untouched)],
          notes="fixed sizes (0/1/2 existing children); this is the contract the abstract heap model of add_child assumes")

    def init_setup(S):
        from swcgeom.transforms.neurolucida_asc import ASTNode, ASTType

        return dict(self=S.obj(ASTNode), type=ASTType.NODE, value=(S.real("x"), S.real("y"), S.real("z"), S.real("r")),
                    tokens=PList([S.int("t0")]))

    R.add(f"{ASC}:ASTNode.__init__", prop="C15", setup=init_setup,
          ensures=[("fields-stored", lambda E, v, o: v["self"].fields["type"] is v["type"] and v["self"].fields["value"] is v["value"] and v["self"].fields["tokens"] is v["tokens"]),
                   ("starts-without-children-and-parent", lambda E, v, o: v["self"].fields["children"].items == [] and "parent" not in v["self"].fields)],
          notes="a fresh node has no children; `parent` stays the class default None")


# ===========================================================================
# Part 3a: the CHARACTER LEVEL of the Lexer over an abstract character stream (pyvc/ext_C15_text.py): symbolic text ch[0..N),
# symbolic cursor; TextIOBase.read(1) / readline() are the two named io models.  State vocabulary:
#     p = number of characters handed out by the reader,  next_char = '' or the character just before the cursor,
#     q = p - len(next_char) = index of the look-ahead character (N at the end of the text).
# The format (written here from the property text): blanks " \t\n" separate words; each of ( ) | is a word of its own; ';'
# starts a comment that runs to the end of the line; every other maximal run of non-delimiters is a word; a word is a number
# iff it is a decimal number in its entirety.
BLANKS = " \t\n"
DELIMS = " \t\n();|"
LEX = f"{ASC}:Lexer."


def lexer_obj(S):
    from pyvc import ext_C15_text as T
    from swcgeom.transforms.neurolucida_asc import Lexer

    r = T.CharStream(S.int("rpos").z)
    S.assume(T.NCH >= 0)
    return S.obj(Lexer, r=r, lineno=S.int("lineno"), column=S.int("column"), next_char=T.SStr.fresh(S.eng, "next_char"))


def lexer_sym_setup(S):
    me = lexer_obj(S)
    return dict(self=me, __ghost__=dict(reader=me.fields["r"], **LEXGHOST))


def lx(v, who="self"):
    """(p, lo, hi) of a Lexer state: reader cursor and the slice held by next_char"""
    from pyvc import ext_C15_text as T

    me = v[who]
    sl = T.as_slice(me.fields["next_char"])
    if sl is None:
        raise X.Unsupported("Lexer.next_char is not one piece of the text")
    return me.fields["r"].pos, sl[0], sl[1]


def la(v, who="self"):
    """index of the look-ahead character"""
    p, lo, hi = lx(v, who)
    return p - (hi - lo)


def _remaining_chars(eng, args, kwargs):
    from pyvc import ext_C15_text as T

    return Sym(T.NCH - la({"self": args[0]}), "int")


LEXGHOST = {"remaining_chars": SpecFn(_remaining_chars, "remaining_chars")}


def lex_wf(E, v, o):
    from pyvc import ext_C15_text as T

    p, lo, hi = lx(v)
    n = hi - lo
    return z3.And(T.NCH >= 0, p >= 0, p <= T.NCH, n >= 0, n <= 1, z3.Implies(n == 1, z3.And(lo == p - 1, p >= 1)), z3.Implies(n == 0, p == T.NCH))


LWF = ("lexer-state-wf", lex_wf)


def same_reader(E, v, o):
    f = v["self"].fields
    if not (f["r"] is E.spec_extra["reader"] and set(f) - {"g_cur"} == {"r", "lineno", "column", "next_char"}):
        return False
    if "g_cur" in f:  # ghost field of the token-stream link (number of tokens handed out so far, minus one): only the link's ghost code writes it
        return o is not None and "g_cur" in o["self"].fields and to_z3(f["g_cur"], "int") == to_z3(o["self"].fields["g_cur"], "int")
    return True


READER = ("reader-is-the-same-object-and-no-attribute-added", same_reader)


def li(v, f):
    return to_z3(v["self"].fields[f], "int")


def counted(E, v, o, p0, p1, extra_lines=0):
    """lineno / column after reading the characters p0 .. p1-1 one by one"""
    from pyvc import ext_C15_text as T

    return z3.And(li(v, "lineno") == li(o, "lineno") + T.NLC(p1) - T.NLC(p0) + extra_lines,
                  li(v, "column") == z3.If(T.LNL(p1) >= p0, p1 - T.LNL(p1), li(o, "column") + p1 - p0))


def lex_defs(E, fr):
    from pyvc import ext_C15_text as T

    T.define_positions(E, BLANKS, DELIMS)


def blank(c):
    from pyvc import ext_C15_text as T

    return T.in_set(c, BLANKS)


def delim(c):
    from pyvc import ext_C15_text as T

    return T.in_set(c, DELIMS)


def word_at(E, v, o, result):
    """the word that starts at the first non-blank at or after the old look-ahead, and where the look-ahead stands afterwards"""
    from pyvc import ext_C15_text as T

    q0, q1 = la(o), la(v)
    s = T.SKIP(q0)
    return z3.If(s == T.NCH, z3.And(T.slen(result) == 0, q1 == T.NCH),
                 z3.If(delim(T.CH(s)), z3.And(T.is_text(result, s, s + 1), q1 == s + 1),
                       z3.And(T.is_text(result, s, T.WEND(s)), q1 == T.WEND(s))))


def number_languages():
    """language keys: the number test the code applies to a word (read from the repository), and the reference languages"""
    from contracts import regex_facts as RF
    from pyvc import ext_C15_text as T

    (method, ptxt, fl), _ = RF.asc_patterns()
    return dict(code=T.code_lang(ptxt, fl, method), code_whole=T.code_lang(ptxt, fl, "fullmatch"), asc=("ref", "ASC_NUMBER"), plain=("ref", "PLAIN_DECIMAL"),
                pyfloat=T.PY_FLOAT_LANG)


def language_transfer(E, fr):
    """inclusions between languages, each discharged as a regex obligation of this property, used on slices of the text"""
    from pyvc import ext_C15_text as T

    K = number_languages()
    lo, hi, j = z3.Int("lt!lo"), z3.Int("lt!hi"), z3.Int("lt!j")
    inl = lambda k: T.inl(K[k], lo, hi)
    is_word = z3.And(lo < hi, z3.ForAll([j], z3.Implies(z3.And(j >= lo, j < hi), z3.Not(delim(T.CH(j))))))
    facts = [
        ("number-token-is-entirely-a-number", z3.Implies(z3.And(inl("code"), is_word, inl("pyfloat")), inl("asc")), [inl("code")]),
        ("plain-decimal-numbers-are-numbers", z3.Implies(inl("plain"), inl("code")), [inl("plain")]),
        ("asc-number-converts", z3.Implies(inl("asc"), inl("pyfloat")), [inl("asc")]),
        ("number-pattern-converts", z3.Implies(inl("code_whole"), inl("pyfloat")), [inl("code_whole")]),
        ("plain-decimal-is-an-asc-number", z3.Implies(inl("plain"), inl("asc")), [inl("plain")]),
    ]
    for lab, body, pats in facts:
        E.assume(z3.ForAll([lo, hi], body, patterns=pats))
        E.assumptions.add(f"language transfer: the inclusion proved as obligation C15/regex/{lab} is used for every slice text[lo:hi) of the document")


def word_accumulator():
    """name of the local of Lexer._read_word that accumulates the word: the one initialised with the empty string literal
    (read from the current source, so that renaming it does not detach the loop contract)"""
    import ast as _ast

    from pyvc import extract

    node, _, _ = extract.find(LEX + "_read_word")
    names = [t.id for st in node.body if isinstance(st, _ast.Assign) and isinstance(st.value, _ast.Constant) and st.value.value == ""
             for t in st.targets if isinstance(t, _ast.Name)]
    if len(names) != 1:
        raise X.Unsupported("Lexer._read_word: expected exactly one local initialised with '' (the word accumulator): contract needs re-anchoring")
    return names[0]


def register_lexer_chars(R):
    from pyvc import ext_C15_text as T

    T.install()
    fresh_str = lambda name: (lambda S, frame: T.SStr.fresh(S.eng, name))
    try:
        ACC = word_accumulator()
    except Exception:  # reported when the carrier is verified (KeyError -> machinery error), not at import time
        ACC = "token"

    # ------------------------------------------------------------- __init__
    def init_setup(S):
        from swcgeom.transforms.neurolucida_asc import Lexer

        r = T.CharStream(z3.IntVal(0))
        S.assume(T.NCH >= 0)
        S.assume(z3.And(T.NLC(0) == 0, T.LNL(0) == -1))
        S.eng.assumptions.add(T.A_COUNT)
        return dict(self=S.obj(Lexer), r=r, __ghost__=dict(reader=r, **LEXGHOST))

    def init_ghost(E, v, o):
        v["self"].fields["g_cur"] = -1  # ghost: no token handed out yet (pyvc/ext_C15.py: linked next())

    R.add(LEX + "__init__", prop="C15", setup=init_setup, ghost_exit=init_ghost, options=dict(ghost_exit_inlined=True),
          ensures=[LWF, ("reader-stored-and-no-other-attribute", lambda E, v, o: v["self"].fields["r"] is E.spec_extra["reader"]
                         and set(v["self"].fields) == {"r", "lineno", "column", "next_char", "g_cur"}),
                   ("look-ahead-is-the-first-character", lambda E, v, o: la(v) == z3.If(T.NCH > 0, 0, T.NCH)),
                   ("position-starts-at-1:1", lambda E, v, o: z3.And(li(v, "lineno") == 1, li(v, "column") == 1))],
          notes="abstract character stream with the cursor at 0")

    # ----------------------------------------------------------- _read_char
    def char_read(E, v, o):
        p0, _, _ = lx(o)
        p1, lo, hi = lx(v)
        res = to_z3(v["result"], "bool")
        nl = T.CH(p0) == T.NEWLINE
        return z3.If(p0 < T.NCH,
                     z3.And(res, p1 == p0 + 1, lo == p0, hi == p0 + 1, T.count_step(p0),
                            li(v, "lineno") == li(o, "lineno") + z3.If(nl, 1, 0), li(v, "column") == z3.If(nl, 1, li(o, "column") + 1)),
                     z3.And(z3.Not(res), p1 == p0, hi == lo, li(v, "lineno") == li(o, "lineno"), li(v, "column") == li(o, "column")))

    R.add(LEX + "_read_char", prop="C15", setup=lexer_sym_setup, requires=[LWF], modifies=["self"], returns="bool",
          ensures=[LWF, READER,
                   ("consumes-exactly-one-character-or-nothing-at-the-end-and-counts-the-line-break", char_read)],
          notes="abstract character stream")

    # ----------------------------------------------------------- _read_word
    def skipped(E, v, o, entry=None):
        j = z3.Int(fresh_name("j"))
        q0, q = la(o), la(v)
        return z3.ForAll([j], z3.Implies(z3.And(j >= q0, j < q), blank(T.CH(j))))

    def book(E, v, o, entry=None):
        return counted(E, v, o, lx(o)[0], lx(v)[0])

    def token_so_far(E, v, o, entry=None):
        s, q = la(entry), la(v)
        return z3.And(s == T.SKIP(la(o)), q >= s, T.is_text(v[ACC], s, q))

    def token_chars(E, v, o, entry=None):
        j = z3.Int(fresh_name("j"))
        s, q = la(entry), la(v)
        return z3.ForAll([j], z3.Implies(z3.And(j >= s, j < q), z3.Not(delim(T.CH(j)))))

    R.add(LEX + "_read_word", prop="C15", setup=lexer_sym_setup, requires=[LWF], modifies=["self"], returns=fresh_str("word"), lemmas=[lex_defs],
          ensures=[LWF, READER,
                   ("skips-the-blanks-then-returns-one-delimiter-or-the-maximal-run-of-non-delimiters-and-stops-right-behind-it",
                    lambda E, v, o: word_at(E, v, o, v["result"])),
                   ("position-counts-the-characters-read", book)],
          loops={0: dict(invariant=[LWF, READER, ("look-ahead-never-moves-back", lambda E, v, o: la(v) >= la(o)), ("only-blanks-skipped", skipped), ("position-counts-the-characters-read", book)],
                         decreases="remaining_chars(self)"),
                 1: dict(invariant=[LWF, READER, ("token-is-the-text-from-the-first-non-blank-to-the-look-ahead", token_so_far),
                                    ("no-delimiter-in-the-token-so-far", token_chars), ("position-counts-the-characters-read", book)],
                         rebind={ACC: lambda eng, cur: T.SStr.fresh(eng, "token")}, decreases="remaining_chars(self)")},
          notes="abstract character stream; symbolic number of blanks and symbolic word length")

    # ----------------------------------------------------------- _read_line
    def line_read(E, v, o):
        q0 = la(o)
        e = T.EOL(q0)
        return z3.And(T.is_text(v["result"], q0, e), la(v) == z3.If(e < T.NCH, e + 1, T.NCH))

    R.add(LEX + "_read_line", prop="C15", setup=lexer_sym_setup, requires=[LWF], modifies=["self"], returns=fresh_str("line"), lemmas=[lex_defs],
          ensures=[LWF, READER,
                   ("returns-the-rest-of-the-line-and-consumes-exactly-through-its-line-break-and-nothing-after-it", line_read),
                   ("starts-a-new-line", lambda E, v, o: z3.And(li(v, "lineno") == li(o, "lineno") + 1, li(v, "column") == 1))],
          notes="abstract character stream; the comment text is text[q : first line break at or after q)")

    # --------------------------------------------------------------- _token
    def token_setup(S):
        from swcgeom.transforms.neurolucida_asc import TokenType

        d = lexer_sym_setup(S)
        d.update(type=TokenType.LITERAL, value=T.SStr.fresh(S.eng, "value"))
        return d

    R.add(LEX + "_token", prop="C15", setup=token_setup, pure_inline=True,
          ensures=[("token-carries-type-value-and-the-lexer-position",
                    lambda E, v, o: v["result"].fields["type"] is v["type"] and v["result"].fields["value"] is v["value"]
                    and z3.And(to_z3(v["result"].fields["lineno"], "int") == li(o, "lineno"), to_z3(v["result"].fields["column"], "int") == li(o, "column"))),
                   ("lexer-untouched", lambda E, v, o: z3.And(*[a == b for a, b in zip(lx(v), lx(o))], li(v, "lineno") == li(o, "lineno"), li(v, "column") == li(o, "column")))])

    # ------------------------------------------------------------- __next__
    def tok(v):
        return v["result"]

    def ttype(v, name):
        return X.token_type_z(tok(v)) == X.tt(name)

    def tval_text(v, lo, hi):
        val = X.token_text(tok(v))
        return T.is_text(val, lo, hi) if val is not None else z3.BoolVal(False)

    def start(o):
        return T.SKIP(la(o))

    def single_char_tokens(E, v, o):
        s = start(o)
        c = T.CH(s)
        one = lambda ch, name: z3.Implies(c == ord(ch), z3.And(ttype(v, name), tval_text(v, s, s + 1), la(v) == s + 1))
        return z3.And(s < T.NCH, one("(", "BRACKET_LEFT"), one(")", "BRACKET_RIGHT"), one("|", "OR"))

    def comment_token(E, v, o):
        s = start(o)
        e = T.EOL(s + 1)
        return z3.Implies(T.CH(s) == ord(";"), z3.And(ttype(v, "COMMENT"), tval_text(v, s + 1, e), la(v) == z3.If(e < T.NCH, e + 1, T.NCH)))

    def word_token(E, v, o):
        s = start(o)
        e = T.WEND(s)
        K = number_languages()
        val = X.token_real(tok(v))
        is_float = z3.And(ttype(v, "FLOAT"), T.inl(K["asc"], s, e), (val == T.FVAL(s, e)) if val is not None else z3.BoolVal(False))
        is_lit = z3.And(ttype(v, "LITERAL"), tval_text(v, s, e))
        # which of the two: decided by the number test the code applies to the word (its LANGUAGE, read from the repository); the format bounds
        # that language from both sides: a FLOAT token is a decimal number in its entirety, a plain decimal is a FLOAT token
        return z3.Implies(z3.Not(delim(T.CH(s))), z3.And(la(v) == e, z3.If(T.inl(K["code"], s, e), is_float, is_lit), z3.Implies(T.inl(K["plain"], s, e), ttype(v, "FLOAT"))))

    def next_book(E, v, o):
        s = start(o)
        p0, p1 = lx(o)[0], lx(v)[0]
        is_comment = T.CH(s) == ord(";")
        pw = z3.If(s + 2 <= T.NCH, s + 2, T.NCH)  # reader cursor after the ';' became a word of its own
        t = tok(v)
        return z3.And(z3.If(is_comment, z3.And(li(v, "lineno") == li(o, "lineno") + T.NLC(pw) - T.NLC(p0) + 1, li(v, "column") == 1), counted(E, v, o, p0, p1)),
                      to_z3(t.fields["lineno"], "int") == li(v, "lineno"), to_z3(t.fields["column"], "int") == li(v, "column"))

    def not_a_number(E, v, o):
        s = start(o)
        K = number_languages()
        return z3.And(s < T.NCH, z3.Not(delim(T.CH(s))), z3.Not(T.inl(K["asc"], s, T.WEND(s))))

    def token_result(S, frame):
        """shape of the token at call sites: a Token whose type is an unknown TokenType member, whose value has a text part and a number part"""
        from swcgeom.transforms.neurolucida_asc import Token, TokenType

        ty = S.int("tok_type")
        S.assume(z3.And(ty.z >= 1, ty.z <= len(TokenType)))
        return S.obj(Token, type=X.SymEnum(ty.z, TokenType), value=X.TokenValue(S.real("tok_number").z, T.SStr.fresh(S.eng, "tok_text")),
                     lineno=S.int("tok_lineno"), column=S.int("tok_column"))

    R.add(LEX + "__next__", prop="C15", setup=lexer_sym_setup, requires=[LWF], modifies=["self"], returns=token_result, lemmas=[lex_defs, language_transfer],
          raises={"StopIteration": ("only-when-nothing-but-blanks-is-left", lambda E, v, o: start(o) == T.NCH),
                  "ValueError": ("only-for-a-word-that-is-not-a-decimal-number", not_a_number)},
          ensures=[LWF, READER,
                   ("open-close-and-bar-are-tokens-of-their-own", single_char_tokens),
                   ("comment-token-is-the-rest-of-the-line-and-the-next-token-starts-right-behind-its-line-break", comment_token),
                   ("word-token-is-the-WHOLE-maximal-run-of-non-delimiters-FLOAT-iff-it-is-a-number-with-its-value", word_token),
                   ("token-position-is-the-lexer-position-which-counts-the-characters-read", next_book),
                   ("every-token-consumes-at-least-one-character", lambda E, v, o: la(v) > la(o))],
          options=dict(raises_ensures={"StopIteration": [LWF, READER, ("the-lexer-stays-at-the-end-of-the-text", lambda E, v, o: la(v) == T.NCH)]}),
          notes="abstract character stream: the token and the new look-ahead are functions of the text from the old look-ahead on; "
                "number test and float() through their languages (regex obligations C15/regex/*)")


# ===========================================================================
# Part 3b: THE LINK between the two levels.  The Parser contracts of Part 1 see `next(self.lexer, None)` as an abstract token
# stream tok[0..NTOK).  Here the only function that touches the lexer, Parser._read_token (and Parser.__init__, which creates it),
# is verified on a REAL Lexer over the abstract character stream, with Lexer.__next__ used through its contract: it satisfies the
# same postconditions the abstract model gives.  The token-stream vocabulary is defined from the text (pyvc/ext_C15.py: A_LINK):
#     TPOS(k) look-ahead before token k,  NTOK = least k with nothing but blanks after TPOS(k),  TTYPE / TVAL(k) of the token lexed there.
# Coupling invariant: with c = g_cur (index of the parser's look-ahead token), the lexer's look-ahead is TPOS(c + 1) while
# c + 1 <= NTOK, and the end of the text afterwards.
def linked_parser(S, fresh_parser=False):
    from swcgeom.transforms.neurolucida_asc import Parser

    lex = lexer_obj(S)
    lex.fields["g_cur"] = S.int("cur")
    heap = X.new_heap(S)
    me = S.obj(Parser, lexer=lex, next_token=fresh("oref", "next_token"), source="", g_tip=fresh("ref", "tip"), g_heap=heap)
    S.eng.ghost["c15"] = {"heap": heap}
    S.assume(DEPTH(0) == 0)
    return me


def lexer_of(v):
    return {"self": v["self"].fields["lexer"]}


def stream_defs(E, fr):
    """the definition of NTOK (and the start of TPOS) over the text"""
    from pyvc import ext_C15_text as T

    k = z3.Int("sd!k")
    E.assumptions.add(X.A_LINK)
    E.assume(z3.And(NTOK >= 0, X.TPOS(0) == 0, T.SKIP(X.TPOS(NTOK)) == T.NCH,
                    z3.ForAll([k], z3.Implies(z3.And(k >= 0, k < NTOK), z3.And(X.TPOS(k) >= 0, T.SKIP(X.TPOS(k)) < T.NCH)), patterns=[X.TPOS(k)])))


def coupled(E, v, o):
    from pyvc import ext_C15_text as T

    c = cur(v)
    q = la(lexer_of(v))
    return z3.And(z3.Implies(c + 1 <= NTOK, q == X.TPOS(c + 1)), z3.Implies(c + 1 > NTOK, q == T.NCH))


def register_link(R):
    from pyvc import ext_C15_text as T

    LLWF = ("lexer-state-wf", lambda E, v, o: lex_wf(E, lexer_of(v), None))
    COUPLED = ("lexer-look-ahead-is-the-start-of-the-next-token", coupled)
    heap_ok = lambda v: z3.And(H(v, "n") >= 0, H(v, "clock") >= 0)

    def link_setup(S):
        me = linked_parser(S)
        return dict(self=me, __ghost__=dict(reader=me.fields["lexer"].fields["r"], **LEXGHOST))

    def lexer_kept(E, v, o):
        lexv, lexo = v["self"].fields["lexer"], o["self"].fields["lexer"]
        return (isinstance(lexv, Obj) and lexv.fields["r"] is E.spec_extra["reader"] and set(lexv.fields) == set(lexo.fields)
                and set(v["self"].fields) == set(o["self"].fields) and v["self"].fields["source"] == o["self"].fields["source"])

    def only_two_touch_the_lexer(E, v, o):
        """structural: `self.lexer` occurs in Parser.__init__ and Parser._read_token only, so the simulation step below covers every use"""
        import ast as _ast

        from pyvc import extract

        src = open(os.path.join(extract.REPO, ASC)).read()
        for cls in [n for n in _ast.parse(src).body if isinstance(n, _ast.ClassDef) and n.name == "Parser"]:
            for fn in [n for n in cls.body if isinstance(n, _ast.FunctionDef) and n.name not in ("__init__", "_read_token")]:
                if any(isinstance(x, _ast.Attribute) and x.attr == "lexer" for x in _ast.walk(fn)):
                    return False
        return True

    # ------------------------------------------------------------ _read_token (linked)
    R.add(P + "_read_token", prop="C15", setup=link_setup, lemmas=[lex_defs, stream_defs],
          requires=[("parser-state-wf-before-or-after-the-first-token", lambda E, v, o: z3.And(cur(v) >= -1, z3.Implies(cur(v) >= 0, nxt(v) == tokref(cur(v))), heap_ok(v))),
                    LLWF, COUPLED],
          raises=LEXERR,
          ensures=[WF, LLWF, COUPLED, consumed(1), ("heap-untouched", heap_unchanged), TIP_KEPT,
                   ("depth-follows-the-consumed-token", lambda E, v, o: X.depth_step(cur(o))),
                   ("same-lexer-same-reader-nothing-else-touched", lexer_kept),
                   ("call-graph/only-__init__-and-_read_token-touch-the-lexer", only_two_touch_the_lexer)],
          notes="REAL Lexer over the abstract character stream, Lexer.__next__ through its contract: the abstract token-stream model of next(lexer, None) "
                "used by the other Parser contracts is what this function really does (simulation step; ghost definitions A_LINK)")

    # --------------------------------------------------------------- __init__ (linked)
    def init_setup(S):
        from swcgeom.transforms.neurolucida_asc import Parser

        r = T.CharStream(z3.IntVal(0))
        heap = X.new_heap(S)
        S.eng.ghost["c15"] = {"heap": heap}
        S.assume(z3.And(T.NCH >= 0, T.NLC(0) == 0, T.LNL(0) == -1, DEPTH(0) == 0, heap.fields["n"].z >= 0, heap.fields["clock"].z >= 0))
        S.eng.assumptions.add(T.A_COUNT)
        me = S.obj(Parser, g_tip=fresh("ref", "tip"), g_heap=heap)
        return dict(self=me, r=r, source="a.asc", __ghost__=dict(reader=r, **LEXGHOST))

    def init_fields(E, v, o):
        f = v["self"].fields
        return (set(f) == {"lexer", "next_token", "source", "g_tip", "g_heap"} and f["source"] == "a.asc" and isinstance(f["lexer"], Obj)
                and f["lexer"].fields["r"] is E.spec_extra["reader"])

    def parser_ghost(E, v, o):
        """ghost fields of a Parser (AST heap, branch tip): installed by ghost code when the constructor runs inlined in another carrier"""
        f = v["self"].fields
        if "g_heap" not in f:
            f["g_heap"] = E.ghost["c15"]["heap"]
            f["g_tip"] = fresh("ref", "tip")

    R.add(P + "__init__", prop="C15", setup=init_setup, lemmas=[lex_defs, stream_defs], raises=LEXERR,
          ghost_exit=parser_ghost, options=dict(ghost_exit_inlined=True),
          ensures=[WF, LLWF, COUPLED, ("look-ahead-is-the-first-token", lambda E, v, o: cur(v) == 0),
                   ("lexer-on-the-given-reader-and-source-stored", init_fields),
                   ("heap-untouched", lambda E, v, o: heap_unchanged(E, v, dict(self=E.top_old["self"])))],
          notes="creates the REAL Lexer on the abstract character stream and reads the first token: establishes the state every other Parser contract assumes")


# ===========================================================================
# Part 3c: NeurolucidaAscToSwc.from_stream (the observation point of the property) for the REJECTION half: the tree is built only
# from an AST that Parser.parse returned, and parse returns only for a complete document.  from_ast is used through an ASSUMED
# contract without postconditions (it is reached only after parse returned; what it computes is Part 2's subject).
FROM_AST = f"{ASC}:NeurolucidaAscToSwc.from_ast"
FROM_STREAM = f"{ASC}:NeurolucidaAscToSwc.from_stream"


def register_from_stream(R):
    from pyvc import ext_C15_text as T

    R.add(FROM_AST, prop="C15", trusted=True, returns=lambda S, frame: S.opaque({}, "tree"),
          notes="ASSUMED, no postcondition: from_ast returns some object without raising and without touching the parser (its rows: walk_ast, Part 2)")

    def setup(S):
        from swcgeom.transforms.neurolucida_asc import NeurolucidaAscToSwc

        r = T.CharStream(z3.IntVal(0))
        heap = X.new_heap(S)
        S.eng.ghost["c15"] = {"heap": heap}
        S.assume(z3.And(T.NCH >= 0, T.NLC(0) == 0, T.LNL(0) == -1, DEPTH(0) == 0, heap.fields["n"].z >= 0, heap.fields["clock"].z >= 0))
        S.eng.assumptions.add(T.A_COUNT)
        return dict(cls=NeurolucidaAscToSwc, x=r, source="a.asc", __ghost__=dict(reader=r, **LEXGHOST))

    def the_parser(E, v):
        """the Parser object the carrier created (whatever local holds it)"""
        from swcgeom.transforms.neurolucida_asc import Parser

        ps = {id(x): x for x in v.values() if isinstance(x, Obj) and x.cls is Parser}
        ps.update({id(a["self"]): a["self"] for nm, a in E.call_log if nm.startswith("Parser.") and isinstance(a.get("self"), Obj)})
        if len(ps) != 1:
            raise X.Unsupported("from_stream: expected exactly one Parser object")
        return next(iter(ps.values()))

    def parsed_completely(E, v, o):
        c = next(x for x in R.alts[P + "parse"] if x.prop == "C15" and not x.variants)
        return _clause_of(c, "returns-only-for-a-complete-document")(E, {"self": the_parser(E, v)}, None)

    def tree_of_the_parsed_ast(E, v, o):
        made = [a for nm, a in E.call_log if nm == "NeurolucidaAscToSwc.from_ast"]
        parsed = [a for nm, a in E.call_log if nm == "Parser._parse"]
        if not (len(made) == 1 and len(parsed) == 1 and "__result__" in parsed[0] and v["result"] is made[0].get("__result__") and isinstance(made[0]["ast"], Sym)):
            return False  # e.g. a tree made although _parse did not return
        return to_z3(made[0]["ast"], "ref") == to_z3(parsed[0]["__result__"], "ref")

    R.add(FROM_STREAM, prop="C15", setup=setup, lemmas=[lex_defs, stream_defs, lambda E, fr: _k0(E)],
          raises={"ValueError": ("every-failure-surfaces-as-ValueError", MAY)},
          ensures=[("returns-only-for-a-complete-document", parsed_completely),
                   ("result-is-the-tree-from_ast-made-of-the-AST-parse-returned", tree_of_the_parsed_ast)],
          notes="REAL Lexer over the abstract character stream, Parser.__init__ / parse inlined, _parse through its contract; from_ast assumed (no postcondition)")


def _k0(E):
    """the definition of K0 (number of leading COMMENT tokens), as in Parser._parse's own proof"""
    j = z3.Int(fresh_name("j"))
    E.assume(z3.And(K0 >= 0, K0 <= NTOK, z3.ForAll([j], z3.Implies(z3.And(j >= 0, j < K0), TTYPE(j) == T("COMMENT"))),
                    z3.Or(K0 == NTOK, TTYPE(K0) != T("COMMENT"))))
    E.assumptions.add("ghost definition: K0 = number of leading COMMENT tokens of the stream (least index of a non-comment token, or N)")


# ===========================================================================
# Part 3: the Lexer on concrete short inputs (EFFECTIVELY BOUNDED: concrete strings, run through the same interpreter)
# expected = (TokenType name, value, unread rest incl. the look-ahead char) | "MALFORMED" | "StopIteration"
# MALFORMED = a word that starts like a number but is not one: it must never come back as a FLOAT token (the lexer may raise
# ValueError or hand it on as a non-number token; _parse_node, proved to accept exactly four FLOAT tokens, then rejects the point)
# written by hand from the format: blanks separate words, each of ( ) | is a word of its own, ';' starts a comment up to the end of
# the line, a word that starts like a number must BE a number (float(word) of the whole word) -- otherwise the point is malformed.
LEX_CASES = {
    "int": (" 1 ", ("FLOAT", 1.0, " ")),
    "negative-decimal-before-close": ("-2.5)", ("FLOAT", -2.5, ")")),
    "exponent-after-tab": ("\t1e3\n", ("FLOAT", 1000.0, "\n")),
    "signed-fraction-exponent-before-bar": ("+.5e-1|", ("FLOAT", 0.05, "|")),
    "number-glued-to-open": ("1(", ("FLOAT", 1.0, "(")),
    "decimal-comma": ("3,5 ", "MALFORMED"),
    "unit-suffix": ("3.5mm ", "MALFORMED"),
    "two-dots": ("1.2.3)", "MALFORMED"),
    "dangling-exponent": ("1e ", "MALFORMED"),
    "underscore-between-digits(float()-accepts-it)": ("1_0 ", "MALFORMED"),
    "non-ascii-digit(float()-accepts-it)": ("1\u0663 ", "MALFORMED"),
    "trailing-dot-is-a-number": ("1. ", ("FLOAT", 1.0, " ")),
    "open": ("(1", ("BRACKET_LEFT", "(", "1")),
    "close": (") ", ("BRACKET_RIGHT", ")", " ")),
    "bar": ("|(", ("OR", "|", "(")),
    "comment-to-end-of-line": ("; a note\n(", ("COMMENT", " a note", "(")),
    "comment-at-end-of-input": (";x", ("COMMENT", "x", "")),
    "literal": ("Axon)", ("LITERAL", "Axon", ")")),
    "literal-starting-with-e": ("\n e5 ", ("LITERAL", "e5", " ")),
    "lone-minus": ("- ", ("LITERAL", "-", " ")),
    "only-blanks": ("  \n", "StopIteration"),
    "empty": ("", "StopIteration"),
}
WORD_CASES = {  # text -> (word returned by _read_word, unread rest incl. look-ahead)
    "leading-blanks": ("  ab cd", ("ab", " cd")),
    "word-ends-at-open": ("ab(cd", ("ab", "(cd")),
    "word-ends-at-close": ("1.5)", ("1.5", ")")),
    "word-ends-at-bar": ("x|y", ("x", "|y")),
    "word-ends-at-semicolon": ("x;y", ("x", ";y")),
    "word-ends-at-newline": ("x\ny", ("x", "\ny")),
    "word-ends-at-eof": ("xyz", ("xyz", "")),
    "delimiter-is-a-word": ("\t)(", (")", "(")),
    "semicolon-is-a-word": (";c", (";", "c")),
    "nothing-left": (" \t\n", ("", "")),
}


def lexer_setup(text):
    def f(S):
        from swcgeom.transforms.neurolucida_asc import Lexer

        r = X.ConcreteReader(text)
        first = text[:1]
        r.pos = len(first)
        return dict(self=S.obj(Lexer, r=r, lineno=1, column=1, next_char=first), __ghost__=dict(reader=r))

    return f


def register_lexer(R):
    from fractions import Fraction

    LEX = f"{ASC}:Lexer."
    expect = lambda E: LEX_CASES[E.variant][1]

    def unread(E, v):
        return v["self"].fields["next_char"] + E.spec_extra["reader"].rest()

    def token_ok(E, v, o):
        from swcgeom.transforms.neurolucida_asc import TokenType

        ex, tok = expect(E), v["result"]
        if ex == "MALFORMED":  # not a number: whatever token comes back, it is not a FLOAT (and it is the whole word, checked by the cursor clause)
            return isinstance(tok, Obj) and tok.fields["type"] is not TokenType.FLOAT
        if not isinstance(ex, tuple) or not isinstance(tok, Obj):
            return False  # the end of input must not yield a token
        val = tok.fields["value"]
        same_val = (val == ex[1]) if isinstance(ex[1], str) else (not isinstance(val, str) and Fraction(val) == Fraction(repr(ex[1])))
        return tok.fields["type"] is TokenType[ex[0]] and same_val

    R.add(LEX + "__next__", prop="C15", variants={k: lexer_setup(t) for k, (t, _) in LEX_CASES.items()},
          raises={"ValueError": ("only-for-a-word-with-a-numeric-prefix-that-is-not-a-number", lambda E, v, o: expect(E) == "MALFORMED"),
                  "StopIteration": ("only-at-the-end-of-input", lambda E, v, o: expect(E) == "StopIteration")},
          ensures=[("token-type-and-value-of-the-WHOLE-word", token_ok),
                   ("cursor-just-after-the-token", lambda E, v, o: (isinstance(expect(E), tuple) and unread(E, v) == expect(E)[2])
                    or (expect(E) == "MALFORMED" and unread(E, v) == LEX_CASES[E.variant][0][len(LEX_CASES[E.variant][0].split()[0].rstrip(")")):]))],
          options=dict(registry={}),  # concrete text: the real helpers are executed (inlined), not used through their character-level contracts
          notes="EFFECTIVELY BOUNDED: 19 concrete inputs (numbers, malformed numbers, brackets, bar, comments, literals, end of input); "
                "regex matching and float() run natively on the concrete word")

    R.add(LEX + "_read_word", prop="C15", variants={k: lexer_setup(t) for k, (t, _) in WORD_CASES.items()},
          ensures=[("maximal-run-of-non-delimiters-or-one-delimiter", lambda E, v, o: v["result"] == WORD_CASES[E.variant][1][0]),
                   ("cursor-advanced-by-exactly-the-blanks-and-the-word", lambda E, v, o: unread(E, v) == WORD_CASES[E.variant][1][1])],
          options=dict(registry={}),
          notes="EFFECTIVELY BOUNDED: 10 concrete inputs covering every delimiter")


# ---------------------------------------------------------------------------
# ACCEPTANCE on fixed document shapes: the whole descent (_parse, _parse_tree, _parse_subtree, _parse_split, leaves) is
# INLINED (no callee contract is used) on an abstract token stream whose token TYPES are fixed by the shape and whose
# values are symbolic; the result must be the AST the property describes and no rejection may occur.
# The carrier is Parser._parse under an alias key (same function, second contract): `<locals>` parts are skipped by the
# extractor, so "Parser.<locals>._parse" resolves to Parser._parse.
PARSE_ALIAS = f"{ASC}:Parser.<locals>._parse"

# element language: "P" point | ("S", [alt, ...]) split, alt = [element, ...] | "C" colour marker | "M" comment
DOCS = {
    "run-then-split": ("AXON", [], ["P", "P", ("S", [["P"], ["P", "P"]])]),
    "nested-split-then-more-alternatives": ("DENDRITE", [], ["P", ("S", [["P", ("S", [["P"], ["P"]])], ["P", "P"]])]),
    "markers-and-empty-alternative": ("AXON", ["M", "C", "M"], ["M", "P", "C", "P", "M", ("S", [[], ["C", "P"], ["P", ("S", [["P"], []])]])]),
}


def doc_tokens_and_reference(doc):
    """tokens [(TokenType name, literal | None)] and the reference AST [(kind, parent_no | None, first_token | label)] in
    document order (node 0 = ROOT), both derived from the document description only (independent of the parser)."""
    label, pre, elems = doc
    toks, nodes = [], [("ROOT", None, None)]

    def emit(t, lit=None):
        toks.append((t, lit))
        return len(toks) - 1

    def marker(e, parent):
        if e == "M":
            emit("COMMENT")
            nodes.append(("COMMENT", None, None))
        else:
            emit("BRACKET_LEFT"), emit("LITERAL", "COLOR"), emit("LITERAL", "RED"), emit("BRACKET_RIGHT")
            nodes.append(("COLOR", None, None))

    def branch(elems, tip):
        for e in elems:
            if e == "P":
                emit("BRACKET_LEFT")
                i = emit("FLOAT")
                emit("FLOAT"), emit("FLOAT"), emit("FLOAT"), emit("BRACKET_RIGHT")
                nodes.append(("NODE", tip, i))  # parent: preceding point of the branch, or the point before the enclosing split
                tip = len(nodes) - 1
            elif isinstance(e, tuple):
                emit("BRACKET_LEFT")
                for k, alt in enumerate(e[1]):
                    if k:
                        emit("OR")
                    branch(alt, tip)
                emit("BRACKET_RIGHT")
            else:
                marker(e, tip)

    for e in pre[:1]:
        marker(e, 0)  # a comment before the document's open bracket
    emit("BRACKET_LEFT")
    for e in pre[1:]:
        marker(e, 0)
    emit("BRACKET_LEFT"), emit("LITERAL", label), emit("BRACKET_RIGHT")
    nodes.append(("TREE", 0, label))
    branch(elems, len(nodes) - 1)
    emit("BRACKET_RIGHT")
    return toks, nodes


def register_acceptance(R):
    def setup(doc):
        def f(S):
            me = parser_obj(S)
            toks, nodes = doc_tokens_and_reference(doc)
            S.eng.ghost["c15"]["no_lexer_error"] = True  # the stream of a well-formed document: every read succeeds
            S.eng.ghost["c15"]["concrete"] = toks  # token types and literal classes are fixed by the shape (values stay symbolic)
            me.fields["lexer"].fields["g_cur"] = 0
            me.fields["next_token"] = Sym(z3.IntVal(1 if toks else 0), "oref")
            S.assume(NTOK == len(toks))
            for i, (t, lit) in enumerate(toks):
                S.assume(TTYPE(i) == T(t))
                if lit is not None:
                    S.assume(TUP(i) == X.str_code(lit))
            S.assume(cur({"self": me}) == 0)
            S.assume(nxt({"self": me}) == tokref(z3.IntVal(0)))
            S.assume(z3.And(H({"self": me}, "n") >= 0, H({"self": me}, "clock") >= 0))
            return dict(self=me, __ghost__=dict(doc=doc))

        return f

    def ast_ok(E, v, o):
        toks, nodes = doc_tokens_and_reference(E.spec_extra["doc"])
        n0 = H(o, "n")
        ref = lambda k: n0 + 1 + k
        conj = [H(v, "n") == n0 + len(nodes), to_z3(v["result"], "ref") == ref(0), cur(v) == len(toks)]
        for k, (kind, par, info) in enumerate(nodes):
            conj.append(z3.Select(H(v, "kind"), ref(k)) == X.at(kind))
            if kind == "NODE":
                conj.append(z3.Select(H(v, "par"), ref(k)) == ref(par))
                for f, d in zip(X.HEAP_REAL, range(4)):
                    conj.append(z3.Select(H(v, f), ref(k)) == TVAL(info + d))
            elif kind == "TREE":
                conj.append(z3.Select(H(v, "par"), ref(k)) == ref(0))
                conj.append(z3.Select(H(v, "label"), ref(k)) == X.str_code(info))
            elif kind == "ROOT":
                conj.append(z3.Select(H(v, "par"), ref(k)) == 0)
        # children order = document order: attach stamps of the children of one parent increase with the node number
        pts = [(k, par) for k, (kind, par, _) in enumerate(nodes) if kind == "NODE"]
        for (a, pa) in pts:
            for (b, pb) in pts:
                if a < b and pa == pb:
                    conj.append(z3.Select(H(v, "ord"), ref(a)) < z3.Select(H(v, "ord"), ref(b)))
        return z3.And(*conj)

    never = lambda name: (f"well-formed-document-is-not-rejected-with-{name}", lambda E, v, o: False)
    R.add(PARSE_ALIAS, prop="C15", variants={k: setup(d) for k, d in DOCS.items()},
          raises={"TokenTypeError": never("TokenTypeError"), "LiteralTokenError": never("LiteralTokenError"),
                  "AssertionTokenTypeError": never("AssertionTokenTypeError"), "ValueError": never("ValueError")},
          ensures=[("AST-is-the-one-the-document-describes", ast_ok), WF, FRAME],
          options=dict(registry={}, allow_symbolic_unroll=True),
          notes="BOUNDED SHAPES: three fixed documents (run+split, nested split followed by further alternatives, markers + empty alternatives) "
                "with symbolic numbers; the descent is inlined completely (registry={} switches the modular rule off for this contract); "
                "expected AST from an independent reference in this file")


def register(R):
    register_leaves(R)
    register_core(R)
    register_acceptance(R)
    register_walk(R)
    register_walk_general(R)
    register_astnode(R)
    register_lexer_chars(R)
    register_link(R)
    register_from_stream(R)
    register_lexer(R)


# ===========================================================================
# Lemmas over the contracts above (ghost programs; the clause functions are fetched from the registered contracts by label, so a
# contract that is weakened or renamed breaks the lemma or makes it impossible to state - a machinery error, never a silent pass)
def _clause_of(contract, label, where="ensures"):
    from pyvc.spec import split_label

    for j, cl in enumerate(getattr(contract, where)):
        lab, body = split_label(cl, f"{where}{j}")
        if lab == label:
            return body
    raise KeyError(f"{contract.key}: no {where} clause labelled {label!r} (a lemma of contracts/C15.py is stated over it)")


def lemmas():
    """PREMATURE END OF THE DOCUMENT (token level).  A stream in which the bracket opened by the document's first '(' is never closed
    (bracket depth >= 1 at every position behind it, up to and including the end of the stream) cannot make Parser._parse / Parser.parse
    return normally: their postcondition `returns only for a complete document` is unsatisfiable on such a stream.  Both functions list
    ValueError (parse) resp. the parser's own error classes (_parse) as their only exceptional exits, every loop has a variant: so a
    prematurely ended document is REJECTED WITH AN ERROR (partial correctness for the mutual recursion of the descent)."""
    from pyvc.spec import Registry
    from pyvc.verify import Setup, Verifier

    R = Registry()
    register(R)
    out = []
    for key, label in ((P + "_parse", "returns-only-after-the-close-matching-the-first-open-at-depth-0-inside-the-stream"),
                       (P + "parse", "returns-only-for-a-complete-document")):
        c = next(x for x in R.alts[key] if x.prop == "C15" and not x.variants)
        E = Verifier(R, "C15")
        E.variant = ""
        S = Setup(E)
        before, after = {"self": parser_obj(S)}, {"self": parser_obj(S)}  # an arbitrary entry state and an arbitrary exit state
        E.assume(cur(before) == 0)
        for lm in c.lemmas:  # the definition of K0 (leading comments), as in the carrier's own proof
            lm(E, None)
        j = z3.Int("tr!j")
        E.assume(z3.ForAll([j], z3.Implies(z3.And(j > K0, j <= NTOK), DEPTH(j) >= 1)))  # the first '(' is never closed inside the stream
        complete = _clause_of(c, label)(E, dict(after, result=fresh("ref", "root")), before)
        out.append((f"premature-end/{key.split('.')[-1]}-cannot-return-normally-when-the-first-open-bracket-is-never-closed", list(E.pc), z3.Not(complete)))
        out.append((f"cover:premature-end/{key.split('.')[-1]}", list(E.pc), None))
    return out


def lexer_function_lemma():
    """THE TOKEN SEQUENCE IS A FUNCTION OF THE CHARACTER SEQUENCE.  Two arbitrary outcomes of Lexer.__next__ that both satisfy its
    postconditions for the same text and the same state before the call are the same outcome: same token (type; number for a FLOAT,
    text otherwise; position), same new look-ahead, same line / column counters.  (So TPOS / TTYPE / TVAL of pyvc/ext_C15.py are well
    defined, and what follows a comment depends on nothing but the text behind its line break.)"""
    from pyvc import ext_C15_text as T
    from pyvc.spec import Registry, split_label
    from pyvc.verify import Setup, Verifier

    R = Registry()
    register(R)
    c = next(x for x in R.alts[LEX + "__next__"] if x.prop == "C15" and not x.variants)
    E = Verifier(R, "C15")
    E.variant = ""
    S = Setup(E)
    before = {"self": lexer_obj(S)}
    E.spec_extra.update(LEXGHOST)
    for lm in c.lemmas:
        lm(E, None)
    for cl in c.requires:
        E.assume(split_label(cl, "pre")[1](E, before, None))
    outcomes = []
    for k in (1, 2):
        after = {"self": lexer_obj(S), "result": c.returns(S, None)}
        for j, cl in enumerate(c.ensures):
            lab, body = split_label(cl, f"post{j}")
            if lab == READER[0]:
                continue  # object identity of the reader: not a fact about values
            E.assume(body(E, after, before))
        outcomes.append(after)
    a, b = outcomes
    ta, tb = a["result"], b["result"]
    (pa, loa, hia), (pb, lob, hib) = lx(a), lx(b)
    sa, sb = T.as_slice(X.token_text(ta)), T.as_slice(X.token_text(tb))
    is_float = X.token_type_z(ta) == X.tt("FLOAT")
    same_value = z3.If(is_float, X.token_real(ta) == X.token_real(tb), z3.And(sa[1] - sa[0] == sb[1] - sb[0], z3.Or(sa[1] == sa[0], sa[0] == sb[0])))
    goal = z3.And(X.token_type_z(ta) == X.token_type_z(tb), same_value, pa == pb, hia - loa == hib - lob, z3.Or(hia == loa, loa == lob),
                  li(a, "lineno") == li(b, "lineno"), li(a, "column") == li(b, "column"),
                  *[to_z3(ta.fields[f], "int") == to_z3(tb.fields[f], "int") for f in ("lineno", "column")])
    return [("lexer/the-next-token-and-the-new-look-ahead-are-functions-of-the-text-and-the-old-look-ahead", list(E.pc), goal),
            ("cover:lexer/next-is-a-function", list(E.pc), None)]


_lemmas_premature_end = lemmas


def lemmas():  # noqa: F811
    return _lemmas_premature_end() + lexer_function_lemma()


def regex_facts():
    """regex-language facts of this property (contracts/regex_facts.py): obligations C15/regex/<label>"""
    from contracts import regex_facts as RF

    return RF.facts("C15")
