"""C12 — geometric transforms: sidecar contracts over the reals.

cos/sin of an angle are an abstract point (c, s) of the unit circle (pyvc.narr.trig);
4x4 matrices are 16 real terms; numpy shape errors surface as ValueError obligations.
"""
import z3

from pyvc import ext_C12
from pyvc.narr import trig
from pyvc.spec import Registry
from pyvc.values import NArr, Sym, fresh_name, to_z3

ext_C12.install()  # reduced-angle facts of cos / sin, copysign / mod / fmod / floor on real scalars (named library models, see pyvc/ext_C12.py)

UT = "swcgeom/utils/transforms.py"
GEO = "swcgeom/transforms/geometry.py"


def R(v):
    return to_z3(v, "real")


def act(M, p):
    """M . (p, 1) for a (4,4) NArr (or its 16 entries, row-major) and a 3-tuple of z3 reals -> 4 z3 reals."""
    it = M.items if isinstance(M, NArr) else list(M)
    hp = list(p) + [z3.RealVal(1)]
    return [sum((R(it[4 * r + c]) * hp[c] for c in range(4)), z3.RealVal(0)) for r in range(4)]


def acts_as(M, p, expected):
    """the formula of every builder / constructor postcondition: M . (p, 1) = (expected, 1)"""
    got = act(M, p)
    return z3.And(*[g == e for g, e in zip(got[:3], expected)], got[3] == 1)


def last_row_affine(M):
    it = M.items if isinstance(M, NArr) else list(M)
    return z3.And(R(it[12]) == 0, R(it[13]) == 0, R(it[14]) == 0, R(it[15]) == 1)


def affine_about(M, p, c0):
    """the formula of AffineTransform.__call__'s postcondition: the image of p under the stated map about the centre c0,
    q = A (p - c0) + b + c0  (A, b = linear and translation part of M)"""
    it = M.items if isinstance(M, NArr) else list(M)
    d = [p[k] - c0[k] for k in range(3)]
    return [R(it[4 * k]) * d[0] + R(it[4 * k + 1]) * d[1] + R(it[4 * k + 2]) * d[2] + R(it[4 * k + 3]) + c0[k] for k in range(3)]


def projective_about(M, p, c0):
    """the stated map of an ARBITRARY homogeneous 4x4 matrix about the centre c0: with d = p - c0 and h = M . (d, 1) the image is
    q = c0 + h[0:3] / h[3].  Returns (num, w): the three numerators h[0:3] and the homogeneous coordinate w = h[3]; the clause is
    w != 0 and (q - c0) * w = num.  For an affine last row (0, 0, 0, 1) this is `affine_about` (lemma
    call-postcondition-on-an-affine-matrix-is-the-affine-map)."""
    d = [p[k] - c0[k] for k in range(3)]
    h = act(M, d)
    return h[:3], h[3]


# the STATED maps, one source for the builders' / constructors' / transform classmethods' postconditions and for the lemmas:
# prm = dict of z3 reals (tx.. / sx.. / c, s = cos, sin of the angle / nx, ny, nz = unit axis), p = 3 z3 reals
FORMS = {
    "translate": lambda prm, p: [p[0] + prm["tx"], p[1] + prm["ty"], p[2] + prm["tz"]],
    "scale": lambda prm, p: [p[0] * prm["sx"], p[1] * prm["sy"], p[2] * prm["sz"]],
    "rot_x": lambda prm, p: [p[0], prm["c"] * p[1] - prm["s"] * p[2], prm["s"] * p[1] + prm["c"] * p[2]],
    "rot_y": lambda prm, p: [prm["c"] * p[0] + prm["s"] * p[2], p[1], -prm["s"] * p[0] + prm["c"] * p[2]],
    "rot_z": lambda prm, p: [prm["c"] * p[0] - prm["s"] * p[1], prm["s"] * p[0] + prm["c"] * p[1], p[2]],
    "rodrigues": lambda prm, p: rodrigues(prm["c"], prm["s"], (prm["nx"], prm["ny"], prm["nz"]), p),
}


def shape44(E, vars, old):
    r = vars["result"]
    return isinstance(r, NArr) and r.shape == (4, 4)


def point(S):
    return dict(px=S.real("px"), py=S.real("py"), pz=S.real("pz"))


def affine_row(E, vars, old):
    it = vars["result"].items
    return z3.And(R(it[12]) == 0, R(it[13]) == 0, R(it[14]) == 0, R(it[15]) == 1)


def maps_to(expected):
    """clause: result . (p,1) == (expected(vars), 1) for the free point p"""

    def f(E, vars, old):
        p = (R(vars["px"]), R(vars["py"]), R(vars["pz"]))
        return acts_as(vars["result"], p, expected(E, vars, p))

    return f


def params_of(E, v, names=("tx", "ty", "tz", "sx", "sy", "sz", "nx", "ny", "nz")):
    """the parameters of a stated map from a frame: the reals present, and (c, s) = (cos, sin) of `theta`"""
    prm = {k: R(v[k]) for k in names if k in v and v[k] is not None}
    if "theta" in v:
        c, s = trig(E, v["theta"])
        prm["c"], prm["s"] = R(c), R(s)
    return prm


def stated(form):
    return lambda E, v, p: FORMS[form](params_of(E, v), p)


def rodrigues(c, s, n, p):
    """c p + (1-c)(n.p) n + s (n x p)"""
    nx, ny, nz = n
    px, py, pz = p
    d = nx * px + ny * py + nz * pz
    cr = (ny * pz - nz * py, nz * px - nx * pz, nx * py - ny * px)
    return [c * p[k] + (1 - c) * d * n[k] + s * cr[k] for k in range(3)]


def register(Rg: Registry):
    Rg.add(
        pure_inline=True, key=f"{UT}:translate3d", prop="C12",
        setup=lambda S: dict(tx=S.real("tx"), ty=S.real("ty"), tz=S.real("tz"), **point(S)),
        ensures=[("shape-4x4", shape44), ("homogeneous-last-row", affine_row),
                 ("moves-every-point-by-t", maps_to(stated("translate")))],
    )
    Rg.add(
        pure_inline=True, key=f"{UT}:scale3d", prop="C12",
        setup=lambda S: dict(sx=S.real("sx"), sy=S.real("sy"), sz=S.real("sz"), **point(S)),
        ensures=[("shape-4x4", shape44), ("homogeneous-last-row", affine_row),
                 ("scales-per-axis", maps_to(stated("scale")))],
    )

    def cs(E, v):
        c, s = trig(E, v["theta"])
        return R(c), R(s)

    # right-handed: z-axis turns e_x towards e_y, x-axis e_y towards e_z, y-axis e_z towards e_x
    Rg.add(
        pure_inline=True, key=f"{UT}:rotate3d_z", prop="C12",
        setup=lambda S: dict(theta=S.real("theta"), **point(S)),
        ensures=[("shape-4x4", shape44), ("homogeneous-last-row", affine_row),
                 ("right-handed-about-z", maps_to(stated("rot_z")))],
    )
    Rg.add(
        pure_inline=True, key=f"{UT}:rotate3d_x", prop="C12",
        setup=lambda S: dict(theta=S.real("theta"), **point(S)),
        ensures=[("shape-4x4", shape44), ("homogeneous-last-row", affine_row),
                 ("right-handed-about-x", maps_to(stated("rot_x")))],
    )
    Rg.add(
        pure_inline=True, key=f"{UT}:rotate3d_y", prop="C12",
        setup=lambda S: dict(theta=S.real("theta"), **point(S)),
        ensures=[("shape-4x4", shape44), ("homogeneous-last-row", affine_row),
                 ("right-handed-about-y", maps_to(stated("rot_y")))],
    )

    def axis_setup(S):
        from pyvc.values import PList

        nx, ny, nz = S.real("nx"), S.real("ny"), S.real("nz")
        S.assume(nx.z * nx.z + ny.z * ny.z + nz.z * nz.z == 1)
        return dict(n=PList([nx, ny, nz]), theta=S.real("theta"), nx=nx, ny=ny, nz=nz, **point(S))

    Rg.add(
        pure_inline=True, key=f"{UT}:rotate3d", prop="C12",
        setup=axis_setup,
        ensures=[("shape-4x4", shape44), ("homogeneous-last-row", affine_row),
                 ("rodrigues-right-handed", maps_to(stated("rodrigues")))],
    )


# ===========================================================================
# AffineTransform.__call__ / apply, TranslateOrigin.transform
def _first_root_pos(E, t):
    from contracts.common import col, nof

    pid = col(t, "pid").arr
    r = z3.Int(fresh_name("root_pos"))
    j = z3.Int(fresh_name("j"))
    E.assume(z3.And(r >= 0, r < nof(t), z3.Select(pid, r) == -1, z3.ForAll([j], z3.Implies(z3.And(j >= 0, j < r), z3.Select(pid, j) != -1))))
    return r


def name_root_as_the_code_does(E, r, formula):
    """`r` is the ghost position of the first root (fresh, defined by _first_root_pos).  When the path condition PROVES it equal to an
    integer constant the code's own search produced (np.nonzero(...)[0][0] / argmax: `argmax!..`), the formula is rewritten with that
    constant -- only a term the path condition proves EQUAL is substituted (cf. ext_C12.under_pc), so the clause keeps its meaning; the
    polynomial normal forms of the code's value and of the stated map then coincide syntactically."""
    seen, stack, cands = set(), list(E.pc), {}
    while stack:
        x = stack.pop()
        if x.get_id() in seen:
            continue
        seen.add(x.get_id())
        if z3.is_const(x) and z3.is_int(x) and x.decl().kind() == z3.Z3_OP_UNINTERPRETED and x.decl().name().startswith("argmax"):
            cands[x.decl().name()] = x
        stack.extend([x.body()] if z3.is_quantifier(x) else x.children())
    for nm in sorted(cands):
        if not E.feasible(r != cands[nm], full=True):
            return z3.substitute(formula, (r, cands[nm]))
    return formula


def tree_unchanged(t, t0):
    """frame clause "the input tree is untouched": `t` (the object as it is now) against its entry snapshot `t0`:
    same ndata keys, every column of the same length with the same entries, source / comments / names as they were"""
    from pyvc.values import Obj, PList, SArr

    if not isinstance(t, Obj) or set(t.fields) != set(t0.fields):
        return False
    nd, nd0 = t.fields["ndata"].items, t0.fields["ndata"].items
    if nd is None or nd0 is None or list(nd) != list(nd0):
        return False
    out = []
    for c in nd0:
        a, b = nd[c], nd0[c]
        if type(a) is not type(b) or a.kind != b.kind:
            return False
        if isinstance(a, SArr):
            out.append(a.nz() == b.nz())
            if not a.arr.eq(b.arr):
                i = z3.Int(fresh_name("i"))
                out.append(z3.ForAll([i], z3.Implies(z3.And(i >= 0, i < b.nz()), z3.Select(a.arr, i) == z3.Select(b.arr, i))))
        else:
            if a.shape != b.shape:
                return False
            out.extend(to_z3(p, a.kind) == to_z3(q, a.kind) for p, q in zip(a.items, b.items))
    for f in ("source", "names", "types"):
        if f in t0.fields and t.fields[f] is not t0.fields[f] and t.fields[f] != t0.fields[f]:
            return False
    cm, cm0 = t.fields.get("comments"), t0.fields.get("comments")
    if isinstance(cm0, PList) and (not isinstance(cm, PList) or cm.items != cm0.items):
        return False
    return z3.And(*out) if out else True


def _M3(tm):
    it = tm.items
    return [[R(it[4 * r + c]) for c in range(4)] for r in range(3)]


class _Centre(list):
    """the three coordinates of a centre; `.root` = the ghost position of the root row they were read from"""


AFF = {}  # clause builders shared with the transform classmethods below


def register_affine(Rg):
    from contracts.common import col, nof, sym_tree

    def aff_obj(S, center):
        from swcgeom.transforms.geometry import AffineTransform

        from pyvc.engine import Unsupported

        tm = NArr((4, 4), [S.real(f"m{r}{c}") for r in range(4) for c in range(4)], "real")
        try:
            # an arbitrary transform object = what the REAL constructor builds from an arbitrary matrix (fields a change adds to
            # __init__ are there, with the constructor's values); __call__ may not write to it (`frozen`: any attribute store is the
            # failed obligation safety/frame-attr-write), so every later call finds the object as the constructor left it
            o = S.new(AffineTransform, tm, center)
        except Unsupported:
            o = S.obj(AffineTransform, tm=tm, center=center)
        o.frozen = True
        return o

    def centre_of(E, x0, center):
        """the stated centre: the origin, or the coordinates of the first root row ('root' and 'soma' are the same branch of __call__)"""
        if center == "origin":
            return [z3.RealVal(0)] * 3
        r = _first_root_pos(E, x0)
        out = _Centre(z3.Select(col(x0, c).arr, r) for c in "xyz")
        out.root = r
        return out

    def w_nonzero_about_centre(E, v, o):
        """ANY homogeneous 4x4 matrix (not only last row (0,0,0,1): the same map written with a common factor, a perspective row ...) whose
        homogeneous coordinate does not vanish on the nodes, taken relative to the stated centre (numpy would give inf / nan there)"""
        x0, slf = v["x"], v["self"]
        c0 = centre_of(E, x0, "origin" if slf.fields["center"] == "origin" else "root")
        i = z3.Int(fresh_name("i"))
        _, w = projective_about(slf.fields["tm"], [z3.Select(col(x0, c).arr, i) for c in "xyz"], c0)
        return z3.ForAll([i], z3.Implies(z3.And(i >= 0, i < nof(x0)), w != 0))

    affine_pre = ("homogeneous-coordinate-nonzero-at-every-node-(relative-to-the-stated-centre)", w_nonzero_about_centre)
    has_root = ("has-a-root", lambda E, v, o: (lambda t, j: z3.Exists([j], z3.And(j >= 0, j < nof(t), z3.Select(col(t, "pid").arr, j) == -1)))(v["x"], z3.Int(fresh_name("j"))))

    def moved(center):
        def f(E, v, o):
            x0, y = o["x"], v["result"]
            M = _M3(o["self"].fields["tm"])
            i = z3.Int(fresh_name("i"))
            n = nof(x0)
            p = [z3.Select(col(x0, c).arr, i) for c in "xyz"]
            q = [z3.Select(col(y, c).arr, i) for c in "xyz"]
            c0 = centre_of(E, x0, center)
            root = getattr(c0, "root", None)
            # the stated map about the stated centre, for the stated 4x4 matrix whatever its last row: q = c + (M (p - c, 1))[0:3] / w with
            # w = (M (p - c, 1))[3].  For an affine last row (w = 1) this reads q = A (p - c) + b + c: the centre moves by the matrix' own
            # translation part only (fixed for scaling / rotation)
            num, w = projective_about(o["self"].fields["tm"], p, c0)

            def axis(k):
                # (q - c) * w = num.  Where the code's value is a quotient n' / d', the clause is handed over as d' != 0 and the polynomial
                # identity (n' - c d') w - num d' = 0 in sum-of-monomials normal form (together they imply the stated equation; an
                # equivalence-preserving rewrite under d' != 0, cf. `chain_moved`), else as it stands
                t = z3.simplify(q[k])
                if z3.is_app_of(t, z3.Z3_OP_DIV):
                    n_, d_ = t.children()
                    return z3.And(d_ != 0, z3.simplify((n_ - c0[k] * d_) * w - num[k] * d_, som=True) == 0)
                return (q[k] - c0[k]) * w == num[k]

            if root is not None:
                num, w, c0 = [name_root_as_the_code_does(E, root, z) for z in num], name_root_as_the_code_does(E, root, w), [name_root_as_the_code_does(E, root, z) for z in c0]
            return z3.ForAll([i], z3.Implies(z3.And(i >= 0, i < n), z3.And(w != 0, *[axis(k) for k in range(3)])))

        return f

    def untouched(E, v, o):
        x0, y = o["x"], v["result"]
        i = z3.Int(fresh_name("i"))
        n = nof(x0)
        same = [z3.Select(col(y, c).arr, i) == z3.Select(col(x0, c).arr, i) for c in ("id", "type", "r", "pid")]
        return z3.And(nof(y) == n, set(y.fields["ndata"].items) == set(x0.fields["ndata"].items), z3.ForAll([i], z3.Implies(z3.And(i >= 0, i < n), z3.And(*same))))

    def xyz_lengths(E, v, o):
        """every column of the result (the replaced x / y / z included) has the input's length"""
        x0, y = o["x"], v["result"]
        return z3.And(*[col(y, c).nz() == nof(x0) for c in y.fields["ndata"].items])

    def result_fresh(E, v, o):
        y = v["result"]
        return all(a.uid not in E.entry_uids for a in y.fields["ndata"].items.values()) and y.uid not in E.entry_uids and y.fields["ndata"].uid not in E.entry_uids

    def input_untouched(name):
        return (lambda E, v, o: tree_unchanged(v[name], o[name]))

    def transform_object_untouched(E, v, o):
        """a transform is a VALUE: applying it leaves the object exactly as it was (same attributes, same matrix entries, same centre), so
        a second application -- to another tree -- meets the same contract"""
        a, b = v["self"], o["self"]
        if set(a.fields) != set(b.fields) or a.fields.get("center") != b.fields.get("center"):
            return False
        ta, tb = a.fields["tm"], b.fields["tm"]
        if not isinstance(ta, NArr) or ta.shape != tb.shape:
            return False
        same = [R(x) == R(y) for x, y in zip(ta.items, tb.items)]
        for k in a.fields:
            if k not in ("tm", "center") and a.fields[k] is not b.fields[k] and a.fields[k] != b.fields[k]:
                return False
        return z3.And(*same)

    AFF.update(untouched=untouched, xyz_lengths=xyz_lengths, result_fresh=result_fresh, input_untouched=input_untouched)

    for center in ("origin", "root"):
        Rg.add(
            f"{GEO}:AffineTransform.__call__" + ("" if center == "origin" else ""),
            prop="C12",
        ) if False else None
    Rg.add(
        f"{GEO}:AffineTransform.__call__", prop="C12",
        variants={
            "center=origin": lambda S: dict(self=aff_obj(S, "origin"), x=sym_tree(S, "x")),
            "center=root": lambda S: dict(self=aff_obj(S, "root"), x=sym_tree(S, "x")),
            "center=soma": lambda S: dict(self=aff_obj(S, "soma"), x=sym_tree(S, "x")),
        },
        requires=[affine_pre, has_root],
        ensures=[("every-node-moved-by-the-stated-map-about-the-stated-centre", lambda E, v, o: moved("origin" if o["self"].fields["center"] == "origin" else "root")(E, v, o)),
                 ("topology-types-radii-untouched", untouched), ("result-is-fresh", result_fresh),
                 ("transform-object-left-as-it-was-(no-state-kept-between-calls)", transform_object_untouched)],
    )

    def to_origin(E, v, o):
        x0, y = o["x"], v["result"]
        r = _first_root_pos(E, x0)
        i = z3.Int(fresh_name("i"))
        n = nof(x0)
        return z3.ForAll([i], z3.Implies(z3.And(i >= 0, i < n), z3.And(*[z3.Select(col(y, c).arr, i) == z3.Select(col(x0, c).arr, i) - z3.Select(col(x0, c).arr, r) for c in "xyz"])))

    Rg.add(
        f"{GEO}:TranslateOrigin.transform", prop="C12",
        setup=lambda S: dict(cls=__import__("swcgeom.transforms.geometry", fromlist=["x"]).TranslateOrigin, x=sym_tree(S, "x")),
        requires=[has_root],
        ensures=[("root-moved-to-origin-rigidly", to_origin), ("topology-types-radii-untouched", untouched), ("result-is-fresh", result_fresh)],
    )

    # ------------------------------------------------------------------ AffineTransform.apply (static): ANY 4x4 matrix
    def w_nonzero(E, v, o):
        x0, it = v["x"], v["tm"].items
        i = z3.Int(fresh_name("i"))
        p = [z3.Select(col(x0, c).arr, i) for c in "xyz"]
        w = R(it[12]) * p[0] + R(it[13]) * p[1] + R(it[14]) * p[2] + R(it[15])
        return z3.ForAll([i], z3.Implies(z3.And(i >= 0, i < nof(x0)), w != 0))

    def projective(E, v, o):
        """every node p -> (M (p,1))[0:3] / (M (p,1))[3]"""
        x0, y, tm = o["x"], v["result"], o["tm"]
        i = z3.Int(fresh_name("i"))
        p = tuple(z3.Select(col(x0, c).arr, i) for c in "xyz")
        q = [z3.Select(col(y, c).arr, i) for c in "xyz"]
        h = act(tm, p)
        return z3.ForAll([i], z3.Implies(z3.And(i >= 0, i < nof(x0)), z3.And(*[q[k] * h[3] == h[k] for k in range(3)], h[3] != 0)))

    def matrix_untouched(name):
        def f(E, v, o):
            a, b = v[name] if name in v else v["self"].fields[name], o[name] if name in o else o["self"].fields[name]
            return a.shape == b.shape and z3.And(*[R(x) == R(y) for x, y in zip(a.items, b.items)])

        return f

    def apply_setup(S):
        tm = NArr((4, 4), [S.real(f"m{r}{c}") for r in range(4) for c in range(4)], "real")
        tm.frozen = True
        return dict(x=sym_tree(S, "x"), tm=tm)

    Rg.add(
        f"{GEO}:AffineTransform.apply", prop="C12", setup=apply_setup,
        requires=[("homogeneous-coordinate-nonzero-at-every-node", w_nonzero)],
        ensures=[("every-node-p-goes-to-(M.p)/w", projective), ("topology-types-radii-untouched", untouched), ("coordinate-columns-keep-their-length", xyz_lengths),
                 ("result-is-fresh", result_fresh), ("input-untouched", input_untouched("x")), ("matrix-untouched", matrix_untouched("tm"))],
        notes="any 4x4 matrix whose homogeneous coordinate does not vanish on the nodes (numpy would give inf/nan there)",
    )

    # ------------------------------------------------------------------ AffineTransform.__init__
    def init_setup(center, fmt, names):
        def f(S):
            from swcgeom.transforms.geometry import AffineTransform

            tm = NArr((4, 4), [S.real(f"m{r}{c}") for r in range(4) for c in range(4)], "real")
            tm.frozen = True
            return dict(self=S.obj(AffineTransform), tm=tm, center=center, fmt=fmt, names=names)

        return f

    def warned(E, v, o):
        return len(E.warn_log) == (o["fmt"] is not None) + (o["names"] is not None)

    Rg.add(
        f"{GEO}:AffineTransform.__init__", prop="C12",
        variants={"center=origin": init_setup("origin", None, None), "center=root": init_setup("root", None, None), "center=soma": init_setup("soma", None, None),
                  "fmt-given": init_setup("origin", "Rotate-1-0-0-0.5000", None), "names-given": init_setup("root", None, __import__("swcgeom.core.swc_utils", fromlist=["x"]).get_names())},
        ensures=["stores-the-matrix-it-was-given :: same(self.tm, tm)", "centre-as-requested :: self.center == center",
                 ("matrix-untouched", matrix_untouched("tm")), ("one-deprecation-warning-per-deprecated-argument", warned)],
        notes="no validation of `center` exists in the code: any value other than 'root' / 'soma' is treated as 'origin' by __call__",
    )

    # ------------------------------------------------------------------ TranslateOrigin.__call__ (plumbing to the classmethod)
    Rg.add(
        f"{GEO}:TranslateOrigin.__call__", prop="C12",
        setup=lambda S: dict(self=S.obj(__import__("swcgeom.transforms.geometry", fromlist=["x"]).TranslateOrigin), x=sym_tree(S, "x")),
        requires=[has_root],
        ensures=[("root-moved-to-origin-rigidly", to_origin), ("topology-types-radii-untouched", untouched), ("coordinate-columns-keep-their-length", xyz_lengths),
                 ("result-is-fresh", result_fresh), ("input-untouched", input_untouched("x"))],
    )


_reg0 = register


def register(Rg):  # noqa: F811
    _reg0(Rg)
    register_affine(Rg)


# ===========================================================================
# constructors, the transform classmethods (constructor + __call__ on the real chain), derived lemmas
CLASSES = {  # class name -> (stated form, parameter names)
    "Translate": ("translate", ("tx", "ty", "tz")),
    "Scale": ("scale", ("sx", "sy", "sz")),
    "RotateX": ("rot_x", ("theta",)),
    "RotateY": ("rot_y", ("theta",)),
    "RotateZ": ("rot_z", ("theta",)),
    "Rotate": ("rodrigues", ("n", "theta")),
}


def register_ctors(Rg):
    import swcgeom.transforms.geometry as G
    from contracts.common import col, nof, sym_tree

    def tm_acts(form):
        return lambda E, v, o: acts_as(v["self"].fields["tm"], (R(v["px"]), R(v["py"]), R(v["pz"])), stated(form)(E, v, (R(v["px"]), R(v["py"]), R(v["pz"]))))

    def tm_affine(E, v, o):
        return last_row_affine(v["self"].fields["tm"])

    def args_of(S, cname):
        """symbolic constructor arguments of class `cname` (the axis of Rotate is a unit vector)"""
        d = {}
        for k in CLASSES[cname][1]:
            if k == "n":
                nx, ny, nz = S.real("nx"), S.real("ny"), S.real("nz")
                S.assume(nx.z * nx.z + ny.z * ny.z + nz.z * nz.z == 1)
                d.update(n=NArr((3,), [nx, ny, nz], "real"), nx=nx, ny=ny, nz=nz)
            else:
                d[k] = S.real(k)
        return d

    def ctor_setup(cname, center):
        def setup(S):
            d = dict(self=S.obj(getattr(G, cname)), **point(S), **args_of(S, cname))
            if center is not None:
                d["center"] = center
            return d

        return setup

    POST_NAME = {"Translate": "matrix-translates-by-t", "Scale": "matrix-scales-per-axis", "RotateX": "matrix-rotates-about-x", "RotateY": "matrix-rotates-about-y",
                 "RotateZ": "matrix-rotates-about-z", "Rotate": "matrix-is-rodrigues"}
    for cname, (form, _) in CLASSES.items():
        if cname == "Translate":
            Rg.add(f"{GEO}:Translate.__init__", prop="C12", setup=ctor_setup(cname, None),
                   ensures=[(POST_NAME[cname], tm_acts(form)), ("matrix-is-affine", tm_affine), "centre-is-origin :: self.center == 'origin'"])
        else:
            Rg.add(f"{GEO}:{cname}.__init__", prop="C12", variants={c: ctor_setup(cname, c) for c in ("root", "origin")},
                   ensures=[(POST_NAME[cname], tm_acts(form)), ("matrix-is-affine", tm_affine), "centre-as-requested :: self.center == center"])

    # ------------------------------------------------------------------ X.transform(x, ...) = X(...)(x): constructor and __call__ on the REAL chain
    def chain_setup(cname, center):
        def setup(S):
            d = dict(cls=getattr(G, cname), x=sym_tree(S, "x"), **args_of(S, cname))
            if center is not None:
                d["center"] = center
            return d

        return setup

    has_root = ("has-a-root", lambda E, v, o: (lambda t, j: z3.Exists([j], z3.And(j >= 0, j < nof(t), z3.Select(col(t, "pid").arr, j) == -1)))(v["x"], z3.Int(fresh_name("j"))))

    def xyz(t, i):
        return [z3.Select(col(t, c).arr, i) for c in "xyz"]

    def centre(E, v, o):
        """the stated centre: the origin, or the coordinates of the first root row"""
        if o.get("center", "origin") == "origin":
            return [z3.RealVal(0)] * 3, None
        r = _first_root_pos(E, o["x"])
        return xyz(o["x"], r), r

    def chain_moved(form, k):
        """component k (x / y / z) of "every node goes to F(p - c0) + c0" -- one obligation per axis: a polynomial identity each"""
        def f(E, v, o):
            x0, y = o["x"], v["result"]
            c0, _ = centre(E, v, o)
            i = z3.Int(fresh_name("i"))
            p, q = xyz(x0, i), xyz(y, i)
            if form == "translate":  # a translation moves its centre along: q = p + t whatever the centre
                exp = FORMS[form](params_of(E, o), p)
            else:
                exp = [e + c for e, c in zip(FORMS[form](params_of(E, o), [p[k] - c0[k] for k in range(3)]), c0)]
            # both sides are polynomials in the node's coordinates, the centre and the parameters: the difference is handed over in
            # sum-of-monomials normal form (an equivalence-preserving rewrite by z3's simplifier), where the identity is syntactic
            return z3.ForAll([i], z3.Implies(z3.And(i >= 0, i < nof(x0)), z3.simplify(q[k] - exp[k], som=True) == 0))

        return f

    def centre_fixed(E, v, o):
        """the chosen centre stays fixed: the root keeps its coordinates (centre = root); the origin is a fixed point of the matrix"""
        c0, r = centre(E, v, o)
        if r is None:
            return True
        q = xyz(v["result"], r)
        return z3.And(*[z3.simplify(name_root_as_the_code_does(E, r, q[k] - c0[k]), som=True) == 0 for k in range(3)])

    def offsets_scaled(E, v, o):
        """scaling multiplies root-relative offsets per axis (either centre)"""
        x0, y = o["x"], v["result"]
        r = _first_root_pos(E, x0)
        i = z3.Int(fresh_name("i"))
        p, q, pr, qr = xyz(x0, i), xyz(y, i), xyz(x0, r), xyz(y, r)
        sc = [R(o["sx"]), R(o["sy"]), R(o["sz"])]
        return z3.ForAll([i], z3.Implies(z3.And(i >= 0, i < nof(x0)), z3.And(*[q[k] - qr[k] == sc[k] * (p[k] - pr[k]) for k in range(3)])))

    for cname, (form, _) in CLASSES.items():
        extra = []
        if cname == "Scale":
            extra = [("the-chosen-centre-stays-fixed", centre_fixed), ("root-relative-offsets-are-multiplied-per-axis", offsets_scaled)]
        elif cname != "Translate":
            # "rotations preserve inter-node distances" / "followed by its inverse": lemmas `<form>-about-<centre>/...` over the clause below
            # (stated directly over all node pairs the obligation is polynomial in two quantified nodes: 10 s and more)
            extra = [("the-chosen-centre-stays-fixed", centre_fixed)]
        kw = dict(setup=chain_setup(cname, None)) if cname == "Translate" else dict(variants={f"center={c}": chain_setup(cname, c) for c in ("root", "origin")})
        Rg.add(f"{GEO}:{cname}.transform", prop="C12", requires=[has_root],
               ensures=[(f"every-node-moved-by-the-stated-map-about-the-stated-centre/{ax}", chain_moved(form, k)) for k, ax in enumerate("xyz")] + extra
               + [("topology-types-radii-untouched", AFF["untouched"]), ("coordinate-columns-keep-their-length", AFF["xyz_lengths"]),
                  ("result-is-fresh", AFF["result_fresh"]), ("input-untouched", AFF["input_untouched"]("x"))],
               **kw)


def lemmas():
    """Derived clauses of the property as lemmas over the PROVED postcondition formulas: `acts_as` (builders / constructors: the matrix
    acts as the stated form) and `affine_about` (AffineTransform.__call__: every node goes to A (p - c0) + b + c0)."""
    out = []
    c, s, nx, ny, nz = z3.Reals("c s nx ny nz")
    sx, sy, sz, tx, ty, tz = z3.Reals("sx sy sz tx ty tz")
    P, Q, C0 = z3.Reals("px py pz"), z3.Reals("qx qy qz"), z3.Reals("cx cy cz")
    circ = [c * c + s * s == 1]
    unit = [nx * nx + ny * ny + nz * nz == 1]
    d2 = lambda a, b: sum(((a[k] - b[k]) * (a[k] - b[k]) for k in range(3)), z3.RealVal(0))
    eq3 = lambda a, b: z3.And(*[x == y for x, y in zip(a, b)])
    sub = lambda a, b: [a[k] - b[k] for k in range(3)]
    prm = dict(c=c, s=s, nx=nx, ny=ny, nz=nz, sx=sx, sy=sy, sz=sz, tx=tx, ty=ty, tz=tz)
    inv_prm = dict(prm, s=-s, sx=1 / sx, sy=1 / sy, sz=1 / sz, tx=-tx, ty=-ty, tz=-tz)  # angle -theta: (cos, sin) -> (cos, -sin), see pyvc.narr.trig
    side = {"translate": [], "scale": [sx != 0, sy != 0, sz != 0], "rot_x": circ, "rot_y": circ, "rot_z": circ, "rodrigues": circ + unit}
    short = {"translate": "translate", "scale": "scale", "rot_x": "rotation-x", "rot_y": "rotation-y", "rot_z": "rotation-z", "rodrigues": "rodrigues"}
    # ---- over the stated forms themselves
    for form in ("rot_x", "rot_y", "rot_z", "rodrigues"):
        f = lambda p, _f=form: FORMS[_f](prm, p)
        out.append((f"{short[form]}-preserves-distances", side[form], d2(f(P), f(Q)) == d2(P, Q)))
    for form in FORMS:
        f, g = (lambda p, _f=form: FORMS[_f](prm, p)), (lambda p, _f=form: FORMS[_f](inv_prm, p))
        out.append((f"{short[form]}-then-inverse-is-identity", side[form], eq3(g(f(P)), P)))
    out.append(("rodrigues-fixes-its-axis", circ + unit, eq3(FORMS["rodrigues"](prm, (nx, ny, nz)), (nx, ny, nz))))
    # ---- 0. AffineTransform.__call__ is stated for ANY homogeneous matrix (`projective_about`); on a matrix with the affine last row
    # (0, 0, 0, 1) -- every matrix of the builders -- its postcondition IS the affine form `affine_about` the lemmas below compose with
    M0 = [z3.Real(f"m{r}{k}") for r in range(4) for k in range(4)]
    num0, w0 = projective_about(M0, P, list(C0))
    out.append(("call-postcondition-on-an-affine-matrix-is-the-affine-map", [last_row_affine(M0), w0 != 0] + [(Q[k] - C0[k]) * w0 == num0[k] for k in range(3)],
                eq3(Q, affine_about(M0, P, list(C0)))))
    # the same map written with a common factor (lambda * M, lambda != 0) is the same point map: what "homogeneous" means
    lam_ = z3.Real("lam")
    num1, w1 = projective_about([lam_ * m for m in M0], P, list(C0))
    out.append(("a-common-factor-of-the-matrix-does-not-change-the-map", [lam_ != 0, w0 != 0] + [(Q[k] - C0[k]) * w0 == num0[k] for k in range(3)],
                z3.And(w1 != 0, *[(Q[k] - C0[k]) * w1 == num1[k] for k in range(3)])))
    # ---- A. over the postconditions: M = 16 arbitrary reals (the matrix of a transform object).  The constructor's postcondition
    # (`acts_as` at the offset of a node from the centre) and the call's postcondition (`affine_about`) compose to the EFFECTIVE MAP
    # q = F(p - c0) + c0 -- which is also the postcondition proved for the real chain X.transform(x, ...) = X(...)(x)
    M = [z3.Real(f"m{r}{k}") for r in range(4) for k in range(4)]
    zero = [z3.RealVal(0)] * 3
    U, V, UC, W = z3.Reals("ux uy uz"), z3.Reals("vx vy vz"), z3.Reals("ucx ucy ucz"), z3.Reals("wx wy wz")
    add = lambda a, b: [a[k] + b[k] for k in range(3)]
    for form in FORMS:
        f = lambda p, _f=form: FORMS[_f](prm, p)
        g = lambda p, _f=form: FORMS[_f](inv_prm, p)
        for cname, c0 in (("root", list(C0)), ("origin", zero)):
            tag = f"{short[form]}-about-{cname}"
            di = sub(P, c0)
            eff = (lambda p, _c0=c0, _f=f: add(_f(sub(p, _c0)), _c0)) if form != "translate" else f
            if form == "translate":
                # a translation matrix has a translation part: the call moves the centre along, q = p + t for either centre
                out.append((f"{tag}/constructor-and-call-postconditions-compose-to-the-stated-map", [acts_as(M, di, f(di)), acts_as(M, zero, f(zero))], eq3(affine_about(M, P, c0), f(P))))
            else:
                out.append((f"{tag}/constructor-and-call-postconditions-compose-to-the-stated-map", [acts_as(M, di, f(di))], eq3(affine_about(M, P, c0), eff(P))))
            # ---- B. consequences of the effective map at two nodes p, q (images u, v) and at the centre (image uc)
            images = [eq3(U, eff(P)), eq3(V, eff(Q)), eq3(UC, eff(c0))]
            if form != "translate":
                out.append((f"{tag}/the-centre-stays-fixed", side[form] + images, eq3(UC, c0)))
            if form == "scale":
                out.append((f"{tag}/offsets-from-any-node-are-multiplied-per-axis", side[form] + images, eq3(sub(U, V), [sx * (P[0] - Q[0]), sy * (P[1] - Q[1]), sz * (P[2] - Q[2])])))
            else:
                out.append((f"{tag}/inter-node-distances-are-preserved", side[form] + images, d2(U, V) == d2(P, Q)))
            # the inverse transform (same class, parameters -t / 1/s / -theta, same centre mode) applied to the RESULT: its centre is the
            # image uc of the first centre (the root row is the same row: parents are untouched)
            c1 = list(UC) if cname == "root" else zero
            eff2 = (lambda p, _c1=c1, _g=g: add(_g(sub(p, _c1)), _c1)) if form != "translate" else g
            out.append((f"{tag}/followed-by-its-inverse-restores-the-coordinates", side[form] + images + [eq3(W, eff2(U))], eq3(W, P)))
    return out


_reg1 = register


def register(Rg):  # noqa: F811
    _reg1(Rg)
    register_ctors(Rg)
