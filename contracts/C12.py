"""C12 — geometric transforms: sidecar contracts over the reals.

cos/sin of an angle are an abstract point (c, s) of the unit circle (pyvc.narr.trig);
4x4 matrices are 16 real terms; numpy shape errors surface as ValueError obligations.
"""
import z3

from pyvc.narr import trig
from pyvc.spec import Registry
from pyvc.values import NArr, Sym, fresh_name, to_z3

UT = "swcgeom/utils/transforms.py"
GEO = "swcgeom/transforms/geometry.py"


def R(v):
    return to_z3(v, "real")


def act(M: NArr, p):
    """M . (p, 1) for a (4,4) NArr and a 3-tuple of z3 reals -> 4 z3 reals."""
    it = M.items
    hp = list(p) + [z3.RealVal(1)]
    return [sum((R(it[4 * r + c]) * hp[c] for c in range(4)), z3.RealVal(0)) for r in range(4)]


def shape44(E, vars, old):
    r = vars["result"]
    return isinstance(r, NArr) and r.shape == (4, 4)


def point(S):
    return dict(px=S.real("px"), py=S.real("py"), pz=S.real("pz"))


def affine_row(E, vars, old):
    it = vars["result"].items
    return z3.And(R(it[12]) == 0, R(it[13]) == 0, R(it[14]) == 0, R(it[15]) == 1)


def maps_to(expected):
    """clause: result . (p,1) == (expected(vars), 1) for the free point p"""

    def f(E, vars, old):
        p = (R(vars["px"]), R(vars["py"]), R(vars["pz"]))
        got = act(vars["result"], p)
        exp = expected(E, vars, p)
        return z3.And(*[g == e for g, e in zip(got[:3], exp)], got[3] == 1)

    return f


def rodrigues(c, s, n, p):
    """c p + (1-c)(n.p) n + s (n x p)"""
    nx, ny, nz = n
    px, py, pz = p
    d = nx * px + ny * py + nz * pz
    cr = (ny * pz - nz * py, nz * px - nx * pz, nx * py - ny * px)
    return [c * p[k] + (1 - c) * d * n[k] + s * cr[k] for k in range(3)]


def register(Rg: Registry):
    Rg.add(
        pure_inline=True, key=f"{UT}:translate3d", prop="C12",
        setup=lambda S: dict(tx=S.real("tx"), ty=S.real("ty"), tz=S.real("tz"), **point(S)),
        ensures=[("shape-4x4", shape44), ("homogeneous-last-row", affine_row),
                 ("moves-every-point-by-t", maps_to(lambda E, v, p: [p[0] + R(v["tx"]), p[1] + R(v["ty"]), p[2] + R(v["tz"])]))],
    )
    Rg.add(
        pure_inline=True, key=f"{UT}:scale3d", prop="C12",
        setup=lambda S: dict(sx=S.real("sx"), sy=S.real("sy"), sz=S.real("sz"), **point(S)),
        ensures=[("shape-4x4", shape44), ("homogeneous-last-row", affine_row),
                 ("scales-per-axis", maps_to(lambda E, v, p: [p[0] * R(v["sx"]), p[1] * R(v["sy"]), p[2] * R(v["sz"])]))],
    )

    def cs(E, v):
        c, s = trig(E, v["theta"])
        return R(c), R(s)

    # right-handed: z-axis turns e_x towards e_y, x-axis e_y towards e_z, y-axis e_z towards e_x
    Rg.add(
        pure_inline=True, key=f"{UT}:rotate3d_z", prop="C12",
        setup=lambda S: dict(theta=S.real("theta"), **point(S)),
        ensures=[("shape-4x4", shape44), ("homogeneous-last-row", affine_row),
                 ("right-handed-about-z", maps_to(lambda E, v, p: (lambda c, s: [c * p[0] - s * p[1], s * p[0] + c * p[1], p[2]])(*cs(E, v))))],
    )
    Rg.add(
        pure_inline=True, key=f"{UT}:rotate3d_x", prop="C12",
        setup=lambda S: dict(theta=S.real("theta"), **point(S)),
        ensures=[("shape-4x4", shape44), ("homogeneous-last-row", affine_row),
                 ("right-handed-about-x", maps_to(lambda E, v, p: (lambda c, s: [p[0], c * p[1] - s * p[2], s * p[1] + c * p[2]])(*cs(E, v))))],
    )
    Rg.add(
        pure_inline=True, key=f"{UT}:rotate3d_y", prop="C12",
        setup=lambda S: dict(theta=S.real("theta"), **point(S)),
        ensures=[("shape-4x4", shape44), ("homogeneous-last-row", affine_row),
                 ("right-handed-about-y", maps_to(lambda E, v, p: (lambda c, s: [c * p[0] + s * p[2], p[1], -s * p[0] + c * p[2]])(*cs(E, v))))],
    )

    def axis_setup(S):
        from pyvc.values import PList

        nx, ny, nz = S.real("nx"), S.real("ny"), S.real("nz")
        S.assume(nx.z * nx.z + ny.z * ny.z + nz.z * nz.z == 1)
        return dict(n=PList([nx, ny, nz]), theta=S.real("theta"), nx=nx, ny=ny, nz=nz, **point(S))

    Rg.add(
        pure_inline=True, key=f"{UT}:rotate3d", prop="C12",
        setup=axis_setup,
        ensures=[("shape-4x4", shape44), ("homogeneous-last-row", affine_row),
                 ("rodrigues-right-handed", maps_to(lambda E, v, p: rodrigues(*cs(E, v), (R(v["nx"]), R(v["ny"]), R(v["nz"])), p)))],
    )


# ===========================================================================
# AffineTransform.__call__ / apply, TranslateOrigin.transform
def _first_root_pos(E, t):
    from contracts.common import col, nof

    pid = col(t, "pid").arr
    r = z3.Int(fresh_name("root_pos"))
    j = z3.Int(fresh_name("j"))
    E.assume(z3.And(r >= 0, r < nof(t), z3.Select(pid, r) == -1, z3.ForAll([j], z3.Implies(z3.And(j >= 0, j < r), z3.Select(pid, j) != -1))))
    return r


def tree_unchanged(t, t0):
    """frame clause "the input tree is untouched": `t` (the object as it is now) against its entry snapshot `t0`:
    same ndata keys, every column of the same length with the same entries, source / comments / names as they were"""
    from pyvc.values import Obj, PList, SArr

    if not isinstance(t, Obj) or set(t.fields) != set(t0.fields):
        return False
    nd, nd0 = t.fields["ndata"].items, t0.fields["ndata"].items
    if nd is None or nd0 is None or list(nd) != list(nd0):
        return False
    out = []
    for c in nd0:
        a, b = nd[c], nd0[c]
        if type(a) is not type(b) or a.kind != b.kind:
            return False
        if isinstance(a, SArr):
            out.append(a.nz() == b.nz())
            if not a.arr.eq(b.arr):
                i = z3.Int(fresh_name("i"))
                out.append(z3.ForAll([i], z3.Implies(z3.And(i >= 0, i < b.nz()), z3.Select(a.arr, i) == z3.Select(b.arr, i))))
        else:
            if a.shape != b.shape:
                return False
            out.extend(to_z3(p, a.kind) == to_z3(q, a.kind) for p, q in zip(a.items, b.items))
    for f in ("source", "names", "types"):
        if f in t0.fields and t.fields[f] is not t0.fields[f] and t.fields[f] != t0.fields[f]:
            return False
    cm, cm0 = t.fields.get("comments"), t0.fields.get("comments")
    if isinstance(cm0, PList) and (not isinstance(cm, PList) or cm.items != cm0.items):
        return False
    return z3.And(*out) if out else True


def _M3(tm):
    it = tm.items
    return [[R(it[4 * r + c]) for c in range(4)] for r in range(3)]


def register_affine(Rg):
    from contracts.common import col, nof, sym_tree

    def aff_obj(S, center):
        from swcgeom.transforms.geometry import AffineTransform

        tm = NArr((4, 4), [S.real(f"m{r}{c}") for r in range(4) for c in range(4)], "real")
        return S.obj(AffineTransform, tm=tm, center=center)

    affine_pre = ("matrix-is-affine", lambda E, v, o: (lambda it: z3.And(R(it[12]) == 0, R(it[13]) == 0, R(it[14]) == 0, R(it[15]) == 1))(v["self"].fields["tm"].items))
    has_root = ("has-a-root", lambda E, v, o: (lambda t, j: z3.Exists([j], z3.And(j >= 0, j < nof(t), z3.Select(col(t, "pid").arr, j) == -1)))(v["x"], z3.Int(fresh_name("j"))))

    def moved(center):
        def f(E, v, o):
            x0, y = o["x"], v["result"]
            M = _M3(o["self"].fields["tm"])
            i = z3.Int(fresh_name("i"))
            n = nof(x0)
            p = [z3.Select(col(x0, c).arr, i) for c in "xyz"]
            q = [z3.Select(col(y, c).arr, i) for c in "xyz"]
            if center == "origin":
                c0 = [z3.RealVal(0)] * 3
            else:
                r = _first_root_pos(E, x0)
                c0 = [z3.Select(col(x0, c).arr, r) for c in "xyz"]
            d = [p[k] - c0[k] for k in range(3)]
            # the stated map about the stated centre: q = A (p - c) + b + c, so the centre
            # moves by the matrix' own translation part only (fixed for scaling / rotation)
            exp = [M[k][0] * d[0] + M[k][1] * d[1] + M[k][2] * d[2] + M[k][3] + c0[k] for k in range(3)]
            return z3.ForAll([i], z3.Implies(z3.And(i >= 0, i < n), z3.And(*[q[k] == exp[k] for k in range(3)])))

        return f

    def untouched(E, v, o):
        x0, y = o["x"], v["result"]
        i = z3.Int(fresh_name("i"))
        n = nof(x0)
        same = [z3.Select(col(y, c).arr, i) == z3.Select(col(x0, c).arr, i) for c in ("id", "type", "r", "pid")]
        return z3.And(nof(y) == n, set(y.fields["ndata"].items) == set(x0.fields["ndata"].items), z3.ForAll([i], z3.Implies(z3.And(i >= 0, i < n), z3.And(*same))))

    def xyz_lengths(E, v, o):
        """every column of the result (the replaced x / y / z included) has the input's length"""
        x0, y = o["x"], v["result"]
        return z3.And(*[col(y, c).nz() == nof(x0) for c in y.fields["ndata"].items])

    def result_fresh(E, v, o):
        y = v["result"]
        return all(a.uid not in E.entry_uids for a in y.fields["ndata"].items.values()) and y.uid not in E.entry_uids and y.fields["ndata"].uid not in E.entry_uids

    def input_untouched(name):
        return (lambda E, v, o: tree_unchanged(v[name], o[name]))

    for center in ("origin", "root"):
        Rg.add(
            f"{GEO}:AffineTransform.__call__" + ("" if center == "origin" else ""),
            prop="C12",
        ) if False else None
    Rg.add(
        f"{GEO}:AffineTransform.__call__", prop="C12",
        variants={
            "center=origin": lambda S: dict(self=aff_obj(S, "origin"), x=sym_tree(S, "x")),
            "center=root": lambda S: dict(self=aff_obj(S, "root"), x=sym_tree(S, "x")),
            "center=soma": lambda S: dict(self=aff_obj(S, "soma"), x=sym_tree(S, "x")),
        },
        requires=[affine_pre, has_root],
        ensures=[("every-node-moved-by-the-stated-map-about-the-stated-centre", lambda E, v, o: moved("origin" if o["self"].fields["center"] == "origin" else "root")(E, v, o)),
                 ("topology-types-radii-untouched", untouched), ("result-is-fresh", result_fresh)],
    )

    def to_origin(E, v, o):
        x0, y = o["x"], v["result"]
        r = _first_root_pos(E, x0)
        i = z3.Int(fresh_name("i"))
        n = nof(x0)
        return z3.ForAll([i], z3.Implies(z3.And(i >= 0, i < n), z3.And(*[z3.Select(col(y, c).arr, i) == z3.Select(col(x0, c).arr, i) - z3.Select(col(x0, c).arr, r) for c in "xyz"])))

    Rg.add(
        f"{GEO}:TranslateOrigin.transform", prop="C12",
        setup=lambda S: dict(cls=__import__("swcgeom.transforms.geometry", fromlist=["x"]).TranslateOrigin, x=sym_tree(S, "x")),
        requires=[has_root],
        ensures=[("root-moved-to-origin-rigidly", to_origin), ("topology-types-radii-untouched", untouched), ("result-is-fresh", result_fresh)],
    )

    # ------------------------------------------------------------------ AffineTransform.apply (static): ANY 4x4 matrix
    def w_nonzero(E, v, o):
        x0, it = v["x"], v["tm"].items
        i = z3.Int(fresh_name("i"))
        p = [z3.Select(col(x0, c).arr, i) for c in "xyz"]
        w = R(it[12]) * p[0] + R(it[13]) * p[1] + R(it[14]) * p[2] + R(it[15])
        return z3.ForAll([i], z3.Implies(z3.And(i >= 0, i < nof(x0)), w != 0))

    def projective(E, v, o):
        """every node p -> (M (p,1))[0:3] / (M (p,1))[3]"""
        x0, y, tm = o["x"], v["result"], o["tm"]
        i = z3.Int(fresh_name("i"))
        p = tuple(z3.Select(col(x0, c).arr, i) for c in "xyz")
        q = [z3.Select(col(y, c).arr, i) for c in "xyz"]
        h = act(tm, p)
        return z3.ForAll([i], z3.Implies(z3.And(i >= 0, i < nof(x0)), z3.And(*[q[k] * h[3] == h[k] for k in range(3)], h[3] != 0)))

    def matrix_untouched(name):
        def f(E, v, o):
            a, b = v[name] if name in v else v["self"].fields[name], o[name] if name in o else o["self"].fields[name]
            return a.shape == b.shape and z3.And(*[R(x) == R(y) for x, y in zip(a.items, b.items)])

        return f

    def apply_setup(S):
        tm = NArr((4, 4), [S.real(f"m{r}{c}") for r in range(4) for c in range(4)], "real")
        tm.frozen = True
        return dict(x=sym_tree(S, "x"), tm=tm)

    Rg.add(
        f"{GEO}:AffineTransform.apply", prop="C12", setup=apply_setup,
        requires=[("homogeneous-coordinate-nonzero-at-every-node", w_nonzero)],
        ensures=[("every-node-p-goes-to-(M.p)/w", projective), ("topology-types-radii-untouched", untouched), ("coordinate-columns-keep-their-length", xyz_lengths),
                 ("result-is-fresh", result_fresh), ("input-untouched", input_untouched("x")), ("matrix-untouched", matrix_untouched("tm"))],
        notes="any 4x4 matrix whose homogeneous coordinate does not vanish on the nodes (numpy would give inf/nan there)",
    )

    # ------------------------------------------------------------------ AffineTransform.__init__
    def init_setup(center, fmt, names):
        def f(S):
            from swcgeom.transforms.geometry import AffineTransform

            tm = NArr((4, 4), [S.real(f"m{r}{c}") for r in range(4) for c in range(4)], "real")
            tm.frozen = True
            return dict(self=S.obj(AffineTransform), tm=tm, center=center, fmt=fmt, names=names)

        return f

    def warned(E, v, o):
        return len(E.warn_log) == (o["fmt"] is not None) + (o["names"] is not None)

    Rg.add(
        f"{GEO}:AffineTransform.__init__", prop="C12",
        variants={"center=origin": init_setup("origin", None, None), "center=root": init_setup("root", None, None), "center=soma": init_setup("soma", None, None),
                  "fmt-given": init_setup("origin", "Rotate-1-0-0-0.5000", None), "names-given": init_setup("root", None, __import__("swcgeom.core.swc_utils", fromlist=["x"]).get_names())},
        ensures=["stores-the-matrix-it-was-given :: same(self.tm, tm)", "centre-as-requested :: self.center == center",
                 ("matrix-untouched", matrix_untouched("tm")), ("one-deprecation-warning-per-deprecated-argument", warned)],
        notes="no validation of `center` exists in the code: any value other than 'root' / 'soma' is treated as 'origin' by __call__",
    )

    # ------------------------------------------------------------------ TranslateOrigin.__call__ (plumbing to the classmethod)
    Rg.add(
        f"{GEO}:TranslateOrigin.__call__", prop="C12",
        setup=lambda S: dict(self=S.obj(__import__("swcgeom.transforms.geometry", fromlist=["x"]).TranslateOrigin), x=sym_tree(S, "x")),
        requires=[has_root],
        ensures=[("root-moved-to-origin-rigidly", to_origin), ("topology-types-radii-untouched", untouched), ("coordinate-columns-keep-their-length", xyz_lengths),
                 ("result-is-fresh", result_fresh), ("input-untouched", input_untouched("x"))],
    )


_reg0 = register


def register(Rg):  # noqa: F811
    _reg0(Rg)
    register_affine(Rg)


# ===========================================================================
# constructors and derived lemmas
def register_ctors(Rg):
    def tm_acts(expected):
        def f(E, v, o):
            p = (R(v["px"]), R(v["py"]), R(v["pz"]))
            got = act(v["self"].fields["tm"], p)
            exp = expected(E, v, p)
            return z3.And(*[g == e for g, e in zip(got[:3], exp)], got[3] == 1)

        return f

    def cs(E, v):
        c, s = trig(E, v["theta"])
        return R(c), R(s)

    import swcgeom.transforms.geometry as G

    def mk(cls, **params):
        def setup(S):
            d = dict(self=S.obj(cls), **point(S))
            for k, kind in params.items():
                d[k] = S.real(k) if kind == "real" else kind
            return d

        return setup

    Rg.add(f"{GEO}:Translate.__init__", prop="C12", setup=mk(G.Translate, tx="real", ty="real", tz="real"),
           ensures=[("matrix-translates-by-t", tm_acts(lambda E, v, p: [p[0] + R(v["tx"]), p[1] + R(v["ty"]), p[2] + R(v["tz"])])),
                    "centre-is-origin :: self.center == 'origin'"])
    for center in ("root", "origin"):
        pass
    Rg.add(f"{GEO}:Scale.__init__", prop="C12",
           variants={c: mk(G.Scale, sx="real", sy="real", sz="real", center=c) for c in ("root", "origin")},
           ensures=[("matrix-scales-per-axis", tm_acts(lambda E, v, p: [p[0] * R(v["sx"]), p[1] * R(v["sy"]), p[2] * R(v["sz"])])),
                    "centre-as-requested :: self.center == center"])
    Rg.add(f"{GEO}:RotateX.__init__", prop="C12", variants={c: mk(G.RotateX, theta="real", center=c) for c in ("root", "origin")},
           ensures=[("matrix-rotates-about-x", tm_acts(lambda E, v, p: (lambda c, s: [p[0], c * p[1] - s * p[2], s * p[1] + c * p[2]])(*cs(E, v)))),
                    "centre-as-requested :: self.center == center"])
    Rg.add(f"{GEO}:RotateY.__init__", prop="C12", variants={c: mk(G.RotateY, theta="real", center=c) for c in ("root", "origin")},
           ensures=[("matrix-rotates-about-y", tm_acts(lambda E, v, p: (lambda c, s: [c * p[0] + s * p[2], p[1], -s * p[0] + c * p[2]])(*cs(E, v)))),
                    "centre-as-requested :: self.center == center"])
    Rg.add(f"{GEO}:RotateZ.__init__", prop="C12", variants={c: mk(G.RotateZ, theta="real", center=c) for c in ("root", "origin")},
           ensures=[("matrix-rotates-about-z", tm_acts(lambda E, v, p: (lambda c, s: [c * p[0] - s * p[1], s * p[0] + c * p[1], p[2]])(*cs(E, v)))),
                    "centre-as-requested :: self.center == center"])

    def rot_setup(center):
        def setup(S):
            nx, ny, nz = S.real("nx"), S.real("ny"), S.real("nz")
            S.assume(nx.z * nx.z + ny.z * ny.z + nz.z * nz.z == 1)
            return dict(self=S.obj(G.Rotate), n=NArr((3,), [nx, ny, nz], "real"), theta=S.real("theta"), center=center, nx=nx, ny=ny, nz=nz, **point(S))

        return setup

    Rg.add(f"{GEO}:Rotate.__init__", prop="C12", variants={c: rot_setup(c) for c in ("root", "origin")},
           ensures=[("matrix-is-rodrigues", tm_acts(lambda E, v, p: rodrigues(*cs(E, v), (R(v["nx"]), R(v["ny"]), R(v["nz"])), p))),
                    "centre-as-requested :: self.center == center"])


def lemmas():
    """Derived facts over the builders' spec forms (pure real arithmetic)."""
    out = []
    c, s, nx, ny, nz = z3.Reals("c s nx ny nz")
    px, py, pz, qx, qy, qz = z3.Reals("px py pz qx qy qz")
    circ = [c * c + s * s == 1]
    unit = [nx * nx + ny * ny + nz * nz == 1]
    d2 = lambda a, b: sum(((a[k] - b[k]) * (a[k] - b[k]) for k in range(3)), z3.RealVal(0))
    forms = {
        "x": lambda p: [p[0], c * p[1] - s * p[2], s * p[1] + c * p[2]],
        "y": lambda p: [c * p[0] + s * p[2], p[1], -s * p[0] + c * p[2]],
        "z": lambda p: [c * p[0] - s * p[1], s * p[0] + c * p[1], p[2]],
    }
    P, Q = (px, py, pz), (qx, qy, qz)
    for ax, f in forms.items():
        out.append((f"rotation-{ax}-preserves-distances", circ, d2(f(P), f(Q)) == d2(P, Q)))
        inv = {"x": lambda p: [p[0], c * p[1] + s * p[2], -s * p[1] + c * p[2]],
               "y": lambda p: [c * p[0] - s * p[2], p[1], s * p[0] + c * p[2]],
               "z": lambda p: [c * p[0] + s * p[1], -s * p[0] + c * p[1], p[2]]}[ax]
        out.append((f"rotation-{ax}-then-inverse-is-identity", circ, z3.And(*[a == b for a, b in zip(inv(f(P)), P)])))
    rod = lambda p: rodrigues(c, s, (nx, ny, nz), p)
    out.append(("rodrigues-fixes-its-axis", circ + unit, z3.And(*[a == b for a, b in zip(rod((nx, ny, nz)), (nx, ny, nz))])))
    out.append(("rodrigues-preserves-distances", circ + unit, d2(rod(P), rod(Q)) == d2(P, Q)))
    rod_inv = lambda p: rodrigues(c, -s, (nx, ny, nz), p)
    out.append(("rodrigues-then-inverse-is-identity", circ + unit, z3.And(*[a == b for a, b in zip(rod_inv(rod(P)), P)])))
    sx, sy, sz, tx, ty, tz = z3.Reals("sx sy sz tx ty tz")
    out.append(("scale-then-inverse-is-identity", [sx != 0, sy != 0, sz != 0], z3.And(px * sx * (1 / sx) == px, py * sy * (1 / sy) == py, pz * sz * (1 / sz) == pz)))
    out.append(("translate-then-inverse-is-identity", [], z3.And(px + tx - tx == px, py + ty - ty == py, pz + tz - tz == pz)))
    # centred map p -> A(p - r) + r fixes r when A has no translation part
    rx = z3.Real("rx")
    return out


_reg1 = register


def register(Rg):  # noqa: F811
    _reg1(Rg)
    register_ctors(Rg)
