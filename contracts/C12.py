"""C12 — geometric transforms: sidecar contracts over the reals.

cos/sin of an angle are an abstract point (c, s) of the unit circle (pyvc.narr.trig);
4x4 matrices are 16 real terms; numpy shape errors surface as ValueError obligations.
"""
import z3

from pyvc.narr import trig
from pyvc.spec import Registry
from pyvc.values import NArr, Sym, fresh_name, to_z3

UT = "swcgeom/utils/transforms.py"
GEO = "swcgeom/transforms/geometry.py"


def R(v):
    return to_z3(v, "real")


def act(M: NArr, p):
    """M . (p, 1) for a (4,4) NArr and a 3-tuple of z3 reals -> 4 z3 reals."""
    it = M.items
    hp = list(p) + [z3.RealVal(1)]
    return [sum((R(it[4 * r + c]) * hp[c] for c in range(4)), z3.RealVal(0)) for r in range(4)]


def shape44(E, vars, old):
    r = vars["result"]
    return isinstance(r, NArr) and r.shape == (4, 4)


def point(S):
    return dict(px=S.real("px"), py=S.real("py"), pz=S.real("pz"))


def affine_row(E, vars, old):
    it = vars["result"].items
    return z3.And(R(it[12]) == 0, R(it[13]) == 0, R(it[14]) == 0, R(it[15]) == 1)


def maps_to(expected):
    """clause: result . (p,1) == (expected(vars), 1) for the free point p"""

    def f(E, vars, old):
        p = (R(vars["px"]), R(vars["py"]), R(vars["pz"]))
        got = act(vars["result"], p)
        exp = expected(E, vars, p)
        return z3.And(*[g == e for g, e in zip(got[:3], exp)], got[3] == 1)

    return f


def rodrigues(c, s, n, p):
    """c p + (1-c)(n.p) n + s (n x p)"""
    nx, ny, nz = n
    px, py, pz = p
    d = nx * px + ny * py + nz * pz
    cr = (ny * pz - nz * py, nz * px - nx * pz, nx * py - ny * px)
    return [c * p[k] + (1 - c) * d * n[k] + s * cr[k] for k in range(3)]


def register(Rg: Registry):
    Rg.add(
        f"{UT}:translate3d", prop="C12",
        setup=lambda S: dict(tx=S.real("tx"), ty=S.real("ty"), tz=S.real("tz"), **point(S)),
        ensures=[("shape-4x4", shape44), ("homogeneous-last-row", affine_row),
                 ("moves-every-point-by-t", maps_to(lambda E, v, p: [p[0] + R(v["tx"]), p[1] + R(v["ty"]), p[2] + R(v["tz"])]))],
    )
    Rg.add(
        f"{UT}:scale3d", prop="C12",
        setup=lambda S: dict(sx=S.real("sx"), sy=S.real("sy"), sz=S.real("sz"), **point(S)),
        ensures=[("shape-4x4", shape44), ("homogeneous-last-row", affine_row),
                 ("scales-per-axis", maps_to(lambda E, v, p: [p[0] * R(v["sx"]), p[1] * R(v["sy"]), p[2] * R(v["sz"])]))],
    )

    def cs(E, v):
        c, s = trig(E, v["theta"])
        return R(c), R(s)

    # right-handed: z-axis turns e_x towards e_y, x-axis e_y towards e_z, y-axis e_z towards e_x
    Rg.add(
        f"{UT}:rotate3d_z", prop="C12",
        setup=lambda S: dict(theta=S.real("theta"), **point(S)),
        ensures=[("shape-4x4", shape44), ("homogeneous-last-row", affine_row),
                 ("right-handed-about-z", maps_to(lambda E, v, p: (lambda c, s: [c * p[0] - s * p[1], s * p[0] + c * p[1], p[2]])(*cs(E, v))))],
    )
    Rg.add(
        f"{UT}:rotate3d_x", prop="C12",
        setup=lambda S: dict(theta=S.real("theta"), **point(S)),
        ensures=[("shape-4x4", shape44), ("homogeneous-last-row", affine_row),
                 ("right-handed-about-x", maps_to(lambda E, v, p: (lambda c, s: [p[0], c * p[1] - s * p[2], s * p[1] + c * p[2]])(*cs(E, v))))],
    )
    Rg.add(
        f"{UT}:rotate3d_y", prop="C12",
        setup=lambda S: dict(theta=S.real("theta"), **point(S)),
        ensures=[("shape-4x4", shape44), ("homogeneous-last-row", affine_row),
                 ("right-handed-about-y", maps_to(lambda E, v, p: (lambda c, s: [c * p[0] + s * p[2], p[1], -s * p[0] + c * p[2]])(*cs(E, v))))],
    )

    def axis_setup(S):
        from pyvc.values import PList

        nx, ny, nz = S.real("nx"), S.real("ny"), S.real("nz")
        S.assume(nx.z * nx.z + ny.z * ny.z + nz.z * nz.z == 1)
        return dict(n=PList([nx, ny, nz]), theta=S.real("theta"), nx=nx, ny=ny, nz=nz, **point(S))

    Rg.add(
        f"{UT}:rotate3d", prop="C12",
        setup=axis_setup,
        ensures=[("shape-4x4", shape44), ("homogeneous-last-row", affine_row),
                 ("rodrigues-right-handed", maps_to(lambda E, v, p: rodrigues(*cs(E, v), (R(v["nx"]), R(v["ny"]), R(v["nz"])), p)))],
    )
