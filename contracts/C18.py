"""C18 — topology diagnosis and root repair: sidecar contracts."""
import z3

from pyvc import ext_C18

from pyvc.spec import Registry, SpecFn
from pyvc.values import PDict, PList, SArr, Sym, fresh_name, to_z3, zint

DSU = "swcgeom/utils/dsu.py"
CHK = "swcgeom/core/swc_utils/checker.py"
NORM = "swcgeom/core/swc_utils/normalizer.py"

ext_C18.install()

# ---------------------------------------------------------------------------
# DisjointSetUnion against an abstract partition view.
# Ghost fields on the object: g_rep (class representative) and g_dst (distance
# to the representative along parent links).  `rank` is deliberately
# unconstrained: it affects depth, not the partition.


def dsu_obj(S):
    from swcgeom.utils.dsu import DisjointSetUnion

    n = S.int("n")
    S.assume(n.z >= 0)
    par = S.plist("int", n=n, name="parent")
    rank = S.plist("int", n=n, name="rank")
    rep = S.arr("int", n=n, name="rep")
    dst = S.arr("int", n=n, name="dst")
    return S.obj(DisjointSetUnion, element_parent=par, rank=rank, g_rep=rep, g_dst=dst)


def INV(P, n, R, D):
    """P, R, D: z3 arrays; n: z3 int."""
    i = z3.Int(fresh_name("i"))
    rng = z3.And(i >= 0, i < n)
    Pi, Ri, Di = z3.Select(P, i), z3.Select(R, i), z3.Select(D, i)
    return [
        ("parents-in-range", z3.ForAll([i], z3.Implies(rng, z3.And(Pi >= 0, Pi < n)))),
        ("rep-is-a-root", z3.ForAll([i], z3.Implies(rng, z3.And(Ri >= 0, Ri < n, z3.Select(P, Ri) == Ri)))),
        ("rep-constant-along-links", z3.ForAll([i], z3.Implies(rng, z3.Select(R, Pi) == Ri))),
        ("root-is-own-rep", z3.ForAll([i], z3.Implies(z3.And(rng, Pi == i), Ri == i))),
        ("distance-witness", z3.ForAll([i], z3.Implies(rng, z3.And(Di >= 0, (Di == 0) == (Pi == i), z3.Implies(Pi != i, z3.Select(D, Pi) < Di))))),
    ]


def inv_clauses(prefix, pick_old=False):
    out = []
    for idx, lab in enumerate(["parents-in-range", "rep-is-a-root", "rep-constant-along-links", "root-is-own-rep", "distance-witness"]):
        def f(E, vars, old, _i=idx):
            s = (old if pick_old else vars)["self"]
            P = s.fields["element_parent"]
            return INV(P.cols[0], zint(P.n), s.fields["g_rep"].arr, s.fields["g_dst"].arr)[_i][1]

        out.append((f"{prefix}{lab}", f))
    return out


def _len_kept(E, vars, old):
    s, o = vars["self"], old["self"]
    return z3.And(zint(s.fields["element_parent"].n) == zint(o.fields["element_parent"].n))


def register(R: Registry):
    wf_len = "lists-same-length :: len_(self.rank) == len_(self.element_parent)"

    # --------------------------------------------------------------- __init__
    def init_ghost(E, vars, old):
        s = vars["self"]
        P = s.fields["element_parent"]
        i = z3.Int(fresh_name("i"))
        s.fields["g_rep"] = SArr(z3.Lambda([i], i), P.n, "int", name="rep")
        s.fields["g_dst"] = SArr(z3.K(z3.IntSort(), z3.IntVal(0)), P.n, "int", name="dst")

    def init_shape(S, fr):
        """at call sites: the constructed object gets symbolic fields of the stated size (constrained by the ensures)"""
        obj, n = fr.vars["self"], fr.vars["node_number"]
        nz = to_z3(n, "int")
        obj.fields["element_parent"] = PList.fresh("int", nz, name="parent")
        obj.fields["rank"] = PList.fresh("int", nz, name="rank")
        obj.fields["g_rep"] = SArr.fresh("int", nz, name="rep")
        obj.fields["g_dst"] = SArr.fresh("int", nz, name="dst")
        return None

    R.add(
        f"{DSU}:DisjointSetUnion.__init__",
        prop="C18",
        setup=lambda S: dict(self=S.obj(__import__("swcgeom.utils.dsu", fromlist=["x"]).DisjointSetUnion), node_number=S.int("n")),
        requires=["node_number >= 0"],
        returns=init_shape,
        ghost_exit=init_ghost,
        ensures=["size :: len_(self.element_parent) == node_number", wf_len,
                 "all-singletons :: forall(0, node_number, lambda i: self.g_rep[i] == i)"] + inv_clauses("inv/"),
    )

    # ------------------------------------------------------------ find_parent
    R.add(
        f"{DSU}:DisjointSetUnion.find_parent",
        prop="C18",
        setup=lambda S: dict(self=dsu_obj(S), node_id=S.int("x")),
        requires=[wf_len, "node-in-range :: 0 <= node_id and node_id < len_(self.element_parent)"] + inv_clauses("inv/"),
        modifies=["self.element_parent"],
        returns="int",
        ensures=["returns-the-representative :: result == self.g_rep[node_id]", ("size-kept", _len_kept),
                 "compression-only :: forall(0, len_(self.element_parent), lambda j: self.element_parent[j] == old(self.element_parent)[j] or self.element_parent[j] == self.g_rep[j])",
                 ] + inv_clauses("inv/"),
        options=dict(measure=lambda E, vars: vars["self"].fields["g_dst"].get(vars["node_id"])),
    )

    # ------------------------------------------------------------ is_same_set
    R.add(
        f"{DSU}:DisjointSetUnion.is_same_set",
        prop="C18",
        setup=lambda S: dict(self=dsu_obj(S), node_a=S.int("a"), node_b=S.int("b")),
        requires=[wf_len, "a-in-range :: 0 <= node_a and node_a < len_(self.element_parent)",
                  "b-in-range :: 0 <= node_b and node_b < len_(self.element_parent)"] + inv_clauses("inv/"),
        modifies=["self.element_parent"],
        returns="bool",
        ensures=["joined-iff-same-class :: result == (self.g_rep[node_a] == self.g_rep[node_b])", ("size-kept", _len_kept)] + inv_clauses("inv/"),
    )

    # ------------------------------------------------------------- union_sets
    def union_ghost(E, vars, old):
        s, o = vars["self"], old["self"]
        P1 = s.fields["element_parent"].cols[0]
        R0, D0 = o.fields["g_rep"].arr, o.fields["g_dst"].arr
        a, b = to_z3(vars["node_a"], "int"), to_z3(vars["node_b"], "int")
        ra, rb = z3.Select(R0, a), z3.Select(R0, b)
        a_lost = z3.Select(P1, ra) != ra
        loser = z3.If(a_lost, ra, rb)
        winner = z3.If(a_lost, rb, ra)
        i = z3.Int(fresh_name("i"))
        merged = ra != rb
        n = s.fields["element_parent"].n
        s.fields["g_rep"] = SArr(z3.Lambda([i], z3.If(z3.And(merged, z3.Select(R0, i) == loser), winner, z3.Select(R0, i))), n, "int", name="rep")
        s.fields["g_dst"] = SArr(z3.Lambda([i], z3.If(z3.And(merged, z3.Select(R0, i) == loser), z3.Select(D0, i) + 1, z3.Select(D0, i))), n, "int", name="dst")

    def view_clause(E, vars, old):
        s, o = vars["self"], old["self"]
        R0, R1 = o.fields["g_rep"].arr, s.fields["g_rep"].arr
        n = zint(s.fields["element_parent"].n)
        a, b = to_z3(vars["node_a"], "int"), to_z3(vars["node_b"], "int")
        i, j = z3.Ints(fresh_name("i") + " " + fresh_name("j"))
        same0 = lambda x, y: z3.Select(R0, x) == z3.Select(R0, y)
        same1 = lambda x, y: z3.Select(R1, x) == z3.Select(R1, y)
        rng = z3.And(i >= 0, i < n, j >= 0, j < n)
        return z3.ForAll([i, j], z3.Implies(rng, same1(i, j) == z3.Or(same0(i, j), z3.And(same0(i, a), same0(j, b)), z3.And(same0(i, b), same0(j, a)))))

    R.add(
        f"{DSU}:DisjointSetUnion.union_sets",
        prop="C18",
        setup=lambda S: dict(self=dsu_obj(S), node_a=S.int("a"), node_b=S.int("b")),
        requires=[wf_len, "a-in-range :: 0 <= node_a and node_a < len_(self.element_parent)",
                  "b-in-range :: 0 <= node_b and node_b < len_(self.element_parent)"] + inv_clauses("inv/"),
        modifies=["self.element_parent", "self.rank", "self.g_rep", "self.g_dst"],
        ghost_exit=union_ghost,
        ensures=[("whole-view-is-the-generated-equivalence", view_clause), ("size-kept", _len_kept),
                 "rank-size-kept :: len_(self.rank) == len_(self.element_parent)"] + inv_clauses("inv/"),
    )

    # ---------------------------------------------------------- validate_node
    R.add(
        f"{DSU}:DisjointSetUnion.validate_node",
        prop="C18",
        setup=lambda S: dict(self=dsu_obj(S), node_id=S.int("x")),
        returns="bool",
        pure_inline=True,
        ensures=["range-test :: result == (0 <= node_id and node_id < len_(self.element_parent))"],
    )


# ===========================================================================
# normalizer: reset_index_, mark_roots_as_somas_
SWC_COLS = dict(id="int", type="int", x="real", y="real", z="real", r="real", pid="int")


def _frame_uids(df):
    """allocation identities of a frame and of its column arrays (the engine's entry set does not look inside frames)"""
    return {df.uid} | {c.uid for c in df.cols.values()}


def _first_root(E, df_old):
    """ghost: position of the first row whose pid is -1 (as a z3 term with axioms)."""
    pid = df_old.cols["pid"]
    r = z3.Int(fresh_name("root_loc"))
    j = z3.Int(fresh_name("j"))
    E.assume(z3.And(r >= 0, r < zint(df_old.n), z3.Select(pid.arr, r) == -1, z3.ForAll([j], z3.Implies(z3.And(j >= 0, j < r), z3.Select(pid.arr, j) != -1))))
    return r


def register_normalizer(R):
    has_root = "has-a-root :: exists(0, len_(df), lambda i: df['pid'][i] == -1)"

    def frame_other_cols(cols):
        def f(E, vars, old):
            d1, d0 = vars["df"], old["df"]
            out = []
            for c in d0.cols:
                if c in cols:
                    continue
                i = z3.Int(fresh_name("i"))
                out.append(z3.ForAll([i], z3.Implies(z3.And(i >= 0, i < zint(d0.n)), z3.Select(d1.cols[c].arr, i) == z3.Select(d0.cols[c].arr, i))))
            return z3.And(set(d1.cols) == set(d0.cols), zint(d1.n) == zint(d0.n), *out)

        return f

    def reset_post(which):
        def f(E, vars, old):
            d1, d0 = vars["df"], old["df"]
            r = _first_root(E, d0)
            rid = z3.Select(d0.cols["id"].arr, r)
            i = z3.Int(fresh_name("i"))
            rng = z3.And(i >= 0, i < zint(d0.n))
            id0, id1 = z3.Select(d0.cols["id"].arr, i), z3.Select(d1.cols["id"].arr, i)
            p0, p1 = z3.Select(d0.cols["pid"].arr, i), z3.Select(d1.cols["pid"].arr, i)
            if which == "ids":
                return z3.ForAll([i], z3.Implies(rng, id1 == id0 - rid))
            if which == "edges":
                return z3.ForAll([i], z3.Implies(z3.And(rng, p0 != -1), p1 == p0 - rid))
            if which == "roots":
                return z3.ForAll([i], z3.Implies(z3.And(rng, p0 == -1), p1 == -1))

        return f

    R.add(
        f"{NORM}:reset_index_",
        prop="C18",
        setup=lambda S: dict(df=S.dframe(SWC_COLS), names=None),
        requires=[has_root],
        modifies=["df"],
        ensures=[("ids-rebased-on-first-root", reset_post("ids")), ("edges-rebased", reset_post("edges")),
                 ("every-root-stays-root", reset_post("roots")), ("attributes-untouched", frame_other_cols({"id", "pid"}))],
    )

    def marks_post(which):
        def f(E, vars, old):
            d1, d0 = vars["df"], old["df"]
            r = _first_root(E, d0)
            rid = z3.Select(d0.cols["id"].arr, r)
            i = z3.Int(fresh_name("i"))
            rng = z3.And(i >= 0, i < zint(d0.n))
            p0, p1 = z3.Select(d0.cols["pid"].arr, i), z3.Select(d1.cols["pid"].arr, i)
            if which == "first-root-kept":
                return z3.Select(d1.cols["pid"].arr, r) == -1
            if which == "single-root":
                return z3.ForAll([i], z3.Implies(z3.And(rng, i != r), p1 != -1))
            if which == "other-roots-linked":
                return z3.ForAll([i], z3.Implies(z3.And(rng, i != r, p0 == -1), p1 == rid))
            if which == "edges-kept":
                return z3.ForAll([i], z3.Implies(z3.And(rng, p0 != -1), p1 == p0))

        return f

    for variant, ut in (("update_type=False", False),):
        pass
    R.add(
        f"{NORM}:mark_roots_as_somas_",
        prop="C18",
        variants={
            "update_type=1": lambda S: dict(df=S.dframe(SWC_COLS), update_type=1, names=None),
            "update_type=False": lambda S: dict(df=S.dframe(SWC_COLS), update_type=False, names=None),
        },
        # ids are node identifiers: -1 is the "no parent" marker, never an id
        requires=[has_root, "ids-are-not-the-marker :: forall(0, len_(df), lambda i: df['id'][i] != -1)"],
        modifies=["df"],
        ensures=[("first-root-kept", marks_post("first-root-kept")), ("single-root", marks_post("single-root")),
                 ("other-roots-linked-to-first", marks_post("other-roots-linked")), ("every-original-edge-kept", marks_post("edges-kept")),
                 ("attributes-untouched", frame_other_cols({"pid"}))],
    )

    # ------------------------------------------------------------------ the copying forms
    # _copy_and_apply(fn, df, *args, **kwargs): fn is an UNKNOWN callable (it may rewrite the frame it is given in any way)
    def caa_setup(S):
        from pyvc.loops import havoc_value
        from pyvc.values import snapshot

        def fn_model(eng, args, kwargs):
            eng.assumptions.add("callback-model(local to _copy_and_apply): fn may rewrite the contents of the frame it receives, nothing else")
            eng.ghost.setdefault("fn-calls", []).append(dict(args=list(args), kwargs=dict(kwargs), at_call=snapshot(args[0]) if args else None))
            if args:
                havoc_value(eng, args[0])
            return None

        cols = dict(SWC_COLS)
        cols["w"] = "real"  # an extra per-node column travels along
        df = S.dframe(cols)
        df.frozen = True
        return dict(fn=S.callback("fn", fn_model), df=df, args=(S.int("a0"),), kwargs=PDict({"k": S.int("k0")}))

    def caa_post(which):
        def f(E, v, o):
            calls = E.ghost.get("fn-calls", [])
            if len(calls) != 1 or not calls[0]["args"]:
                return False
            c = calls[0]
            got, d0 = c["args"][0], o["df"]
            if which == "fn-applied-once-to-an-equal-copy-with-the-given-arguments":
                if not hasattr(got, "cols") or got.uid in _frame_uids(d0) or list(c["at_call"].cols) != list(d0.cols):
                    return False  # fn must get a COPY: an object allocated by this call
                rest_ok = len(c["args"]) == 1 + len(o["args"]) and all(a is b for a, b in zip(c["args"][1:], v["args"])) and set(c["kwargs"]) == set(o["kwargs"].items) \
                    and all(c["kwargs"][k_] is v["kwargs"].items[k_] for k_ in c["kwargs"])
                same = [zint(c["at_call"].n) == zint(d0.n)] + [c["at_call"].cols[k_].arr == d0.cols[k_].arr for k_ in d0.cols]
                return z3.And(z3.BoolVal(bool(rest_ok)), *same)
            if which == "returns-the-frame-fn-worked-on":
                return v["result"] is got
            if which == "result-shares-no-storage-with-the-input":
                return not (_frame_uids(got) & _frame_uids(d0))
            raise KeyError(which)

        return f

    R.add(f"{NORM}:_copy_and_apply", prop="C18", setup=caa_setup,
          ensures=[(nm, caa_post(nm)) for nm in ("fn-applied-once-to-an-equal-copy-with-the-given-arguments", "returns-the-frame-fn-worked-on",
                                                 "result-shares-no-storage-with-the-input")],
          notes="no `returns`: callers inline it, so the wrappers below see the in-place contract of the function they pass; the input frame is frozen")

    def on_result(clause):
        """a clause of the in-place form, read between the RESULT frame and the (untouched) input frame"""
        def f(E, v, o):
            r = v["result"]
            if not hasattr(r, "cols"):
                return False
            return clause(E, {"df": r}, o)

        return f

    def fresh_result(E, v, o):
        r = v["result"]
        return hasattr(r, "cols") and r is not v["df"] and not (_frame_uids(r) & _frame_uids(o["df"]))

    def frozen_frame(S, extra=True):
        cols = dict(SWC_COLS)
        if extra:
            cols["w"] = "real"
        df = S.dframe(cols)
        df.frozen = True
        return df

    R.add(f"{NORM}:reset_index", prop="C18",
          setup=lambda S: dict(df=frozen_frame(S), names=None),
          requires=[has_root],
          ensures=[("ids-rebased-on-first-root", on_result(reset_post("ids"))), ("edges-rebased", on_result(reset_post("edges"))),
                   ("every-root-stays-root", on_result(reset_post("roots"))), ("attributes-untouched", on_result(frame_other_cols({"id", "pid"}))),
                   ("result-is-a-fresh-frame", fresh_result)],
          notes="input frame frozen: `input untouched` is the absence of a failed frame-write obligation")

    R.add(f"{NORM}:mark_roots_as_somas", prop="C18",
          variants={
              "update_type=1": lambda S: dict(df=frozen_frame(S), update_type=1, names=None),
              "update_type=False": lambda S: dict(df=frozen_frame(S), update_type=False, names=None),
          },
          requires=[has_root, "ids-are-not-the-marker :: forall(0, len_(df), lambda i: df['id'][i] != -1)"],
          ensures=[("first-root-kept", on_result(marks_post("first-root-kept"))), ("single-root", on_result(marks_post("single-root"))),
                   ("other-roots-linked-to-first", on_result(marks_post("other-roots-linked"))),
                   ("every-original-edge-kept", on_result(marks_post("edges-kept"))),
                   ("attributes-untouched", on_result(frame_other_cols({"pid"}))), ("result-is-a-fresh-frame", fresh_result)])


_reg_dsu = register


def register(R):  # noqa: F811
    _reg_dsu(R)
    register_normalizer(R)


# ===========================================================================
# checker.py: is_bifurcate
def _dview(d):
    """(dom, val, lens) of a dict of int lists, concrete-empty or symbolic."""
    I = z3.IntSort()
    if d.items is not None:
        if d.items:
            raise ValueError("concrete non-empty dict in a clause")
        return z3.K(I, z3.BoolVal(False)), z3.K(I, z3.K(I, z3.IntVal(0))), z3.K(I, z3.IntVal(0))
    return d.dom, d.val, d.lens


# Second registrations on tables of a FIXED number of rows (docs/PYVC_GUIDE.md "Second registrations on tables of a fixed size"):
# every table of 0..FIXED_ROWS rows, contents symbolic.  Loops without a sidecar invariant unroll, the library models state their
# facts cell by cell (quantifier-free), the SAME clauses are decided at that size and a violated one is answered with a counter-model.
FIXED_ROWS = (0, 1, 2, 3, 4)
FIXED_NOTE = ("second registration on tables of a fixed number of rows, contents symbolic: a rewritten body (new loops, vector operations) is decided at that "
              "size, a violated clause is answered with a counter-model (a concrete table)")


def fixed_name(m, extra=""):
    return f"{m} rows, contents arbitrary" + (", " + extra if extra else "")


def all_rows(n, body):
    """forall 0 <= a < n: body(a) -- spelled out row by row when n is a Python int (the fixed-size registrations)"""
    if isinstance(n, int):
        return z3.And(*[body(z3.IntVal(q)) for q in range(n)]) if n else z3.BoolVal(True)
    a = z3.Int(fresh_name("a"))
    return z3.ForAll([a], z3.Implies(z3.And(0 <= a, a < n), body(a)))


def some_row(n, body):
    if isinstance(n, int):
        return z3.Or(*[body(z3.IntVal(q)) for q in range(n)]) if n else z3.BoolVal(False)
    a = z3.Int(fresh_name("a"))
    return z3.Exists([a], z3.And(0 <= a, a < n, body(a)))


def rows_of(arr):
    """the number of rows as a Python int (fixed-size registration) or a z3 term"""
    return arr.n if isinstance(arr.n, int) and not isinstance(arr.n, bool) else arr.nz()


def register_checker(R):
    def setup(exclude_root, size=None):
        def f(S):
            if size is not None:
                # exactly `size` rows; ids / parent ids arbitrary (under the preconditions below); both columns frozen
                ids, pids = S.arr("int", n=size, name="ids"), S.arr("int", n=size, name="pids")
                ids.frozen = pids.frozen = True
                return dict(topology=(ids, pids), exclude_root=exclude_root, __ghost__={"nch": None, "prow": None})
            n = S.int("n")
            S.assume(n.z >= 0)
            ids, pids = S.arr("int", n=n, name="ids"), S.arr("int", n=n, name="pids")
            # ghost: nch(k, i) = number of rows j < i with pids[j] == k.  It IS the counting function of the library models
            # (np.unique(return_counts) / np.bincount / Counter speak about the same symbol), defined by the recursion below
            nch = ext_C18.occ_fn(pids.arr)
            k, i = z3.Ints("k_nch i_nch")
            S.assume(z3.ForAll([k], nch(k, 0) == 0))
            S.assume(z3.ForAll([k, i], z3.Implies(i >= 0, nch(k, i + 1) == nch(k, i) + z3.If(z3.Select(pids.arr, i) == k, 1, 0)), patterns=[nch(k, i + 1)]))
            S.assume(z3.ForAll([k, i], z3.Implies(i >= 0, nch(k, i) >= 0), patterns=[nch(k, i)]))
            prow = z3.Function("prow", z3.IntSort(), z3.IntSort())  # ghost: row of a row's parent (Skolem function of `parents-exist`)
            return dict(topology=(ids, pids), exclude_root=exclude_root, __ghost__={"nch": nch, "prow": prow})

        return f

    def T(v):
        ids, pids = v["topology"]
        return ids, pids, ids.nz()

    def children_of(E, pids, k):
        """number of rows whose parent id is k: the ghost counter nch(k, n), or -- on a table of a fixed number of rows -- the sum written out"""
        if isinstance(rows_of(pids), int):
            return z3.Sum(*[z3.If(pids.get(j).z == k, 1, 0) for j in range(pids.n)]) if pids.n else z3.IntVal(0)
        return E.spec_extra["nch"](k, pids.nz())

    def pre_distinct(E, v, o):
        ids, pids, n = T(v)
        if isinstance(rows_of(ids), int):
            return z3.And(*[ids.get(a).z != ids.get(b).z for b in range(ids.n) for a in range(b)]) if ids.n > 1 else z3.BoolVal(True)
        a, b = z3.Ints(fresh_name("a") + " " + fresh_name("b"))
        return z3.ForAll([a, b], z3.Implies(z3.And(0 <= a, a < b, b < n), ids.get(a).z != ids.get(b).z))

    def pre_marker(E, v, o):
        ids, pids, n = T(v)
        return all_rows(rows_of(ids), lambda a: ids.get(a).z != -1)

    def pre_parents(E, v, o):
        ids, pids, n = T(v)
        if isinstance(rows_of(ids), int):  # the Skolem function prow is not needed: the parent row is one of finitely many
            return all_rows(ids.n, lambda a: z3.Or(pids.get(a).z == -1, some_row(ids.n, lambda b: ids.get(b).z == pids.get(a).z)))
        a = z3.Int(fresh_name("a"))
        b = E.spec_extra["prow"](a)
        return z3.ForAll([a], z3.Implies(z3.And(0 <= a, a < n, pids.get(a).z != -1), z3.And(0 <= b, b < n, ids.get(b).z == pids.get(a).z)))

    def post(E, v, o):
        ids, pids, n = T(v)
        ex = v["exclude_root"]
        ok = all_rows(rows_of(ids), lambda a: z3.Or(z3.And(z3.BoolVal(bool(ex)), pids.get(a).z == -1), children_of(E, pids, ids.get(a).z) <= 2))
        return to_z3(v["result"], "bool") == ok

    # loop 0: children[k] lists, in row order, the ids of the rows whose parent id is k
    # (ghost rrow(k, j) = the row behind the j-th entry of children[k])
    rrow = z3.Function("rrow", z3.IntSort(), z3.IntSort(), z3.IntSort())

    def inv0(which):
        def f(E, v, o):
            ids, pids, n = T(v)
            nch = E.spec_extra["nch"]
            dom, val, lens = _dview(v["children"])
            i = to_z3(v["_k0"], "int")
            k, j, a = z3.Int(fresh_name("k")), z3.Int(fresh_name("j")), z3.Int(fresh_name("a"))
            pa = pids.get(a).z
            if which == "sizes":
                return z3.ForAll([k], z3.If(z3.Select(dom, k), z3.And(z3.Select(lens, k) == nch(k, i), nch(k, i) > 0), nch(k, i) == 0))
            if which == "rows-listed":
                return z3.ForAll([a], z3.Implies(z3.And(0 <= a, a < i), z3.And(z3.Select(dom, pa), nch(pa, a) < z3.Select(lens, pa), z3.Select(z3.Select(val, pa), nch(pa, a)) == ids.get(a).z)))
            if which == "listed-are-rows":
                r = rrow(k, j)
                return z3.ForAll([k, j], z3.Implies(z3.And(z3.Select(dom, k), 0 <= j, j < z3.Select(lens, k)),
                                                    z3.And(0 <= r, r < i, pids.get(r).z == k, ids.get(r).z == z3.Select(z3.Select(val, k), j))))

        return f

    def rrow_axiom(E, fr):
        ids, pids = fr.vars["topology"]
        nch = E.spec_extra["nch"]
        a = z3.Int(fresh_name("a"))
        pa = pids.get(a).z
        # definitional: nch(k, .) is strictly increasing along the rows whose parent is k, so such a function exists
        E.assume(z3.ForAll([a], z3.Implies(a >= 0, rrow(pa, nch(pa, a)) == a)))
        E.assumptions.add("ghost definition: rrow(k, j) = the j-th row whose parent id is k")

    # loop 1: no key enumerated so far has more than two children (unless it is an exempt root)
    def inv1(E, v, o):
        ids, pids, n = T(v)
        nch = E.spec_extra["nch"]
        d = v["children"]
        if ("dictkeys", d.uid) not in E.ghost:  # entry: nothing enumerated yet
            return True
        ks, m, pos = E.ghost[("dictkeys", d.uid)]
        dom, val, lens = _dview(d)
        j, j2 = z3.Int(fresh_name("j")), z3.Int(fresh_name("i"))
        ex = z3.BoolVal(bool(v["exclude_root"]))
        kk = ks(j)
        in_root = z3.Exists([j2], z3.And(j2 >= 0, j2 < z3.Select(lens, -1), z3.Select(z3.Select(val, -1), j2) == kk))
        return z3.ForAll([j], z3.Implies(z3.And(0 <= j, j < to_z3(v["_k1"], "int"), kk != -1), z3.Or(nch(kk, n) <= 2, z3.And(ex, in_root))))

    def post_hint(E, vars):
        """proof steps for the `return False` exit: the overfull key is the id of a row (the parent row of its first listed child)"""
        k = vars.get("k")
        if "children" in vars and not isinstance(k, Sym) and ("dictkeys", vars["children"].uid) in E.ghost:
            # the `return True` exit: every id is a key of the dict (hence was enumerated by the second loop) or names no row as its child
            ids, pids = vars["topology"]
            n = ids.nz()
            d = vars["children"]
            dom, val, lens = _dview(d)
            ks, m, pos = E.ghost[("dictkeys", d.uid)]
            nch = E.spec_extra["nch"]
            a = z3.Int(fresh_name("a"))
            ka = ids.get(a).z
            E.prove("is_bifurcate/step/every-id-is-an-enumerated-key-or-has-no-child",
                    z3.ForAll([a], z3.Implies(z3.And(0 <= a, a < n), z3.Or(z3.And(z3.Select(dom, ka), pos(ka) >= 0, pos(ka) < m, ks(pos(ka)) == ka), nch(ka, n) == 0))), "annotation")
            return
        if not isinstance(k, Sym) or "children" not in vars:
            return
        ids, pids = vars["topology"]
        n = ids.nz()
        dom, val, lens = _dview(vars["children"])
        nch, prow = E.spec_extra["nch"], E.spec_extra["prow"]
        kz = k.z
        r = rrow(kz, 0)
        live = z3.And(z3.Select(dom, kz), z3.Select(lens, kz) > 0, kz != -1)
        E.prove("is_bifurcate/step/first-listed-child-is-a-row", z3.Implies(live, z3.And(0 <= r, r < n, pids.get(r).z == kz)), "annotation")
        b = prow(r)
        E.prove("is_bifurcate/step/its-parent-row-carries-the-key", z3.Implies(live, z3.And(0 <= b, b < n, ids.get(b).z == kz, nch(ids.get(b).z, n) == z3.Select(lens, kz))), "annotation")

    R.add(
        f"{CHK}:is_bifurcate",
        prop="C18",
        variants={"exclude_root=True": setup(True), "exclude_root=False": setup(False)},
        requires=[("ids-distinct", pre_distinct), ("ids-are-not-the-marker", pre_marker), ("parents-exist", pre_parents)],
        returns="bool",
        lemmas=[rrow_axiom],
        options=dict(hints={"post/true-iff-no-node-has-more-than-two-children": post_hint}),
        ensures=[("true-iff-no-node-has-more-than-two-children", post)],
        loops={
            0: dict(invariant=[("children-sizes", inv0("sizes")), ("rows-listed", inv0("rows-listed")), ("listed-are-rows", inv0("listed-are-rows"))],
                    types={"children": "intlist"}),
            1: dict(invariant=[("no-overfull-node-so-far", inv1)]),
        },
    )
    R.add(
        f"{CHK}:is_bifurcate",
        prop="C18",
        variants={fixed_name(m, f"exclude_root={ex}"): setup(ex, size=m) for m in FIXED_ROWS for ex in (True, False)},
        requires=[("ids-distinct", pre_distinct), ("ids-are-not-the-marker", pre_marker), ("parents-exist", pre_parents)],
        returns="bool",
        options=dict(allow_symbolic_unroll=True),
        ensures=[("true-iff-no-node-has-more-than-two-children", post)],
        notes=FIXED_NOTE,
    )


_reg_2 = register


def register(R):  # noqa: F811
    _reg_2(R)
    register_checker(R)



# ===========================================================================
# checker.py: has_cyclic  (client of the DisjointSetUnion contracts)
def register_has_cyclic(R):
    I, B = z3.IntSort(), z3.BoolSort()
    # ghost: Conn(i, x, y) = x and y are connected by the edges {(j, pid j) : j < i, pid j != -1}, read as undirected edges
    Conn = z3.Function("Conn", I, I, I, B)

    def setup(S):
        n = S.int("n")
        S.assume(n.z >= 0)
        ids, pids = S.arr("int", n=n, name="ids"), S.arr("int", n=n, name="pids")
        i, x, y = z3.Ints("i_hc x_hc y_hc")
        P = pids.arr
        R_ = lambda t: z3.And(t >= 0, t < n.z)
        S.assume(z3.ForAll([i], z3.Implies(R_(i), z3.And(z3.Select(ids.arr, i) == i, z3.Or(z3.Select(P, i) == -1, R_(z3.Select(P, i)))))))
        # definitional recursion on the number of edges taken into account
        S.assume(z3.ForAll([x, y], Conn(0, x, y) == (x == y)))
        pi = z3.Select(P, i)
        S.assume(z3.ForAll([i, x, y], z3.Implies(i >= 0, Conn(i + 1, x, y) == z3.Or(Conn(i, x, y), z3.And(pi != -1, z3.Or(z3.And(Conn(i, x, i), Conn(i, y, pi)), z3.And(Conn(i, x, pi), Conn(i, y, i))))))))
        return dict(topology=(ids, pids))

    def inv(which):
        def f(E, v, o):
            ids, pids = v["topology"]
            n, P = ids.nz(), pids.arr
            i = to_z3(v["_k0"], "int")
            d = v["dsu"]
            rep = d.fields["g_rep"].arr
            x, y, j = z3.Int(fresh_name("x")), z3.Int(fresh_name("y")), z3.Int(fresh_name("j"))
            R_ = lambda t: z3.And(t >= 0, t < n)
            if which == "structure-is-a-valid-union-find-of-the-right-size":
                Pl = d.fields["element_parent"]
                return z3.And(zint(Pl.n) == n, zint(d.fields["rank"].n) == n, *[c for _, c in INV(Pl.cols[0], zint(Pl.n), rep, d.fields["g_dst"].arr)])
            if which == "joined-exactly-when-connected-by-the-edges-so-far":
                return z3.ForAll([x, y], z3.Implies(z3.And(R_(x), R_(y)), (z3.Select(rep, x) == z3.Select(rep, y)) == Conn(i, x, y)))
            if which == "no-earlier-edge-closed-a-cycle":
                return z3.ForAll([j], z3.Implies(z3.And(0 <= j, j < i, z3.Select(P, j) != -1), z3.Not(Conn(j, j, z3.Select(P, j)))))

        return f

    def post(E, v, o):
        ids, pids = v["topology"]
        n, P = ids.nz(), pids.arr
        j = z3.Int(fresh_name("j"))
        closes = z3.Exists([j], z3.And(0 <= j, j < n, z3.Select(P, j) != -1, Conn(j, j, z3.Select(P, j))))
        return to_z3(v["result"], "bool") == closes

    def unfold_conn(E, v):
        """instance of the defining recursion of Conn at the edge just processed (an instance of a hypothesis: adds nothing new)"""
        ids, pids = v["topology"]
        P = pids.arr
        k = to_z3(v["_k0"], "int") - 1
        x, y = z3.Int(fresh_name("x")), z3.Int(fresh_name("y"))
        pk = z3.Select(P, k)
        E.assume(z3.ForAll([x, y], Conn(k + 1, x, y) == z3.Or(Conn(k, x, y), z3.And(pk != -1, z3.Or(z3.And(Conn(k, x, k), Conn(k, y, pk)), z3.And(Conn(k, x, pk), Conn(k, y, k)))))))

    def cycle_lemmas(E, fr):
        E.assumptions.add("assumed-lemma: functional-cycle lemmas (lean/FunctionalCycle.lean): the relation Conn defined by recursion on the number of rows is the "
                          "equivalence generated by the edges of the rows below i (conn_rec_iff), and some edge j -> pid j joins two rows already connected by the "
                          "edges of the rows below j exactly when the table contains a directed cycle (functional_cycle); no instance is assumed on the SMT side -- "
                          "the lemmas turn has_cyclic's postcondition into the property's `the table contains a cycle`")

    R.add(f"{CHK}:has_cyclic", prop="C18", setup=setup, returns="bool", lemmas=[cycle_lemmas],
          options=dict(hints={"loop0/preserved/joined-exactly-when-connected-by-the-edges-so-far": unfold_conn}),
          ensures=[("true-iff-some-edge-joins-two-nodes-already-connected-by-earlier-edges", post)],
          loops={0: dict(invariant=[(nm, inv(nm)) for nm in ("structure-is-a-valid-union-find-of-the-right-size", "joined-exactly-when-connected-by-the-edges-so-far", "no-earlier-edge-closed-a-cycle")],
                         modifies=["dsu"])},
          notes="an edge closing an undirected cycle among at-most-one-out-edge graphs is a directed cycle (lemma functional_cycle, proved in lean/FunctionalCycle.lean); "
                "ids are positions and parents are -1 or nodes (the property's quantifier)")


_reg_3 = register


def register(R):  # noqa: F811
    _reg_3(R)
    register_has_cyclic(R)



# ===========================================================================
# checker.py: is_sorted
def register_is_sorted(R):
    def setup(S, size=None):
        # ANY table of (id, parent id) pairs: forests, tables with cycles, dangling parents, ids that are not positions
        if size is None:
            n = S.int("n")
            S.assume(n.z >= 0)
        else:
            n = size  # the fixed-size registration: exactly `size` rows, contents arbitrary
        ids, pids = S.arr("int", n=n, name="ids"), S.arr("int", n=n, name="pids")
        ids.frozen = pids.frozen = True
        return dict(topology=(ids, pids))

    def post(E, v, o):
        # the property's clause "parents precede children": every row that has a parent carries a larger id than that parent
        ids, pids = o["topology"]
        every = all_rows(rows_of(ids), lambda x: z3.Or(z3.Select(pids.arr, x) == -1, z3.Select(pids.arr, x) < z3.Select(ids.arr, x)))
        return to_z3(v["result"], "bool") == every

    def is_bool(E, v, o):
        r = v["result"]
        return isinstance(r, bool) or (isinstance(r, Sym) and r.kind == "bool")

    R.add(f"{CHK}:is_sorted", prop="C18", setup=setup, returns="bool",
          ensures=[("true-iff-every-row-with-a-parent-has-a-larger-id-than-its-parent-on-ANY-table", post),
                   ("answers-with-a-bool", is_bool)],
          notes="any table: symbolic number of rows (0 included), arbitrary ids and parent ids (forests, cycles, self loops, dangling parents); "
                "both input columns frozen; no loop, so the answer is given on every table (the former walk from node 0 did not terminate on a cycle)")
    R.add(f"{CHK}:is_sorted", prop="C18", variants={fixed_name(m): (lambda S, m=m: setup(S, size=m)) for m in FIXED_ROWS}, returns="bool",
          options=dict(allow_symbolic_unroll=True),
          ensures=[("true-iff-every-row-with-a-parent-has-a-larger-id-than-its-parent-on-ANY-table", post),
                   ("answers-with-a-bool", is_bool)],
          notes=FIXED_NOTE)


_reg_4 = register


def register(R):  # noqa: F811
    _reg_4(R)
    register_is_sorted(R)


# ===========================================================================
# base.py: get_dsu (pointer-jumping component labelling), checker.py: is_single_root
#
# The table is read as the FUNCTIONAL GRAPH e on its rows:  e(i) = the row the code's id lookup yields for the parent
# id of row i (the last row carrying that id; row i's own id when pid[i] == -1, so a row without parent points to
# itself when ids are distinct).  Nothing but "every parent id names a row" is required: forests, tables with
# cycles, self loops and duplicate ids are all inside the domain.
#
# Ghost symbols (global, NEVER constrained globally: a clause that mentions them is proved for every interpretation):
#   comp18   an arbitrary labelling of the rows;  "constant along edges" (comp18(e(i)) == comp18(i)) is always an explicit
#            hypothesis of the clause.  Connectivity is the finest equivalence every such labelling respects.
#   dp18     a depth witness; "the table is acyclic" is the explicit hypothesis FH (depth decreases strictly along e).
BASE = "swcgeom/core/swc_utils/base.py"
_I = z3.IntSort()
comp18 = z3.Function("comp18", _I, _I)
dp18 = z3.Function("dp18", _I, _I)


def lastrow(E, ID, n):
    """ghost f with f(k) = the last row whose id is k, for every id k that occurs (what dict(zip(ids, range(n))) maps k to)"""
    key = ("lastrow18", ID.get_id(), n.get_id())
    hit = E.ghost.get(key)
    if hit is None:
        f = z3.Function(fresh_name("lastrow"), _I, _I)
        j = z3.Int(fresh_name("j"))
        r = f(z3.Select(ID, j))
        E.assume(z3.ForAll([j], z3.Implies(z3.And(j >= 0, j < n), z3.And(r >= j, r < n, z3.Select(ID, r) == z3.Select(ID, j)))))
        E.assumptions.add("ghost definition: lastrow(k) = the last row whose id is k (exists for every id that occurs)")
        hit = E.ghost[key] = (f, ID, n)  # the terms are kept alive: z3 reuses the ids of freed terms
    return hit[0]


class Table18:
    """formulas over the (id, pid) columns of a frame"""

    def __init__(self, E, df):
        self.ID, self.PID, self.n = df.cols["id"].arr, df.cols["pid"].arr, zint(df.n)
        self.E = E

    def R(self, t):
        return z3.And(t >= 0, t < self.n)

    def key(self, i):
        p = z3.Select(self.PID, i)
        return z3.If(p == -1, z3.Select(self.ID, i), p)

    def e(self, i):
        return lastrow(self.E, self.ID, self.n)(self.key(i))

    def parents_exist(self):
        i, j = z3.Int("i18"), z3.Int("j18")
        p = z3.Select(self.PID, i)
        return z3.ForAll([i], z3.Implies(z3.And(self.R(i), p != -1), z3.Exists([j], z3.And(self.R(j), z3.Select(self.ID, j) == p))))

    def einv(self, c):
        """the labelling c is constant along every edge"""
        i = z3.Int("i18")
        return z3.ForAll([i], z3.Implies(self.R(i), c(self.e(i)) == c(i)))

    def forest(self):
        """FH: dp18 is a depth witness (strictly smaller at the parent row), i.e. the table has no cycle but self loops"""
        i = z3.Int("i18")
        return z3.ForAll([i], z3.Implies(self.R(i), z3.And(dp18(i) >= 0, z3.Implies(self.e(i) != i, dp18(self.e(i)) < dp18(i)))))

    def roots_label_themselves(self, c):
        i = z3.Int("i18")
        return z3.ForAll([i], z3.Implies(z3.And(self.R(i), self.e(i) == i), c(i) == i))


COMPONENT_LEMMAS = ("assumed-lemma: component lemmas (lean/Components.lean): the clauses that quantify over EVERY labelling constant along edges say "
                    "`same label exactly when connected` / `all rows connected` / `these two rows are not connected` for the undirected connectivity of the table; "
                    "no instance is assumed on the SMT side -- the lemmas give the clauses their reading")


class AnyName(dict):
    """loop `rebind` rule for whatever name an array has that the loop body rebinds (`a = f(a)`): a fresh array of the same kind and length"""

    def get(self, key, default=None):
        def rule(eng, cur):
            from pyvc.engine import Unsupported
            from pyvc.values import fresh, kind_of

            if isinstance(cur, SArr):
                return SArr.fresh(cur.kind, cur.n, name=cur.name)
            if kind_of(cur) is not None:  # a scalar the loop assigns: an unknown of the same kind (the engine's default)
                return fresh(kind_of(cur), str(key))
            raise Unsupported(f"loop rebinds {key} (a {type(cur).__name__})")

        return rule


def register_get_dsu(R):
    def setup(S):
        df = S.dframe(SWC_COLS)
        df.frozen = True
        return dict(df=df, names=None)

    def pre_parents(E, v, o):
        return Table18(E, v["df"]).parents_exist()

    def edges_resolve(E, fr):
        """proof step at entry: e(i) is a row and carries the looked-up id (from `parents-exist` and the definition of lastrow)"""
        T = Table18(E, fr.vars["df"])
        i = z3.Int("i18")
        E.assumptions.add(COMPONENT_LEMMAS)
        E.prove("get_dsu/step/every-row-has-a-parent-row", z3.ForAll([i], z3.Implies(T.R(i), z3.And(T.R(T.e(i)), z3.Select(T.ID, T.e(i)) == T.key(i)))), "annotation")

    def labels_of(v):
        """the label array: the one int array among the locals (looked up by type, not by name: renaming it is harmless)"""
        c = [x for k_, x in v.items() if isinstance(x, SArr) and x.kind == "int" and k_ != "result"]
        if len(c) != 1:
            raise KeyError("get_dsu: expected exactly one int array among the locals")
        return c[0]

    def flag_of(v):
        c = [x for k_, x in v.items() if isinstance(x, bool) or (isinstance(x, Sym) and x.kind == "bool")]
        if len(c) != 1:
            raise KeyError("get_dsu: expected exactly one boolean local")
        return c[0]

    def initial_labels(E, v, o):
        """annotation after `dsu = np.array([id2idx[i] for i in dsu])`: the labels start as the parent rows e(i)"""
        if not any(isinstance(x, PDict) for x in v.values()) or any(isinstance(x, (bool, Sym)) for x in v.values()):
            return True  # the first assignment to `dsu` (the parent ids, not yet rows) / the stores inside the loop
        T = Table18(E, o["df"])
        d = labels_of(v)
        i = z3.Int("i18")
        return z3.And(d.nz() == T.n, z3.ForAll([i], z3.Implies(T.R(i), z3.Select(d.arr, i) == T.e(i))))

    def inv(which):
        def f(E, v, o):
            T = Table18(E, o["df"])
            d = labels_of(v)
            L = d.arr
            i, x = z3.Int("i18"), z3.Int("x18")
            Li = z3.Select(L, i)
            if which == "labels-are-rows":
                return z3.And(d.nz() == T.n, z3.ForAll([i], z3.Implies(T.R(i), T.R(Li))))
            if which == "label-in-own-component":
                return z3.Implies(T.einv(comp18), z3.ForAll([i], z3.Implies(T.R(i), comp18(Li) == comp18(i))))
            if which == "what-is-constant-along-labels-is-constant-along-edges":
                c = z3.Const("c18", z3.ArraySort(_I, _I))
                linv = z3.ForAll([x], z3.Implies(T.R(x), z3.Select(c, z3.Select(L, x)) == z3.Select(c, x)), patterns=[z3.Select(c, x)])
                return z3.ForAll([c, i], z3.Implies(z3.And(T.R(i), linv), z3.Select(c, T.e(i)) == z3.Select(c, i)), patterns=[z3.Select(c, i)])
            if which == "parentless-rows-label-themselves":
                return z3.ForAll([i], z3.Implies(z3.And(T.R(i), T.e(i) == i), Li == i))
            if which == "acyclic:label-is-a-proper-ancestor":
                return z3.Implies(T.forest(), z3.ForAll([i], z3.Implies(z3.And(T.R(i), T.e(i) != i), dp18(Li) < dp18(i))))
            if which == "no-change-so-far-in-this-pass":
                k = to_z3(v["_k1"], "int")
                return z3.Implies(to_z3(flag_of(v), "bool"), z3.ForAll([i], z3.Implies(z3.And(i >= 0, i < k), z3.Select(L, Li) == Li)))
            raise KeyError(which)

        return f

    SHARED = ["labels-are-rows", "label-in-own-component", "what-is-constant-along-labels-is-constant-along-edges",
              "parentless-rows-label-themselves", "acyclic:label-is-a-proper-ancestor"]

    def post(which):
        def f(E, v, o):
            T = Table18(E, o["df"])
            r = v["result"]
            if not isinstance(r, SArr):
                return False
            L = r.arr
            i = z3.Int("i18")
            Li = z3.Select(L, i)
            if which == "fresh-array-of-row-numbers":
                return z3.And(r.uid not in E.entry_uids and r.uid not in _frame_uids(o["df"]), r.nz() == T.n, z3.ForAll([i], z3.Implies(T.R(i), T.R(Li))))
            if which == "labels-label-themselves":
                return z3.ForAll([i], z3.Implies(T.R(i), z3.Select(L, Li) == Li))
            if which == "same-label-only-if-connected(label-lies-in-the-row's-component-for-every-labelling-constant-along-edges)":
                return z3.Implies(T.einv(comp18), z3.ForAll([i], z3.Implies(T.R(i), comp18(Li) == comp18(i))))
            if which == "connected-rows-get-the-same-label(a-row-and-its-parent-row-agree)":
                return z3.ForAll([i], z3.Implies(T.R(i), z3.Select(L, T.e(i)) == Li))
            if which == "parentless-rows-label-themselves":
                return z3.ForAll([i], z3.Implies(z3.And(T.R(i), T.e(i) == i), Li == i))
            if which == "acyclic-table:label-is-the-row-of-the-root":
                return z3.Implies(z3.And(T.forest(), T.einv(comp18), T.roots_label_themselves(comp18)), z3.ForAll([i], z3.Implies(T.R(i), Li == comp18(i))))
            raise KeyError(which)

        return f

    POSTS = ["fresh-array-of-row-numbers", "labels-label-themselves",
             "same-label-only-if-connected(label-lies-in-the-row's-component-for-every-labelling-constant-along-edges)",
             "connected-rows-get-the-same-label(a-row-and-its-parent-row-agree)", "parentless-rows-label-themselves",
             "acyclic-table:label-is-the-row-of-the-root"]

    R.add(f"{BASE}:get_dsu", prop="C18", setup=setup,
          requires=[("every-parent-id-names-a-row", pre_parents)],
          returns=lambda S, fr: SArr.fresh("int", zint(fr.vars["df"].n), name="dsu"),
          lemmas=[edges_resolve],
          options=dict(asserts_after={"dsu": [("labels-start-as-the-parent-rows", initial_labels)]}),
          ensures=[(nm, post(nm)) for nm in POSTS],
          loops={0: dict(invariant=[(nm, inv(nm)) for nm in SHARED], rebind=AnyName()),
                 1: dict(invariant=[(nm, inv(nm)) for nm in SHARED + ["no-change-so-far-in-this-pass"]], rebind=AnyName())},
          notes="holds for every table whose parent ids name rows, WITH OR WITHOUT cycles (partial correctness: termination of the fixpoint "
                "iteration is not proved); the input frame is frozen (any store into it is a failed frame obligation)")


# ---------------------------------------------------------------------------------------------------------------
# is_single_root / check_single_root: "all rows are connected" (an empty table has no root: False)
def register_single_root(R):
    def setup(S):
        df = S.dframe(SWC_COLS)
        df.frozen = True
        return dict(df=df, names=None)

    def frame_of(v):
        if "df" in v:
            return v["df"]
        return v["args"][0]  # check_single_root(*args, **kwargs)

    def pre_parents(E, v, o):
        return Table18(E, frame_of(v)).parents_exist()

    def witness(E, T):
        """the labelling that separates two rows when the answer is False: the label array get_dsu returned (in the proof of
        is_single_root itself), the witness handed over by the callee's contract (check_single_root), a fresh one at other call sites"""
        hits = [kw["__result__"] for nm, kw in E.call_log if nm == "get_dsu" and "__result__" in kw]
        if len(hits) == 1 and (E.cur_key or "").endswith(":is_single_root"):
            return hits[0].arr
        if (E.cur_key or "").endswith(":check_single_root") and E.ghost.get("single-root-witness") is not None:
            return E.ghost["single-root-witness"]
        w = z3.Const(fresh_name("separating_labels"), z3.ArraySort(_I, _I))
        E.ghost["single-root-witness"] = w
        return w

    def post(which):
        def f(E, v, o):
            T = Table18(E, frame_of(o))
            res = to_z3(v["result"], "bool")
            i, j = z3.Int("i18"), z3.Int("j18")
            if which == "true-only-if-all-rows-are-connected(every-labelling-constant-along-edges-is-constant)":
                return z3.Implies(res, z3.And(T.n >= 1, z3.Implies(T.einv(comp18), z3.ForAll([i, j], z3.Implies(z3.And(T.R(i), T.R(j)), comp18(i) == comp18(j))))))
            if which == "false-only-if-some-rows-are-not-connected(a-labelling-constant-along-edges-separates-two-rows)":
                W = witness(E, T)
                const_along_edges = z3.ForAll([i], z3.Implies(T.R(i), z3.Select(W, T.e(i)) == z3.Select(W, i)))
                separates = z3.Exists([i, j], z3.And(T.R(i), T.R(j), z3.Select(W, i) != z3.Select(W, j)))
                return z3.Implies(z3.Not(res), z3.Or(T.n == 0, z3.And(const_along_edges, separates)))
            raise KeyError(which)

        return f

    POSTS = ["true-only-if-all-rows-are-connected(every-labelling-constant-along-edges-is-constant)",
             "false-only-if-some-rows-are-not-connected(a-labelling-constant-along-edges-separates-two-rows)"]
    R.add(f"{CHK}:is_single_root", prop="C18", setup=setup,
          requires=[("every-parent-id-names-a-row", pre_parents)], returns="bool",
          lemmas=[lambda E, fr: E.assumptions.add(COMPONENT_LEMMAS)],
          ensures=[(nm, post(nm)) for nm in POSTS],
          notes="connectivity of the undirected graph of the table, cycles allowed; rests on get_dsu's contract (partial correctness)")

    def setup_legacy(S):
        df = S.dframe(SWC_COLS)
        df.frozen = True
        return dict(args=(df,), kwargs=PDict({}))

    R.add(f"{CHK}:check_single_root", prop="C18", setup=setup_legacy,
          requires=[("every-parent-id-names-a-row", pre_parents)], returns="bool",
          ensures=[(nm, post(nm)) for nm in POSTS],
          notes="deprecated alias: same contract as is_single_root")


# ---------------------------------------------------------------------------------------------------------------
# is_binary_tree(df, exclude_root): deprecated frame form of is_bifurcate (client of its contract)
def register_binary_tree(R):
    def setup(exclude_root):
        def f(S):
            df = S.dframe(SWC_COLS)
            df.frozen = True
            pids = df.cols["pid"]
            nch = z3.Function("nch", z3.IntSort(), z3.IntSort(), z3.IntSort())  # the SAME ghost counter as in is_bifurcate's contract
            k, i = z3.Ints("k_nch i_nch")
            S.assume(z3.ForAll([k], nch(k, 0) == 0))
            S.assume(z3.ForAll([k, i], z3.Implies(i >= 0, nch(k, i + 1) == nch(k, i) + z3.If(z3.Select(pids.arr, i) == k, 1, 0)), patterns=[nch(k, i + 1)]))
            S.assume(z3.ForAll([k, i], z3.Implies(i >= 0, nch(k, i) >= 0), patterns=[nch(k, i)]))
            prow = z3.Function("prow", z3.IntSort(), z3.IntSort())
            return dict(df=df, exclude_root=exclude_root, names=None, __ghost__={"nch": nch, "prow": prow})

        return f

    def T(v):
        df = v["df"]
        return df.cols["id"], df.cols["pid"], zint(df.n)

    def pre(which):
        def f(E, v, o):
            ids, pids, n = T(v)
            a, b = z3.Int("a18"), z3.Int("b18")
            if which == "ids-distinct":
                return z3.ForAll([a, b], z3.Implies(z3.And(0 <= a, a < b, b < n), ids.get(a).z != ids.get(b).z))
            if which == "ids-are-not-the-marker":
                return z3.ForAll([a], z3.Implies(z3.And(0 <= a, a < n), ids.get(a).z != -1))
            pr = E.spec_extra["prow"](a)
            return z3.ForAll([a], z3.Implies(z3.And(0 <= a, a < n, pids.get(a).z != -1), z3.And(0 <= pr, pr < n, ids.get(pr).z == pids.get(a).z)))

        return f

    def post(E, v, o):
        ids, pids, n = T(o)
        nch = E.spec_extra["nch"]
        a = z3.Int("a18")
        ex = o["exclude_root"]
        ok = z3.ForAll([a], z3.Implies(z3.And(0 <= a, a < n), z3.Or(z3.And(z3.BoolVal(bool(ex)), pids.get(a).z == -1), nch(ids.get(a).z, n) <= 2)))
        return to_z3(v["result"], "bool") == ok

    R.add(f"{CHK}:is_binary_tree", prop="C18",
          variants={"exclude_root=True": setup(True), "exclude_root=False": setup(False)},
          requires=[(nm, pre(nm)) for nm in ("ids-distinct", "ids-are-not-the-marker", "parents-exist")],
          returns="bool",
          ensures=[("true-iff-no-node-has-more-than-two-children", post)],
          notes="deprecated frame form; the id / pid columns are handed to is_bifurcate, whose contract is used modularly")


# ---------------------------------------------------------------------------------------------------------------
# normalizer.py: link_roots_to_nearest_ (and its copying form)
#
# Domain (the property's "multi-root forests with any id base"): ids pairwise distinct and never -1, every parent id names a
# row, no cycle (depth witness dp18), comp18 = the row of a row's root.  Ghost state G (arrays over the rows): rt = root row
# and dp = depth in the CURRENT (partly repaired) forest, par = the row a repaired root was hung under.
class Ghost18:
    pass


FOREST_PRE = ["has-a-root", "ids-pairwise-distinct-and-never-the-marker", "every-parent-id-names-a-row", "no-cycle(dp18-is-the-depth)",
              "comp18-is-the-row-of-the-root"]


def forest_pre(E, df, which):
    """the domain of the root repair `nearest` as formulas over a frame's (id, pid) columns"""
    T = Table18(E, df)
    sel = z3.Select
    a, b = z3.Int("a18"), z3.Int("b18")
    pa = sel(T.PID, a)
    if which == "has-a-root":
        return z3.Exists([a], z3.And(T.R(a), pa == -1))
    if which == "ids-pairwise-distinct-and-never-the-marker":
        return z3.And(z3.ForAll([a, b], z3.Implies(z3.And(0 <= a, a < b, b < T.n), sel(T.ID, a) != sel(T.ID, b))),
                      z3.ForAll([a], z3.Implies(T.R(a), sel(T.ID, a) != -1)))
    if which == "every-parent-id-names-a-row":
        return T.parents_exist()
    if which == "no-cycle(dp18-is-the-depth)":
        return z3.ForAll([a], z3.Implies(T.R(a), z3.And(dp18(a) >= 0, z3.If(pa == -1, dp18(a) == 0, dp18(a) == dp18(T.e(a)) + 1))))
    if which == "comp18-is-the-row-of-the-root":
        return z3.ForAll([a], z3.Implies(T.R(a), z3.And(T.R(comp18(a)), sel(T.PID, comp18(a)) == -1, comp18(a) == z3.If(pa == -1, a, comp18(T.e(a))))))
    raise KeyError(which)


def register_link_roots(R):
    from pyvc.ext_C18 import DFrame as XFrame, InfMasked18, RowIter18
    from pyvc.values import Obj

    sel = z3.Select

    def frame(S, frozen=False):
        cols = dict(SWC_COLS)
        cols["w"] = "real"  # an extra per-node column
        n = S.int("df_n")
        S.assume(n.z >= 0)
        df = XFrame({c: SArr.fresh(k, n.z, name=f"df_{c}") for c, k in cols.items()}, n.z)
        df.frozen = frozen
        df.frozen_cols = frozenset(c for c in cols if c != "pid")  # the repair may write parent ids only: any other store is a failed frame-write obligation
        return df

    def ghost_state(n):
        x = z3.Int("x18")
        return Obj(Ghost18, dict(rt=SArr(z3.Lambda([x], comp18(x)), n, "int", name="rt"), dp=SArr(z3.Lambda([x], dp18(x)), n, "int", name="dp"),
                                 par=SArr(z3.K(_I, z3.IntVal(0)), n, "int", name="par")))

    def setup(S):
        df = frame(S)
        return dict(df=df, names=None, G=ghost_state(zint(df.n)))

    # ------------------------------------------------------------ preconditions
    PRE = [(nm, (lambda w: lambda E, v, o: forest_pre(E, v["df"], w))(nm)) for nm in FOREST_PRE]

    # ------------------------------------------------------------ loop invariant
    def by_type(v, cls, what):
        c = [x for x in v.values() if isinstance(x, cls)]
        if len(c) != 1:
            raise KeyError(f"link_roots_to_nearest_: expected exactly one {what} among the locals")
        return c[0]

    def labels_of(v):
        c = [x for k_, x in v.items() if isinstance(x, SArr) and x.kind == "int"]
        if len(c) != 1:
            raise KeyError("link_roots_to_nearest_: expected exactly one int array among the locals")
        return c[0]

    class Ctx:
        def __init__(self, E, v, o):
            d0, d1 = o["df"], v["df"]
            self.T = Table18(E, d0)
            self.n, self.ID, self.P0, self.P1 = self.T.n, self.T.ID, self.T.PID, d1.cols["pid"].arr
            G = v["G"]
            self.rt, self.dp, self.par = G.fields["rt"].arr, G.fields["dp"].arr, G.fields["par"].arr
            it = by_type(v, RowIter18, "row iterator")
            self.kappa, self.rho, self.m = it.sel.flt.kappa, it.sel.flt.rho, it.sel.flt.nz()
            self.k = to_z3(v["_k0"], "int")
            self.start = it.start  # how many selected rows next() took before the loop (the code skips exactly the first root)

        def R(self, t):
            return self.T.R(t)

        def root0(self, x):
            return sel(self.P0, x) == -1

        def cur_root(self, x):
            return z3.And(self.root0(x), z3.Not(self.taken(x)))

        def taken(self, x):
            """x is one of the roots the loop has linked so far"""
            return z3.And(self.rho(x) >= self.start, self.rho(x) < self.start + self.k)

        def P(self, x):
            return z3.If(self.root0(x), sel(self.par, x), self.T.e(x))

    def inv(which):
        def f(E, v, o):
            C = Ctx(E, v, o)
            x, y = z3.Int("x18"), z3.Int("y18")
            if which == "only-the-parent-column-is-written":
                d0, d1 = o["df"], v["df"]
                same = [z3.ForAll([x], z3.Implies(C.R(x), sel(d1.cols[c].arr, x) == sel(d0.cols[c].arr, x))) for c in d0.cols if c != "pid"]
                return z3.And(z3.BoolVal(list(d1.cols) == list(d0.cols)), zint(d1.n) == C.n, C.m >= 1, *same)
            if which == "original-edges-kept":
                return z3.ForAll([x], z3.Implies(z3.And(C.R(x), z3.Not(C.root0(x))), sel(C.P1, x) == sel(C.P0, x)))
            if which == "roots-taken-so-far-are-linked-the-others-untouched":
                linked = C.taken(x)
                return z3.ForAll([x], z3.Implies(z3.And(C.R(x), C.root0(x)),
                                                 z3.If(linked, z3.And(C.R(sel(C.par, x)), sel(C.P1, x) == sel(C.ID, sel(C.par, x))), sel(C.P1, x) == -1)))
            rx = sel(C.rt, x)
            if which == "forest/every-row-has-a-root-row-that-is-still-a-root":
                return z3.ForAll([x], z3.Implies(C.R(x), z3.And(C.R(rx), C.cur_root(rx), sel(C.dp, x) >= 0)))
            if which == "forest/roots-are-their-own-root-at-depth-0":
                return z3.ForAll([x], z3.Implies(z3.And(C.R(x), C.cur_root(x)), z3.And(rx == x, sel(C.dp, x) == 0)))
            if which == "forest/other-rows-hang-one-level-below-their-parent-row-in-the-same-tree":
                return z3.ForAll([x], z3.Implies(z3.And(C.R(x), z3.Not(C.cur_root(x))), z3.And(C.R(C.P(x)), sel(C.rt, C.P(x)) == rx, sel(C.dp, x) == sel(C.dp, C.P(x)) + 1)))
            if which == "labels-are-equal-exactly-within-a-tree":
                d = labels_of(v)
                return z3.And(d.nz() == C.n, z3.ForAll([x, y], z3.Implies(z3.And(C.R(x), C.R(y)), (sel(d.arr, x) == sel(d.arr, y)) == (sel(C.rt, x) == sel(C.rt, y)))))
            raise KeyError(which)

        return f

    INV = ["only-the-parent-column-is-written", "original-edges-kept", "roots-taken-so-far-are-linked-the-others-untouched",
           "forest/every-row-has-a-root-row-that-is-still-a-root", "forest/roots-are-their-own-root-at-depth-0",
           "forest/other-rows-hang-one-level-below-their-parent-row-in-the-same-tree", "labels-are-equal-exactly-within-a-tree"]

    # ------------------------------------------------------------ ghost code: after the store of the new parent id
    LINK = "link_roots_to_nearest_/link/"

    def g_link(E, v):
        """runs right after `df.loc[i, pid] = id[argmin]`:
        (1) the STEP CLAUSES of the property for this link (obligations of kind `assert`: every other root is hung under the nearest row
            outside its own tree).  With the loop option `lookahead` they are proved in an arbitrary iteration that starts in a state
            satisfying the invariant AND in the iteration after it, which starts in the state the body really produced;
        (2) the ghost forest update."""
        import ast as _ast

        G = v["G"]
        rt, dp, par = G.fields["rt"].arr, G.fields["dp"].arr, G.fields["par"].arr
        # the row being linked is the first component of the loop target (looked up in the carrier's AST: renaming it is harmless)
        fn_node = E.cur_frame.func.node if E.cur_frame is not None and E.cur_frame.func is not None else None
        tgt = [n_.target.elts[0].id for n_ in _ast.walk(fn_node) if isinstance(n_, _ast.For) and isinstance(n_.target, _ast.Tuple) and n_.target.elts
               and isinstance(n_.target.elts[0], _ast.Name)] if fn_node is not None else []
        i = [v[t_] for t_ in tgt[:1] if isinstance(v.get(t_), Sym)]
        dis = by_type(v, InfMasked18, "masked distance array")
        if len(i) != 1 or dis.idx is None:
            raise KeyError("link_roots_to_nearest_: cannot identify the root being linked / the chosen row")
        i, j = i[0].z, dis.idx.z
        d0, d1 = E.top_old["df"], v["df"]
        n, ID, P1 = zint(d0.n), d0.cols["id"].arr, d1.cols["pid"].arr
        r0 = by_type(v, RowIter18, "row iterator").sel.flt.kappa(0)
        mask, data = dis.mask, dis.data
        # step clauses of the property for this link
        E.prove(LINK + "the-root-being-linked-is-not-the-first-root(which-heads-another-tree)",
                z3.And(r0 >= 0, r0 < n, sel(rt, r0) == r0, sel(rt, i) == i, r0 != i), "assert")
        E.prove(LINK + "some-row-outside-its-own-tree-is-a-candidate(the-first-root's-row-is-not-masked)", z3.Not(mask.get(r0).z), "assert")
        x = z3.Int("x18")
        E.prove(LINK + "nothing-but-parent-ids-of-roots-has-been-written",
                z3.And(z3.BoolVal(list(d1.cols) == list(d0.cols)), zint(d1.n) == n,
                       z3.ForAll([x], z3.Implies(z3.And(x >= 0, x < n, sel(d0.cols["pid"].arr, x) != -1), sel(P1, x) == sel(d0.cols["pid"].arr, x))),
                       *[z3.ForAll([x], z3.Implies(z3.And(x >= 0, x < n), sel(d1.cols[c].arr, x) == sel(d0.cols[c].arr, x))) for c in d0.cols if c != "pid"]), "assert")
        E.prove(LINK + "the-root-gets-as-parent-the-id-of-a-row-outside-its-own-tree", z3.And(j >= 0, j < n, sel(rt, j) != i, sel(P1, i) == sel(ID, j)), "assert")
        y = z3.Int(fresh_name("any_row"))
        dy = data.get(y).z
        M = getattr(data, "norm_of", None)
        if M is None:
            raise KeyError("link_roots_to_nearest_: the distance array is not the row norm of a matrix")
        comp = [to_z3(Sym(sel(c, y), M.kind), "real") for c in M.cols]
        diff = [sel(d0.cols[c].arr, y) - sel(d0.cols[c].arr, i) for c in ("x", "y", "z")]
        sumsq = lambda ts: sum((t * t for t in ts), z3.RealVal(0))
        # three components: named one by one (linear facts); any other shape: the polynomial identity itself
        same = z3.And(*[cv == dv for cv, dv in zip(comp, diff)]) if len(comp) == 3 else sumsq(comp) == sumsq(diff)
        E.prove(LINK + "the-distance-array-holds-the-euclidean-distances-of-the-input-coordinates-to-the-root",
                z3.Implies(z3.And(y >= 0, y < n), z3.And(dy >= 0, dy * dy == sumsq(comp), same)), "assert")
        E.prove(LINK + "no-row-outside-its-own-tree-is-nearer", z3.Implies(z3.And(y >= 0, y < n, sel(rt, y) != i), data.get(j).z <= dy), "assert")
        # ghost update: the tree of i now hangs under row j
        x = z3.Int("x18")
        moved = sel(rt, x) == i
        G.fields["rt"].arr = z3.Lambda([x], z3.If(moved, sel(rt, j), sel(rt, x)))
        G.fields["dp"].arr = z3.Lambda([x], z3.If(moved, sel(dp, x) + sel(dp, j) + 1, sel(dp, x)))
        G.fields["par"].arr = z3.Store(par, i, j)

    GHOST = [(lambda txt: ".loc[" in txt.split("=")[0] and ".iloc[" in txt, g_link)]

    # ------------------------------------------------------------ postconditions
    def witnesses(E, v, n):
        """(par, dp): the final ghost arrays in the carrier's own proof, fresh Skolem arrays at a call site"""
        if "G" in v:
            return v["G"].fields["par"].arr, v["G"].fields["dp"].arr
        if (E.cur_key or "").endswith(":link_roots_to_nearest") and "link-witness" in E.ghost:
            return E.ghost["link-witness"]  # the copying form: the witness its callee's contract handed over
        A = z3.ArraySort(_I, _I)
        E.ghost["link-witness"] = (z3.Const(fresh_name("link_par"), A), z3.Const(fresh_name("link_depth"), A))
        return E.ghost["link-witness"]

    def post(which):
        def f(E, v, o):
            d0, d1 = o["df"], v["df"]
            T = Table18(E, d0)
            P0, P1, ID = T.PID, d1.cols["pid"].arr, T.ID
            r0 = _first_root(E, d0)
            x = z3.Int("x18")
            if which == "first-root-kept":
                return sel(P1, r0) == -1
            if which == "single-root":
                return z3.ForAll([x], z3.Implies(z3.And(T.R(x), x != r0), sel(P1, x) != -1))
            if which == "every-original-edge-kept":
                return z3.ForAll([x], z3.Implies(z3.And(T.R(x), sel(P0, x) != -1), sel(P1, x) == sel(P0, x)))
            if which == "no-cycle-introduced(every-row-hangs-one-level-below-its-parent-row,the-first-root-is-the-only-row-at-depth-0)":
                par, dp = witnesses(E, v, T.n)
                Px = z3.If(sel(P0, x) == -1, sel(par, x), T.e(x))
                return z3.ForAll([x], z3.Implies(T.R(x), z3.And(sel(dp, x) >= 0, z3.If(x == r0, sel(dp, x) == 0, z3.And(T.R(Px), sel(ID, Px) == sel(P1, x), sel(dp, x) == sel(dp, Px) + 1)))))
            raise KeyError(which)

        return f

    def other_cols(E, v, o):
        d1, d0 = v["df"], o["df"]
        x = z3.Int("x18")
        out = [z3.ForAll([x], z3.Implies(z3.And(x >= 0, x < zint(d0.n)), sel(d1.cols[c].arr, x) == sel(d0.cols[c].arr, x))) for c in d0.cols if c != "pid"]
        return z3.And(z3.BoolVal(set(d1.cols) == set(d0.cols)), zint(d1.n) == zint(d0.n), *out)

    POSTS = ["first-root-kept", "single-root", "every-original-edge-kept",
             "no-cycle-introduced(every-row-hangs-one-level-below-its-parent-row,the-first-root-is-the-only-row-at-depth-0)"]
    R.add(f"{NORM}:link_roots_to_nearest_", prop="C18", setup=setup, requires=PRE, modifies=["df"],
          ensures=[(nm, post(nm)) for nm in POSTS] + [("attributes-untouched", other_cols)],
          loops={0: dict(invariant=[(nm, inv(nm)) for nm in INV], modifies=["G", "df"], rebind=AnyName(), lookahead=True)},
          options=dict(ghost_after=GHOST),
          notes="postconditions: single-rooted, first root kept, every original edge and attribute kept, no cycle (depth witness); step claims per link "
                "(kind assert, proved with a one-iteration lookahead): the root is not the first one, gets as parent the id of a row OUTSIDE its own tree, "
                "no row outside its own tree is nearer (Euclidean distance of the input coordinates, over the reals), nothing but parent ids is written; "
                "termination of get_dsu is not proved")

    def on_result(clause):
        def f(E, v, o):
            r = v["result"]
            if not hasattr(r, "cols"):
                return False
            return clause(E, {"df": r}, o)

        return f

    def fresh_result(E, v, o):
        r = v["result"]
        return hasattr(r, "cols") and r is not v["df"] and not (_frame_uids(r) & _frame_uids(o["df"]))

    R.add(f"{NORM}:link_roots_to_nearest", prop="C18",
          setup=lambda S: dict(df=frame(S, frozen=True), names=None), requires=PRE,
          ensures=[(nm, on_result(post(nm))) for nm in POSTS] + [("attributes-untouched", on_result(other_cols)), ("result-is-a-fresh-frame", fresh_result)],
          notes="input frame frozen; the in-place form is used through its contract")


_reg_5 = register


def register(R):  # noqa: F811
    _reg_5(R)
    register_link_roots(R)
    register_get_dsu(R)
    register_single_root(R)
    register_binary_tree(R)
