"""C10 — morphometrics equal their definitions: sidecar contracts (over the reals).

Spec vocabulary: d2(t, i, j) = squared Euclidean distance of nodes i, j of tree t (a polynomial in the
coordinate columns); dist = sqrt(d2) with sqrt characterised by y >= 0 and y*y = d2.  Every spec below reads
coordinates only through d2 -- that syntactic fact is what C11 (pose invariance) builds on.
"""
import z3

from contracts.common import COLS, col, nof, sym_tree
from pyvc.spec import Registry
from pyvc.values import NArr, Sym, fresh_name, to_z3

PATH = "swcgeom/core/path.py"
NODE = "swcgeom/core/node.py"
TREE = "swcgeom/core/tree.py"


def d2(t, i, j):
    """squared distance of nodes i, j (z3 ints) of tree t"""
    out = 0
    for c in "xyz":
        a = col(t, c).arr
        dlt = z3.Select(a, i) - z3.Select(a, j)
        out = out + dlt * dlt
    return out


def dist(E, t, i, j):
    """Euclidean distance (the engine's ghost root of d2: y >= 0 and y*y = d2)"""
    return to_z3(E.sqrt(Sym(d2(t, i, j), "real"), nonneg_known=True), "real")


def path_obj(S, t, L, cls=None):
    from swcgeom.core.path import Path

    idx = NArr((L,), [S.int(f"pidx{k}") for k in range(L)], "int")
    for x in idx.items:
        S.assume(z3.And(x.z >= 0, x.z < nof(t)))
    return S.obj(cls or Path, attach=t, idx=idx, names=t.fields["names"], source="")


def register(R: Registry):
    LENS = (1, 2, 3, 4)

    def length_post(E, v, o):
        p = v["self"]
        t, idx = p.fields["attach"], p.fields["idx"].items
        # result = sum_k y_k with y_k = dist(idx[k], idx[k+1])
        ys = [dist(E, t, idx[k].z, idx[k + 1].z) for k in range(len(idx) - 1)]
        return to_z3(v["result"], "real") == (sum(ys) if ys else z3.RealVal(0))

    R.add(f"{PATH}:Path.length", prop="C10",
          variants={f"path-of-{L}-nodes": (lambda S, _L=L: dict(self=path_obj(S, sym_tree(S, "t"), _L))) for L in LENS},
          returns="real",
          ensures=[("sum-of-consecutive-node-distances", length_post)],
          notes="path length fixed per variant (1-4 nodes); node ids, tree size and all coordinates symbolic")

    def sld_post(E, v, o):
        p = v["self"]
        t, idx = p.fields["attach"], p.fields["idx"].items
        return to_z3(v["result"], "real") == dist(E, t, idx[-1].z, idx[0].z)

    R.add(f"{PATH}:Path.straight_line_distance", prop="C10",
          variants={f"path-of-{L}-nodes": (lambda S, _L=L: dict(self=path_obj(S, sym_tree(S, "t"), _L))) for L in LENS},
          returns="real",
          ensures=[("distance-between-first-and-last-node", sld_post)])

    def tort_post(E, v, o):
        p = v["self"]
        t, idx = p.fields["attach"], p.fields["idx"].items
        ys = [dist(E, t, idx[k].z, idx[k + 1].z) for k in range(len(idx) - 1)]
        c = dist(E, t, idx[-1].z, idx[0].z)
        ln = sum(ys) if ys else z3.RealVal(0)
        r = to_z3(v["result"], "real")
        return z3.If(ln == 0, r == 1, r * ln == c)

    R.add(f"{PATH}:Path.tortuosity", prop="C10",
          variants={f"path-of-{L}-nodes": (lambda S, _L=L: dict(self=path_obj(S, sym_tree(S, "t"), _L))) for L in LENS},
          ensures=[("chord-over-length-or-one-for-a-zero-length-path", tort_post)])
