"""C10 — morphometrics equal their definitions: sidecar contracts (over the reals).

Spec vocabulary: d2(t, i, j) = squared Euclidean distance of nodes i, j of tree t (a polynomial in the
coordinate columns); dist = sqrt(d2) with sqrt characterised by y >= 0 and y*y = d2.  Every spec below reads
coordinates only through d2 -- that syntactic fact is what C11 (pose invariance) builds on.
"""
import z3

from contracts.common import COLS, col, nof, sym_tree, sym_tree_fixed
from pyvc import ext_C10
from pyvc import lemmas as lemlib
from pyvc.npmodels import S2Arr
from pyvc.spec import Registry
from pyvc.values import NArr, SArr, Sym, fresh_name, to_z3, zint


@lemlib.lemma("nonnegative-numbers-with-equal-squares-are-equal", 2)
def _roots_agree(y1, y2):
    return z3.Implies(z3.And(y1 >= 0, y2 >= 0, y1 * y1 == y2 * y2), y1 == y2)


@lemlib.lemma("half-quotient", 3)
def _half_quotient(a, p, q):
    return z3.Implies(z3.And(q != 0, 2 * a == p), a / q == p / (2 * q))


@lemlib.lemma("quotient-bounds", 3)
def _quotient_bounds(st, c, n):
    q = (c - st) / st
    return z3.Implies(st > 0, z3.And(z3.Implies(q <= n, c <= (n + 1) * st), z3.Implies(n - 1 < q, n * st < c)))


@lemlib.lemma("quotient-times-divisor", 2)
def _quot_times(a, q):
    return z3.Implies(q != 0, (a / q) * q == a)


@lemlib.lemma("degrees-times-pi", 2)
def _deg_pi(x, pi):
    return z3.Implies(pi != 0, (x * 180 / pi) * pi == 180 * x)


ext_C10.install()  # numpy models needed by the C10 carriers (logical_and/or, count_nonzero log + row form, real arange)

SHOLL = "swcgeom/analysis/sholl.py"
NPH = "swcgeom/utils/numpy_helper.py"
FEX = "swcgeom/analysis/feature_extractor.py"
LM = "swcgeom/analysis/lmeasure.py"
FEAT = "swcgeom/analysis/features.py"
PATH = "swcgeom/core/path.py"
NODE = "swcgeom/core/node.py"
TREE = "swcgeom/core/tree.py"


def d2(t, i, j, u=None):
    """squared distance of node i of tree t and node j of tree u (default: the same tree); i, j z3 ints"""
    out = 0
    for c in "xyz":
        a, b = col(t, c).arr, col(u if u is not None else t, c).arr
        dlt = z3.Select(a, i) - z3.Select(b, j)
        out = out + dlt * dlt
    return out


def dist(E, t, i, j, u=None):
    """Euclidean distance (the engine's ghost root of d2: y >= 0 and y*y = d2).  The engine keeps one ghost root per
    argument polynomial; d2 is symmetric, so the orientation whose root already exists on this path is used."""
    a, b = d2(t, i, j, u), d2(u if u is not None else t, j, i, t)
    for z in (a, b):
        if ("sqrt", z3.simplify(z, som=True).sexpr()) in E.ghost:
            return to_z3(E.sqrt(Sym(z, "real"), nonneg_known=True), "real")
    return to_z3(E.sqrt(Sym(a, "real"), nonneg_known=True), "real")


def tree_of_size(S, n, name="t", wf=True):
    """a Tree of exactly n nodes (concrete n) whose columns are symbolic arrays (any contents); wf: id[i] = i and
    0 <= pid[i] < n for i >= 1 (every non-root node has a parent in the tree)"""
    from contracts.common import PDict
    from swcgeom.core.swc_utils import get_names, get_types
    from swcgeom.core.tree import Tree

    cols = {}
    for c, k in COLS.items():
        a = S.arr(k, n=n, name=f"{name}_{c}")
        a.frozen = True
        cols[c] = a
    if wf:  # the id column IS the identity (SWC normal form kept by every Tree constructor, C03/C05)
        q = z3.Int(fresh_name("q"))
        cols["id"].arr = z3.Lambda([q], q)
    nd = PDict(cols)
    nd.frozen = True
    from pyvc.values import PList

    t = S.obj(Tree, ndata=nd, names=get_names(), types=get_types(), source="", comments=PList([]))
    t.frozen = True
    if wf:
        for i in range(1, n):
            p = z3.Select(cols["pid"].arr, i)
            S.assume(z3.And(p >= 0, p < n))
    return t


def ghost_consts(E, prefix):
    """the integer ghost constants of the current path whose name starts with `prefix` (proof hints only)"""
    out, seen, stack = {}, set(), list(E.pc)
    while stack:
        x = stack.pop()
        if x.get_id() in seen:
            continue
        seen.add(x.get_id())
        if z3.is_const(x) and x.decl().kind() == z3.Z3_OP_UNINTERPRETED and x.decl().name().startswith(prefix) and z3.is_int(x):
            out[x.decl().name()] = x
        if z3.is_quantifier(x):
            stack.append(x.body())
        else:
            stack.extend(x.children())
    return [out[k] for k in sorted(out)]


def root_is_soma(t):
    from swcgeom.core.swc_utils import get_types

    return z3.Select(col(t, "type").arr, 0) == get_types().soma


def node_obj(S, t, name="nd"):
    """a Tree.Node attached to t at a symbolic in-range position"""
    from swcgeom.core.tree import Tree

    i = S.int(name + "_idx")
    S.assume(z3.And(i.z >= 0, i.z < nof(t)))
    return S.obj(Tree.Node, attach=t, idx=i, names=t.fields["names"])


def path_obj(S, t, L, cls=None):
    from swcgeom.core.path import Path

    idx = NArr((L,), [S.int(f"pidx{k}") for k in range(L)], "int")
    for x in idx.items:
        S.assume(z3.And(x.z >= 0, x.z < nof(t)))
    return S.obj(cls or Path, attach=t, idx=idx, names=t.fields["names"], source="")


def path_pre(E, v, o):
    """the node ids of the path lie in the attached tree and the path has one of the verified lengths (1-4 nodes)"""
    p = v["self"]
    idx, t = p.fields["idx"], p.fields["attach"]
    if not (isinstance(idx, NArr) and idx.ndim == 1 and 1 <= idx.shape[0] <= 4):
        return False
    return z3.And(*[z3.And(to_z3(x, "int") >= 0, to_z3(x, "int") < nof(t)) for x in idx.items])


def register(R: Registry):
    LENS = (1, 2, 3, 4)

    def length_post(E, v, o):
        p = v["self"]
        t, idx = p.fields["attach"], p.fields["idx"].items
        # result = sum_k y_k with y_k = dist(idx[k], idx[k+1])
        ys = [dist(E, t, idx[k].z, idx[k + 1].z) for k in range(len(idx) - 1)]
        return to_z3(v["result"], "real") == (sum(ys) if ys else z3.RealVal(0))

    R.add(f"{PATH}:Path.length", prop="C10",
          variants={f"path-of-{L}-nodes": (lambda S, _L=L: dict(self=path_obj(S, sym_tree(S, "t"), _L))) for L in LENS},
          returns="real", requires=[("node-ids-in-the-tree-and-at-most-4-nodes", path_pre)],
          ensures=[("sum-of-consecutive-node-distances", length_post)],
          notes="path length fixed per variant (1-4 nodes); node ids, tree size and all coordinates symbolic")

    def sld_post(E, v, o):
        p = v["self"]
        t, idx = p.fields["attach"], p.fields["idx"].items
        return to_z3(v["result"], "real") == dist(E, t, idx[-1].z, idx[0].z)

    R.add(f"{PATH}:Path.straight_line_distance", prop="C10",
          variants={f"path-of-{L}-nodes": (lambda S, _L=L: dict(self=path_obj(S, sym_tree(S, "t"), _L))) for L in LENS},
          returns="real", requires=[("node-ids-in-the-tree-and-at-most-4-nodes", path_pre)],
          ensures=[("distance-between-first-and-last-node", sld_post)])

    def tort_post(E, v, o):
        p = v["self"]
        t, idx = p.fields["attach"], p.fields["idx"].items
        ys = [dist(E, t, idx[k].z, idx[k + 1].z) for k in range(len(idx) - 1)]
        c = dist(E, t, idx[-1].z, idx[0].z)
        ln = sum(ys) if ys else z3.RealVal(0)
        r = to_z3(v["result"], "real")
        return z3.If(ln == 0, r == 1, r * ln == c)

    R.add(f"{PATH}:Path.tortuosity", prop="C10",
          variants={f"path-of-{L}-nodes": (lambda S, _L=L: dict(self=path_obj(S, sym_tree(S, "t"), _L))) for L in LENS},
          requires=[("node-ids-in-the-tree-and-at-most-4-nodes", path_pre)],
          ensures=[("chord-over-length-or-one-for-a-zero-length-path", tort_post)])

    register_nodes(R)
    register_sholl(R)
    PAD = register_padding(R)
    register_lmeasure(R)
    H = register_features(R)
    H.update(register_topology_features(R, H))
    register_frontend(R, H)
    register_extractors(R, H, PAD)


def register_nodes(R):
    # ------------------------------------------------------------------ Node.distance
    def nd_post(E, v, o):
        a, b = v["self"], v["b"]
        return to_z3(v["result"], "real") == dist(E, a.fields["attach"], to_z3(a.fields["idx"], "int"), to_z3(b.fields["idx"], "int"), b.fields["attach"])

    def two_nodes_same(S):
        t = sym_tree(S, "t")
        return dict(self=node_obj(S, t, "a"), b=node_obj(S, t, "b"))

    def two_nodes_other(S):
        return dict(self=node_obj(S, sym_tree(S, "t"), "a"), b=node_obj(S, sym_tree(S, "u"), "b"))

    R.add(f"{NODE}:Node.distance", prop="C10",
          variants={"same-tree": two_nodes_same, "two-trees": two_nodes_other},
          ensures=[("euclidean-distance-of-the-two-nodes", nd_post)],
          notes="tree sizes, node positions and all coordinates symbolic")

    # ------------------------------------------------------- Tree.Node.radial_distance
    def rd_post(E, v, o):
        a = v["self"]
        return to_z3(v["result"], "real") == dist(E, a.fields["attach"], to_z3(a.fields["idx"], "int"), z3.IntVal(0))

    R.add(f"{TREE}:Tree.Node.radial_distance", prop="C10",
          setup=lambda S: dict(self=node_obj(S, sym_tree(S, "t"), "a")),
          raises={"ValueError": ("root-is-not-typed-soma", lambda E, v, o: z3.Not(root_is_soma(v["self"].fields["attach"])))},
          ensures=[("distance-to-node-0", rd_post),
                   ("root-is-typed-soma", lambda E, v, o: root_is_soma(v["self"].fields["attach"]))])

    # -------------------------------------------------------------------- Tree.length
    def tl_post(E, v, o):
        t = v["self"]
        n = col(t, "pid").n
        pid = col(t, "pid").arr
        ys = [dist(E, t, z3.Select(pid, i), z3.IntVal(i)) for i in range(1, n)]
        return to_z3(v["result"], "real") == (sum(ys) if ys else z3.RealVal(0))

    R.add(f"{TREE}:Tree.length", prop="C10",
          variants={f"tree-of-{n}-nodes": (lambda S, _n=n: dict(self=tree_of_size(S, _n))) for n in (1, 2, 3, 4, 5)},
          ensures=[("sum-of-parent-child-distances", tl_post)],
          notes="number of nodes fixed per variant (1-5); parent pointers (any branching pattern) and all coordinates symbolic")


# ===========================================================================
# Sholl analysis
def straddles(p, c, r):
    """THE definition: a segment with end-point radii (p, c) about the root crosses the sphere of radius r iff
    proximal <= r < distal, in either direction"""
    return z3.Or(z3.And(p <= r, r < c), z3.And(c <= r, r < p))


def sholl_obj(S, name="rs"):
    """a Sholl object whose `rs` is a symbolic (m, 2) array of segment end-point radii, m >= 0 symbolic"""
    from swcgeom.analysis.sholl import Sholl

    m = S.int(name + "_m")
    S.assume(m.z >= 0)
    a0, a1 = S.arr("real", n=m, name=name + "0"), S.arr("real", n=m, name=name + "1")
    return S.obj(Sholl, rs=ext_C10.Rows([a0.arr, a1.arr], m.z, "real"), rmax=S.real("rmax"), tree=None)


def is_count_of(E, res, n, pred):
    """`res` IS the number of positions i in [0, n) with pred(i):  res is the value cnt_m(|m|) of the counting function
    of a mask m that np.count_nonzero was applied to (ghost log of the model), |m| = n, and m[i] <=> pred(i) pointwise"""
    for mask, r in ext_C10.counted(E):
        if isinstance(res, Sym) and (r.z.eq(res.z) or (res.kind == "real" and z3.ToReal(r.z).eq(res.z))):  # the count itself, or its cast to a float
            i = z3.Int(fresh_name("i"))
            return z3.And(mask.nz() == n, z3.ForAll([i], z3.Implies(z3.And(i >= 0, i < n), mask.get(i).z == pred(i))))
    return z3.BoolVal(False)


def rs_unchanged(E, v, o):
    a, b = v["self"].fields["rs"], o["self"].fields["rs"]
    ok = isinstance(a, ext_C10.Rows) and len(a.cols) == len(b.cols) and all(x.eq(y) for x, y in zip(a.cols, b.cols)) and z3.is_true(z3.simplify(a.nz() == b.nz()))
    rm = v["self"].fields["rmax"]
    return ok and isinstance(rm, Sym) and rm.z.eq(o["self"].fields["rmax"].z)


def rs_pred(sh, r):
    rs = sh.fields["rs"]
    return lambda i: straddles(z3.Select(rs.cols[0], i), z3.Select(rs.cols[1], i), to_z3(r, "real"))


def register_sholl(R):
    # ---------------------------------------------------------------- Sholl.intersect
    R.add(f"{SHOLL}:Sholl.intersect", prop="C10",
          setup=lambda S: dict(self=sholl_obj(S), r=S.real("r")),
          ensures=[("number-of-segments-straddling-r", lambda E, v, o: is_count_of(E, v["result"], o["self"].fields["rs"].nz(), rs_pred(o["self"], o["r"]))),
                   ("sholl-object-unchanged", rs_unchanged)],
          notes="rs: symbolic (m, 2) array, any m >= 0; r any real")

    # ---------------------------------------------------------------------- Sholl.get
    def radius_of(o, j):
        """the j-th radius asked for: steps[j] for an array, (j+1)*rmax/(steps+1) for an int number of steps"""
        if isinstance(o["steps"], NArr):
            return o["steps"].items[j]
        return Sym(z3.RealVal(j + 1) * to_z3(o["self"].fields["rmax"], "real") / z3.RealVal(o["steps"] + 1), "real")

    def get_post(E, v, o):
        res, sh = v["result"], o["self"]
        k = o["steps"].shape[0] if isinstance(o["steps"], NArr) else o["steps"]
        if not (isinstance(res, NArr) and res.shape == (k,)):
            return False
        n = sh.fields["rs"].nz()
        return z3.And(*[is_count_of(E, res.items[j], n, rs_pred(sh, radius_of(o, j))) for j in range(k)])

    def get_compat_post(E, v, o):
        """compat (Sholl(x, step=s)): radii s, 2s, ..., n*s -- the last below ceil(rmax), the next not -- and one straddle count per radius"""
        res, sh = v["result"], o["self"]
        st, m = to_z3(sh.fields["step"], "real"), sh.fields["rs"].nz()
        if not isinstance(res, SArr):
            return False
        n, c = res.nz(), z3.ToReal(-z3.ToInt(-to_z3(sh.fields["rmax"], "real")))
        for fam, cnt, r in ext_C10.counted_rows(E):
            if r.arr.eq(res.arr):
                j, i = z3.Int(fresh_name("j")), z3.Int(fresh_name("i"))
                pred = rs_pred(sh, Sym((z3.ToReal(j) + 1) * st, "real"))
                return z3.And(n >= 0, (z3.ToReal(n) + 1) * st >= c, z3.Or(n == 0, z3.ToReal(n) * st < c), fam.n_rows == n, fam.row.nz() == m,
                              z3.ForAll([j, i], z3.Implies(z3.And(j >= 0, j < n, i >= 0, i < m), fam.at(j, i) == pred(i))))
        return False

    def get_compat_hint(E, vars):
        sh = vars.get("self")
        if sh is None or sh.fields.get("step") is None:
            return
        for nn in ghost_consts(E, "arange_len!"):
            lemlib.use(E, "quotient-bounds", to_z3(sh.fields["step"], "real"), z3.ToReal(-z3.ToInt(-to_z3(sh.fields["rmax"], "real"))), z3.ToReal(nn))

    def with_step_(sh, step):
        sh.fields["step"] = step
        return sh

    variants = {f"steps=array-of-{k}-radii": (lambda S, _k=k: dict(self=sholl_obj(S), steps=NArr((_k,), [S.real(f"step{j}") for j in range(_k)], "real"))) for k in (1, 2, 3)}
    variants.update({f"steps={k}": (lambda S, _k=k: dict(self=sholl_obj(S), steps=_k)) for k in (1, 2, 3)})
    variants["step-given(compat),steps-ignored"] = lambda S: dict(self=with_step_(sholl_obj(S), S.real("step")))
    R.add(f"{SHOLL}:Sholl.get", prop="C10", variants=variants,
          requires=[("a-given-step-is-positive", lambda E, v, o: True if v["self"].fields.get("step") is None else to_z3(v["self"].fields["step"], "real") > 0)],
          options=dict(hints={"post/one-straddle-count-per-radius": get_compat_hint}),
          ensures=[("one-straddle-count-per-radius", lambda E, v, o: (get_compat_post if o["self"].fields.get("step") is not None else get_post)(E, v, o)),
                   ("sholl-object-unchanged", rs_unchanged)],
          notes="rs: symbolic (m, 2) array, rmax any real; steps: an array of 1-3 symbolic radii, or the int 1, 2, 3 "
                "(radii j*rmax/(steps+1), j = 1..steps)")

    # ------------------------------------------------------------------- Sholl.get_rs
    def rs_int_post(E, v, o):
        res, steps, rmax = v["result"], to_z3(o["steps"], "int"), to_z3(o["rmax"], "real")
        if not isinstance(res, SArr):
            return False
        j = z3.Int(fresh_name("j"))
        return z3.And(res.nz() == steps,
                      z3.ForAll([j], z3.Implies(z3.And(j >= 0, j < steps), to_z3(res.get(j), "real") * (z3.ToReal(steps) + 1) == (z3.ToReal(j) + 1) * rmax)))

    def rs_arr_post(E, v, o):
        res, st = v["result"], o["steps"]
        if not (isinstance(res, NArr) and res.shape == st.shape and res.root().uid not in E.entry_uids):
            return False
        return z3.And(*[to_z3(a, "real") == to_z3(b, "real") for a, b in zip(res.items, st.items)])

    R.add(f"{SHOLL}:Sholl.get_rs", prop="C10",
          variants={"steps=int": lambda S: dict(rmax=S.real("rmax"), steps=S.int("steps")),
                    "steps=array-of-3-radii": lambda S: dict(rmax=S.real("rmax"), steps=NArr((3,), [S.real(f"step{j}") for j in range(3)], "real"))},
          requires=[("steps-nonnegative", lambda E, v, o: True if isinstance(v["steps"], NArr) else to_z3(v["steps"], "int") >= 0)],
          ensures=[("exactly-steps-radii-j-times-rmax-over-steps-plus-1", lambda E, v, o: (rs_arr_post if isinstance(o["steps"], NArr) else rs_int_post)(E, v, o))],
          notes="steps: any int >= 0 (symbolic), rmax any real; or a given array of radii, returned as a fresh copy")

    # ------------------------------------------------------------------ Sholl._get_rs
    def with_step(sh, step):
        sh.fields["step"] = step
        return sh

    def ceil_of(x, c):
        """c is the integer ceil(x)"""
        return z3.And(z3.ToReal(c) - 1 < x, x <= z3.ToReal(c))

    def grs_post(E, v, o):
        sh, res = o["self"], v["result"]
        step = sh.fields.get("step")
        if step is None:  # the radii of get_rs(rmax, steps)
            if isinstance(o["steps"], NArr):
                return rs_arr_post(E, v, dict(steps=o["steps"]))
            return rs_int_post(E, v, dict(steps=o["steps"], rmax=sh.fields["rmax"]))
        # compat: the multiples step, 2*step, ..., n*step; the last one lies below ceil(rmax), the next one does not
        if not isinstance(res, SArr):
            return False
        st, n = to_z3(step, "real"), res.nz()
        c, j = z3.ToReal(ceil_int(sh.fields["rmax"])), z3.Int(fresh_name("j"))
        return z3.And(n >= 0, (z3.ToReal(n) + 1) * st >= c, z3.Or(n == 0, z3.ToReal(n) * st < c),
                      z3.ForAll([j], z3.Implies(z3.And(j >= 0, j < n), to_z3(res.get(j), "real") == (z3.ToReal(j) + 1) * st)))

    def ceil_int(x):
        """ceil(x) as an integer: -floor(-x), floor = SMT-LIB to_int"""
        return -z3.ToInt(-to_z3(x, "real"))

    def grs_hint(E, vars):
        sh, res = vars.get("self"), vars.get("result")
        step = sh.fields.get("step") if sh is not None else None
        if step is None:
            return
        for nn in ghost_consts(E, "arange_len!"):
            st, c = to_z3(step, "real"), z3.ToReal(ceil_int(sh.fields["rmax"]))
            lemlib.use(E, "quotient-bounds", st, c, z3.ToReal(nn))

    R.add(f"{SHOLL}:Sholl._get_rs", prop="C10",
          variants={"step=None,steps=int": lambda S: dict(self=sholl_obj(S), steps=S.int("steps")),
                    "step=None,steps=array-of-3-radii": lambda S: dict(self=sholl_obj(S), steps=NArr((3,), [S.real(f"step{j}") for j in range(3)], "real")),
                    "step-given(compat),steps-ignored": lambda S: dict(self=with_step(sholl_obj(S), S.real("step")), steps=S.int("steps"))},
          requires=[("steps-nonnegative-and-a-given-step-positive", lambda E, v, o: z3.And(True if isinstance(v["steps"], NArr) else to_z3(v["steps"], "int") >= 0,
                                                                                          True if v["self"].fields.get("step") is None else to_z3(v["self"].fields["step"], "real") > 0))],
          ensures=[("steps-radii-j-times-rmax-over-steps-plus-1-or-the-given-radii-or-the-multiples-of-a-given-step-below-ceil-rmax", grs_post),
                   ("sholl-object-unchanged", rs_unchanged)],
          options=dict(hints={"post/steps-radii-j-times-rmax-over-steps-plus-1-or-the-given-radii-or-the-multiples-of-a-given-step-below-ceil-rmax": grs_hint}),
          notes="rmax any real, steps any int >= 0 or 3 given radii; compat path (Sholl(x, step=...)): any step > 0")

    # ------------------------------------------------------------------ Sholl.get_count (deprecated alias)
    def gc_post(E, v, o):
        res, sh = v["result"], o["self"]
        if not (isinstance(res, NArr) and res.shape == (20,) and res.kind == "int"):
            return False
        n = sh.fields["rs"].nz()
        return z3.And(*[is_count_of(E, res.items[j], n, rs_pred(sh, radius_of(dict(self=sh, steps=20), j))) for j in range(20)])

    R.add(f"{SHOLL}:Sholl.get_count", prop="C10", setup=lambda S: dict(self=sholl_obj(S)),
          ensures=[("twenty-int-straddle-counts-at-radii-j-times-rmax-over-21", gc_post), ("sholl-object-unchanged", rs_unchanged)],
          notes="deprecated alias of get() with the default 20 steps; rs symbolic (m, 2), any m")

    # ----------------------------------------------------------------- Sholl.__init__
    def rooted_tree(S, n):
        t = tree_of_size(S, n)
        S.assume(z3.Select(col(t, "pid").arr, 0) == -1)  # node 0 is the root (and the only one: pid[i] >= 0 for i >= 1)
        return t

    def init_setup(n):
        def f(S):
            from swcgeom.analysis.sholl import Sholl

            return dict(self=S.obj(Sholl), tree=rooted_tree(S, n))

        return f

    def init_rs(E, v, o):
        t, sh = o["tree"], v["self"]
        n = col(t, "pid").n
        rs, pid = sh.fields.get("rs"), col(t, "pid").arr
        if not (isinstance(rs, NArr) and rs.shape == (n - 1, 2)):
            return False
        out = []
        for k in range(n - 1):
            out.append(to_z3(rs.items[2 * k], "real") == dist(E, t, z3.Select(pid, k + 1), z3.IntVal(0)))
            out.append(to_z3(rs.items[2 * k + 1], "real") == dist(E, t, z3.IntVal(k + 1), z3.IntVal(0)))
        return z3.And(*out)

    def init_rs_hint(E, vars):
        # the code measures from the FIRST node whose pid is -1 (a ghost position r), the definition from node 0:
        # per end point, first the squared distances agree (r = 0 under the precondition), then the roots (lemma)
        sh, t = vars["self"], vars["tree"]
        rs = sh.fields.get("rs")
        if not isinstance(rs, NArr) or t is None or not isinstance(t, type(sh)) and not hasattr(t, "fields"):
            return
        n = col(t, "pid").n
        pid = col(t, "pid").arr
        if rs.shape != (n - 1, 2):
            return
        for r in ghost_consts(E, "argmax!"):
            E.prove("Sholl.__init__/step/the-first-root-position-is-0", r == 0, "proof step")
        for k in range(n - 1):
            for e, node in ((0, z3.Select(pid, k + 1)), (1, z3.IntVal(k + 1))):
                y1, y2 = to_z3(rs.items[2 * k + e], "real"), dist(E, t, node, z3.IntVal(0))
                E.prove(f"Sholl.__init__/step/squared-radius-{k}-{e}-is-the-squared-distance-to-node-0", y1 * y1 == y2 * y2, "proof step")
                lemlib.use(E, "nonnegative-numbers-with-equal-squares-are-equal", y1, y2)

    def init_rmax(E, v, o):
        sh = v["self"]
        rs, rm = sh.fields.get("rs"), to_z3(sh.fields.get("rmax"), "real")
        xs = [to_z3(x, "real") for x in rs.items]
        return z3.And(z3.And(*[rm >= x for x in xs]), z3.Or(*[rm == x for x in xs]))

    def init_tree(E, v, o):
        t, u = o["tree"], v["self"].fields.get("tree")
        n = col(t, "pid").n
        if u is None or u.uid in E.entry_uids or z3.is_false(z3.simplify(nof(u) == n)):
            return False
        same = [z3.Select(col(u, c).arr, i) == z3.Select(col(t, c).arr, i) for i in range(n) for c, k in COLS.items() if k == "int"]
        iso = [d2(u, z3.IntVal(i), z3.IntVal(j)) == d2(t, z3.IntVal(i), z3.IntVal(j)) for i in range(n) for j in range(i)]
        return z3.And(nof(u) == n, *same, *iso)

    def init_step_setup(n):
        def f(S):
            d = init_setup(n)(S)
            d["step"] = S.real("step")
            return d

        return f

    def init_step(E, v, o):
        """compat: a given step is kept (and announced as deprecated, once); without one no instance attribute is set and nothing is warned"""
        sh = v["self"]
        if o.get("step") is None:
            return "step" not in sh.fields and len(E.warn_log) == 0
        return sh.fields.get("step") is v["step"] and len(E.warn_log) == 1

    init_variants = {f"tree-of-{n}-nodes": init_setup(n) for n in (1, 2, 3, 4)}
    init_variants.update({f"tree-of-{n}-nodes,step-given(compat)": init_step_setup(n) for n in (1, 3)})
    R.add(f"{SHOLL}:Sholl.__init__", prop="C10",
          variants=init_variants,
          raises={"ValueError": ("no-segment", lambda E, v, o: col(v["tree"], "pid").n == 1)},
          ensures=[("rs-are-the-root-distances-of-the-segment-end-points", init_rs),
                   ("rmax-is-their-maximum", init_rmax),
                   ("kept-tree-is-a-fresh-isometric-copy-with-the-same-topology", init_tree),
                   ("at-least-one-segment", lambda E, v, o: col(o["tree"], "pid").n >= 2),
                   ("a-given-step-is-kept-with-one-deprecation-warning-else-none", init_step)],
          options=dict(hints={"post/rs-are-the-root-distances-of-the-segment-end-points": init_rs_hint}),
          notes="number of nodes fixed per variant (1-4; a single node has no segment: ValueError); parent pointers and coordinates symbolic, node 0 the root")


# ===========================================================================
# padding and the population front end
def padded(res, n, src_get, src_len, pad, kind="real"):
    """THE definition of padding to length n: |res| = n, res[i] = src[i] below min(n, |src|), the padding value from there on"""
    if not isinstance(res, SArr):
        return z3.BoolVal(False)
    i = z3.Int(fresh_name("i"))
    return z3.And(res.nz() == n,
                  z3.ForAll([i], z3.Implies(z3.And(i >= 0, i < n), to_z3(res.get(i), kind) == z3.If(i < src_len, src_get(i), to_z3(pad, kind)))))


def register_padding(R):
    import numpy as np

    def pad_post(E, v, o):
        src, n = o["v"], to_z3(o["n"], "int")
        kind = v["result"].kind if isinstance(v["result"], SArr) else "real"
        if src is None:
            return padded(v["result"], n, lambda i: z3.RealVal(0), z3.IntVal(0), o["padding_value"], kind)
        get = (lambda i: to_z3(src.get(i), kind))
        return padded(v["result"], n, get, src.nz() if isinstance(src, SArr) else to_z3(src.n, "int"), o["padding_value"], kind)

    def v_arr(kind, vdt, dtype, pv=None):
        def f(S):
            d = dict(n=S.int("n"), v=S.arr(kind, name="v", dtype=np.dtype(vdt)), dtype=dtype)
            d["v"].frozen = True
            if pv is not None:
                d["padding_value"] = pv(S)
            return d

        return f

    def v_list(S):
        l = S.plist("real", name="v")
        l.frozen = True
        return dict(n=S.int("n"), v=l, dtype=np.float32, padding_value=S.real("pad"))

    R.add(f"{NPH}:padding1d", prop="C10", pure_inline=True,
          variants={"float32-array,dtype=float32,any-padding-value": v_arr("real", "float32", np.float32, lambda S: S.real("pad")),
                    "float64-array,dtype=float32,default-padding": v_arr("real", "float64", np.float32),
                    "float64-array,dtype=None,any-padding-value": v_arr("real", "float64", None, lambda S: S.real("pad")),
                    "int32-array,dtype=int32,any-padding-value": v_arr("int", "int32", np.int32, lambda S: S.int("pad")),
                    "python-list,dtype=float32,any-padding-value": v_list,
                    "v=None,default-padding": lambda S: dict(n=S.int("n"), v=None)},
          requires=["n-nonnegative :: n >= 0"],
          ensures=[("length-n-prefix-of-v-then-the-padding-value", pad_post)],
          notes="n, the length of v, its contents and the padding value symbolic; the input array is frozen (any write = failed frame obligation)")

    # ------------------------------------------- PopulationFeatureExtractor._get_impl
    # the per-tree evaluator is abstract: asked for request number f (a feature name together with its keyword arguments),
    # tree p yields an arbitrary vector FV(p, f, .) of arbitrary length FLEN(p, f) >= 0
    I_, R_ = z3.IntSort(), z3.RealSort()
    FLEN, FV = z3.Function("feature_len", I_, I_, I_), z3.Function("feature_val", I_, I_, I_, R_)

    def kw_key(x):
        from fractions import Fraction

        return x if isinstance(x, (int, str, bool, Fraction, type(None))) else ("object", id(x))

    def feature_id(E, feature, kwargs):
        """number of the request (feature name, keyword arguments): equal requests get the same number"""
        key = (feature, tuple(sorted((k, kw_key(x)) for k, x in dict(kwargs).items())))
        ids = E.ghost.setdefault("feature_ids", [])
        if key not in ids:
            ids.append(key)
        return ids.index(key)

    def feat_get(E, recv, args, kwargs):
        E.assumptions.add("abstract per-tree evaluator: Features.get(feature, **kw) of tree p is some float32 vector FV(p, request, .) of some length FLEN(p, request) >= 0")
        feature = args[0] if args else kwargs.get("feature")
        kw = {k: x for k, x in kwargs.items() if k != "feature"}
        f = feature_id(E, feature, kw)
        E.assume(FLEN(recv.z, f) >= 0)
        q = z3.Int(fresh_name("q"))
        E.ghost.setdefault("feature_calls", []).append((recv.z, feature, kw))
        return SArr(z3.Lambda([q], FV(recv.z, f, q)), FLEN(recv.z, f), "real", name="feat", dtype=np.dtype("float32"))

    def pop_setup(P):
        def f(S):
            from pyvc.values import PList
            from swcgeom.analysis.feature_extractor import PopulationFeatureExtractor

            fs = [S.opaque({"get": feat_get}, name=f"features{p}") for p in range(P)]
            return dict(self=S.obj(PopulationFeatureExtractor, _features=PList(fs), _population=None), feature="some_feature", __fs__=fs)

        return f

    def rows_padded(E, res, fs, feature, kwargs):
        """THE statement for a population: `res` has one row per tree, as long as the longest per-tree vector, row p = the
        vector of tree p followed by zeros"""
        if not (isinstance(res, S2Arr) and res.transposed and res.k == len(fs)):
            return False
        f = feature_id(E, feature, kwargs)
        L = res.nz()
        lens = [FLEN(x.z, f) for x in fs]
        longest = z3.And(z3.And(*[L >= x for x in lens]), z3.Or(*[L == x for x in lens]))
        rows = [padded(SArr(res.cols[p], res.n, "real"), L, (lambda i, _x=x: FV(_x.z, f, i)), FLEN(x.z, f), 0) for p, x in enumerate(fs)]
        return z3.And(longest, *rows)

    def pop_post(E, v, o):
        return rows_padded(E, v["result"], o["__fs__"], o["feature"], {})

    def calls_are(E, expected):
        """the ghost log of evaluator calls is exactly `expected` = [(evaluator, feature, kwargs)] in order"""
        calls = E.ghost.get("feature_calls", [])
        return len(calls) == len(expected) and all(c[0].eq(x.z) and c[1] == f and {k: kw_key(y) for k, y in c[2].items()} == {k: kw_key(y) for k, y in kw.items()}
                                                    for c, (x, f, kw) in zip(calls, expected))

    def pop_calls(E, v, o):
        return calls_are(E, [(x, o["feature"], {}) for x in o["__fs__"]])

    R.add(f"{FEX}:PopulationFeatureExtractor._get_impl", prop="C10",
          variants={f"population-of-{P}-trees": pop_setup(P) for P in (1, 2, 3)},
          ensures=[("one-zero-padded-row-per-tree-as-long-as-the-longest", pop_post),
                   ("each-tree-evaluated-once-in-order-with-the-requested-feature", pop_calls)],
          notes="number of trees fixed per variant (1-3); the per-tree vectors are abstract (any length, any contents)")
    return dict(feat_get=feat_get, feature_id=feature_id, FLEN=FLEN, FV=FV, rows_padded=rows_padded, calls_are=calls_are)


# ===========================================================================
# L-Measure
def register_lmeasure(R):
    from swcgeom.analysis.lmeasure import LMeasure

    lm = lambda S: S.obj(LMeasure, compartment_point=-1)
    I_ = z3.IntSort()
    # abstract topology protocol (the traversal itself is C04/C06/C08): node -> its children, node -> its subtree,
    # tree -> its tips / furcations / branches, each an opaque list of abstract length
    NCH, CHILD, SUB, NTIPS = z3.Function("n_children", I_, I_), z3.Function("child", I_, I_, I_), z3.Function("subtree_of", I_, I_), z3.Function("n_tips", I_, I_)
    NFUR, NBR, SOMA = z3.Function("n_furcations", I_, I_), z3.Function("n_branches", I_, I_), z3.Function("soma_of", I_, I_)

    def opaque_list(E, n, proto=None, elem=None):
        from pyvc.values import PList

        E.assumptions.add("abstract topology protocol: children()/subtree()/get_tips()/get_furcations()/get_branches() return lists of abstract lengths (n_tips >= 1)")
        p = PList.fresh("ref", n, name="lst")
        if elem is not None:
            q = z3.Int(fresh_name("q"))
            p.cols = [z3.Lambda([q], elem(q))]
        p.proto = proto
        return p

    TREE_PROTO, NODE_PROTO = {}, {}

    def _tips(E, recv, a, k):
        E.assume(NTIPS(recv.z) >= 1)  # every tree has at least one tip
        return opaque_list(E, NTIPS(recv.z))

    def _nonneg_list(F):
        def m(E, recv, a, k):
            E.assume(F(recv.z) >= 0)
            return opaque_list(E, F(recv.z))

        return m

    from pyvc.values import Opaque

    TREE_PROTO.update({"get_tips": _tips, "get_furcations": _nonneg_list(NFUR), "get_branches": _nonneg_list(NBR),
                       "soma": lambda E, recv, a, k: Opaque(SOMA(recv.z), NODE_PROTO)})

    def _children(E, recv, a, k):
        E.assume(NCH(recv.z) >= 0)
        return opaque_list(E, NCH(recv.z), NODE_PROTO, lambda q: CHILD(recv.z, q))

    NODE_PROTO.update({"children": _children, "subtree": lambda E, recv, a, k: Opaque(SUB(recv.z), TREE_PROTO)})

    # ------------------------------------------------------------ partition_asymmetry
    from swcgeom.core.swc_utils import get_types as _gt

    SOMA_T = _gt().soma

    def sel_type0(t):
        return to_z3(col(t, "type").items[0], "int")

    def tnode(S, t, i):
        from swcgeom.core.tree import Tree

        return S.obj(Tree.Node, attach=t, idx=i, names=t.fields["names"])

    def pa_value(r, n1, n2):
        return z3.If(n1 == n2, r == 0, r * (n1 + n2 - 2) == z3.If(n1 >= n2, n1 - n2, n2 - n1))

    def pa_sides(o):
        """(number of children, n1, n2): abstract protocol, or the textbook tip counts below the two daughters of a real node"""
        n = o["n"]
        if isinstance(n, Opaque):
            return NCH(n.z), z3.ToReal(NTIPS(SUB(CHILD(n.z, 0)))), z3.ToReal(NTIPS(SUB(CHILD(n.z, 1))))
        tp = Topo(pids_of(n.fields["attach"]))
        ks = tp.kids(n.fields["idx"])
        n1, n2 = (tp.terminal_degree(ks[0]), tp.terminal_degree(ks[1])) if len(ks) == 2 else (0, 0)
        return z3.IntVal(len(ks)), z3.RealVal(n1), z3.RealVal(n2)

    def pa_post(E, v, o):
        _, n1, n2 = pa_sides(o)
        return pa_value(to_z3(v["result"], "real"), n1, n2)

    pa_variants = {"abstract-protocol": lambda S: dict(self=lm(S), n=S.opaque(NODE_PROTO, name="bif"))}
    for p in TOPOS + BIGGER:
        for i in range(len(p)):
            pa_variants[f"real-tree,{pname(p)},node={i}"] = (lambda S, _p=p, _i=i: dict(self=lm(S), n=tnode(S, topo_tree(S, _p), _i)))
    R.add(f"{LM}:LMeasure.partition_asymmetry", prop="C10", variants=pa_variants, options=dict(inline_calls=INLINE),
          raises={"AssertionError": ("not-a-bifurcation", lambda E, v, o: pa_sides(v)[0] != 2)},
          ensures=[("zero-if-n1-equals-n2-else-abs-difference-over-n1-plus-n2-minus-2", pa_post),
                   ("is-a-bifurcation", lambda E, v, o: pa_sides(o)[0] == 2)],
          notes="abstract-protocol variant: n1, n2 = abstract tip counts (>= 1) of the two daughters' subtrees; real-tree variants: every node of every "
                "fixed topology (21 trees of 1-4 nodes, 4 shapes of 6-7 nodes), children() / subtree() / get_tips() executed from source, n1, n2 = textbook "
                "tip counts below the two daughters")

    def count_carrier(name, param, F, topo_count, via=None, note=""):
        """two kinds of variants: (a) dispatch only, over the abstract topology protocol; (b) a REAL tree of a fixed topology
        (the library's traversal / set operations executed from source), compared with the textbook count"""
        variants = {"abstract-protocol": lambda S: {"self": lm(S), param: S.opaque(TREE_PROTO if via is None else NODE_PROTO, name=param)}}
        for p in TOPOS + BIGGER:
            if via is None:
                variants["real-tree," + pname(p)] = (lambda S, _p=p: {"self": lm(S), param: topo_tree(S, _p)})
            else:
                for i in range(len(p)):
                    variants[f"real-tree,{pname(p)},node={i}"] = (lambda S, _p=p, _i=i: {"self": lm(S), param: tnode(S, topo_tree(S, _p), _i)})

        def post(E, v, o):
            x = o[param]
            if isinstance(x, Opaque):
                return to_z3(v["result"], "int") == F(x.z)
            t, i = (x, None) if via is None else (x.fields["attach"], x.fields["idx"])
            return isinstance(v["result"], int) and v["result"] == topo_count(Topo(pids_of(t)), i)

        soma = (lambda x: sel_type0(x) == SOMA_T)
        R.add(f"{LM}:LMeasure.{name}", prop="C10", variants=variants, options=dict(inline_calls=INLINE),
              raises=({"ValueError": ("root-is-not-typed-soma", lambda E, v, o: False if isinstance(v[param], Opaque) else z3.Not(soma(v[param])))} if name == "n_stems" else None),
              ensures=[("is-the-length-of-the-listed-set", post)],
              notes="abstract-protocol variant: dispatch only (the count of the abstract list returned by the tree); real-tree variants: topology fixed per "
                    "variant (21 trees of 1-4 nodes, 4 shapes of 6-7 nodes), the library's own traversal executed from source, compared with the textbook count" + note)

    count_carrier("n_stems", "tree", lambda t: NCH(SOMA(t)), lambda tp, i: len(tp.kids(0)))
    count_carrier("n_bifs", "tree", NFUR, lambda tp, i: len(tp.furcations()))
    count_carrier("n_branch", "tree", NBR, lambda tp, i: len(tp.branches()))
    count_carrier("n_tips", "tree", NTIPS, lambda tp, i: len(tp.tips()))
    count_carrier("terminal_degree", "node", lambda n: NTIPS(SUB(n)), lambda tp, i: tp.terminal_degree(i), via="node")

    # ------------------------------------------------------------------ fragmentation
    def branch_sym(S):
        from swcgeom.core.branch import Branch

        t = sym_tree(S, "t")
        idx = S.arr("int", name="bidx")
        j = z3.Int(fresh_name("j"))
        S.assume(z3.ForAll([j], z3.Implies(z3.And(j >= 0, j < idx.nz()), z3.And(idx.get(j).z >= 0, idx.get(j).z < nof(t)))))
        return dict(self=lm(S), branch=S.obj(Branch, attach=t, idx=idx, names=t.fields["names"], source=""))

    R.add(f"{LM}:LMeasure.fragmentation", prop="C10", setup=branch_sym,
          ensures=[("number-of-compartments-is-nodes-minus-1", lambda E, v, o: to_z3(v["result"], "int") == o["branch"].fields["idx"].nz() - 1)],
          notes="branch of symbolic length over a symbolic tree")

    # -------------------------------------------------------------------- contraction
    def branch_fixed(L):
        def f(S):
            from swcgeom.core.branch import Branch

            return dict(self=lm(S), branch=path_obj(S, sym_tree(S, "t"), L, cls=Branch))

        return f

    def path_len(E, p):
        t, idx = p.fields["attach"], p.fields["idx"].items
        ys = [dist(E, t, idx[k].z, idx[k + 1].z) for k in range(len(idx) - 1)]
        return sum(ys) if ys else z3.RealVal(0)

    def contr_post(E, v, o):
        p = o["branch"]
        t, idx = p.fields["attach"], p.fields["idx"].items
        return to_z3(v["result"], "real") * path_len(E, p) == dist(E, t, idx[0].z, idx[-1].z)

    R.add(f"{LM}:LMeasure.contraction", prop="C10",
          variants={f"branch-of-{L}-nodes": branch_fixed(L) for L in (2, 3, 4)},
          requires=[("branch-has-positive-length", lambda E, v, o: path_len(E, v["branch"]) > 0)],
          ensures=[("end-to-end-distance-over-path-length", contr_post)],
          notes="branch length fixed per variant (2-4 nodes); a zero-length branch divides by zero in the code (excluded by the precondition)")

    # ------------------------------------------------------------------- euc_distance
    def ed_post(E, v, o):
        a = o["node"]
        return to_z3(v["result"], "real") == dist(E, a.fields["attach"], to_z3(a.fields["idx"], "int"), z3.IntVal(0))

    R.add(f"{LM}:LMeasure.euc_distance", prop="C10",
          setup=lambda S: dict(self=lm(S), node=node_obj(S, sym_tree(S, "t"), "a")),
          raises={"ValueError": ("root-is-not-typed-soma", lambda E, v, o: z3.Not(root_is_soma(v["node"].fields["attach"])))},
          ensures=[("distance-to-node-0", ed_post),
                   ("root-is-typed-soma", lambda E, v, o: root_is_soma(o["node"].fields["attach"]))])

    # ------------------------------------------------------------------ path_distance
    def sorted_tree(S, n):
        """n nodes, node 0 the only root, every other node's parent has a smaller index (the order every reader /
        constructor of the library produces: C05) -- so the ancestor chain of a node has at most n-1 steps"""
        t = tree_of_size(S, n)
        pid = col(t, "pid").arr
        S.assume(z3.Select(pid, 0) == -1)
        for i in range(1, n):
            S.assume(z3.Select(pid, i) < i)
        return t

    def chain(t, i0, n):
        """p_0 = i0, p_{k+1} = pid[p_k]: the iterated parent function, and alive_k = no root met before step k"""
        pid = col(t, "pid").arr
        ps, alive = [i0], [z3.BoolVal(True)]
        for _ in range(n - 1):
            alive.append(z3.And(alive[-1], z3.Select(pid, ps[-1]) != -1))
            ps.append(z3.Select(pid, ps[-1]))
        return ps, alive

    def pd_post(E, v, o):
        a = o["node"]
        t, i0 = a.fields["attach"], to_z3(a.fields["idx"], "int")
        n = col(t, "pid").n
        ps, alive = chain(t, i0, n)
        total = z3.RealVal(0)
        for k in range(n - 1):
            total = total + z3.If(alive[k + 1], dist(E, t, ps[k], ps[k + 1]), z3.RealVal(0))
        return to_z3(v["result"], "real") == total

    R.add(f"{LM}:LMeasure.path_distance", prop="C10",
          variants={f"tree-of-{n}-nodes": (lambda S, _n=n: (lambda t: dict(self=lm(S), node=node_obj(S, t, "a")))(sorted_tree(S, _n))) for n in (1, 2, 3, 4)},
          ensures=[("sum-of-segment-lengths-along-the-ancestor-chain", pd_post)],
          notes="number of nodes fixed per variant (1-4), parents before children; the node, the parent pointers and all coordinates "
                "symbolic; the loop is unrolled (at most n-1 iterations are feasible)")

    # -------------------------------------------------------------------------- angle
    ARCCOS = z3.Function("arccos", z3.RealSort(), z3.RealSort())

    def vec(S, nm):
        return NArr((3,), [S.real(f"{nm}{k}") for k in range(3)], "real")

    def dot(a, b):
        return sum((to_z3(x, "real") * to_z3(y, "real") for x, y in zip(a.items, b.items)), z3.RealVal(0))

    def angle_post(E, v, o):
        a, b = o["a"], o["b"]
        na = to_z3(E.sqrt(Sym(dot(a, a), "real"), nonneg_known=True), "real")
        nb = to_z3(E.sqrt(Sym(dot(b, b), "real"), nonneg_known=True), "real")
        c = dot(a, b) / (na * nb)
        clipped = z3.If(c < -1, z3.RealVal(-1), z3.If(c > 1, z3.RealVal(1), c))
        return z3.And(na * nb != 0, to_z3(v["result"], "real") == ARCCOS(clipped))

    R.add(f"{LM}:angle", prop="C10",
          setup=lambda S: dict(a=vec(S, "a"), b=vec(S, "b")),
          raises={"ValueError": ("a-zero-vector", lambda E, v, o: z3.Or(dot(v["a"], v["a"]) == 0, dot(v["b"], v["b"]) == 0))},
          ensures=[("arccos-of-the-clipped-normalised-dot-product", angle_post),
                   ("zero-vector-rejected", lambda E, v, o: z3.And(dot(o["a"], o["a"]) != 0, dot(o["b"], o["b"]) != 0))],
          notes="arccos is an uninterpreted function (the same symbol in code model and clause)")


# ===========================================================================
# node-level feature classes
def register_features(R):
    from swcgeom.analysis.features import FurcationFeatures, NodeFeatures, TipFeatures

    # ----------------------------------------------------------- NodeFeatures.get_count
    R.add(f"{FEAT}:NodeFeatures.get_count", prop="C10",
          setup=lambda S: dict(self=S.obj(NodeFeatures, tree=sym_tree(S, "t"))),
          ensures=[("one-element-the-number-of-nodes", lambda E, v, o: isinstance(v["result"], NArr) and v["result"].shape == (1,)
                    and to_z3(v["result"].items[0], "real") == z3.ToReal(nof(o["self"].fields["tree"])))],
          notes="tree of symbolic size")

    # ------------------------------------------------- NodeFeatures.get_radial_distance
    def fixed_tree(S, n):
        """n nodes (concrete), all column contents symbolic; id column = 0..n-1"""
        t = sym_tree_fixed(S, n)
        for i, x in enumerate(col(t, "id").items):
            S.assume(x.z == i)
        return t

    def sel(t, c, i):
        return to_z3(col(t, c).items[i], COLS[c])

    def as_arrays(t):
        """view of a concrete-shape tree as z3 arrays (so that d2 / dist apply unchanged)"""
        from pyvc.values import Obj, PDict

        cols = {}
        for c, k in COLS.items():
            its = col(t, c).items
            arr = z3.K(z3.IntSort(), to_z3(its[0], k))
            for i, x in enumerate(its):
                arr = z3.Store(arr, i, to_z3(x, k))
            cols[c] = SArr(arr, len(its), k)
        return Obj(type(None), dict(ndata=PDict(cols)))

    def rd_post(E, v, o):
        t = o["self"].fields["tree"]
        n = col(t, "pid").shape[0]
        res = v["result"]
        if not (isinstance(res, NArr) and res.shape == (n,)):
            return False
        ta = as_arrays(t)
        return z3.And(*[to_z3(res.items[i], "real") == dist(E, ta, z3.IntVal(i), z3.IntVal(0)) for i in range(n)])

    def soma_typed(t):
        from swcgeom.core.swc_utils import get_types

        return sel(t, "type", 0) == get_types().soma

    R.add(f"{FEAT}:NodeFeatures.get_radial_distance", prop="C10",
          variants={f"tree-of-{n}-nodes": (lambda S, _n=n: dict(self=S.obj(NodeFeatures, tree=fixed_tree(S, _n)))) for n in (1, 2, 3, 4)},
          raises={"ValueError": ("root-is-not-typed-soma", lambda E, v, o: z3.Not(soma_typed(v["self"].fields["tree"])))},
          ensures=[("distance-of-every-node-to-node-0", rd_post),
                   ("root-is-typed-soma", lambda E, v, o: soma_typed(o["self"].fields["tree"]))],
          notes="number of nodes fixed per variant (1-4); coordinates symbolic")

    # ------------------------------------------------ furcation / tip masks and counts
    def n_children(t, i):
        n = col(t, "pid").shape[0]
        return sum((z3.If(sel(t, "pid", j) == sel(t, "id", i), 1, 0) for j in range(n)), z3.IntVal(0))

    def is_furcation(t, i):  # more than one child
        return n_children(t, i) > 1

    def is_tip(t, i):  # no child
        return n_children(t, i) == 0

    def mask_post(pred):
        def f(E, v, o):
            t = o["self"].fields["_features"].fields["tree"]
            n = col(t, "pid").shape[0]
            res = v["result"]
            if not (isinstance(res, NArr) and res.shape == (n,)):
                return False
            return z3.And(*[to_z3(E.truth(res.items[i]), "bool") == pred(t, i) for i in range(n)])

        return f

    def subset_obj(cls, n):
        def f(S):
            t = sym_tree_fixed(S, n)  # ids arbitrary (the masks are defined through pid == id)
            return dict(self=S.obj(cls, _features=S.obj(NodeFeatures, tree=t)))

        return f

    SIZES = (1, 2, 3, 4)
    R.add(f"{FEAT}:FurcationFeatures.nodes", prop="C10",
          variants={f"tree-of-{n}-nodes": subset_obj(FurcationFeatures, n) for n in SIZES},
          ensures=[("mask-of-the-nodes-with-more-than-one-child", mask_post(is_furcation))],
          notes="number of nodes fixed per variant (1-4); id / pid columns fully symbolic (any branching pattern)")
    R.add(f"{FEAT}:TipFeatures.nodes", prop="C10",
          variants={f"tree-of-{n}-nodes": subset_obj(TipFeatures, n) for n in SIZES},
          ensures=[("mask-of-the-nodes-without-children", mask_post(is_tip))],
          notes="number of nodes fixed per variant (1-4); id / pid columns fully symbolic")

    def count_post(E, v, o):
        s = o["self"]
        t = s.fields["_features"].fields["tree"]
        n = col(t, "pid").shape[0]
        pred = is_furcation if s.cls is FurcationFeatures else is_tip
        res = v["result"]
        if not (isinstance(res, NArr) and res.shape == (1,)):
            return False
        return to_z3(res.items[0], "real") == z3.ToReal(sum((z3.If(pred(t, i), 1, 0) for i in range(n)), z3.IntVal(0)))

    variants = {f"furcations,tree-of-{n}-nodes": subset_obj(FurcationFeatures, n) for n in SIZES}
    variants.update({f"tips,tree-of-{n}-nodes": subset_obj(TipFeatures, n) for n in SIZES})
    R.add(f"{FEAT}:_SubsetNodesFeatures.get_count", prop="C10", variants=variants,
          ensures=[("one-element-the-number-of-nodes-of-the-subset", count_post)],
          notes="furcation and tip subsets; number of nodes fixed per variant (1-4)")
    # ------------------------------------------------------- LMeasure.branch_order
    # (here because it shares the concrete-shape tree helpers) the code's documented reading: the number of
    # furcations on the path from the node to the root, the node itself included
    from swcgeom.analysis.lmeasure import LMeasure
    from swcgeom.core.tree import Tree

    def bo_setup(n):
        def f(S):
            t = fixed_tree(S, n)
            pid = col(t, "pid").items
            S.assume(pid[0].z == -1)
            for i in range(1, n):
                S.assume(z3.And(pid[i].z >= 0, pid[i].z < i))  # parents before children
            i0 = S.int("a_idx")
            S.assume(z3.And(i0.z >= 0, i0.z < n))
            return dict(self=S.obj(LMeasure, compartment_point=-1), node=S.obj(Tree.Node, attach=t, idx=i0, names=t.fields["names"]))

        return f

    def bo_post(E, v, o):
        a = o["node"]
        t, p = a.fields["attach"], to_z3(a.fields["idx"], "int")
        n = col(t, "pid").shape[0]
        ta = as_arrays(t)
        pid, idc = col(ta, "pid").arr, col(ta, "id").arr
        kids = lambda q: sum((z3.If(z3.Select(pid, j) == z3.Select(idc, q), 1, 0) for j in range(n)), z3.IntVal(0))
        total, alive = z3.IntVal(0), z3.BoolVal(True)
        for _ in range(n):
            total = total + z3.If(z3.And(alive, kids(p) > 1), 1, 0)
            alive = z3.And(alive, z3.Select(pid, p) != -1)
            p = z3.Select(pid, p)
        return to_z3(v["result"], "int") == total

    R.add(f"{LM}:LMeasure.branch_order", prop="C10",
          variants={f"tree-of-{n}-nodes": bo_setup(n) for n in (1, 2, 3, 4)},
          ensures=[("number-of-furcations-on-the-root-path-node-included", bo_post)],
          notes="number of nodes fixed per variant (1-4), parents before children; the node and the parent pointers symbolic")

    return dict(fixed_tree=fixed_tree, as_arrays=as_arrays, is_furcation=is_furcation, is_tip=is_tip, soma_typed=soma_typed)


# ===========================================================================
# the single-tree front end: Features.get(name) dispatches to the evaluator of that name
def register_frontend(R, H):
    from swcgeom.analysis.feature_extractor import Features

    def feats(S, t):
        return S.obj(Features, tree=t)

    def one_number(E, v, expected):
        res = v["result"]
        return isinstance(res, NArr) and res.shape == (1,) and to_z3(res.items[0], "real") == expected

    def tree_len(E, t):
        n, pid = col(t, "pid").n, col(t, "pid").arr
        ys = [dist(E, t, z3.Select(pid, i), z3.IntVal(i)) for i in range(1, n)]
        return sum(ys) if ys else z3.RealVal(0)

    variants = {"node_count": lambda S: dict(self=feats(S, sym_tree(S, "t")), feature="node_count")}
    variants.update({f"length,tree-of-{n}-nodes": (lambda S, _n=n: dict(self=feats(S, tree_of_size(S, _n)), feature="length")) for n in (1, 2, 3)})
    for nm in ("node_radial_distance", "furcation_count", "tip_count"):
        variants[f"{nm},tree-of-3-nodes"] = (lambda S, _nm=nm: dict(self=feats(S, H["fixed_tree"](S, 3)), feature=_nm))
    variants["unknown-name"] = lambda S: dict(self=feats(S, sym_tree(S, "t")), feature="no_such_feature")
    variants["unknown-module"] = lambda S: dict(self=feats(S, sym_tree(S, "t")), feature="soma_count")
    variants["bifurcation_count"] = lambda S: dict(self=feats(S, sym_tree(S, "t")), feature="bifurcation_count")
    # features that need the traversal: a few fixed topologies (the evaluators themselves are verified on all of them)
    FRONT = [[-1, 0, 0, 1], [-1, 0, 1, 1], [-1, 2, 0], [-1, 0, 1, 2, 2, 3, 4]]
    TRAVERSAL = ("branch_length", "branch_tortuosity", "path_length", "path_tortuosity", "node_branch_order", "furcation_radial_distance", "tip_radial_distance")
    for nm in TRAVERSAL:
        for p in FRONT:
            variants[f"{nm},{pname(p)}"] = (lambda S, _nm=nm, _p=p: dict(self=feats(S, topo_tree(S, _p)), feature=_nm))
    from pyvc.values import PDict as PDict_

    def sholl_feats(S):
        return S.obj(Features, tree=None, sholl=sholl_obj(S))

    variants["sholl,steps=2-as-keyword-argument"] = lambda S: dict(self=sholl_feats(S), feature="sholl", kwargs=PDict_(dict(steps=2)))
    variants["sholl,steps=2-in-a-name-and-arguments-pair"] = lambda S: dict(self=sholl_feats(S), feature=("sholl", PDict_(dict(steps=2))))
    variants["sholl,pair-overridden-by-keyword-argument"] = lambda S: dict(self=sholl_feats(S), feature=("sholl", PDict_(dict(steps=3))), kwargs=PDict_(dict(steps=2)))

    # the module objects (node_features, branch_features, ...) are cached_properties of Features: a WARM module cache is used as it is.
    # The cached module holds a reference to the tree it was built for, so edits of that tree are seen; only re-binding
    # `features.tree` to another tree leaves the cache pointing at the old one -- the variant below states exactly that.
    def warm_module(S):
        from swcgeom.analysis.features import NodeFeatures

        return dict(self=S.obj(Features, tree=sym_tree(S, "t"), node_features=S.obj(NodeFeatures, tree=sym_tree(S, "u"))), feature="node_count")

    variants["node_count,warm-module-cache-built-for-another-tree"] = warm_module

    def view(o, cls=None, sub=False):
        """the object a feature-class clause expects, for the tree held by the Features object"""
        import types

        t = o["self"].fields["tree"]
        nf = types.SimpleNamespace(cls=None, fields=dict(tree=t))
        return dict(self=types.SimpleNamespace(cls=cls, fields=dict(_features=nf)) if sub else nf)

    def get_post(E, v, o):
        from swcgeom.analysis.features import FurcationFeatures, TipFeatures
        from swcgeom.core.tree import Tree

        f, t = o["feature"], o["self"].fields["tree"]
        if isinstance(f, tuple) or f == "sholl":
            sh, res = o["self"].fields["sholl"], v["result"]
            radii = [Sym(z3.RealVal(j + 1) * to_z3(sh.fields["rmax"], "real") / z3.RealVal(3), "real") for j in range(2)]
            return (isinstance(res, NArr) and res.shape == (2,) and res.kind == "real"
                    and z3.And(*[is_count_of(E, x, sh.fields["rs"].nz(), rs_pred(sh, r)) for x, r in zip(res.items, radii)]))
        if f == "node_count":
            cached = o["self"].fields.get("node_features")  # warm module cache: the tree the cached module was built for
            return one_number(E, v, z3.ToReal(nof(cached.fields["tree"] if cached is not None else t)))
        if f == "length":
            return one_number(E, v, tree_len(E, t))
        res = v["result"]
        if f == "node_radial_distance":
            ta = H["as_arrays"](t)
            return isinstance(res, NArr) and res.shape == (3,) and z3.And(*[to_z3(res.items[i], "real") == dist(E, ta, z3.IntVal(i), z3.IntVal(0)) for i in range(3)])
        if f in ("furcation_count", "tip_count"):
            pred = H["is_furcation"] if f == "furcation_count" else H["is_tip"]
            return one_number(E, v, z3.ToReal(sum((z3.If(pred(t, i), 1, 0) for i in range(3)), z3.IntVal(0))))
        # the traversal-backed features: the very clauses of the feature classes (see register_topology_features)
        if f in ("branch_length", "branch_tortuosity"):
            return H["multiset"](f.split("_")[1], Topo.branches, "_branches")(E, v, view(o))
        if f in ("path_length", "path_tortuosity"):
            return H["multiset"](f.split("_")[1], Topo.paths, "_paths")(E, v, view(o))
        if f == "node_branch_order":
            return H["bo_post"](E, v, view(o))
        if f in ("furcation_radial_distance", "tip_radial_distance"):
            return H["srd_post"](E, v, view(o, FurcationFeatures if f.startswith("furcation") else TipFeatures, sub=True))
        return False

    def get_raises(E, v, o):
        f = v["feature"]
        if f in ("no_such_feature", "soma_count", "bifurcation_count"):
            return True
        if f in ("node_radial_distance", "furcation_radial_distance", "tip_radial_distance"):
            return z3.Not(H["soma_typed"](v["self"].fields["tree"]))
        return False

    R.add(f"{FEX}:Features.get", prop="C10", variants=variants, options=dict(inline_calls=INLINE),
          raises={"ValueError": ("no-evaluator-of-that-name-or-root-not-typed-soma", get_raises)},
          ensures=[("the-number-of-the-named-feature", get_post)],
          notes="dispatch by name: node_count (symbolic tree), length (trees of 1-3 nodes), node_radial_distance / furcation_count / "
                "tip_count (trees of 3 nodes), branch / path length and tortuosity, node_branch_order, furcation / tip radial distance (4 fixed "
                "topologies of 3-7 nodes, same clauses as the feature classes), sholl with steps given as keyword argument or in a (name, arguments) pair "
                "(warm Sholl cache), an unknown name, an unknown module prefix and the deprecated bifurcation_count (no evaluator: ValueError).  volume is NOT "
                "covered here (get_volume is property C14)")


# ===========================================================================
# features that need the traversal: trees of a FIXED topology (concrete parent vector), all coordinates symbolic
class Topo:
    """THE textbook definitions over a concrete parent vector (node i has parent pids[i], -1 for the root), written
    with explicit loops and independent of the library: children, tips, furcations, root paths, branches, subtrees"""

    def __init__(self, pids):
        self.pids, self.n = list(pids), len(pids)
        self.root = self.pids.index(-1)

    def kids(self, i):
        return [j for j in range(self.n) if self.pids[j] == i]

    def is_tip(self, i):
        return len(self.kids(i)) == 0

    def is_furcation(self, i):
        return len(self.kids(i)) > 1

    def tips(self):
        return [i for i in range(self.n) if self.is_tip(i)]

    def furcations(self):
        return [i for i in range(self.n) if self.is_furcation(i)]

    def root_path(self, i):
        out = [i]
        while self.pids[out[-1]] != -1:
            out.append(self.pids[out[-1]])
        return out[::-1]

    def paths(self):
        """one root-to-tip node list per tip"""
        return [self.root_path(i) for i in self.tips()]

    def branches(self):
        """maximal chains that start at the root or a furcation, run through pass-through nodes only and end at a
        furcation or a tip"""
        out = []
        for b in range(self.n):
            if b == self.root or self.is_furcation(b):
                for c in self.kids(b):
                    chain = [b, c]
                    while len(self.kids(chain[-1])) == 1:
                        chain.append(self.kids(chain[-1])[0])
                    out.append(chain)
        return out

    def subtree(self, i):
        return [j for j in range(self.n) if i in self.root_path(j)]

    def terminal_degree(self, i):
        return sum(1 for j in self.subtree(i) if self.is_tip(j))

    def remote_end(self, c):
        while len(self.kids(c)) == 1:
            c = self.kids(c)[0]
        return c

    def critical_order(self):
        """critical node (root, furcation, tip) -> number of branches between it and the root"""
        out = {}
        for c in range(self.n):
            if c == self.root or self.is_tip(c) or self.is_furcation(c):
                out[c] = sum(1 for a in self.root_path(c)[:-1] if a == self.root or self.is_furcation(a))
        return out


def rooted_trees(n):
    """every parent vector of a labelled tree on 0..n-1 with root 0 (any numbering of the other nodes)"""
    import itertools

    out = []
    for ps in itertools.product(range(n), repeat=n - 1):
        pids = [-1] + list(ps)
        ok = True
        for i in range(1, n):
            seen, j = set(), i
            while j != 0 and j not in seen:
                seen.add(j)
                j = pids[j]
            ok = ok and j == 0
        if ok:
            out.append(pids)
    return out


TOPOS = [p for n in (1, 2, 3, 4) for p in rooted_trees(n)]  # 1 + 1 + 3 + 16 topologies
BIGGER = [[-1, 0, 1, 1, 2, 3], [-1, 0, 1, 2, 2, 3, 4], [-1, 0, 0, 1, 1, 2], [-1, 0, 1, 1, 1, 2]]  # stems / pass-through nodes below a furcation
INLINE = ["swc_utils/base.py:traverse", "swc_utils/base.py:_traverse_dfs", ":Tree.traverse", ":Tree.Node.traverse",
          ":Path.length", ":Path.tortuosity", ":Path.straight_line_distance", ":Tree.Node.radial_distance", ":Tree.length",
          ":to_sub_topology", ":propagate_removal", ":to_subtree_impl", ":get_subtree_impl", ":to_subtree", ":Tree.Node.parent", ":Tree.Node.children",
          ":Tree.get_tips", ":Tree.get_furcations", ":Tree.get_branches", ":Tree.Node.branch", ":Node.is_furcation", ":Node.is_tip", ":Node.distance"]


POP_INLINE = [f":{c}.{m}" for c in ("Population", "Populations") for m in ("__len__", "__iter__", "__getitem__")]


def pname(pids):
    return "pid=" + ",".join(str(p) for p in pids)


def topo_tree(S, pids, name="t"):
    """a Tree whose id / pid columns are the given CONCRETE topology (id[i] = i) and whose type, coordinate and radius
    columns are symbolic; frozen: any store into it is a failed frame obligation"""
    from pyvc.values import PDict, PList
    from swcgeom.core.swc_utils import get_names, get_types
    from swcgeom.core.tree import Tree

    n = len(pids)
    cols = {}
    for c, k in COLS.items():
        if c == "id":
            its = list(range(n))
        elif c == "pid":
            its = list(pids)
        else:
            its = [S.int(f"{name}_{c}{i}") if k == "int" else S.real(f"{name}_{c}{i}") for i in range(n)]
        a = NArr((n,), its, k)
        a.frozen = True
        cols[c] = a
    nd = PDict(cols)
    nd.frozen = True
    t = S.obj(Tree, ndata=nd, names=get_names(), types=get_types(), source="", comments=PList([]))
    t.frozen = True
    return t


def pids_of(t):
    return [int(p) for p in col(t, "pid").items]


def same_multiset(got, want, eq):
    """`got` is a permutation of `want` (element relation `eq`)"""
    import itertools

    if len(got) != len(want):
        return False
    if not got:
        return True
    m = [[eq(g, w) for w in want] for g in got]
    return z3.Or(*[z3.And(*[m[a][p[a]] for a in range(len(got))]) for p in itertools.permutations(range(len(want)))])


def register_topology_features(R, H):
    from swcgeom.analysis.features import BranchFeatures, PathFeatures
    from swcgeom.core.tree import Tree

    as_arrays = H["as_arrays"]

    class Geo:
        """distances of one tree inside one clause (each dist term is built once); node positions concrete or symbolic"""

        def __init__(self, E, t):
            self.E, self.memo = E, {}
            self.ta = as_arrays(t) if isinstance(col(t, "pid"), NArr) else t

        def d(self, a, b):
            za, zb = to_z3(a, "int"), to_z3(b, "int")
            k = tuple(sorted((za.sexpr(), zb.sexpr())))
            if k not in self.memo:
                self.memo[k] = dist(self.E, self.ta, za, zb)
            return self.memo[k]

        def chain_len(self, nodes):
            ys = [self.d(a, b) for a, b in zip(nodes, nodes[1:])]
            return sum(ys) if ys else z3.RealVal(0)

        def tort_is(self, nodes, r):
            ln, c = self.chain_len(nodes), self.d(nodes[-1], nodes[0])
            return z3.If(ln == 0, r == 1, r * ln == c)

    from pyvc.values import Obj as Obj_, PList as PList_

    def node_lists(objs, t, cls, concrete=True):
        """the node lists of a list of Path / Branch views on tree t (None if it is anything else)"""
        if not (isinstance(objs, PList_) and objs.items is not None):
            return None
        out = []
        for b in objs.items:
            idx = b.fields.get("idx") if isinstance(b, Obj_) else None
            if not (isinstance(b, Obj_) and b.cls is cls and b.fields.get("attach") is t and isinstance(idx, NArr) and idx.ndim == 1):
                return None
            if concrete and not all(isinstance(a, int) for a in idx.items):
                return None
            out.append(list(idx.items))
        return out

    # ------------------------------------------------ BranchFeatures / PathFeatures
    # The node lists are kept in a functools.cached_property (`_branches` / `_paths`).  What the contract states about
    # the cache: on a COLD cache the call fills it with exactly the textbook chains of the tree as it is now; on a WARM
    # cache the list is used as it is and never refreshed (so the TOPOLOGY may be stale if the tree's parent column was
    # edited after the first call -- nothing in the class invalidates it), while the COORDINATES are always read through
    # the tree (the cached entries are views: attach + node ids), so the values follow coordinate edits.
    def is_cold(o, field):
        return o["self"].fields.get(field) is None

    def listed(field, cls, want):
        """cold: the cache (filled by this call) holds exactly the textbook chains of the tree, each once"""
        def f(E, v, o):
            if not is_cold(o, field):
                return True
            t = o["self"].fields["tree"]
            got = node_lists(v["self"].fields.get(field), v["self"].fields["tree"], cls)
            return got is not None and sorted(got) == sorted(want(Topo(pids_of(t))))

        return f

    def kept(field):
        """warm: the cached list object and its entries are exactly what they were on entry"""
        def f(E, v, o):
            if is_cold(o, field):
                return True
            a, b = v["self"].fields.get(field), o["self"].fields[field]
            if not (isinstance(a, PList_) and a.uid == b.uid and a.items is not None and len(a.items) == len(b.items)):
                return False
            ok = True
            for x, y in zip(a.items, b.items):
                ix, iy = x.fields["idx"], y.fields["idx"]
                ok = ok and x.uid == y.uid and x.fields["attach"].uid == y.fields["attach"].uid and ix.shape == iy.shape
                ok = ok and all(z3.is_true(z3.simplify(to_z3(p, "int") == to_z3(q, "int"))) for p, q in zip(ix.items, iy.items))
            return ok

        return f

    def per_chain(field, cls, what):
        """result[k] is the length / tortuosity of the k-th listed chain, computed from the tree's CURRENT coordinates"""
        def f(E, v, o):
            t = v["self"].fields["tree"]
            got, res = node_lists(v["self"].fields.get(field), t, cls, concrete=False), v["result"]
            if got is None or not (isinstance(res, NArr) and res.shape == (len(got),)):
                return False
            g = Geo(E, t)
            if what == "length":
                return z3.And(*[to_z3(res.items[k], "real") == g.chain_len(nodes) for k, nodes in enumerate(got)]) if got else True
            return z3.And(*[g.tort_is(nodes, to_z3(res.items[k], "real")) for k, nodes in enumerate(got)]) if got else True

        return f

    def multiset(what, want, field):
        """THE top-level statement (cold cache): the returned values are, as a multiset, the values of the textbook chains"""
        def f(E, v, o):
            if not is_cold(o, field):
                return True
            t, res = o["self"].fields["tree"], v["result"]
            chains = want(Topo(pids_of(t)))
            if not (isinstance(res, NArr) and res.shape == (len(chains),)):
                return False
            g = Geo(E, t)
            if what == "length":
                return same_multiset(res.items, [g.chain_len(c) for c in chains], lambda r, w: to_z3(r, "real") == w)
            return same_multiset(res.items, chains, lambda r, nodes: g.tort_is(nodes, to_z3(r, "real")))

        return f

    def sums_to_tree_length(E, v, o):
        """the property's first sentence: the tree length (sum of parent-child distances) equals the summed length of its branches"""
        if not is_cold(o, "_branches"):
            return True
        t, res = o["self"].fields["tree"], v["result"]
        g, pids = Geo(E, t), pids_of(t)
        total = sum((g.d(p, i) for i, p in enumerate(pids) if p != -1), z3.RealVal(0))
        return isinstance(res, NArr) and sum((to_z3(x, "real") for x in res.items), z3.RealVal(0)) == total

    def count_post(want, field):
        def f(E, v, o):
            if is_cold(o, field):
                return v["result"] == len(want(Topo(pids_of(o["self"].fields["tree"]))))
            return v["result"] == len(o["self"].fields[field].items)

        return f

    def variants_of(cls, field, ccls):
        out = {"cold-cache," + pname(p): (lambda S, _p=p: dict(self=S.obj(cls, tree=topo_tree(S, _p)))) for p in TOPOS + BIGGER}

        def warm(S):
            t = sym_tree(S, "t")
            return dict(self=S.obj(cls, **{"tree": t, field: PList_([path_obj(S, t, 2, cls=ccls), path_obj(S, t, 3, cls=ccls)])}))

        out["warm-cache,two-listed-chains-of-2-and-3-nodes"] = warm
        out["warm-cache,empty-list"] = lambda S: dict(self=S.obj(cls, **{"tree": sym_tree(S, "t"), field: PList_([])}))
        return out

    SIZE_NOTE = ("cold cache: topology fixed per variant -- every labelled rooted tree of 1-4 nodes (21 parent vectors) and 4 shapes of 6-7 nodes; "
                 "type, coordinates and radii symbolic; the traversal (Tree.traverse / swc_utils.traverse) is executed from its real source.  "
                 "warm cache: a tree of symbolic size, the cached list holds two views of 2 and 3 arbitrary nodes (or is empty)")
    for cls, field, ccls, want, key in ((BranchFeatures, "_branches", Tree.Branch, Topo.branches, "branches"), (PathFeatures, "_paths", Tree.Path, Topo.paths, "paths")):
        nm = cls.__name__
        common = [(f"cold-cache-is-filled-with-exactly-the-textbook-{key}", listed(field, ccls, want)),
                  ("warm-cache-is-used-as-it-is-and-left-unchanged", kept(field))]
        R.add(f"{FEAT}:{nm}.get_length", prop="C10", variants=variants_of(cls, field, ccls), options=dict(inline_calls=INLINE),
              ensures=[(f"cold-cache:multiset-of-the-lengths-of-the-textbook-{key}", multiset("length", want, field)),
                       ("value-k-is-the-sum-of-consecutive-node-distances-of-listed-chain-k", per_chain(field, ccls, "length"))] + common
              + ([("cold-cache:branch-lengths-sum-to-the-tree-length-the-sum-of-parent-child-distances", sums_to_tree_length)] if cls is BranchFeatures else []),
              notes=SIZE_NOTE)
        def tort_hint(E, vars, _field=field, _ccls=ccls):
            """proof step per listed chain: (chord / length) * length = chord when the length is not zero (lemma instance)"""
            slf = vars.get("self")
            got = node_lists(slf.fields.get(_field), slf.fields["tree"], _ccls, concrete=False) if isinstance(slf, Obj_) else None
            if got:
                g = Geo(E, slf.fields["tree"])
                for nodes in got:
                    lemlib.use(E, "quotient-times-divisor", g.d(nodes[-1], nodes[0]), g.chain_len(nodes))

        R.add(f"{FEAT}:{nm}.get_tortuosity", prop="C10", variants=variants_of(cls, field, ccls),
              options=dict(inline_calls=INLINE, hints={f"post/cold-cache:multiset-of-the-tortuosities-of-the-textbook-{key}": tort_hint}),
              ensures=[(f"cold-cache:multiset-of-the-tortuosities-of-the-textbook-{key}", multiset("tortuosity", want, field)),
                       ("value-k-is-chord-over-length-of-listed-chain-k-or-one-for-zero-length", per_chain(field, ccls, "tortuosity"))] + common,
              notes=SIZE_NOTE)
        R.add(f"{FEAT}:{nm}.get_count", prop="C10", variants=variants_of(cls, field, ccls), options=dict(inline_calls=INLINE),
              ensures=[(f"number-of-textbook-{key}-on-a-cold-cache-else-of-listed-chains", count_post(want, field))] + common,
              notes=SIZE_NOTE)

    # ------------------------------------------------ BranchFeatures.calc_angle / get_angle
    # angle[i][j] = arccos(clip(u_i . u_j / (|u_i| |u_j| + eps))), u_i = end - start of branch i.  Through squared distances:
    # (a - b).(c - d) = (d2(a,d) + d2(b,c) - d2(a,c) - d2(b,d)) / 2  (polarisation for two difference vectors)
    ARCCOS_ = z3.Function("arccos", z3.RealSort(), z3.RealSort())

    def ends_of(branches):
        return [(b.fields["idx"].items[0], b.fields["idx"].items[-1]) for b in branches.items]

    def dot_through_d2(g, si, ei, sj, ej):
        sq = lambda a, b: g.d(a, b) * g.d(a, b)
        return (sq(ei, sj) + sq(si, ej) - sq(ei, ej) - sq(si, sj)) / 2

    def angle_matrix_is(E, res, t, ends, eps):
        N = len(ends)
        if not (isinstance(res, NArr) and res.shape == (N, N)):
            return False
        g, ez, out = Geo(E, t), to_z3(eps, "real"), []
        for i, (si, ei) in enumerate(ends):
            for j, (sj, ej) in enumerate(ends):
                c = dot_through_d2(g, si, ei, sj, ej) / (g.d(ei, si) * g.d(ej, sj) + ez)
                out.append(to_z3(res.items[i * N + j], "real") == ARCCOS_(z3.If(c < -1, z3.RealVal(-1), z3.If(c > 1, z3.RealVal(1), c))))
        return z3.And(*out) if out else True

    def angle_hint(get_branches, get_tree):
        def h(E, vars):
            vec, br = vars.get("vector"), get_branches(vars)
            if not isinstance(vec, NArr) or br is None:
                return
            ends, t = ends_of(br), get_tree(vars, br)
            u = [[to_z3(vec.items[3 * i + k], "real") for k in range(3)] for i in range(len(ends))]
            g = Geo(E, t)
            zi = lambda a: to_z3(a, "int")
            for i, (si, ei) in enumerate(ends):
                for j, (sj, ej) in enumerate(ends):
                    if j < i:
                        continue
                    dz = sum((u[i][k] * u[j][k] for k in range(3)), z3.RealVal(0))
                    poly = d2(g.ta, zi(ei), zi(sj)) + d2(g.ta, zi(si), zi(ej)) - d2(g.ta, zi(ei), zi(ej)) - d2(g.ta, zi(si), zi(sj))
                    E.prove(f"BranchFeatures.calc_angle/step/polarisation-identity-{i}-{j}", 2 * dz == poly, "proof step")
                    E.prove(f"BranchFeatures.calc_angle/step/dot-product-{i}-{j}-through-the-four-distances", dz == dot_through_d2(g, si, ei, sj, ej), "proof step")

        return h

    def ca_setup(lens):
        def f(S):
            t = sym_tree(S, "t")
            return dict(branches=PList_([path_obj(S, t, L, cls=Tree.Branch) for L in lens]), eps=S.real("eps"), __tree__=t)

        return f

    LBL = "arccos-of-the-clipped-cosine-between-the-end-to-end-vectors-of-every-pair-of-branches"
    R.add(f"{FEAT}:BranchFeatures.calc_angle", prop="C10",
          variants={"one-branch-of-2-nodes": ca_setup([2]), "two-branches-of-2-and-3-nodes": ca_setup([2, 3]), "three-branches-of-2-2-4-nodes": ca_setup([2, 2, 4])},
          requires=[("eps-positive", lambda E, v, o: to_z3(v["eps"], "real") > 0)],
          options=dict(inline_calls=INLINE, hints={"post/" + LBL: angle_hint(lambda vars: vars.get("branches"), lambda vars, br: vars["__tree__"])}),
          ensures=[(LBL, lambda E, v, o: angle_matrix_is(E, v["result"], o["__tree__"], ends_of(o["branches"]), o["eps"]))],
          notes="1-3 branches (fixed node counts) over a tree of symbolic size, node ids and coordinates symbolic, eps any positive real (the regulariser of the "
                "code's denominator is part of the stated formula); arccos uninterpreted.  An empty list is outside (np.matmul of an empty 1-D array)")

    def ga_post(E, v, o):
        t = v["self"].fields["tree"]
        cache = v["self"].fields.get("_branches")
        if node_lists(cache, t, Tree.Branch) is None:
            return False
        return angle_matrix_is(E, v["result"], t, ends_of(cache), o["eps"])

    def ga_variants():
        out = {}
        for p in TOPOS + BIGGER:
            if len(p) >= 2 and p != [-1, 0, 0, 1, 1, 2]:  # that shape has four branches from two start points: 16 entries, ~6 s -- left to calc_angle (any 3 branches)
                out["cold-cache,default-eps," + pname(p)] = (lambda S, _p=p: dict(self=S.obj(BranchFeatures, tree=topo_tree(S, _p))))
        for p in ([-1, 0, 0, 1], [-1, 0, 1, 1]):
            out["cold-cache,any-positive-eps," + pname(p)] = (lambda S, _p=p: dict(self=S.obj(BranchFeatures, tree=topo_tree(S, _p)), eps=S.real("eps")))
        return out

    LBL2 = "entry-i-j-is-the-angle-between-the-end-to-end-vectors-of-listed-branches-i-and-j"
    R.add(f"{FEAT}:BranchFeatures.get_angle", prop="C10", variants=ga_variants(),
          requires=[("eps-positive", lambda E, v, o: to_z3(v["eps"], "real") > 0)],
          options=dict(inline_calls=INLINE, hints={"post/" + LBL2: angle_hint(lambda vars: vars["self"].fields.get("_branches") if isinstance(vars.get("self"), Obj_) else None,
                                                                             lambda vars, br: vars["self"].fields["tree"])}),
          ensures=[("cold-cache-is-filled-with-exactly-the-textbook-branches", listed("_branches", Tree.Branch, Topo.branches)), (LBL2, ga_post)],
          notes="every labelled rooted tree of 2-4 nodes and 3 shapes of 6-7 nodes (a single node has no branch: the numpy calls raise, outside); default eps 1e-7 or any eps > 0")

    # ------------------------------------------------ NodeFeatures.get_branch_order
    from swcgeom.analysis.features import FurcationFeatures, NodeFeatures, TipFeatures

    def bo_post(E, v, o):
        t, res = o["self"].fields["tree"], v["result"]
        want = sorted(Topo(pids_of(t)).critical_order().values())
        return isinstance(res, NArr) and res.ndim == 1 and all(isinstance(x, int) for x in res.items) and sorted(res.items) == want

    R.add(f"{FEAT}:NodeFeatures.get_branch_order", prop="C10",
          variants={pname(p): (lambda S, _p=p: dict(self=S.obj(NodeFeatures, tree=topo_tree(S, _p)))) for p in TOPOS + BIGGER},
          options=dict(inline_calls=INLINE),
          ensures=[("multiset-of-the-number-of-branches-between-each-critical-node-and-the-root", bo_post)],
          notes="one value per critical node (root, furcations, tips); topology fixed per variant (21 trees of 1-4 nodes, 4 shapes of 6-7 nodes); "
                "BranchTree.from_tree, to_sub_topology and the traversal are executed from their real source")

    # ------------------------------------------------ _SubsetNodesFeatures.get_radial_distance / from_tree
    soma_typed = H["soma_typed"]

    def subset_nodes(cls, tp):
        return tp.furcations() if cls is FurcationFeatures else tp.tips()

    def srd_setup(cls, pids, mask=None):
        def f(S):
            fields = dict(_features=S.obj(NodeFeatures, tree=topo_tree(S, pids)))
            if mask is not None:
                fields["nodes"] = NArr((len(mask),), list(mask), "bool")
            return dict(self=S.obj(cls, **fields))

        return f

    def srd_post(E, v, o):
        s = o["self"]
        t, res = s.fields["_features"].fields["tree"], v["result"]
        if "nodes" in s.fields:  # warm cache: the mask as it was cached
            sel = [i for i, b in enumerate(s.fields["nodes"].items) if b]
        else:
            sel = subset_nodes(s.cls, Topo(pids_of(t)))
        if not (isinstance(res, NArr) and res.shape == (len(sel),) and res.root().uid not in E.entry_uids):
            return False
        g = Geo(E, t)
        return z3.And(*[to_z3(res.items[k], "real") == g.d(i, 0) for k, i in enumerate(sel)]) if sel else True

    def mask_cached(E, v, o):
        s = o["self"]
        t, m = s.fields["_features"].fields["tree"], v["self"].fields.get("nodes")
        if "nodes" in s.fields:
            return isinstance(m, NArr) and m.uid == s.fields["nodes"].uid and list(m.items) == list(s.fields["nodes"].items)
        sel = subset_nodes(s.cls, Topo(pids_of(t)))
        return isinstance(m, NArr) and m.ndim == 1 and [E.truth(x) for x in m.items] == [i in sel for i in range(len(pids_of(t)))]

    variants = {}
    for cls, nm in ((FurcationFeatures, "furcations"), (TipFeatures, "tips")):
        for p in TOPOS + BIGGER:
            variants[f"{nm},cold-cache,{pname(p)}"] = srd_setup(cls, p)
        variants[f"{nm},warm-cache,mask=1,0,1,pid=-1,0,1"] = srd_setup(cls, [-1, 0, 1], [True, False, True])
    R.add(f"{FEAT}:_SubsetNodesFeatures.get_radial_distance", prop="C10", variants=variants, options=dict(inline_calls=INLINE),
          raises={"ValueError": ("root-is-not-typed-soma", lambda E, v, o: z3.Not(soma_typed(v["self"].fields["_features"].fields["tree"])))},
          ensures=[("distance-to-node-0-of-every-node-of-the-subset-in-node-order", srd_post),
                   ("root-is-typed-soma", lambda E, v, o: soma_typed(o["self"].fields["_features"].fields["tree"])),
                   ("cold-cache-is-filled-with-the-mask-of-the-subset-a-warm-one-is-kept", mask_cached)],
          notes="furcation and tip subsets; topology fixed per variant (21 trees of 1-4 nodes, 4 shapes of 6-7 nodes), coordinates symbolic; the mask "
                "`nodes` is a cached_property: a warm cache (one variant) is used as it is -- topology may be stale, coordinates are read from the tree")

    def ft_post(E, v, o):
        res = v["result"]
        nf = res.fields.get("_features") if isinstance(res, Obj_) else None
        return (isinstance(res, Obj_) and res.cls is o["cls"] and isinstance(nf, Obj_) and nf.cls is NodeFeatures and nf.fields.get("tree") is v["tree"]
                and set(res.fields) == {"_features"} and set(nf.fields) == {"tree"} and res.uid not in E.entry_uids and nf.uid not in E.entry_uids)

    R.add(f"{FEAT}:_SubsetNodesFeatures.from_tree", prop="C10",
          variants={c.__name__: (lambda S, _c=c: dict(cls=_c, tree=sym_tree(S, "t"))) for c in (FurcationFeatures, TipFeatures)},
          ensures=[("fresh-subset-object-of-the-class-over-fresh-node-features-of-that-very-tree-with-empty-caches", ft_post)],
          notes="tree of symbolic size")

    # ------------------------------------------------ bifurcation angles (L-Measure)
    # Everything is stated through squared distances: for arms u = P_a - P_b, w = P_c - P_b the polarisation identity gives
    # u.w = (d2(a,b) + d2(c,b) - d2(a,c)) / 2, |u| = dist(a,b), |w| = dist(c,b).  arccos is uninterpreted (same symbol in the
    # code model and here), degrees(x) = x*180/pi with the engine's abstract pi.
    from swcgeom.analysis.lmeasure import LMeasure

    ARCCOS = z3.Function("arccos", z3.RealSort(), z3.RealSort())
    SORTED_TOPOS = [p for p in TOPOS if all(q < i for i, q in enumerate(p))]

    def bif_variants():
        out = {}
        for p in SORTED_TOPOS + BIGGER:
            for i in range(len(p)):
                out[f"{pname(p)},node={i}"] = (lambda S, _p=p, _i=i: dict(self=S.obj(LMeasure, compartment_point=-1), bif=tnode_(S, topo_tree(S, _p), _i)))
        return out

    def tnode_(S, t, i):
        return S.obj(Tree.Node, attach=t, idx=i, names=t.fields["names"])

    def arms(o, remote):
        """(bifurcation node, [end of arm 1, end of arm 2]) or None if the node does not have exactly two children"""
        b = o["bif"].fields["idx"]
        tp = Topo(pids_of(o["bif"].fields["attach"]))
        ks = tp.kids(b)
        if len(ks) != 2:
            return tp, b, None
        return tp, b, [tp.remote_end(k) for k in ks] if remote else ks

    def cos_between(g, b, a, c):
        """cosine of the angle at b between the arms b->a and b->c (defined when both arms have positive length)"""
        sq = lambda i, j: g.d(i, j) * g.d(i, j)
        return (sq(a, b) + sq(c, b) - sq(a, c)) / (2 * g.d(a, b) * g.d(c, b))

    def angle_deg_is(E, r, cosv):
        clipped = z3.If(cosv < -1, z3.RealVal(-1), z3.If(cosv > 1, z3.RealVal(1), cosv))
        return r * to_z3(E.pi_const(), "real") == 180 * ARCCOS(clipped)

    def zero_arm(E, o, remote, with_parent=False):
        tp, b, ends = arms(o, remote)
        g = Geo(E, o["bif"].fields["attach"])
        zs = [g.d(e, b) == 0 for e in ends]
        if with_parent:
            zs.append(g.d(tp.pids[b], b) == 0)
        return z3.Or(*zs)

    def ampl_post(remote):
        def f(E, v, o):
            tp, b, ends = arms(o, remote)
            if ends is None:
                return False
            g = Geo(E, o["bif"].fields["attach"])
            return z3.And(z3.Not(zero_arm(E, o, remote)), angle_deg_is(E, to_z3(v["result"], "real"), cos_between(g, b, ends[0], ends[1])))

        return f

    def arm_vector(t, a, b):
        """coordinate differences P_a - P_b read from the tree's columns (PROOF STEPS only: the clauses never touch coordinates)"""
        nm = t.fields["names"]
        return [to_z3(col(t, c).items[a], "real") - to_z3(col(t, c).items[b], "real") for c in (nm.x, nm.y, nm.z)]

    def polar_steps(E, g, t, tag, b, a, c):
        """proof steps for the arms u = P_a - P_b, w = P_c - P_b: 2 u.w = d2(a,b) + d2(c,b) - d2(a,c) (a ring identity), hence
        the cosine u.w / (|u||w|) -- the term the code computes -- is the cosine written through the three distances"""
        ta, I = g.ta, z3.IntVal
        dz = sum((p * q for p, q in zip(arm_vector(t, a, b), arm_vector(t, c, b))), z3.RealVal(0))
        E.prove(f"{tag}/step/polarisation-identity", 2 * dz == d2(ta, I(a), I(b)) + d2(ta, I(c), I(b)) - d2(ta, I(a), I(c)), "proof step")
        na, nc, nac = g.d(a, b), g.d(c, b), g.d(a, c)
        P = na * na + nc * nc - nac * nac
        E.prove(f"{tag}/step/dot-product-through-the-three-distances", 2 * dz == P, "proof step")
        lemlib.use(E, "half-quotient", dz, P, na * nc)
        cosv = cos_between(g, b, a, c)
        E.prove(f"{tag}/step/cosine-of-the-arms-is-the-cosine-of-the-three-distances", z3.Implies(na * nc != 0, dz / (na * nc) == cosv), "proof step")
        clipped = z3.If(cosv < -1, z3.RealVal(-1), z3.If(cosv > 1, z3.RealVal(1), cosv))
        lemlib.use(E, "degrees-times-pi", ARCCOS(clipped), to_z3(E.pi_const(), "real"))

    def polar_hint(nm, remote, with_parent=False):
        def h(E, vars):
            if not isinstance(vars.get("bif"), Obj_):
                return
            tp, b, ends = arms(vars, remote)
            if ends is None:
                return
            t = vars["bif"].fields["attach"]
            g = Geo(E, t)
            if not with_parent:
                polar_steps(E, g, t, f"LMeasure.{nm}", b, ends[0], ends[1])
            elif tp.pids[b] != -1:
                polar_steps(E, g, t, f"LMeasure.{nm}/arm1", b, tp.pids[b], ends[0])
                polar_steps(E, g, t, f"LMeasure.{nm}/arm2", b, tp.pids[b], ends[1])

        return h

    for nm, remote in (("bif_ampl_local", False), ("bif_ampl_remote", True)):
        R.add(f"{LM}:LMeasure.{nm}", prop="C10", variants=bif_variants(),
              options=dict(inline_calls=INLINE, hints={"post/degrees-of-arccos-of-the-clipped-cosine-between-the-two-arms": polar_hint(nm, remote)}),
              raises={"AssertionError": ("not-a-bifurcation", lambda E, v, o, _r=remote: arms(v, _r)[2] is None),
                      "ValueError": ("an-arm-of-zero-length", lambda E, v, o, _r=remote: arms(v, _r)[2] is not None and zero_arm(E, v, _r))},
              ensures=[("degrees-of-arccos-of-the-clipped-cosine-between-the-two-arms", ampl_post(remote))],
              notes="every node of every parents-first topology of 1-4 nodes (10 parent vectors) and of 4 shapes of 6-7 nodes; arms run from the bifurcation to its two "
                    + ("next critical nodes (furcation or tip) below each daughter" if remote else "daughters") + "; coordinates symbolic; arccos uninterpreted")

    def tilt_post(remote):
        def f(E, v, o):
            tp, b, ends = arms(o, remote)
            if ends is None or tp.pids[b] == -1:
                return False
            g = Geo(E, o["bif"].fields["attach"])
            r, par = to_z3(v["result"], "real"), tp.pids[b]
            a1, a2 = z3.Real(fresh_name("tilt1")), z3.Real(fresh_name("tilt2"))
            # exists a1, a2: the two angles, result = the smaller  <=>  stated without quantifiers through both cases
            c1, c2 = cos_between(g, b, par, ends[0]), cos_between(g, b, par, ends[1])
            pi = to_z3(E.pi_const(), "real")
            clip = lambda c: z3.If(c < -1, z3.RealVal(-1), z3.If(c > 1, z3.RealVal(1), c))
            d1, d2_ = 180 * ARCCOS(clip(c1)) / pi, 180 * ARCCOS(clip(c2)) / pi
            return z3.And(z3.Not(zero_arm(E, o, remote, True)), r == z3.If(d1 <= d2_, d1, d2_))

        return f

    for nm, remote in (("bif_tilt_local", False), ("bif_tilt_remote", True)):
        R.add(f"{LM}:LMeasure.{nm}", prop="C10", variants=bif_variants(),
              options=dict(inline_calls=INLINE, hints={"post/smaller-of-the-two-angles-in-degrees-between-the-parent-segment-and-each-arm": polar_hint(nm, remote, True)}),
              raises={"AssertionError": ("root-or-not-a-bifurcation", lambda E, v, o, _r=remote: arms(v, _r)[2] is None or arms(v, _r)[0].pids[arms(v, _r)[1]] == -1),
                      "ValueError": ("an-arm-or-the-parent-segment-of-zero-length", lambda E, v, o, _r=remote: arms(v, _r)[2] is not None and arms(v, _r)[0].pids[arms(v, _r)[1]] != -1 and zero_arm(E, v, _r, True))},
              ensures=[("smaller-of-the-two-angles-in-degrees-between-the-parent-segment-and-each-arm", tilt_post(remote))],
              notes="as bif_ampl_*; the parent segment runs from the bifurcation to its parent node")

    return dict(Geo=Geo, multiset=multiset, bo_post=bo_post, srd_post=srd_post)


# ===========================================================================
# the extractor front end: extract_feature / FeatureExtractor.get and its three implementations
def register_extractors(R, H, PAD):
    from pyvc.values import Obj, Opaque, PDict, PList
    from swcgeom.analysis.feature_extractor import Features, PopulationFeatureExtractor, PopulationsFeatureExtractor, TreeFeatureExtractor

    feat_get, feature_id, FLEN, FV, rows_padded, calls_are = (PAD[k] for k in ("feat_get", "feature_id", "FLEN", "FV", "rows_padded", "calls_are"))

    def abstract_features(S, name):
        return S.opaque({"get": feat_get}, name=name)

    def tree_fe(S):
        x = abstract_features(S, "features")
        return S.obj(TreeFeatureExtractor, _tree=None, _features=x), [x]

    def pop_fe(P):
        def f(S):
            xs = [abstract_features(S, f"features{p}") for p in range(P)]
            return S.obj(PopulationFeatureExtractor, _population=None, _features=PList(xs)), xs

        return f

    def vector_is(E, res, x, feature, kwargs):
        """THE statement for one tree: `res` is the evaluator's vector for that request"""
        if not isinstance(res, SArr):
            return False
        f = feature_id(E, feature, kwargs)
        i = z3.Int(fresh_name("i"))
        return z3.And(res.nz() == FLEN(x.z, f), z3.ForAll([i], z3.Implies(z3.And(i >= 0, i < res.nz()), to_z3(res.get(i), "real") == FV(x.z, f, i))))

    def blocks_padded(E, res, xss, feature, kwargs):
        """THE statement for populations: one (T, L) block per population, T = the largest number of trees, L = the longest vector:
        row (i, j) = the vector of tree j of population i followed by zeros; rows of missing trees are zero"""
        f = feature_id(E, feature, kwargs)
        T = max(len(xs) for xs in xss)
        if not (isinstance(res, ext_C10.Grid) and res.P == len(xss) and res.T == T and res.kind == "real" and res.uid not in E.entry_uids):
            return False
        L = zint(res.n)
        lens = [FLEN(x.z, f) for xs in xss for x in xs]
        out = [z3.And(*[L >= a for a in lens]), z3.Or(*[L == a for a in lens])]
        for i, xs in enumerate(xss):
            for j in range(T):
                row = res.row(i, j)
                if j < len(xs):
                    out.append(padded(row, L, (lambda q, _x=xs[j]: FV(_x.z, f, q)), FLEN(xs[j].z, f), 0))
                else:
                    out.append(padded(row, L, (lambda q: z3.RealVal(0)), z3.IntVal(0), 0))
        return z3.And(*out)

    def pops_fe(sizes):
        def f(S):
            xss = [[abstract_features(S, f"features{a}_{b}") for b in range(k)] for a, k in enumerate(sizes)]
            return S.obj(PopulationsFeatureExtractor, _populations=None, _features=PList([PList(xs) for xs in xss])), xss

        return f

    def value_is(E, o, res, feature, kwargs):
        xs = o["__fs__"]
        if o["self"].cls is TreeFeatureExtractor:
            return vector_is(E, res, xs[0], feature, kwargs)
        if o["self"].cls is PopulationsFeatureExtractor:
            return blocks_padded(E, res, xs, feature, kwargs)
        return rows_padded(E, res, xs, feature, kwargs)

    def requests(o):
        """the requests a call of get() stands for: [(key or None, feature, kwargs)]"""
        f, kw = o["feature"], dict(o["kwargs"].items) if isinstance(o.get("kwargs"), PDict) else {}
        norm = lambda x, extra: (x[0], {**dict(x[1].items), **extra}) if isinstance(x, tuple) else (x, dict(extra))
        if isinstance(f, PDict):
            return "dict", [(k, k, dict(kv.items)) for k, kv in f.items.items()]
        if isinstance(f, PList):
            return "list", [(None,) + norm(x, {}) for x in f.items]
        return "single", [(None,) + norm(f, kw)]

    def get_post(E, v, o):
        form, reqs = requests(o)
        res = v["result"]
        if form == "single":
            return value_is(E, o, res, reqs[0][1], reqs[0][2])
        if form == "list":
            if not (isinstance(res, PList) and res.items is not None and len(res.items) == len(reqs) and res.uid not in E.entry_uids):
                return False
            return z3.And(*[value_is(E, o, x, f, kw) for x, (_, f, kw) in zip(res.items, reqs)])
        if not (isinstance(res, PDict) and res.items is not None and list(res.items) == [k for k, _, _ in reqs] and res.uid not in E.entry_uids):
            return False
        return z3.And(*[value_is(E, o, res.items[k], f, kw) for k, f, kw in reqs])

    def get_calls(E, v, o):
        _, reqs = requests(o)
        flat = [x for xs in o["__fs__"] for x in xs] if o["self"].cls is PopulationsFeatureExtractor else o["__fs__"]
        return calls_are(E, [(x, f, kw) for _, f, kw in reqs for x in flat])

    def mk(fe_setup, feature, kwargs=None):
        def f(S):
            fe, xs = fe_setup(S)
            d = dict(self=fe, feature=feature(S) if callable(feature) else feature, __fs__=xs)
            if kwargs is not None:
                d["kwargs"] = PDict(kwargs(S))
            return d

        return f

    variants = {}
    for nm, fs in (("tree", tree_fe), ("population-of-2-trees", pop_fe(2))):
        variants[f"{nm},one-name"] = mk(fs, "some_feature")
        variants[f"{nm},one-name-with-keyword-arguments"] = mk(fs, "some_feature", lambda S: dict(alpha=S.real("alpha"), beta=3))
        variants[f"{nm},name-and-arguments-pair-plus-keyword-arguments"] = mk(fs, lambda S: ("some_feature", PDict(dict(alpha=S.real("alpha"), beta=1))), lambda S: dict(beta=2))
        variants[f"{nm},list-of-names-and-pairs"] = mk(fs, lambda S: PList(["feature_a", ("feature_b", PDict(dict(k=S.real("k")))), "feature_a"]))
        variants[f"{nm},dict-name-to-arguments"] = mk(fs, lambda S: PDict(dict(feature_a=PDict({}), feature_b=PDict(dict(k=S.real("k"))))))
        variants[f"{nm},empty-list"] = mk(fs, lambda S: PList([]))
    variants["populations-of-2-and-1-trees,one-name-with-keyword-arguments"] = mk(pops_fe([2, 1]), "some_feature", lambda S: dict(alpha=S.real("alpha")))
    variants["populations-of-1-and-1-trees,list-of-names-and-pairs"] = mk(pops_fe([1, 1]), lambda S: PList(["feature_a", ("feature_b", PDict(dict(k=S.real("k"))))]))
    variants["populations-of-2-trees,dict-name-to-arguments"] = mk(pops_fe([2]), lambda S: PDict(dict(feature_a=PDict({}), feature_b=PDict(dict(k=1)))))
    variants["population-of-1-tree,one-name"] = mk(pop_fe(1), "some_feature")
    variants["population-of-3-trees,list-of-names"] = mk(pop_fe(3), lambda S: PList(["feature_a", "feature_b"]))
    variants["tree,deprecated-name"] = mk(tree_fe, "bifurcation_count")
    variants["population-of-2-trees,deprecated-name"] = mk(pop_fe(2), "bifurcation_radial_distance")

    R.add(f"{FEX}:FeatureExtractor.get", prop="C10", variants=variants,
          raises={"DeprecationWarning": ("a-deprecated-bifurcation-feature-was-asked-for", lambda E, v, o: isinstance(v["feature"], str) and v["feature"].startswith("bifurcation_"))},
          ensures=[("per-request-the-tree-evaluators-vector-or-one-zero-padded-row-per-tree-of-the-population-or-populations-lists-and-dicts-keep-order-and-keys", get_post),
                   ("every-evaluator-asked-once-per-request-in-order-with-the-merged-keyword-arguments", get_calls)],
          notes="TreeFeatureExtractor, PopulationFeatureExtractor (1-3 trees) and PopulationsFeatureExtractor (1-2 populations, 2-3 trees) over ABSTRACT per-tree evaluators (any vector per (tree, request)); "
                "single name, (name, kwargs) pair merged with keyword arguments (keyword arguments win), list form, dict form, deprecated names")

    # ------------------------------------------------ _get_feat_and_kwargs
    def gfk_post(E, v, o):
        f, kw, res = o["feature"], dict(o["kwargs"].items), v["result"]
        if not (isinstance(res, tuple) and len(res) == 2 and isinstance(res[1], PDict) and res[1].items is not None):
            return False
        if isinstance(f, tuple):
            want = {**dict(f[1].items), **kw}
            fresh_ok = res[1].uid != f[1].uid and dict(v["feature"][1].items) == dict(f[1].items)  # the caller's dict is neither returned nor changed
            name = f[0]
        else:
            want, fresh_ok, name = kw, True, f
        same = list(res[1].items) == list(want) and all(res[1].items[k] is want[k] or res[1].items[k] == want[k] for k in want)
        return res[0] == name and same and fresh_ok

    R.add(f"{FEX}:_get_feat_and_kwargs", prop="C10",
          variants={"name": lambda S: dict(feature="length", kwargs=PDict({})),
                    "name-with-keyword-arguments": lambda S: dict(feature="sholl", kwargs=PDict(dict(steps=S.int("steps")))),
                    "pair": lambda S: dict(feature=("sholl", PDict(dict(steps=S.int("steps")))), kwargs=PDict({})),
                    "pair-with-overriding-keyword-arguments": lambda S: dict(feature=("volume", PDict(dict(accuracy=1, other=S.real("other")))), kwargs=PDict(dict(accuracy=2)))},
          ensures=[("name-and-the-arguments-of-the-pair-updated-by-the-keyword-arguments-in-a-dict-of-its-own", gfk_post)])

    # ------------------------------------------------ extract_feature and the three constructors
    from swcgeom.core.population import Population, Populations
    from swcgeom.core.tree import Tree as Tree_

    class _same_but_fresh:
        """view of the object under construction (allocated by the caller of __init__) that `built` accepts as new"""

        def __init__(self, obj, E):
            self.__dict__.update(cls=obj.cls, fields=obj.fields, uid=-1)


    def population(S, k, tag=""):
        trees = [sym_tree(S, f"t{tag}{j}") for j in range(k)]
        return S.obj(Population, trees=PList(trees), root=""), trees

    def populations(S, sizes):
        ps = [population(S, k, tag=f"{a}_") for a, k in enumerate(sizes)]
        return S.obj(Populations, len=min(sizes) if sizes else 0, populations=PList([p for p, _ in ps]), labels=PList(["" for _ in ps])), [ts for _, ts in ps]

    def is_features_of(x, t, E):
        """a NEW Features object over exactly tree t with every cache empty"""
        return isinstance(x, Obj) and x.cls is Features and x.fields.get("tree") is t and set(x.fields) == {"tree"} and x.uid not in E.entry_uids

    def built(E, res, obj, trees):
        """what a constructor / extract_feature must hand back for `obj` (trees: the tree, the list of trees of a population,
        the list of lists of a Populations -- the live input objects)"""
        if not ((isinstance(res, Obj) or isinstance(res, _same_but_fresh)) and res.uid not in E.entry_uids):
            return False
        if obj.cls is Population:
            fs = res.fields.get("_features")
            return (res.cls is PopulationFeatureExtractor and set(res.fields) == {"_population", "_features"} and res.fields["_population"] is obj
                    and isinstance(fs, PList) and fs.items is not None and len(fs.items) == len(trees) and all(is_features_of(x, t, E) for x, t in zip(fs.items, trees)))
        if obj.cls is Populations:
            fs = res.fields.get("_features")
            if not (res.cls is PopulationsFeatureExtractor and set(res.fields) == {"_populations", "_features"} and res.fields["_populations"] is obj
                    and isinstance(fs, PList) and fs.items is not None and len(fs.items) == len(trees)):
                return False
            return all(isinstance(row, PList) and row.items is not None and len(row.items) == len(ts) and all(is_features_of(x, t, E) for x, t in zip(row.items, ts))
                       for row, ts in zip(fs.items, trees))
        return (res.cls is TreeFeatureExtractor and set(res.fields) == {"_tree", "_features"} and res.fields["_tree"] is obj and is_features_of(res.fields["_features"], obj, E))

    def ef_setup(kind):
        def f(S):
            if kind == "tree":
                t = sym_tree(S, "t")
                return dict(obj=t, __trees__=t)
            if kind.startswith("population-of-"):
                p, ts = population(S, int(kind.split("-")[2]))
                return dict(obj=p, __trees__=ts)
            if kind.startswith("populations-of-"):
                p, tss = populations(S, [int(x) for x in kind.split("-")[2].split("+")])
                return dict(obj=p, __trees__=tss)
            return dict(obj={"an-int": 3, "None": None, "a-file-name": "neuron.swc", "a-list-of-trees": PList([sym_tree(S, "t")])}[kind], __trees__=None)

        return f

    KINDS = ["tree", "population-of-0-trees", "population-of-1-trees", "population-of-3-trees", "populations-of-2+1-trees", "populations-of-1-trees", "populations-of-0+2-trees",
             "an-int", "None", "a-file-name", "a-list-of-trees"]
    R.add(f"{FEX}:extract_feature", prop="C10", variants={k: ef_setup(k) for k in KINDS}, options=dict(inline_calls=INLINE + POP_INLINE),
          raises={"TypeError": ("neither-a-tree-nor-a-population-nor-populations", lambda E, v, o: not (isinstance(v["obj"], Obj) and v["obj"].cls in (Tree_, Population, Populations)))},
          ensures=[("the-extractor-of-the-kind-of-the-argument-with-one-fresh-evaluator-per-tree-in-order", lambda E, v, o: built(E, v["result"], v["obj"], v["__trees__"])),
                   ("it-is-a-tree-a-population-or-populations", lambda E, v, o: isinstance(o["obj"], Obj) and o["obj"].cls in (Tree_, Population, Populations))],
          notes="trees of symbolic size; populations of 0-3 trees, populations of 1-2 populations; other argument kinds: TypeError")
    for cls, kinds, param in ((TreeFeatureExtractor, ["tree"], "tree"), (PopulationFeatureExtractor, ["population-of-0-trees", "population-of-2-trees"], "population"),
                              (PopulationsFeatureExtractor, ["populations-of-2+1-trees", "populations-of-0-trees"], "populations")):
        def init_setup(kind, _cls=cls, _param=param):
            def f(S):
                d = ef_setup(kind)(S)
                return {"self": S.obj(_cls), _param: d["obj"], "__trees__": d["__trees__"]}

            return f

        R.add(f"{FEX}:{cls.__name__}.__init__", prop="C10", variants={k: init_setup(k) for k in kinds}, options=dict(inline_calls=INLINE + POP_INLINE),
              ensures=[("keeps-the-argument-and-one-fresh-evaluator-per-tree-in-order",
                        lambda E, v, o, _param=param: v["result"] is None and built(E, _same_but_fresh(v["self"], E), v[_param], v["__trees__"]))])

    # ------------------------------------------------ Sholl through the front end (warm cache: the Sholl object exists)
    def radii_of(steps, rmax):
        """the radii a request stands for: the given array, or j*rmax/(steps+1), j = 1..steps"""
        if isinstance(steps, NArr):
            return list(steps.items)
        return [Sym(z3.RealVal(j + 1) * to_z3(rmax, "real") / z3.RealVal(steps + 1), "real") for j in range(steps)]

    def counts_are(E, items, sh, radii):
        n = sh.fields["rs"].nz()
        return z3.And(*[is_count_of(E, x, n, rs_pred(sh, r)) for x, r in zip(items, radii)]) if radii else True

    def steps_variants(build):
        out = {f"steps={k}": (lambda S, _k=k: build(S, dict(steps=_k))) for k in (1, 3)}
        out["steps=array-of-2-radii"] = lambda S: build(S, dict(steps=NArr((2,), [S.real("step0"), S.real("step1")], "real")))
        out["default-steps=20"] = lambda S: build(S, {})
        return out

    def sholl_vector_post(get_sh):
        def f(E, v, o):
            sh, res = get_sh(o), v["result"]
            steps = dict(o["kwargs"].items).get("steps", 20)
            radii = radii_of(steps, sh.fields["rmax"])
            if not (isinstance(res, NArr) and res.shape == (len(radii),) and res.kind == "real" and res.root().uid not in E.entry_uids):
                return False
            return counts_are(E, res.items, sh, radii)

        return f

    def sholl_kept(get_sh):
        return lambda E, v, o: rs_unchanged(E, dict(self=get_sh(v)), dict(self=get_sh(o)))

    def warm_features(S, name="rs"):
        return S.obj(Features, tree=None, sholl=sholl_obj(S, name))

    R.add(f"{FEX}:Features.get_sholl", prop="C10",
          variants=steps_variants(lambda S, kw: dict(self=warm_features(S), kwargs=PDict(kw))),
          ensures=[("float-vector-of-one-straddle-count-per-radius-of-the-cached-sholl-object", sholl_vector_post(lambda o: o["self"].fields["sholl"])),
                   ("cached-sholl-object-kept-unchanged", sholl_kept(lambda o: o["self"].fields["sholl"]))],
          notes="warm cache (`sholl` is a cached_property: the Sholl object, which holds its own translated COPY of the tree, is built on first use and never "
                "refreshed -- later edits of the tree are not seen); rs symbolic (m, 2), any m; steps 1, 3, default 20, or 2 symbolic radii")
    R.add(f"{FEX}:TreeFeatureExtractor.get_sholl", prop="C10",
          variants=steps_variants(lambda S, kw: dict(self=S.obj(TreeFeatureExtractor, _tree=None, _features=warm_features(S)), kwargs=PDict(kw))),
          ensures=[("float-vector-of-one-straddle-count-per-radius-of-the-cached-sholl-object", sholl_vector_post(lambda o: o["self"].fields["_features"].fields["sholl"])),
                   ("cached-sholl-object-kept-unchanged", sholl_kept(lambda o: o["self"].fields["_features"].fields["sholl"]))],
          notes="as Features.get_sholl")

    # ------------------------------------------------ PopulationFeatureExtractor._get_sholl_impl / get_sholl
    def pop_sholl_setup(P, direct):
        def build(S, kw):
            fs = [warm_features(S, f"rs{p}_") for p in range(P)]
            d = dict(self=S.obj(PopulationFeatureExtractor, _population=None, _features=PList(fs)), __fs__=fs)
            d.update(kw if direct else dict(kwargs=PDict(kw)))  # _get_sholl_impl(steps=20, **kwargs) names the parameter, get_sholl(**kwargs) forwards it
            return d

        return build

    def steps_of(o):
        return o["steps"] if "steps" in o else dict(o["kwargs"].items).get("steps", 20)

    def common_rmax(E, fs):
        """the largest rmax of the population (a fresh ghost constant characterised as the maximum)"""
        rms = [to_z3(f.fields["sholl"].fields["rmax"], "real") for f in fs]
        m = rms[0]
        for x in rms[1:]:
            m = z3.If(x > m, x, m)
        return m

    def pop_sholl_rows(E, vals, o, radii):
        fs = o["__fs__"]
        if not (isinstance(vals, NArr) and vals.shape == (len(fs), len(radii)) and vals.root().uid not in E.entry_uids):
            return False
        k = len(radii)
        return z3.And(*[counts_are(E, vals.items[p * k:(p + 1) * k], f.fields["sholl"], radii) for p, f in enumerate(fs)])

    def pop_sholl_post(with_rs):
        def f(E, v, o):
            res = v["result"]
            radii = radii_of(steps_of(o), Sym(common_rmax(E, o["__fs__"]), "real"))
            if with_rs:
                if not (isinstance(res, tuple) and len(res) == 2 and isinstance(res[1], NArr) and res[1].shape == (len(radii),)):
                    return False
                return z3.And(pop_sholl_rows(E, res[0], o, radii), *[to_z3(a, "real") == to_z3(b, "real") for a, b in zip(res[1].items, radii)])
            return pop_sholl_rows(E, res, o, radii)

        return f

    def all_sholl_kept(E, v, o):
        return all(rs_unchanged(E, dict(self=a.fields["sholl"]), dict(self=b.fields["sholl"])) for a, b in zip(v["__fs__"], o["__fs__"]))

    def pv(direct):
        out = {}
        for P in (1, 2):
            for k, fn in steps_variants(pop_sholl_setup(P, direct)).items():
                if not (P == 2 and k == "default-steps=20"):
                    out[f"population-of-{P}-trees,{k}"] = fn
        return out

    for nm, with_rs in (("_get_sholl_impl", True), ("get_sholl", False)):
        R.add(f"{FEX}:PopulationFeatureExtractor.{nm}", prop="C10", variants=pv(with_rs),
              ensures=[("one-row-of-straddle-counts-per-tree-at-common-radii-j-times-the-largest-rmax-over-steps-plus-1" + ("-and-those-radii" if with_rs else ""), pop_sholl_post(with_rs)),
                       ("cached-sholl-objects-kept-unchanged", all_sholl_kept)],
              notes="1-2 trees with warm Sholl caches (rs symbolic (m_p, 2), any m_p, rmax_p any real); steps 1, 3, default 20 (one tree), or 2 given radii")

    # ------------------------------------------------ PopulationsFeatureExtractor._get_impl
    def pops_setup(sizes):
        def f(S):
            xss = [[abstract_features(S, f"features{a}_{b}") for b in range(k)] for a, k in enumerate(sizes)]
            return dict(self=S.obj(PopulationsFeatureExtractor, _populations=None, _features=PList([PList(xs) for xs in xss])), feature="some_feature", __fs__=xss)

        return f

    def pops_post(E, v, o):
        return blocks_padded(E, v["result"], o["__fs__"], o["feature"], {})

    # defect found here and FIXED in /repo (known_findings.jsonl): with exactly ONE tree in total (one population holding one tree) `max(*chain.from_iterable(...))` receives a single int and
    # raises TypeError("'int' object is not iterable") instead of returning the (1, 1, L) block -- replayed natively, see the report;
    # the variant "1-population-of-1-tree" keeps the obligation PopulationsFeatureExtractor._get_impl/exc/unexpected-TypeError failing
    R.add(f"{FEX}:PopulationsFeatureExtractor._get_impl", prop="C10",
          variants={"1-population-of-1-tree": pops_setup([1]), "1-population-of-2-trees": pops_setup([2]), "2-populations-of-1-tree": pops_setup([1, 1]),
                    "2-populations-of-2-and-1-trees": pops_setup([2, 1]), "2-populations-of-0-and-2-trees": pops_setup([0, 2])},
          ensures=[("one-zero-padded-row-per-tree-per-population-rows-of-missing-trees-zero", pops_post),
                   ("each-tree-evaluated-once-in-order-with-the-requested-feature", lambda E, v, o: calls_are(E, [(x, o["feature"], {}) for xs in o["__fs__"] for x in xs]))],
          notes="1-2 populations of 0-2 trees (at least one tree in total); the per-tree vectors are abstract (any length, any contents)")

    # ------------------------------------------------ PopulationsFeatureExtractor._get_sholl_impl / get_sholl
    def pops_sholl_setup(sizes, direct):
        def build(S, kw):
            fss = [[warm_features(S, f"rs{a}_{b}_") for b in range(k)] for a, k in enumerate(sizes)]
            d = dict(self=S.obj(PopulationsFeatureExtractor, _populations=None, _features=PList([PList(fs) for fs in fss])), __fss__=fss, __fs__=[f for fs in fss for f in fs])
            d.update(kw if direct else dict(kwargs=PDict(kw)))
            return d

        return build

    def pops_sholl_post(with_rs):
        def f(E, v, o):
            res, fss = v["result"], o["__fss__"]
            radii = radii_of(steps_of(o), Sym(common_rmax(E, o["__fs__"]), "real"))
            vals = res[0] if with_rs else res
            if with_rs and not (isinstance(res, tuple) and len(res) == 2 and isinstance(res[1], NArr) and res[1].shape == (len(radii),)):
                return False
            T, k = max(len(fs) for fs in fss), len(radii)
            if not (isinstance(vals, NArr) and vals.shape == (len(fss), T, k) and vals.root().uid not in E.entry_uids):
                return False
            out = [to_z3(a, "real") == to_z3(b, "real") for a, b in zip(res[1].items, radii)] if with_rs else []
            for i, fs in enumerate(fss):
                for j in range(T):
                    row = vals.items[(i * T + j) * k:(i * T + j + 1) * k]
                    out.append(counts_are(E, row, fs[j].fields["sholl"], radii) if j < len(fs) else z3.And(*[to_z3(x, "real") == 0 for x in row]))
            return z3.And(*out)

        return f

    def ppv(direct):
        out = {}
        for nm, sizes in (("1-population-of-2-trees", [2]), ("2-populations-of-1-tree", [1, 1]), ("2-populations-of-1-and-2-trees", [1, 2])):
            build = pops_sholl_setup(sizes, direct)
            out[f"{nm},steps=2"] = (lambda S, _b=build: _b(S, dict(steps=2)))
            if sizes != [1, 2]:
                out[f"{nm},steps=array-of-2-radii"] = (lambda S, _b=build: _b(S, dict(steps=NArr((2,), [S.real("step0"), S.real("step1")], "real"))))
        return out

    for nm, with_rs in (("_get_sholl_impl", True), ("get_sholl", False)):
        R.add(f"{FEX}:PopulationsFeatureExtractor.{nm}", prop="C10", variants=ppv(with_rs), options=dict(inline_calls=INLINE),
              ensures=[("one-row-of-straddle-counts-per-tree-per-population-at-common-radii-rows-of-missing-trees-zero" + ("-and-those-radii" if with_rs else ""), pops_sholl_post(with_rs)),
                       ("cached-sholl-objects-kept-unchanged", all_sholl_kept)],
              notes="1-2 populations of 1-2 trees (at least two trees in total: with a single tree the call runs into the TypeError recorded at "
                    "PopulationsFeatureExtractor._get_impl) with warm Sholl caches; steps=2 or 2 given radii")
