"""C08 — branches, paths, tips and furcations decompose the tree exactly: sidecar contracts.

Carriers: the direct computations (`Node.is_furcation`, `Node.is_tip`, `Tree.get_tips`, `Tree.Node.children`) and the
callbacks that `Tree.get_furcations` / `get_paths` / `get_branches` hand to the traversal, plus the post-traversal
step of `get_branches`.  The traversal itself (`swc_utils.traverse`) is not a carrier here.
"""
import z3

from contracts.common import col, nof, sym_tree
from pyvc import ext_C08 as X
from pyvc.spec import Registry
from pyvc.values import Obj, PList, SArr, Sym, fresh_name, to_z3, zint

NODE = "swcgeom/core/node.py"
TREE = "swcgeom/core/tree.py"
OPTS = dict(models=X.MODELS)

from pyvc import ext_tables  # noqa: E402

ext_tables.chain(X.ModelsProxy)  # getattr-built caches / lookup tables: np.bincount, np.argsort, np.searchsorted, np.add.at, np.flatnonzero on symbolic columns


def node_obj(S, t, idx=None):
    from swcgeom.core.tree import Tree

    i = S.int("idx") if idx is None else idx
    return S.obj(Tree.Node, attach=t, idx=i, names=t.fields["names"])


def handle_in_range(E, v, o, who="self"):
    n = v[who]
    i = to_z3(n.fields["idx"], "int")
    return z3.And(i >= 0, i < nof(n.fields["attach"]))


def T(node):
    """(tree, id column, pid column, n, idx, own id) of a node handle."""
    t = node.fields["attach"]
    idc, pidc = col(t, "id"), col(t, "pid")
    i = to_z3(node.fields["idx"], "int")
    return t, idc, pidc, nof(t), i, z3.Select(idc.arr, i)


def nrows_with_parent(E, t, k):
    """ghost: number of rows of `t` whose pid equals k (the rank function of the mask pid == k, at n)."""
    pidc = col(t, "pid")
    mask = SArr(X.npmodels.lam(lambda i: z3.Select(pidc.arr, i) == k, "bool"), pidc.n, "bool")
    return X.count_rs(E, mask)


# ===========================================================================================================================
# fixed topologies (labelled variants): the textbook decomposition over a CONCRETE parent vector, written with explicit loops and
# independent of the library
class Topo8:
    def __init__(self, pids):
        self.pids, self.n = [int(p) for p in pids], len(pids)

    def kids(self, i):
        return [j for j in range(self.n) if self.pids[j] == i]

    def tips(self):
        return [i for i in range(self.n) if not self.kids(i)]

    def furcations(self):
        return [i for i in range(self.n) if len(self.kids(i)) >= 2]

    def critical(self):
        """the root, the furcations and the tips"""
        return sorted({0} | set(self.tips()) | set(self.furcations()))

    def branches(self):
        """maximal chains: from the root or a furcation through pass-through nodes to the next furcation or tip"""
        out = []
        for s in range(self.n):
            if s == 0 or len(self.kids(s)) >= 2:
                for c in self.kids(s):
                    b = [s, c]
                    while len(self.kids(b[-1])) == 1:
                        b.append(self.kids(b[-1])[0])
                    out.append(b)
        return out


def root_paths(pids):
    """one root-to-tip node sequence per childless node"""
    T8 = Topo8(pids)
    out = []
    for tip in T8.tips():
        q = [tip]
        while T8.pids[q[-1]] != -1:
            q.append(T8.pids[q[-1]])
        out.append(q[::-1])
    return out


def rooted_trees8(n):
    """every parent vector of a labelled tree on 0..n-1 with root 0 (any numbering of the other nodes, parents need not come first)"""
    import itertools

    out = []
    for ps in itertools.product(range(n), repeat=n - 1):
        pids, ok = [-1] + list(ps), True
        for i in range(1, n):
            seen, j = set(), i
            while j != 0 and j not in seen:
                seen.add(j)
                j = pids[j]
            ok = ok and j == 0
        if ok:
            out.append(pids)
    return out


def shape_name(pids):
    t = Topo8(pids)
    k0 = len(t.kids(0))
    kind = "single node" if t.n == 1 else ("chain" if not t.furcations() else f"root with {k0} child{'ren' if k0 != 1 else ''}")
    if t.n > 1 and k0 == 1 and t.furcations():
        stem = next(b for b in t.branches() if b[0] == 0)
        kind += f", stem of {len(stem) - 1} edge{'s' if len(stem) != 2 else ''}"
    if any(p >= i for i, p in enumerate(pids)):
        kind += ", parents not first"
    return f"pid={list(pids)} ({kind})"


FIXED_SHAPES = {shape_name(p): p for n in (1, 2, 3, 4) for p in rooted_trees8(n)}  # 1 + 1 + 3 + 16 labelled trees
for _p in ([-1, 0, 1, 2, 2, 3, 4],       # Y with a two-edge stem
           [-1, 0, 1, 1, 2, 3, 3],       # one-edge stem into a furcation, pass-through nodes below it, a second furcation
           [-1, 0, 0, 1, 1, 2],          # the root is a furcation
           [-1, 0, 1, 1, 1, 2],          # trifurcation after a one-edge stem
           [-1, 0, 1, 2, 3],             # chain of five
           [-1, 0, 0, 0, 1, 1, 1],       # root with three children, a trifurcation below
           [-1, 3, 1, 0, 3, 4, 4],       # furcation stored behind its children
           [-1, 2, 3, 0, 1]):            # chain stored from the far end
    FIXED_SHAPES[shape_name(_p)] = _p


def fixed_topology_tree(S, pids, name="t", tag=False):
    """a Tree whose id / pid columns are the given CONCRETE topology (id[i] = i), every other column symbolic; with `tag`, an extra
    attribute column `tag` whose value at node i is the concrete label 100 + i (it tells which original node a row of a derived
    table was gathered from).  Frozen: any store into it is a failed frame obligation."""
    from contracts.common import sym_tree_fixed
    from pyvc.values import NArr

    n = len(pids)
    t = sym_tree_fixed(S, n, name, frozen=True)
    cols = [("id", list(range(n))), ("pid", [int(p) for p in pids])] + ([("tag", [100 + i for i in range(n)])] if tag else [])
    for cname, vals in cols:
        a = NArr((n,), vals, "int")
        a.frozen = True
        nd = t.fields["ndata"]
        fz, nd.frozen = nd.frozen, False
        nd.items[cname] = a
        nd.frozen = fz
    return t


def register(R: Registry):
    # ================================================================ Node.is_furcation
    # property: "furcations [are] exactly the nodes with two or more children"; a child of a node is a row whose pid is
    # the node's id (the id column AT the handle's position; ids need not be positions here).
    def furc_two_rows(E, v, o):
        t, idc, pidc, n, i, me = T(v["self"])
        a, b = z3.Ints(fresh_name("a") + " " + fresh_name("b"))
        two = z3.Exists([a, b], z3.And(0 <= a, a < b, b < n, z3.Select(pidc.arr, a) == me, z3.Select(pidc.arr, b) == me))
        return to_z3(v["result"], "bool") == two

    def furc_count(E, v, o):
        t, idc, pidc, n, i, me = T(v["self"])
        c, _, _ = nrows_with_parent(E, t, me)
        return to_z3(v["result"], "bool") == (c.z > 1)

    def furc_hint(E, vars):
        s = vars["self"]
        t, idc, pidc, n, i, me = T(s)
        c, f, pos = nrows_with_parent(E, t, me)
        p0, p1 = pos(0), pos(1)
        E.prove("Node.is_furcation/step/two-counted-rows-are-two-rows",
                z3.Implies(c.z > 1, z3.And(0 <= p0, p0 < p1, p1 < n, z3.Select(pidc.arr, p0) == me, z3.Select(pidc.arr, p1) == me)), "annotation")

    R.add(f"{NODE}:Node.is_furcation", prop="C08",
          setup=lambda S: dict(self=node_obj(S, sym_tree(S, "t", frozen=True))),
          requires=[("handle-in-range", handle_in_range)],
          ensures=[("true-iff-two-distinct-rows-name-this-id-as-parent", furc_two_rows),
                   ("true-iff-more-than-one-row-names-this-id-as-parent", furc_count)],
          returns="bool",  # used through this contract at call sites (Tree.Node.branch on trees of any size)
          options=dict(OPTS, hints={"post/true-iff-two-distinct-rows-name-this-id-as-parent": furc_hint}))

    # ================================================================ Node.is_tip
    def tip_post(E, v, o):
        t, idc, pidc, n, i, me = T(v["self"])
        j = z3.Int(fresh_name("j"))
        return to_z3(v["result"], "bool") == z3.ForAll([j], z3.Implies(z3.And(0 <= j, j < n), z3.Select(pidc.arr, j) != me))

    R.add(f"{NODE}:Node.is_tip", prop="C08",
          setup=lambda S: dict(self=node_obj(S, sym_tree(S, "t", frozen=True))),
          requires=[("handle-in-range", handle_in_range)],
          ensures=[("true-iff-no-row-names-this-id-as-parent", tip_post)],
          returns="bool",
          options=dict(OPTS))

    # ================================================================ Tree.get_tips
    # property: "tips are exactly the childless nodes" (each once).  The code addresses the handles by the id VALUES it
    # computed (`self.node(i) for i in tip_ids`), so the general clauses speak about ids (only distinctness of the ids
    # is required); the corollary clauses give the row reading when ids are positions.
    def _handles(v, who="self"):
        from swcgeom.core.tree import Tree

        r = v["result"]
        t = v[who] if who == "self_tree" else None
        return r if isinstance(r, X.ObjList) and r.cls_ is Tree.Node and r.vnames == ["idx"] else None

    def ids_distinct(E, v, o):
        t = v["self"]
        idc, n = col(t, "id"), nof(t)
        a, b = z3.Ints(fresh_name("a") + " " + fresh_name("b"))
        return z3.ForAll([a, b], z3.Implies(z3.And(0 <= a, a < b, b < n), z3.Select(idc.arr, a) != z3.Select(idc.arr, b)))

    def ids_are_positions(t):
        i = z3.Int(fresh_name("i"))
        return z3.ForAll([i], z3.Implies(z3.And(0 <= i, i < nof(t)), z3.Select(col(t, "id").arr, i) == i))

    def childless(t, r):
        j = z3.Int(fresh_name("j"))
        return z3.ForAll([j], z3.Implies(z3.And(0 <= j, j < nof(t)), z3.Select(col(t, "pid").arr, j) != z3.Select(col(t, "id").arr, r)))

    def tips_post(which):
        def f(E, v, o):
            t = v["self"]
            res = _handles(v)
            if res is None:
                return False
            if which == "handles-on-this-tree":
                return res.fixed.get("attach") is t and res.fixed.get("names") is t.fields["names"]
            idc, n, m, idx = col(t, "id").arr, nof(t), zint(res.n), res.col("idx")
            k, k2, r = z3.Int(fresh_name("k")), z3.Int(fresh_name("k2")), z3.Int(fresh_name("r"))
            ik = z3.Select(idx, k)
            if which == "every-handle-is-a-childless-node":
                return z3.ForAll([k], z3.Implies(z3.And(0 <= k, k < m), z3.Exists([r], z3.And(0 <= r, r < n, ik == z3.Select(idc, r), childless(t, r)))))
            if which == "every-childless-node-is-listed":
                return z3.ForAll([r], z3.Implies(z3.And(0 <= r, r < n, childless(t, r)), z3.Exists([k], z3.And(0 <= k, k < m, ik == z3.Select(idc, r)))))
            if which == "each-once":
                return z3.ForAll([k, k2], z3.Implies(z3.And(0 <= k, k < k2, k2 < m), ik != z3.Select(idx, k2)))
            if which == "rows":  # corollary: ids are positions => the handles sit on exactly the childless rows
                onrow = z3.ForAll([k], z3.Implies(z3.And(0 <= k, k < m), z3.And(0 <= ik, ik < n, childless(t, ik))))
                alls = z3.ForAll([r], z3.Implies(z3.And(0 <= r, r < n, childless(t, r)), z3.Exists([k], z3.And(0 <= k, k < m, ik == r))))
                return z3.Implies(ids_are_positions(t), z3.And(onrow, alls))

        return f

    R.add(f"{TREE}:Tree.get_tips", prop="C08",
          setup=lambda S: dict(self=sym_tree(S, "t", frozen=True)),
          requires=[("ids-distinct", ids_distinct)],
          ensures=[(w, tips_post(w)) for w in ("handles-on-this-tree", "every-handle-is-a-childless-node", "every-childless-node-is-listed", "each-once")]
          + [("when-ids-are-positions-handles-sit-on-exactly-the-childless-rows", tips_post("rows"))],
          options=dict(OPTS))

    # ================================================================ Tree.Node.children
    # "handles of exactly the rows whose pid == this node's id (in row order)".  The code addresses the handles by the id
    # VALUES of those rows; no assumption on the ids is made for the general clauses (in particular the handle's own id is
    # the id column at its idx, not its idx).  Ghost witness: crow(k) = the row behind the k-th handle.
    crow = z3.Function("crow", z3.IntSort(), z3.IntSort())

    def crow_def(E, v, o):
        """ghost_exit: crow := the position map of the boolean-mask filter the code applied (definition of a fresh symbol)"""
        flt = getattr(E, "last_filter", None)
        if flt is not None:
            k = z3.Int(fresh_name("k"))
            E.assume(z3.ForAll([k], crow(k) == flt.kappa(k)))
            E.assumptions.add("ghost definition: crow(k) = position selected by the k-th entry of the mask filter in Tree.Node.children")

    def children_post(which):
        def f(E, v, o):
            s = v["self"]
            t, idc, pidc, n, i, me = T(s)
            res = _handles(v)
            if res is None:
                return False
            if which == "handles-on-this-tree":
                return res.fixed.get("attach") is t and res.fixed.get("names") is t.fields["names"]
            m, idx = zint(res.n), res.col("idx")
            k, k2, r = z3.Int(fresh_name("k")), z3.Int(fresh_name("k2")), z3.Int(fresh_name("r"))
            ik = z3.Select(idx, k)
            if which == "every-handle-is-a-row-naming-this-id-as-parent":
                return z3.ForAll([k], z3.Implies(z3.And(0 <= k, k < m), z3.And(0 <= crow(k), crow(k) < n, z3.Select(pidc.arr, crow(k)) == me, ik == z3.Select(idc.arr, crow(k)))))
            if which == "in-row-order-each-once":
                return z3.ForAll([k, k2], z3.Implies(z3.And(0 <= k, k < k2, k2 < m), crow(k) < crow(k2)))
            if which == "every-such-row-is-listed":
                return z3.ForAll([r], z3.Implies(z3.And(0 <= r, r < n, z3.Select(pidc.arr, r) == me), z3.Exists([k], z3.And(0 <= k, k < m, crow(k) == r))))
            if which == "rows":
                return z3.Implies(ids_are_positions(t), z3.ForAll([k], z3.Implies(z3.And(0 <= k, k < m), ik == crow(k))))

        return f

    R.add(f"{TREE}:Tree.Node.children", prop="C08",
          setup=lambda S: dict(self=node_obj(S, sym_tree(S, "t", frozen=True))),
          requires=[("handle-in-range", handle_in_range)],
          ghost_exit=crow_def,
          ensures=[(w, children_post(w)) for w in ("handles-on-this-tree", "every-handle-is-a-row-naming-this-id-as-parent", "in-row-order-each-once", "every-such-row-is-listed")]
          + [("when-ids-are-positions-handles-sit-on-those-rows", children_post("rows"))],
          options=dict(OPTS))

    # ================================================================ get_furcations: the leave-callback
    # "furcations [are] exactly the nodes with two or more children": the callback records the node's id iff the traversal
    # hands it more than one child result, and does nothing else.
    def cf_setup(S):
        t = sym_tree(S, "t", frozen=True)
        fl = S.plist("int", name="furcations")
        ch = S.plist("oref", name="children")
        ch.frozen = True
        return dict(n=node_obj(S, t), children=ch, furcations=fl, __closure__=dict(furcations=fl, self=t))

    def own_id(E, v, who="n"):
        t, idc, pidc, n, i, me = T(v[who])
        return me

    R.add(f"{TREE}:Tree.get_furcations.<locals>.collect_furcations", prop="C08",
          setup=cf_setup,
          requires=[("handle-in-range", lambda E, v, o: handle_in_range(E, v, o, "n"))],
          ensures=["returns-nothing :: result is None",
                   "one-entry-more-iff-more-than-one-child :: len_(furcations) == len_(old(furcations)) + ite(len_(children) > 1, 1, 0)",
                   ("the-new-entry-is-the-node-id", lambda E, v, o: z3.Implies(zint(v["children"].n) > 1, z3.Select(v["furcations"].cols[0], zint(o["furcations"].n)) == own_id(E, v))),
                   "earlier-entries-kept :: forall(0, len_(old(furcations)), lambda j: furcations[j] == old(furcations)[j])",
                   ("same-list-object", lambda E, v, o: v["furcations"].uid == o["furcations"].uid)],
          options=dict(OPTS))

    # ================================================================ get_paths: the enter-callback
    # "exactly one root-to-tip path per tip": on entering a node the callback returns a FRESH list = the parent's path
    # followed by the node's id, registers that very list under the node's id, and leaves the parent's list alone
    # (ownership: without the copy all siblings would extend one shared list).
    def ap_setup(with_parent):
        def f(S):
            t = sym_tree(S, "t", frozen=True)
            pd = X.RefDict()
            pre = None
            if with_parent:
                pre = S.plist("int", name="pre_path")
                pre.frozen = True  # a store into the parent's list is a failed frame obligation
            return dict(n=node_obj(S, t), pre_path=pre, path_dic=pd, __closure__=dict(path_dic=pd, self=t))

        return f

    def ap_post(which):
        def f(E, v, o):
            res, pre, pre0 = v["result"], v["pre_path"], o["pre_path"]
            if not isinstance(res, PList):
                return False
            L0 = X.ilen(pre0) if pre0 is not None else z3.IntVal(0)
            j = z3.Int(fresh_name("j"))
            if which == "fresh-list":
                return res.uid not in E.entry_uids and (pre is None or res is not pre)
            if which == "parent-path-then-own-id":
                body = z3.ForAll([j], z3.Implies(z3.And(0 <= j, j < L0), X.iat(res, j) == X.iat(pre0, j))) if pre0 is not None else z3.BoolVal(True)
                return z3.And(X.ilen(res) == L0 + 1, body, X.iat(res, L0) == own_id(E, v))
            if which == "parent-list-untouched":
                if pre is None:
                    return True
                return z3.And(pre.uid == pre0.uid, X.ilen(pre) == L0, z3.ForAll([j], z3.Implies(z3.And(0 <= j, j < L0), X.iat(pre, j) == X.iat(pre0, j))))
            if which == "registered-under-own-id":
                w = v["path_dic"].writes
                return len(w) == 1 and w[0][1] is res and to_z3(w[0][0], "int") == own_id(E, v)

        return f

    R.add(f"{TREE}:Tree.get_paths.<locals>.assign_path", prop="C08",
          variants={"root (no parent path)": ap_setup(False), "below a parent": ap_setup(True)},
          requires=[("handle-in-range", lambda E, v, o: handle_in_range(E, v, o, "n"))],
          ensures=[(w, ap_post(w)) for w in ("fresh-list", "parent-path-then-own-id", "parent-list-untouched", "registered-under-own-id")],
          options=dict(OPTS))

    # ================================================================ get_paths: the leave-callback
    # a tip returns [its own registered path]; any other node returns the concatenation of its children's results in
    # order (so that, by induction over the traversal, there is exactly one path per tip).  Paths are list OBJECTS; they are
    # abstracted to references here (kind "ref"), `path_dic` maps node ids to such references.
    def cp_setup(k):
        def f(S):
            t = sym_tree(S, "t", frozen=True)
            pd = S.pdict("ref", name="path_dic")
            cs = []
            for j in range(k):
                c = S.plist("ref", name=f"child{j}")
                c.frozen = True
                cs.append(c)
            ch = PList(cs)
            ch.frozen = True
            return dict(n=node_obj(S, t), children=ch, path_dic=pd, __closure__=dict(path_dic=pd, self=t))

        return f

    def cp_post(which):
        def f(E, v, o):
            res, kids, pd = v["result"], o["children"].items, o["path_dic"]
            if not isinstance(res, PList):
                return False
            if which == "fresh-list":
                return res.uid not in E.entry_uids
            if which == "registry-untouched":
                p1 = v["path_dic"]
                return z3.And(p1.dom == pd.dom, p1.val == pd.val) if (p1.items is None and pd.items is None) else False
            if not kids:  # a tip
                return z3.And(X.ilen(res) == 1, X.iat(res, z3.IntVal(0), "ref") == z3.Select(pd.val, own_id(E, v)))
            i = z3.Int(fresh_name("i"))
            total, parts, off = z3.IntVal(0), [], z3.IntVal(0)
            for c in kids:
                L = X.ilen(c)
                parts.append(z3.Implies(z3.And(off <= i, i < off + L), X.iat(res, i, "ref") == X.iat(c, i - off, "ref")))
                off = off + L
            return z3.And(X.ilen(res) == off, z3.ForAll([i], z3.And(*parts)))

        return f

    R.add(f"{TREE}:Tree.get_paths.<locals>.collect_path", prop="C08",
          variants={"tip (no child results)": cp_setup(0), "1 child": cp_setup(1), "2 children": cp_setup(2), "3 children": cp_setup(3)},
          requires=[("handle-in-range", lambda E, v, o: handle_in_range(E, v, o, "n")),
                    ("own-path-was-registered-on-entry", lambda E, v, o: z3.Select(v["path_dic"].dom, own_id(E, v)))],
          ensures=[("a-tip-returns-its-own-path-else-the-children-results-concatenated-in-order", cp_post("content")),
                   ("fresh-list", cp_post("fresh-list")), ("registry-untouched", cp_post("registry-untouched"))],
          notes="the number of children is fixed per variant (0, 1, 2, 3); the length of every child's result list is symbolic",
          options=dict(OPTS))

    # ================================================================ get_branches: the leave-callback
    # The callback folds (closed branches, pending chain) pairs: with ONE child result it extends that child's pending
    # chain by the node (pass-through node); with k >= 2 (or 0) child results it closes, for every child, the branch
    # [node, child-side chain reversed ...] and starts a new pending chain [node].  The lists of already closed branches
    # have unknown length: they are runs (pyvc.ext_C08.SymSeg) inside concrete lists, so the clauses compare exact structure.
    def cb_setup(k):
        def f(S):
            t = sym_tree(S, "t", frozen=True)
            pre = []
            for j in range(k):
                sub = PList([X.SymSeg(f"closed{j}")])
                sub.name = f"closed{j}"
                ch = S.plist("int", name=f"chain{j}")
                pre.append((sub, ch))
            pl = PList(pre)
            pl.frozen = True
            return dict(node=node_obj(S, t), pre=pl, __closure__=dict(self=t))

        return f

    def is_branch_on(b, t):
        from swcgeom.core.tree import Tree

        return isinstance(b, Obj) and b.cls is Tree.Branch and b.fields.get("attach") is t and isinstance(b.fields.get("idx"), SArr) and b.fields.get("names") is t.fields["names"]

    def closes(b, t, head, chain0):
        """branch b (on tree t) lists `head` followed by the entries of the int list `chain0` in reverse order"""
        idx = b.fields["idx"]
        L = X.ilen(chain0)
        i = z3.Int(fresh_name("i"))
        return z3.And(idx.nz() == L + 1, z3.Select(idx.arr, 0) == head,
                      z3.ForAll([i], z3.Implies(z3.And(1 <= i, i <= L), z3.Select(idx.arr, i) == X.iat(chain0, L - i))))

    def same_run(x, tag, rev):
        return isinstance(x, X.SymSeg) and x.tag == tag and x.rev == rev

    def cb_post(which):
        def f(E, v, o):
            res, pre0, pre1 = v["result"], o["pre"].items, v["pre"].items
            t = v["node"].fields["attach"]
            me = own_id(E, v, "node")
            k = len(pre0)
            if not (isinstance(res, tuple) and len(res) == 2 and isinstance(res[0], PList) and isinstance(res[1], PList)):
                return False
            br, chain = res
            if k == 1:
                sub1, ch1 = pre1[0]
                sub0, ch0 = pre0[0]
                if which == "closed-branches":  # none closed: the child's list itself, untouched
                    return br is sub1 and br.items is not None and len(br.items) == 1 and same_run(br.items[0], "closed0", False)
                if which == "pending-chain":  # the child's chain itself, extended by this node
                    j = z3.Int(fresh_name("j"))
                    L = X.ilen(ch0)
                    return z3.And(chain is ch1, X.ilen(chain) == L + 1, X.iat(chain, L) == me,
                                  z3.ForAll([j], z3.Implies(z3.And(0 <= j, j < L), X.iat(chain, j) == X.iat(ch0, j))))
            else:
                if which == "pending-chain":  # a new chain that starts at this node
                    return z3.And(chain.uid not in E.entry_uids, X.ilen(chain) == 1, X.iat(chain, z3.IntVal(0)) == me)
                if which == "closed-branches":
                    # for every child in order: the branch closed at this node, then that child's closed branches (reversed)
                    if br.uid in E.entry_uids or br.items is None or len(br.items) != 2 * k:
                        return False
                    out = []
                    for j in range(k):
                        b, run = br.items[2 * j], br.items[2 * j + 1]
                        if not (is_branch_on(b, t) and same_run(run, f"closed{j}", True)):
                            return False
                        if b.fields["idx"].uid in E.entry_uids:
                            return False
                        out.append(closes(b, t, me, pre0[j][1]))
                    return z3.And(*out) if out else True

        return f

    R.add(f"{TREE}:Tree.get_branches.<locals>.collect_branches", prop="C08",
          variants={"tip (0 child results)": cb_setup(0), "pass-through (1 child result)": cb_setup(1), "furcation (2 child results)": cb_setup(2), "furcation (3 child results)": cb_setup(3)},
          requires=[("handle-in-range", lambda E, v, o: handle_in_range(E, v, o, "node"))],
          ensures=[# one child: none closed, the list is passed on; otherwise one branch [node, chain reversed] per child, in order, each followed by that child's closed branches
                   ("closed-branches-one-per-child-node-first-then-chain-reversed", cb_post("closed-branches")),
                   # one child: that child's chain extended by the node; otherwise a new chain [node]
                   ("pending-chain-extended-through-a-pass-through-node-else-restarted-at-the-node", cb_post("pending-chain"))],
          notes="the number of child results is fixed per variant (0, 1, 2, 3); chain lengths and the numbers of already closed branches are symbolic",
          options=dict(OPTS))

    # ================================================================ Tree.Node.branch on fixed small shapes
    # For a pass-through node or a tip x the result must be THE branch that contains the edge into x (for a one-child root:
    # the branch it starts): it contains x, starts at the root or a furcation, ends at a furcation or a tip, has only
    # pass-through nodes in between, and consecutive entries are (parent, child).  Topology (id = position, pid) is concrete
    # per variant, every other column is symbolic; furcation nodes are left out (the property does not say which of their
    # branches `branch()` reports).
    SHAPES = dict(FIXED_SHAPES)

    def nb_setup(pids, x):
        def f(S):
            return dict(self=node_obj(S, fixed_topology_tree(S, pids), idx=x), __ghost__=dict(pids=list(pids), x=x))

        return f

    def nb_post(E, v, o):
        pids, x = E.spec_extra["pids"], E.spec_extra["x"]
        res, t = v["result"], v["self"].fields["attach"]
        from swcgeom.core.tree import Tree
        from pyvc.values import NArr

        if not (isinstance(res, Obj) and res.cls is Tree.Branch and res.fields.get("attach") is t and isinstance(res.fields.get("idx"), NArr)):
            return False
        L = res.fields["idx"].items
        if not all(isinstance(a, int) for a in L) or not L:
            return False
        nch = lambda a: sum(1 for p in pids if p == a)
        ok = x in L and len(set(L)) == len(L)
        ok = ok and (pids[L[0]] == -1 or nch(L[0]) >= 2) and (nch(L[-1]) >= 2 or nch(L[-1]) == 0)
        ok = ok and all(nch(a) == 1 for a in L[1:-1]) and all(pids[b] == a for a, b in zip(L, L[1:]))
        ok = ok and (len(L) >= 2 or len(pids) == 1) and (L[0] != x or pids[x] == -1)
        # the same statement through the textbook decomposition: it is THE branch that holds the edge into x (for the root: the branch it starts)
        want = [b for b in Topo8(pids).branches() if x in (b if pids[x] == -1 else b[1:])]
        ok = ok and (len(pids) == 1 or (len(want) == 1 and list(want[0]) == list(L)))
        return bool(ok)

    nb_variants = {}
    for sname, pids in SHAPES.items():
        for x in range(len(pids)):
            k = sum(1 for p in pids if p == x)
            if k >= 2:
                continue
            nb_variants[f"{sname} node {x} ({'tip' if k == 0 else 'pass-through'})"] = nb_setup(pids, x)

    R.add(f"{TREE}:Tree.Node.branch", prop="C08",
          variants=nb_variants,
          ensures=[("the-branch-through-the-node-root-or-furcation-to-furcation-or-tip-pass-through-inside", nb_post)],
          notes="fixed concrete topologies (every labelled rooted tree of 1-4 nodes in any numbering, and 8 larger shapes; every non-furcation node); the is_furcation / is_tip / parent / children calls are inlined from the current source",
          options=dict(OPTS, inline_calls=[":Node.is_furcation", ":Node.is_tip"]))


# ===========================================================================================================================
# whole-function contracts through the traverse client rule (pyvc/traverse_rule.py): trees of ANY size
_reg8 = register
I_, B_ = z3.IntSort(), z3.BoolSort()
sel = z3.Select


class Ghost8:
    """marker class of ghost-state objects of this module"""


def wf_tree8(S, name="t"):
    """a well-formed input tree (ids = positions, node 0 the root, parents exist, depth witness); frozen: any store into it
    is a failed frame obligation"""
    from contracts.C04 import depth

    t = sym_tree(S, name, frozen=True)
    n = nof(t)
    i = z3.Int(fresh_name("i"))
    idc, pid = col(t, "id").arr, col(t, "pid").arr
    S.assume(z3.ForAll([i], z3.Implies(z3.And(i >= 0, i < n), sel(idc, i) == i)))
    S.assume(sel(pid, 0) == -1)
    S.assume(z3.ForAll([i], z3.Implies(z3.And(i > 0, i < n), z3.And(sel(pid, i) >= 0, sel(pid, i) < n))))
    S.assume(depth(0) == 0)
    S.assume(z3.ForAll([i], z3.Implies(z3.And(i > 0, i < n), z3.And(depth(i) == depth(sel(pid, i)) + 1, depth(i) > 0))))
    return t


def list_view8(L):
    """(z3 array, z3 length) of an int list, concrete or symbolic"""
    if L.items is None:
        return L.cols[0], zint(L.n)
    a = z3.K(I_, z3.IntVal(0))
    for k, x in enumerate(L.items):
        a = z3.Store(a, k, to_z3(x, "int"))
    return a, z3.IntVal(len(L.items))


def register_whole(R):
    from pyvc.traverse_rule import Rule

    # ================================================================ Tree.get_furcations as a whole
    # property: "furcations [are] exactly the nodes with two or more children" (each once).  Traversal invariant: the
    # callback's list holds exactly the nodes LEFT so far that have more than one child, each once (ghost inverse `at`).
    def gfw_setup(S):
        t = wf_tree8(S)
        G = Obj(Ghost8, dict(at=SArr(z3.K(I_, z3.IntVal(-1)), nof(t), "int", name="at")))
        return dict(self=t, __ghost__=dict(G8=G))

    def gfw_J(E, v, ENT, LEFT, ctx):
        A, ln = list_view8(v["furcations"])
        at = E.spec_extra["G8"].fields["at"].arr
        a, x = z3.Int(fresh_name("a")), z3.Int(fresh_name("x"))
        inl = lambda t: z3.And(t >= 0, t < ln)
        return z3.And(ln >= 0,
                      z3.ForAll([a], z3.Implies(inl(a), z3.And(sel(LEFT, sel(A, a)), ctx.nkids(sel(A, a)) > 1, sel(at, sel(A, a)) == a))),
                      z3.ForAll([x], z3.Implies(z3.And(sel(LEFT, x), ctx.nkids(x) > 1), z3.And(inl(sel(at, x)), sel(A, sel(at, x)) == x))))

    def gfw_ghost_leave(E, v, x, ctx):
        A, ln = list_view8(v["furcations"])
        G = E.spec_extra["G8"]
        G.fields["at"].arr = z3.If(ctx.nkids(x) > 1, z3.Store(G.fields["at"].arr, x, ln - 1), G.fields["at"].arr)

    def two_rows(t, x):
        a, b = z3.Ints(fresh_name("a") + " " + fresh_name("b"))
        P, n = col(t, "pid").arr, nof(t)
        return z3.Exists([a, b], z3.And(0 <= a, a < b, b < n, sel(P, a) == x, sel(P, b) == x))

    def gfw_post(which):
        def f(E, v, o):
            from swcgeom.core.tree import Tree

            t, res = o["self"], v["result"]
            if not (isinstance(res, X.ObjList) and res.cls_ is Tree.Node and res.vnames == ["idx"]):
                return False
            if which == "handles-on-this-tree":
                return res.fixed.get("attach") is v["self"] and res.fixed.get("names") is t.fields["names"]
            n, m, idx = nof(t), zint(res.n), res.col("idx")
            k, k2, x = z3.Int(fresh_name("k")), z3.Int(fresh_name("k2")), z3.Int(fresh_name("x"))
            ik = sel(idx, k)
            if which == "every-handle-is-a-node-with-two-or-more-children":
                return z3.ForAll([k], z3.Implies(z3.And(0 <= k, k < m), z3.And(0 <= ik, ik < n, two_rows(t, ik))))
            if which == "every-node-with-two-or-more-children-is-listed":
                return z3.ForAll([x], z3.Implies(z3.And(0 <= x, x < n, two_rows(t, x)), z3.Exists([k], z3.And(0 <= k, k < m, ik == x))))
            if which == "each-once":
                return z3.ForAll([k, k2], z3.Implies(z3.And(0 <= k, k < k2, k2 < m), ik != sel(idx, k2)))
            raise KeyError(which)

        return f

    def gfw_hint(E, vars):
        """nkids(x) > 1  <=>  two distinct rows name x as parent (from the definition of kid / rank)"""
        ctx = E.ghost.get("last-traverse-ctx")
        if ctx is None:  # no traversal happened (the carrier changed shape): no steps, the postconditions stand on their own
            return
        t = vars["self"]
        P, n = col(t, "pid").arr, nof(t)
        x, a, b = z3.Int(fresh_name("x")), z3.Int(fresh_name("a")), z3.Int(fresh_name("b"))
        k0, k1 = ctx.kid(x, 0), ctx.kid(x, 1)
        fn = (E.cur_key or "Tree.get_furcations").split(":")[-1]
        E.prove(f"{fn}/step/the-first-two-children-are-two-rows-naming-the-node-as-parent",
                z3.ForAll([x], z3.Implies(z3.And(ctx.R(x), ctx.nkids(x) > 1), z3.And(0 <= k0, k0 < k1, k1 < n, sel(P, k0) == x, sel(P, k1) == x))), "annotation")
        E.prove(f"{fn}/step/two-rows-naming-the-node-as-parent-are-two-children",
                z3.ForAll([x, a, b], z3.Implies(z3.And(ctx.R(x), 0 <= a, a < b, b < n, sel(P, a) == x, sel(P, b) == x), ctx.nkids(x) > 1)), "annotation")
        E.prove(f"{fn}/step/more-than-one-child-iff-two-rows-name-the-node-as-parent",
                z3.ForAll([x], z3.Implies(ctx.R(x), (ctx.nkids(x) > 1) == two_rows(t, x))), "annotation")

    GFW = ["handles-on-this-tree", "every-handle-is-a-node-with-two-or-more-children", "every-node-with-two-or-more-children-is-listed", "each-once"]
    R.add(f"{TREE}:Tree.get_furcations", prop="C08", setup=gfw_setup,
          ensures=[(w, gfw_post(w)) for w in GFW],
          options=dict(OPTS, traverse_rule=Rule(gfw_J, modifies=[("furcations", "int"), lambda E: E.spec_extra["G8"]], leave_kind="oref", ghost_leave=gfw_ghost_leave),
                       hints={"post/every-handle-is-a-node-with-two-or-more-children": gfw_hint}),
          notes="whole function, trees of any size (traverse client rule); the input tree is frozen")

    # ---------------------------------------------------------------- Tree.get_bifurcations: the deprecated alias, same contract (get_furcations is inlined)
    R.add(f"{TREE}:Tree.get_bifurcations", prop="C08", setup=gfw_setup,
          ensures=[(w, gfw_post(w)) for w in GFW],
          options=dict(OPTS, traverse_rule=Rule(gfw_J, modifies=[("furcations", "int"), lambda E: E.spec_extra["G8"]], leave_kind="oref", ghost_leave=gfw_ghost_leave),
                       hints={"post/every-handle-is-a-node-with-two-or-more-children": gfw_hint}),
          notes="thin wrapper of get_furcations (the deprecation warning of the decorator is not modelled)")

    # ================================================================ Tree.get_paths as a whole
    # property: "There is exactly one root-to-tip path per tip".  Values handed through the traversal: enter -> the root-to-node chain
    # (an int list, shared by the children: frozen), leave -> the list of the paths of the tips below the node (children in table order).
    # Ghost vocabulary (immutable functions; each is DEFINED where its value is determined):
    #   cp8(x, j)   entry j of the chain registered for x    (defined by ghost code right after the real `enter` call of x)
    #   hn8(x), hl8(x, i), hp8(x, t), hd8(x, i, i2)   history of the leave call of x: number of paths it returned, tip of its i-th path,
    #                                  position of tip t in it, first position where two of its paths differ
    #                                  (defined by ghost code right after the real `leave` call of x)
    from contracts.C04 import depth as d8

    cp8 = z3.Function("cp8", I_, I_, I_)
    hn8 = z3.Function("hn8", I_, I_)
    hl8 = z3.Function("hl8", I_, I_, I_)
    hp8 = z3.Function("hp8", I_, I_, I_)
    hd8 = z3.Function("hd8", I_, I_, I_, I_)  # hd8(x, i, i2): first position at which the i-th and the i2-th path of x's value differ

    def gp_setup(S):
        return dict(self=wf_tree8(S))

    def pd_view(d):
        if d.items is not None:
            if d.items:
                raise X.Unsupported("path_dic: concrete non-empty dict")
            return z3.K(I_, z3.BoolVal(False)), z3.K(I_, z3.K(I_, z3.IntVal(0))), z3.K(I_, z3.IntVal(0))
        return d.dom, d.val, d.lens

    def gp_ghost_enter(E, v, x, ctx):
        """definition of the chain function of THE node just entered (x is entered exactly once; nothing speaks about cp8(x, .) before)"""
        ret = E.ghost["traverse-last-call"]["ret"]
        if not (isinstance(ret, PList) and not isinstance(ret, X.LList) and (ret.items is not None or ret.kinds == ["int"])):
            raise X.Unsupported("get_paths: the enter callback returned something that is not an int list")
        A, ln = list_view8(ret)
        j = z3.Int(fresh_name("j"))
        E.assume(z3.ForAll([j], cp8(x, j) == sel(A, j), patterns=[cp8(x, j)]))
        E.assumptions.add("ghost definition per enter call of get_paths: cp8(x, j) = entry j of the list the callback returned for x")

    def chain_facts(node, dn, P, R_, root, j):
        """the chain function of `node` (depth dn) describes a root-to-node chain: (per-node facts, per-position facts, per-edge facts)"""
        return (z3.And(cp8(node, 0) == root, cp8(node, dn) == node),
                z3.And(R_(cp8(node, j)), d8(cp8(node, j)) == j),
                sel(P, cp8(node, j)) == cp8(node, j - 1))

    def gp_J(E, v, ENT, LEFT, ctx):
        dom, val, lens = pd_view(v["path_dic"])
        P, R_ = ctx.P, ctx.R
        y, j, t = z3.Int(fresh_name("y")), z3.Int(fresh_name("j")), z3.Int(fresh_name("t"))
        ent, left = (lambda a: z3.simplify(sel(ENT, a))), (lambda a: z3.simplify(sel(LEFT, a)))  # beta-reduced: no lambda / store terms in the formulas
        upto = z3.And(0 <= j, j <= d8(y))
        ends, nodes, edges = chain_facts(y, d8(y), P, R_, ctx.root, j)
        return [
            # the registry holds, for every entered node, its root-to-node chain
            ("every-entered-node-is-registered-with-a-chain-of-its-depth-from-the-root-to-itself",
             z3.ForAll([y], z3.Implies(ent(y), z3.And(sel(dom, y), sel(lens, y) == d8(y) + 1, ends)))),
            ("chain-entries-are-nodes-at-the-depth-of-their-position", z3.ForAll([y, j], z3.Implies(z3.And(ent(y), upto), nodes))),
            ("registered-chain-entries-are-the-chain-entries", z3.ForAll([y, j], z3.Implies(z3.And(ent(y), upto), sel(sel(val, y), j) == cp8(y, j)))),
            ("consecutive-chain-entries-are-parent-and-child", z3.ForAll([y, j], z3.Implies(z3.And(ent(y), 1 <= j, j <= d8(y)), edges), patterns=[sel(P, cp8(y, j))])),
            ("a-chain-extends-the-chain-of-the-parent",
             z3.ForAll([y, j], z3.Implies(z3.And(ent(y), y != ctx.root, 0 <= j, j < d8(y)), cp8(y, j) == cp8(sel(P, y), j)), patterns=[cp8(sel(P, y), j)])),
            ("a-node-below-a-left-node-is-left", z3.ForAll([y, j], z3.Implies(z3.And(ent(y), upto, left(cp8(y, j))), left(y)))),
            ("the-value-of-a-left-node-lists-every-entered-tip-below-it",
             z3.ForAll([y, t], z3.Implies(z3.And(left(y), ent(t), ctx.nkids(t) == 0, d8(t) >= d8(y), cp8(t, d8(y)) == y),
                                          z3.And(0 <= hp8(y, t), hp8(y, t) < hn8(y), hl8(y, hp8(y, t)) == t))))]

    def gp_Qe(E, v, x, val, ctx):
        if not (isinstance(val, PList) and not isinstance(val, X.LList) and (val.items is not None or val.kinds == ["int"])):
            return False
        A, ln = list_view8(val)
        j = z3.Int(fresh_name("j"))
        return z3.And(ln == d8(x) + 1, z3.ForAll([j], z3.Implies(z3.And(0 <= j, j <= d8(x)), sel(A, j) == cp8(x, j))))

    def gp_Ql(E, v, x, val, ctx):
        vw = X.ll_view(val)
        if vw is None:
            return False
        V, L, n = vw
        i, j = z3.Int(fresh_name("i")), z3.Int(fresh_name("j"))
        ti = hl8(x, i)
        ini = z3.And(0 <= i, i < n)
        i2 = z3.Int(fresh_name("i2"))
        ti2, e2 = hl8(x, i2), hd8(x, i, i2)
        ends, nodes, edges = chain_facts(ti, d8(ti), ctx.P, ctx.R, ctx.root, j)
        return [
            ("as-many-paths-as-recorded-at-least-one", z3.And(n == hn8(x), n >= 1)),
            ("every-path-ends-at-a-tip-below-the-node-each-tip-at-its-position",
             z3.ForAll([i], z3.Implies(ini, z3.And(ctx.R(ti), ctx.nkids(ti) == 0, sel(L, i) == d8(ti) + 1, d8(ti) >= d8(x), hp8(x, ti) == i, cp8(ti, d8(x)) == x, ends)))),
            ("every-path-is-the-chain-of-its-tip",
             z3.ForAll([i, j], z3.Implies(z3.And(ini, 0 <= j, j <= d8(ti)), z3.And(sel(sel(V, i), j) == cp8(ti, j), nodes)))),
            ("consecutive-entries-of-every-path-are-parent-and-child",
             z3.ForAll([i, j], z3.Implies(z3.And(ini, 1 <= j, j <= d8(ti)), edges), patterns=[sel(ctx.P, cp8(ti, j))])),
            ("every-path-extends-the-chain-of-the-node", z3.ForAll([i, j], z3.Implies(z3.And(ini, 0 <= j, j <= d8(x)), cp8(ti, j) == cp8(x, j)))),
            ("paths-in-order-of-the-first-node-in-which-they-differ",
             z3.ForAll([i, i2], z3.Implies(z3.And(0 <= i, i < i2, i2 < n), z3.And(d8(x) < e2, e2 <= d8(ti), e2 <= d8(ti2), cp8(ti, e2) < cp8(ti2, e2))))),
            ("paths-agree-before-the-first-node-in-which-they-differ",
             z3.ForAll([i, i2, j], z3.Implies(z3.And(0 <= i, i < i2, i2 < n, 0 <= j, j < e2), cp8(ti, j) == cp8(ti2, j))))]

    def gp_ghost_leave(E, v, x, ctx):
        """definitions of the history functions of THIS leave call (x is left exactly once; nothing else speaks about hn8(x), hl8(x, .), hp8(x, .))"""
        call = E.ghost["traverse-last-call"]
        vw = X.ll_view(call["ret"])
        if vw is None:
            raise X.Unsupported("get_paths: the leave callback returned something that is not a list of int lists")
        V, L, n = vw
        i, t = z3.Int(fresh_name("i")), z3.Int(fresh_name("t"))
        E.assume(hn8(x) == n)
        E.assume(z3.ForAll([i], hl8(x, i) == sel(sel(V, i), sel(L, i) - 1), patterns=[hl8(x, i)]))
        lc = E.ghost.get("last-chain")
        if lc is not None and lc["src"] is call["args"] and lc["out"].cols[0].eq(V):
            c = cp8(t, d8(x) + 1)
            off, seg, K = lc["off"], lc["seg"], lc["K"]
            E.assume(z3.ForAll([t], hp8(x, t) == off(ctx.rank(c)) + hp8(c, t), patterns=[hp8(x, t)]))
            a, b = z3.Int(fresh_name("a")), z3.Int(fresh_name("b"))
            E.assume(z3.ForAll([a, b], hd8(x, a, b) == z3.If(seg(a) == seg(b), hd8(ctx.kid(x, seg(a)), a - off(seg(a)), b - off(seg(a))), d8(x) + 1), patterns=[hd8(x, a, b)]))
            # proof steps (each its own obligation): where the entries of the concatenation come from
            ns = call["args"].cols[2]
            ini = z3.And(0 <= i, i < off(K))
            k_, i_ = seg(i), i - off(seg(i))
            kd = ctx.kid(x, k_)
            st = lambda nm, f: E.prove(f"Tree.get_paths/step/{nm}", f, "annotation")
            counting = [hn8, seg, off, ctx.kid, ctx.nkids, ns, x, ctx.n]  # the steps about positions need no other vocabulary
            sv = lambda nm, f: X.prove_in_vocabulary(E, f"Tree.get_paths/step/{nm}", f, counting)
            sv("a-node-that-is-not-a-tip-has-a-first-child-whose-value-has-a-path", z3.And(K >= 1, sel(ns, 0) == hn8(ctx.kid(x, 0)), sel(ns, 0) >= 1))
            sv("the-first-child-contributes-a-path", z3.And(off(1) == sel(ns, 0), off(1) <= off(K)))
            sv("every-position-lies-in-the-segment-of-one-child", z3.ForAll([i], z3.Implies(ini, z3.And(0 <= k_, k_ < K, 0 <= i_, i_ < sel(ns, k_), sel(ns, k_) == hn8(kd))), patterns=[seg(i)]))
            st("the-tip-of-an-entry-is-the-tip-recorded-for-the-child", z3.ForAll([i], z3.Implies(ini, hl8(x, i) == hl8(kd, i_)), patterns=[hl8(x, i)]))
            st("the-chain-of-an-entry-passes-through-its-child", z3.ForAll([i], z3.Implies(ini, z3.And(d8(kd) == d8(x) + 1, cp8(hl8(x, i), d8(x) + 1) == kd)), patterns=[hl8(x, i)]))
            j = z3.Int(fresh_name("j"))
            st("the-chain-of-a-child-extends-the-chain-of-the-node",
               z3.ForAll([i, j], z3.Implies(z3.And(ini, 0 <= j, j <= d8(x)), z3.And(sel(ctx.P, kd) == x, cp8(kd, j) == cp8(sel(ctx.P, kd), j), cp8(kd, j) == cp8(x, j)))))
            sv("later-positions-come-from-later-children", z3.ForAll([a, b], z3.Implies(z3.And(0 <= a, a < b, b < off(K)), seg(a) <= seg(b))))
        else:
            E.assume(z3.ForAll([t], hp8(x, t) == 0, patterns=[hp8(x, t)]))
        E.assumptions.add("ghost definitions per leave call of get_paths: hn8(x) = number of returned paths, hl8(x, i) = last entry of the i-th, hp8(x, t) = offset of the child towards t + position of t in that child's value (0 at a tip), hd8(x, i, i2) = that of the common child, else depth of x + 1")

    def no_child(t, x):
        r = z3.Int(fresh_name("r"))
        return z3.ForAll([r], z3.Implies(z3.And(0 <= r, r < nof(t)), sel(col(t, "pid").arr, r) != sel(col(t, "id").arr, x)))

    def gp_paths(v, o):
        from swcgeom.core.tree import Tree

        res = v["result"]
        if not (isinstance(res, X.ObjList) and res.cls_ is Tree.Path and res.vnames == [] and list(res.avarying) == ["idx"] and res.avarying["idx"][2] == "int"):
            return None
        return res

    def gp_post(which):
        def f(E, v, o):
            t = o["self"]
            res = gp_paths(v, o)
            if res is None:
                return False
            E.ghost["gp-result"] = res
            if which == "paths-attached-to-this-tree":
                return res.fixed.get("attach") is v["self"] and res.fixed.get("names") is t.fields["names"]
            IDX, LEN, _ = res.avarying["idx"]
            P, n, m = col(t, "pid").arr, nof(t), zint(res.n)
            i, i2, j, x = (z3.Int(fresh_name(a)) for a in ("i", "i2", "j", "x"))
            ini = z3.And(0 <= i, i < m)
            at = lambda a, b: sel(sel(IDX, a), b)
            last = lambda a: at(a, sel(LEN, a) - 1)
            if which == "every-path-starts-at-the-root":
                return z3.ForAll([i], z3.Implies(ini, z3.And(sel(LEN, i) >= 1, at(i, 0) == 0)))
            if which == "consecutive-entries-are-parent-and-child":
                return z3.ForAll([i, j], z3.Implies(z3.And(ini, 1 <= j, j < sel(LEN, i)), z3.And(0 <= at(i, j), at(i, j) < n, sel(P, at(i, j)) == at(i, j - 1))))
            if which == "every-path-ends-at-a-childless-node":
                return z3.ForAll([i], z3.Implies(ini, z3.And(0 <= last(i), last(i) < n, no_child(t, last(i)))))
            if which == "every-childless-node-ends-a-path":
                return z3.ForAll([x], z3.Implies(z3.And(0 <= x, x < n, no_child(t, x)), z3.Exists([i], z3.And(ini, last(i) == x))))
            if which == "paths-ordered-by-the-first-node-in-which-they-differ-children-in-table-order":
                e = hd8(0, i, i2)
                return z3.And(z3.ForAll([i, i2], z3.Implies(z3.And(0 <= i, i < i2, i2 < m), z3.And(0 <= e, e < sel(LEN, i), e < sel(LEN, i2), at(i, e) < at(i2, e)))),
                              z3.ForAll([i, i2, j], z3.Implies(z3.And(0 <= i, i < i2, i2 < m, 0 <= j, j < e), at(i, j) == at(i2, j))))
            if which == "one-path-per-tip":
                return z3.ForAll([i, i2], z3.Implies(z3.And(0 <= i, i < i2, i2 < m), last(i) != last(i2)))
            raise KeyError(which)

        return f

    def gp_post_vocab(E, vars):
        ctx = E.ghost["last-traverse-ctx"]
        res = E.ghost["gp-result"]
        IDX, LEN, _ = res.avarying["idx"]
        last = lambda a: sel(sel(IDX, a), sel(LEN, a) - 1)
        st = lambda nm, f: E.prove(f"Tree.get_paths/step/{nm}", f, "annotation")
        return ctx, vars["self"], zint(res.n), last, st

    def gp_hint(E, vars):
        ctx, t, m, last, st = gp_post_vocab(E, vars)
        P, n = col(t, "pid").arr, nof(t)
        x, r, i = z3.Int(fresh_name("x")), z3.Int(fresh_name("r")), z3.Int(fresh_name("i"))
        st("no-row-names-a-node-without-children-as-parent", z3.ForAll([x, r], z3.Implies(z3.And(ctx.R(x), ctx.nkids(x) == 0, 0 <= r, r < n), sel(P, r) != x)))
        st("the-last-entry-of-a-path-is-its-recorded-tip", z3.ForAll([i], z3.Implies(z3.And(0 <= i, i < m), last(i) == hl8(0, i))))

    def gp_hint_complete(E, vars):
        ctx, t, m, last, st = gp_post_vocab(E, vars)
        P = col(t, "pid").arr
        x = z3.Int(fresh_name("x"))
        st("a-node-with-children-is-named-as-parent-by-its-first-child", z3.ForAll([x], z3.Implies(z3.And(ctx.R(x), ctx.nkids(x) > 0), z3.And(ctx.R(ctx.kid(x, 0)), sel(P, ctx.kid(x, 0)) == x))))
        st("every-chain-starts-at-the-root", z3.ForAll([x], z3.Implies(ctx.R(x), cp8(x, 0) == 0)))
        X.prove_in_vocabulary(E, "Tree.get_paths/step/depths-are-not-negative", z3.ForAll([x], z3.Implies(ctx.R(x), d8(x) >= d8(0))), [d8, ctx.P, ctx.n])
        st("every-tip-has-a-position-whose-path-ends-at-it", z3.ForAll([x], z3.Implies(z3.And(ctx.R(x), ctx.nkids(x) == 0), z3.And(0 <= hp8(0, x), hp8(0, x) < m, last(hp8(0, x)) == x))))
        st("every-childless-node-has-a-position-whose-path-ends-at-it",
           z3.ForAll([x], z3.Implies(z3.And(ctx.R(x), no_child(t, x)), z3.And(0 <= hp8(0, x), hp8(0, x) < m, last(hp8(0, x)) == x)), patterns=[sel(col(t, "id").arr, x)]))

    def gp_hint_below(E, vars):
        """leave step: a node whose chain passes through the node being left, strictly below it, passes through one of its (left) children"""
        call, ctx = E.ghost["traverse-last-call"], E.ghost["last-traverse-ctx"]
        x, ENT, LEFT = call["x"], call["ENT"], call["LEFT"]
        y, j = z3.Int(fresh_name("y")), z3.Int(fresh_name("j"))
        c = cp8(y, j + 1)
        E.prove("Tree.get_paths/step/below-the-node-being-left-means-below-one-of-its-children",
                z3.ForAll([y, j], z3.Implies(z3.And(sel(ENT, y), 0 <= j, j < d8(y), cp8(y, j) == x), z3.And(sel(ctx.P, c) == x, ctx.R(c), sel(LEFT, c)))), "annotation")

    def gp_hint_order(which):
        def f(E, vars):
            """leave step, node with children: two entries of the concatenation come from one child (its order) or from two (earlier child first)"""
            call, lc, ctx = E.ghost["traverse-last-call"], E.ghost.get("last-chain"), E.ghost["last-traverse-ctx"]
            if lc is None or lc["src"] is not call["args"]:
                return
            x = call["x"]
            off, seg, K = lc["off"], lc["seg"], lc["K"]
            a, b, j = z3.Int(fresh_name("a")), z3.Int(fresh_name("b")), z3.Int(fresh_name("j"))
            rng = z3.And(0 <= a, a < b, b < off(K))
            e, ta, tb = hd8(x, a, b), hl8(x, a), hl8(x, b)
            ka, kb = ctx.kid(x, seg(a)), ctx.kid(x, seg(b))
            vocab = [hl8, hd8, hn8, hp8, cp8, d8, seg, off, ctx.kid, ctx.nkids, ctx.rank, call["args"].cols[2], call["args"].cols[1], x, ctx.P, ctx.n]
            st = lambda nm, vs, f_: X.prove_in_vocabulary(E, f"Tree.get_paths/step/{nm}", z3.ForAll(vs, f_), vocab)
            a_, b_ = a - off(seg(a)), b - off(seg(a))
            if which == "order":
                same = z3.And(rng, seg(a) == seg(b))
                st("two-entries-of-one-child-lie-in-its-segment", [a, b], z3.Implies(same, z3.And(0 <= seg(a), seg(a) < K, 0 <= a_, a_ < b_, b < off(seg(a) + 1), b_ < hn8(ka))))
                st("two-entries-of-one-child-end-at-the-tips-recorded-for-it", [a, b], z3.Implies(same, z3.And(ta == hl8(ka, a_), tb == hl8(kb, b - off(seg(b))), tb == hl8(ka, b_))))
                st("two-entries-of-one-child-differ-as-recorded-for-it", [a, b], z3.Implies(same, e == hd8(ka, a_, b_)))
                st("two-entries-of-one-child-differ-where-they-differ-in-its-value", [a, b],
                   z3.Implies(z3.And(rng, seg(a) == seg(b)), z3.And(e == hd8(ka, a - off(seg(a)), b - off(seg(a))), d8(x) < e, e <= d8(ta), e <= d8(tb), cp8(ta, e) < cp8(tb, e))))
                st("entries-of-two-children-differ-right-below-the-node-earlier-child-first", [a, b],
                   z3.Implies(z3.And(rng, seg(a) != seg(b)), z3.And(seg(a) < seg(b), e == d8(x) + 1, e <= d8(ta), e <= d8(tb), cp8(ta, e) == ka, cp8(tb, e) == kb, ka < kb)))
            else:
                st("two-entries-of-one-child-agree-where-they-agree-in-its-value", [a, b, j],
                   z3.Implies(z3.And(rng, seg(a) == seg(b), 0 <= j, j < e), cp8(ta, j) == cp8(tb, j)))
                st("entries-of-two-children-agree-down-to-the-node", [a, b, j],
                   z3.Implies(z3.And(rng, seg(a) != seg(b), 0 <= j, j < e), z3.And(j <= d8(x), cp8(ta, j) == cp8(x, j), cp8(tb, j) == cp8(x, j))))

        return f

    def gp_hint_leave(E, vars):
        """leave step, node with children: an entered tip below the node lies below exactly one child, whose value lists it"""
        call, lc, ctx = E.ghost["traverse-last-call"], E.ghost.get("last-chain"), E.ghost["last-traverse-ctx"]
        if lc is None or lc["src"] is not call["args"]:
            return
        x, ENT = call["x"], call["ENT"]
        off, seg, K, ns = lc["off"], lc["seg"], lc["K"], call["args"].cols[2]
        t = z3.Int(fresh_name("t"))
        c = cp8(t, d8(x) + 1)
        r = ctx.rank(c)
        below = z3.And(sel(ENT, t), ctx.nkids(t) == 0, d8(t) >= d8(x), cp8(t, d8(x)) == x)
        st = lambda nm, f: E.prove(f"Tree.get_paths/step/{nm}", z3.ForAll([t], z3.Implies(below, f)), "annotation")
        st("a-tip-below-a-node-with-children-lies-below-one-of-the-children",
           z3.And(d8(t) >= d8(x) + 1, ctx.R(c), sel(ctx.P, c) == x, d8(c) == d8(x) + 1, 0 <= r, r < K, ctx.kid(x, r) == c))
        st("the-value-of-that-child-lists-the-tip", z3.And(0 <= hp8(c, t), hp8(c, t) < hn8(c), hl8(c, hp8(c, t)) == t, hn8(c) == sel(ns, r)))
        st("the-position-of-the-tip-lies-in-the-segment-of-that-child", z3.And(off(r) <= hp8(x, t), hp8(x, t) < off(r + 1), off(r + 1) <= off(K), seg(hp8(x, t)) == r))

    GP = ["paths-attached-to-this-tree", "every-path-starts-at-the-root", "consecutive-entries-are-parent-and-child", "every-path-ends-at-a-childless-node",
          "every-childless-node-ends-a-path", "one-path-per-tip", "paths-ordered-by-the-first-node-in-which-they-differ-children-in-table-order"]
    R.add(f"{TREE}:Tree.get_paths", prop="C08", setup=gp_setup,
          ensures=[(w, gp_post(w)) for w in GP],
          options=dict(OPTS, traverse_rule=Rule(gp_J, Qe=gp_Qe, Ql=gp_Ql, modifies=[("path_dic", "intlist-by-value")],
                                                enter_kind=lambda E: _fresh_frozen_ints(E), leave_kind=lambda E: X.LList.fresh(E, "paths"),
                                                leave_args=lambda E, K: _fresh_lll(E, K), ghost_enter=gp_ghost_enter, ghost_leave=gp_ghost_leave),
                       hints={"post/every-path-ends-at-a-childless-node": gp_hint, "post/every-childless-node-ends-a-path": gp_hint_complete,
                              "leave/invariant-preserved/a-node-below-a-left-node-is-left": gp_hint_below,
                              "leave/returned-value-as-specified/paths-in-order-of-the-first-node-in-which-they-differ": gp_hint_order("order"),
                              "leave/returned-value-as-specified/paths-agree-before-the-first-node-in-which-they-differ": gp_hint_order("agree"),
                              "leave/invariant-preserved/the-value-of-a-left-node-lists-every-entered-tip-below-it": gp_hint_leave}),
          notes="whole function, trees of any size (traverse client rule with list-valued callback results); the input tree is frozen")

    # ================================================================ Tree.get_branches as a whole
    # property: "The branches of a tree partition its edges: every edge lies in exactly one branch, each branch starts at the root or a
    # furcation, ends at a furcation or a tip, and has only pass-through nodes in between."
    # Value handed through the traversal: leave -> (closed branches below the node, pending chain from the last closed end up to the node).
    # History functions (immutable; defined by ghost code right after the real `leave` call of x) name the value x returned:
    #   hn9(x) / hLEN9(x, i) / hB9(x, i, j): number of closed branches, length of the i-th, its j-th node;  hlc9(x) / hc9(x, j): the chain
    hn9, hlc9 = z3.Function("hn9", I_, I_), z3.Function("hlc9", I_, I_)
    hLEN9, hc9 = z3.Function("hLEN9", I_, I_, I_), z3.Function("hc9", I_, I_, I_)
    hB9 = z3.Function("hB9", I_, I_, I_, I_)

    def gb_branch_fixed(E):
        t = E.traverse_client_frame.lookup("self")
        from swcgeom.core.swc_utils import get_types

        return t, dict(attach=t, names=t.fields["names"], source=t.fields["source"], types=get_types())

    def gb_leave_kind(E):
        from swcgeom.core.tree import Tree

        t, fixed = gb_branch_fixed(E)
        n = z3.Int(fresh_name("nbr"))
        ln, i = z3.Const(fresh_name("brlen"), X.AII), z3.Int(fresh_name("i"))
        E.assume(z3.And(n >= 0, z3.ForAll([i], sel(ln, i) >= 0)))
        b = X.BranchSeq.make(None, ln, n, Tree.Branch, fixed, "closed")
        c = PList.fresh("int", name="pending")
        E.assume(zint(c.n) >= 0)
        return (b, c)

    def gb_leave_args(E, K):
        from swcgeom.core.tree import Tree

        t, fixed = gb_branch_fixed(E)
        a = X.PairList(E, K, Tree.Branch, fixed, "pre")
        return a, a.view

    def bs_view(b):
        if isinstance(b, X.BranchSeq):
            return b.cols[0], b.cols[1], zint(b.n)
        if isinstance(b, PList) and b.items == []:
            return z3.K(I_, z3.K(I_, z3.IntVal(0))), z3.K(I_, z3.IntVal(0)), z3.IntVal(0)
        return None

    def gb_value(val):
        if not (isinstance(val, tuple) and len(val) == 2 and isinstance(val[1], PList) and not isinstance(val[1], (X.LList, X.BranchSeq)) and (val[1].items is not None or val[1].kinds == ["int"])):
            return None
        bv = bs_view(val[0])
        if bv is None:
            return None
        return bv + list_view8(val[1])

    def gb_good(x, ctx):
        """the value recorded for x is well formed (in terms of the history functions): (label, formula) list"""
        P, R_, nk = ctx.P, ctx.R, ctx.nkids
        i, j = z3.Int(fresh_name("i")), z3.Int(fresh_name("j"))
        n, lc = hn9(x), hlc9(x)
        L, b, c = (lambda a: hLEN9(x, a)), (lambda a, e: hB9(x, a, e)), (lambda e: hc9(x, e))
        ini = z3.And(0 <= i, i < n)
        return [
            ("the-pending-chain-ends-at-the-node", z3.And(n >= 0, lc >= 1, c(lc - 1) == x)),
            ("the-pending-chain-climbs-from-child-to-parent", z3.ForAll([j], z3.Implies(z3.And(0 <= j, j < lc - 1), z3.And(R_(c(j)), sel(P, c(j)) == c(j + 1))), patterns=[c(j)])),
            ("the-pending-chain-starts-at-a-tip-or-furcation-and-continues-through-pass-through-nodes",
             z3.And(nk(c(0)) != 1, z3.ForAll([j], z3.Implies(z3.And(1 <= j, j < lc), nk(c(j)) == 1), patterns=[c(j)]))),
            ("every-closed-branch-starts-at-a-furcation-and-ends-at-a-furcation-or-tip",
             z3.ForAll([i], z3.Implies(ini, z3.And(L(i) >= 2, nk(b(i, 0)) >= 2, nk(b(i, L(i) - 1)) != 1)), patterns=[L(i), b(i, 0)])),
            ("every-closed-branch-descends-from-parent-to-child",
             z3.ForAll([i, j], z3.Implies(z3.And(ini, 0 <= j, j < L(i)), z3.And(R_(b(i, j)), z3.Implies(j >= 1, sel(P, b(i, j)) == b(i, j - 1)))), patterns=[b(i, j)])),
            ("every-closed-branch-has-only-pass-through-nodes-inside",
             z3.ForAll([i, j], z3.Implies(z3.And(ini, 1 <= j, j < L(i) - 1), nk(b(i, j)) == 1), patterns=[b(i, j)]))]

    def gb_Ql(E, v, x, val, ctx):
        vw = gb_value(val)
        if vw is None:
            return False
        IDX, LEN, n, C, lc = vw
        i, j = z3.Int(fresh_name("i")), z3.Int(fresh_name("j"))
        return [("the-value-has-the-recorded-sizes", z3.And(n == hn9(x), lc == hlc9(x))),
                ("the-closed-branches-have-the-recorded-lengths", z3.ForAll([i], sel(LEN, i) == hLEN9(x, i), patterns=[sel(LEN, i)])),
                ("the-closed-branches-have-the-recorded-entries", z3.ForAll([i, j], sel(sel(IDX, i), j) == hB9(x, i, j), patterns=[sel(sel(IDX, i), j)])),
                ("the-pending-chain-has-the-recorded-entries", z3.ForAll([j], sel(C, j) == hc9(x, j), patterns=[sel(C, j)]))] + gb_good(x, ctx)

    def gb_ghost_leave(E, v, x, ctx):
        """definitions of the history functions of THIS leave call (x is left exactly once)"""
        vw = gb_value(E.ghost["traverse-last-call"]["ret"])
        if vw is None:
            raise X.Unsupported("get_branches: the leave callback returned something that is not (list of branches, int list)")
        IDX, LEN, n, C, lc = vw
        i, j = z3.Int(fresh_name("i")), z3.Int(fresh_name("j"))
        E.assume(z3.And(hn9(x) == n, hlc9(x) == lc))
        E.assume(z3.ForAll([i], hLEN9(x, i) == sel(LEN, i), patterns=[hLEN9(x, i)]))
        E.assume(z3.ForAll([i, j], hB9(x, i, j) == sel(sel(IDX, i), j), patterns=[hB9(x, i, j)]))
        E.assume(z3.ForAll([j], hc9(x, j) == sel(C, j), patterns=[hc9(x, j)]))
        E.assumptions.add("ghost definitions per leave call of get_branches: hn9 / hLEN9 / hB9 / hlc9 / hc9 name the value (closed branches, pending chain) the callback returned for x")

    # ---- where the edge into every left node is (ghost state, updated in bulk by ghost code after every leave call):
    #   own[v]   the node whose (not yet consumed) value holds v;   inch[v]: v is in its pending chain at position pos[v],
    #   otherwise v is entry bp[v] >= 1 of its closed branch number bi[v]  (so the edge (parent of v, v) is entries bp[v]-1, bp[v])
    def gbw_setup(S):
        t = wf_tree8(S)
        n = nof(t)
        mk = lambda nm, k: SArr.fresh(k, n, name=nm)
        G = Obj(Ghost8, dict(own=mk("own", "int"), inch=mk("inch", "bool"), pos=mk("pos", "int"), bi=mk("bi", "int"), bp=mk("bp", "int")))
        return dict(self=t, G9=G)

    def g9(v):
        f = v["G9"].fields
        return f["own"].arr, f["inch"].arr, f["pos"].arr, f["bi"].arr, f["bp"].arr

    def gb_J(E, v, ENT, LEFT, ctx):
        own, inch, pos, bi, bp = g9(v)
        P, R_, root = ctx.P, ctx.R, ctx.root
        left = lambda a: z3.simplify(sel(LEFT, a))
        pending = lambda o: z3.And(left(o), z3.Or(o == root, z3.Not(left(sel(P, o)))))
        u, o, i, j = (z3.Int(fresh_name(a)) for a in ("u", "o", "i", "j"))
        ou = sel(own, u)
        cu, bu = hc9(o, j), hB9(o, i, j)
        return [
            ("the-holder-of-a-left-node-is-a-left-node-whose-parent-is-not-left",
             z3.ForAll([u], z3.Implies(z3.And(R_(u), left(u)), z3.And(R_(ou), pending(ou))), patterns=[sel(own, u)])),
            ("a-left-node-is-where-its-record-says",
             z3.ForAll([u], z3.Implies(z3.And(R_(u), left(u)),
                                       z3.If(sel(inch, u), z3.And(0 <= sel(pos, u), sel(pos, u) < hlc9(ou), hc9(ou, sel(pos, u)) == u),
                                             z3.And(0 <= sel(bi, u), sel(bi, u) < hn9(ou), 1 <= sel(bp, u), sel(bp, u) < hLEN9(ou, sel(bi, u)), hB9(ou, sel(bi, u), sel(bp, u)) == u))),
                       patterns=[sel(own, u), sel(inch, u)])),
            ("every-entry-of-a-pending-chain-is-recorded-there",
             z3.ForAll([o, j], z3.Implies(z3.And(R_(o), pending(o), 0 <= j, j < hlc9(o)), z3.And(R_(cu), left(cu), sel(own, cu) == o, sel(inch, cu), sel(pos, cu) == j)), patterns=[hc9(o, j)])),
            ("every-entry-but-the-first-of-a-closed-branch-is-recorded-there",
             z3.ForAll([o, i, j], z3.Implies(z3.And(R_(o), pending(o), 0 <= i, i < hn9(o), 1 <= j, j < hLEN9(o, i)),
                                             z3.And(R_(bu), left(bu), sel(own, bu) == o, z3.Not(sel(inch, bu)), sel(bi, bu) == i, sel(bp, bu) == j)), patterns=[hB9(o, i, j)]))]

    def gb_ghost_update(E, v, x, ctx):
        """bulk update of the records after the leave call of x: everything the children held is now held by x"""
        call = E.ghost["traverse-last-call"]
        LEFT, pre = call["LEFT"], call["args"]
        if not isinstance(pre, X.PairList):
            raise X.Unsupported("get_branches: child results are not the rule's list")
        G = v["G9"].fields
        own, inch, pos, bi, bp = g9(v)
        K, loff = ctx.nkids(x), pre.loff
        moved = lambda u: z3.And(ctx.R(u), sel(LEFT, u), ctx.R(sel(own, u)), sel(ctx.P, sel(own, u)) == x)
        kk = lambda u: ctx.rank(sel(own, u))
        kd = lambda u: sel(own, u)
        one = K == 1
        pw = lambda nm, so, body: X.pointwise(E, so, nm, body)
        AIB = z3.ArraySort(I_, B_)
        G["own"].arr = pw("own", X.AII, lambda u: z3.If(u == x, x, z3.If(moved(u), x, sel(own, u))))
        G["inch"].arr = pw("inch", AIB, lambda u: z3.If(u == x, z3.BoolVal(True), z3.If(moved(u), z3.And(one, sel(inch, u)), sel(inch, u))))
        G["pos"].arr = pw("pos", X.AII, lambda u: z3.If(u == x, hlc9(x) - 1, sel(pos, u)))
        G["bi"].arr = pw("bi", X.AII, lambda u: z3.If(z3.And(moved(u), z3.Not(one)), z3.If(sel(inch, u), loff(kk(u)), loff(kk(u)) + hn9(kd(u)) - sel(bi, u)), sel(bi, u)))
        G["bp"].arr = pw("bp", X.AII, lambda u: z3.If(z3.And(moved(u), z3.Not(one), sel(inch, u)), hlc9(kd(u)) - sel(pos, u), sel(bp, u)))

    def gb_ghost_leave2(E, v, x, ctx):
        gb_ghost_leave(E, v, x, ctx)
        gb_ghost_update(E, v, x, ctx)

    # ---- the loop of the callback: after k children,  branches = for each child k' < k: [node + its chain reversed] + its closed branches reversed
    def cb_loop_vocab(E, v):
        pre, br = v["pre"], v["branches"]
        if not isinstance(pre, X.PairList):
            raise X.Unsupported("collect_branches: `pre` is not the list of child results of the traverse rule")
        bv = bs_view(br)
        if bv is None:
            raise X.Unsupported("collect_branches: `branches` is not a list of branches")
        x = to_z3(v["node"].fields["idx"], "int")
        return pre, bv, x, to_z3(v["_k0"], "int")

    def cb_inv(which):
        def f(E, v, o):
            pre, (IDX, LEN, n), x, k = cb_loop_vocab(E, v)
            BIDX, BLEN, BN, CH, CN = pre.cols
            loff = pre.loff
            k1, i, j = z3.Int(fresh_name("k")), z3.Int(fresh_name("i")), z3.Int(fresh_name("j"))
            p = loff(k1) + i
            blk = z3.And(0 <= k1, k1 < k, 0 <= i, i <= sel(BN, k1))
            if which == "count":
                return n == loff(k)
            if which == "lengths":
                return z3.ForAll([k1, i], z3.Implies(blk, sel(LEN, p) == z3.If(i == 0, sel(CN, k1) + 1, sel(sel(BLEN, k1), sel(BN, k1) - i))))
            if which == "contents":
                return z3.ForAll([k1, i, j], z3.Implies(z3.And(blk, 0 <= j, j < sel(LEN, p)),
                                                        sel(sel(IDX, p), j) == z3.If(i == 0, z3.If(j == 0, x, sel(sel(CH, k1), sel(CN, k1) - j)), sel(sel(sel(BIDX, k1), sel(BN, k1) - i), j))))
            raise KeyError(which)

        return f

    CB_LOOP = dict(invariant=[("as-many-branches-as-the-children-so-far-contribute", cb_inv("count")),
                              ("per-child-first-the-branch-closed-at-the-node-then-its-closed-branches-reversed-lengths", cb_inv("lengths")),
                              ("per-child-first-the-branch-closed-at-the-node-then-its-closed-branches-reversed-contents", cb_inv("contents"))],
                   types={"branches": X.branch_seq_empty})

    def gb_result(v):
        from swcgeom.core.tree import Tree

        res = v["result"]
        if not (isinstance(res, X.BranchSeq) and res.cls_ is Tree.Branch):
            return None
        return res

    def one_child(t, x):
        """exactly one row names x as parent"""
        r, r2 = z3.Int(fresh_name("r")), z3.Int(fresh_name("r2"))
        P, n = col(t, "pid").arr, nof(t)
        return z3.Exists([r], z3.And(0 <= r, r < n, sel(P, r) == x, z3.ForAll([r2], z3.Implies(z3.And(0 <= r2, r2 < n, sel(P, r2) == x), r2 == r))))

    def decided(E, cond):
        """the condition as a Python bool when the (quantifier-free part of the) path condition decides it, else the condition itself"""
        if not E.feasible(z3.Not(cond)):
            return z3.BoolVal(True)
        if not E.feasible(cond):
            return z3.BoolVal(False)
        return cond

    def ite(c, a, b):
        return a if z3.is_true(c) else (b if z3.is_false(c) else z3.If(c, a, b))

    def gbw_post(which):
        def f(E, v, o):
            t = o["self"]
            res = gb_result(v)
            if res is None:
                return False
            E.ghost["gb-result"] = res
            if which == "branches-attached-to-this-tree":
                return res.fixed.get("attach") is v["self"] and res.fixed.get("names") is t.fields["names"]
            out = gbw_post_formula(E, v, o, t, res, which)
            E.ghost[("gb-post", which)] = out  # the very formula: a hint may prove it first in a reduced context
            return out

        return f

    def gbw_post_formula(E, v, o, t, res, which):
        if True:
            IDX, LEN, m = res.cols[0], res.cols[1], zint(res.n)
            P, n = col(t, "pid").arr, nof(t)
            i, j = z3.Int(fresh_name("i")), z3.Int(fresh_name("j"))
            ini = z3.And(0 <= i, i < m)
            at = lambda a, b: sel(sel(IDX, a), b)
            if which == "every-branch-has-an-edge-and-consecutive-entries-are-parent-and-child":
                return z3.And(z3.ForAll([i], z3.Implies(ini, sel(LEN, i) >= 2)),
                              z3.ForAll([i, j], z3.Implies(z3.And(ini, 0 <= j, j < sel(LEN, i)), z3.And(0 <= at(i, j), at(i, j) < n, z3.Implies(j >= 1, sel(P, at(i, j)) == at(i, j - 1))))))
            if which == "every-branch-starts-at-the-root-or-a-furcation":
                return z3.ForAll([i], z3.Implies(ini, z3.Or(at(i, 0) == 0, two_rows(t, at(i, 0)))))
            if which == "every-branch-ends-at-a-furcation-or-a-tip":
                e = at(i, sel(LEN, i) - 1)
                return z3.ForAll([i], z3.Implies(ini, z3.Or(two_rows(t, e), no_child(t, e))))
            if which == "interior-nodes-are-pass-through":
                return z3.ForAll([i, j], z3.Implies(z3.And(ini, 1 <= j, j < sel(LEN, i) - 1), one_child(t, at(i, j))))
            lc, hn = hlc9(0), hn9(0)
            closing = decided(E, lc > 1)  # the pending chain of the root has an edge: it is closed as a branch that starts at the root
            q = z3.Int(fresh_name("q"))
            inq = z3.And(0 <= q, q < m)
            if which == "pending-chain-of-more-than-one-node-closed-root-first":
                # (where in the list the closing branch stands is not part of the property)
                return ite(closing, z3.And(lc > 1, m == hn + 1, z3.Exists([q], z3.And(inq, sel(LEN, q) == lc, z3.ForAll([j], z3.Implies(z3.And(0 <= j, j < lc), at(q, j) == hc9(0, lc - 1 - j)))))),
                           z3.And(lc <= 1, m == hn))
            if which == "every-branch-of-the-traversal-kept":
                return z3.ForAll([i], z3.Implies(z3.And(0 <= i, i < hn), z3.Exists([q], z3.And(inq, sel(LEN, q) == hLEN9(0, i), z3.ForAll([j], z3.Implies(z3.And(0 <= j, j < hLEN9(0, i)), at(q, j) == hB9(0, i, j)))))))
            own, inch, pos, bi, bp = g9(v)
            u, i2, j2 = z3.Int(fresh_name("u")), z3.Int(fresh_name("i2")), z3.Int(fresh_name("j2"))
            fi = ite(closing, z3.If(sel(inch, u), 0, hn - sel(bi, u)), sel(bi, u))
            fj = ite(closing, z3.If(sel(inch, u), lc - 1 - sel(pos, u), sel(bp, u)), sel(bp, u))
            edge = z3.And(0 < u, u < n)  # the edge (parent of u, u) of a node u other than the root
            if which == "every-edge-lies-in-a-branch-at-its-recorded-place":
                return z3.ForAll([u], z3.Implies(edge, z3.And(0 <= fi, fi < m, 1 <= fj, fj < sel(LEN, fi), at(fi, fj) == u, at(fi, fj - 1) == sel(P, u))))
            if which == "every-edge-lies-in-some-branch":
                return z3.ForAll([u], z3.Implies(edge, z3.Exists([i, j], z3.And(ini, 1 <= j, j < sel(LEN, i), at(i, j) == u, at(i, j - 1) == sel(P, u)))))
            end = lambda a: at(a, sel(LEN, a) - 1)
            if which == "every-tip-and-furcation-other-than-the-root-ends-a-branch":
                return z3.ForAll([u], z3.Implies(z3.And(edge, z3.Or(two_rows(t, u), no_child(t, u))), z3.Exists([i], z3.And(ini, end(i) == u))), patterns=[sel(col(t, "id").arr, u)])
            if which == "no-two-branches-end-at-the-same-node":
                return z3.ForAll([i, i2], z3.Implies(z3.And(ini, 0 <= i2, i2 < m, i != i2), end(i) != end(i2)))
            if which == "every-branch-starts-at-the-root-or-where-another-branch-ends":
                return z3.ForAll([i], z3.Implies(ini, z3.Or(at(i, 0) == 0, z3.Exists([i2], z3.And(0 <= i2, i2 < m, end(i2) == at(i, 0))))))
            if which == "no-edge-lies-in-two-branches-or-twice-in-one":
                return z3.ForAll([i, j, i2, j2], z3.Implies(z3.And(ini, 0 <= i2, i2 < m, 1 <= j, j < sel(LEN, i), 1 <= j2, j2 < sel(LEN, i2), at(i, j) == at(i2, j2)), z3.And(i == i2, j == j2)))
            raise KeyError(which)

    def gbw_hint(E, vars):
        """child counts in terms of rows (from the definition of kid / rank)"""
        ctx = E.ghost["last-traverse-ctx"]
        t = vars["self"]
        P, n = col(t, "pid").arr, nof(t)
        x, a, b = z3.Int(fresh_name("x")), z3.Int(fresh_name("a")), z3.Int(fresh_name("b"))
        k0, k1 = ctx.kid(x, 0), ctx.kid(x, 1)
        voc = [ctx.nkids, ctx.kid, ctx.rank, ctx.P, ctx.n, col(t, "id").arr]
        st = lambda nm, f_: X.prove_in_vocabulary(E, f"Tree.get_branches/step/{nm}", f_, voc)
        st("the-first-two-children-are-two-rows-naming-the-node-as-parent",
           z3.ForAll([x], z3.Implies(z3.And(ctx.R(x), ctx.nkids(x) > 1), z3.And(0 <= k0, k0 < k1, k1 < n, sel(P, k0) == x, sel(P, k1) == x)), patterns=[ctx.nkids(x)]))
        st("a-node-with-two-or-more-children-is-a-furcation", z3.ForAll([x], z3.Implies(z3.And(ctx.R(x), ctx.nkids(x) > 1), two_rows(t, x)), patterns=[ctx.nkids(x)]))
        st("no-row-names-a-node-without-children-as-parent", z3.ForAll([x, a], z3.Implies(z3.And(ctx.R(x), ctx.nkids(x) == 0, 0 <= a, a < n), sel(P, a) != x)))
        st("a-node-without-children-is-a-tip", z3.ForAll([x], z3.Implies(z3.And(ctx.R(x), ctx.nkids(x) == 0), no_child(t, x)), patterns=[ctx.nkids(x)]))
        st("the-only-child-is-the-only-row-naming-the-node-as-parent",
           z3.ForAll([x, a], z3.Implies(z3.And(ctx.R(x), ctx.nkids(x) == 1, 0 <= a, a < n, sel(P, a) == x), z3.And(a == k0, ctx.R(k0), sel(P, k0) == x))))
        st("a-node-with-one-child-is-a-pass-through-node", z3.ForAll([x], z3.Implies(z3.And(ctx.R(x), ctx.nkids(x) == 1), one_child(t, x)), patterns=[ctx.nkids(x)]))
        # the shape of every branch of the result in terms of child counts
        res = E.ghost["gb-result"]
        IDX, LEN, m = res.cols[0], res.cols[1], zint(res.n)
        i, j = z3.Int(fresh_name("i")), z3.Int(fresh_name("j"))
        at = lambda a_, b_: sel(sel(IDX, a_), b_)
        ini = z3.And(0 <= i, i < m)
        voc2 = [ctx.nkids, ctx.P, ctx.n, IDX, LEN, m, hB9, hn9, hLEN9, hc9, hlc9]
        st2 = lambda nm, f_: X.prove_in_vocabulary(E, f"Tree.get_branches/step/{nm}", f_, voc2)
        lc, hn = hlc9(0), hn9(0)
        closing = decided(E, lc > 1)
        other = z3.And(ini, z3.Not(z3.And(closing, i == 0)))
        ri = ite(closing, hn - i, i)
        if z3.is_true(closing):
            st2("the-branch-that-closes-the-pending-chain-of-the-root-starts-at-the-root", z3.And(ctx.R(at(0, 0)), at(0, 0) == 0))
        st2("a-branch-closed-during-the-traversal-starts-at-a-node-with-two-or-more-children",
            z3.ForAll([i], z3.Implies(other, z3.And(at(i, 0) == hB9(0, ri, 0), ctx.R(at(i, 0)), ctx.nkids(at(i, 0)) >= 2)), patterns=[sel(LEN, i)]))
        st2("every-branch-starts-at-the-root-or-at-a-node-with-two-or-more-children", z3.ForAll([i], z3.Implies(ini, z3.And(ctx.R(at(i, 0)), z3.Or(at(i, 0) == 0, ctx.nkids(at(i, 0)) >= 2))), patterns=[sel(LEN, i)]))
        st2("every-branch-ends-at-a-node-that-has-not-exactly-one-child", z3.ForAll([i], z3.Implies(ini, z3.And(ctx.R(at(i, sel(LEN, i) - 1)), ctx.nkids(at(i, sel(LEN, i) - 1)) != 1)), patterns=[sel(LEN, i)]))
        st2("every-interior-node-of-a-branch-has-exactly-one-child", z3.ForAll([i, j], z3.Implies(z3.And(ini, 1 <= j, j < sel(LEN, i) - 1), z3.And(ctx.R(at(i, j)), ctx.nkids(at(i, j)) == 1)), patterns=[at(i, j)]))

    def gbw_hint_mapping(which):
        return lambda E, vars: gbw_hint_mapping_(E, vars, which)

    def gbw_hint_mapping_(E, vars, which):
        """which branch of the traversal a branch of the result is (the result is the traversal's list, or that list with the closing branch
        appended, reversed).  "closing": only the step about the branch that closes the pending chain of the root (all that the clause
        `pending-chain-of-more-than-one-node-closed-root-first` needs: its proof must not rest on the steps about the OTHER branches)."""
        res = E.ghost["gb-result"]
        IDX, LEN, m = res.cols[0], res.cols[1], zint(res.n)
        lc, hn = hlc9(0), hn9(0)
        closing = decided(E, lc > 1)
        i, j = z3.Int(fresh_name("i")), z3.Int(fresh_name("j"))
        at = lambda a, b: sel(sel(IDX, a), b)
        ri = ite(closing, hn - i, i)
        other = z3.And(0 <= i, i < m, z3.Not(z3.And(closing, i == 0)))
        if which == "closing":
            if z3.is_true(closing):
                E.prove("Tree.get_branches/step/the-first-branch-of-the-result-closes-the-pending-chain-of-the-root-root-first",
                        z3.And(m == hn + 1, sel(LEN, 0) == lc, z3.ForAll([j], z3.Implies(z3.And(0 <= j, j < lc), at(0, j) == hc9(0, lc - 1 - j)), patterns=[at(0, j)])), "annotation")
            return
        E.prove("Tree.get_branches/step/a-branch-other-than-the-closing-one-is-a-branch-of-the-traversal",
                z3.And(z3.ForAll([i], z3.Implies(other, z3.And(0 <= ri, ri < hn, sel(LEN, i) == hLEN9(0, ri))), patterns=[sel(LEN, i)]),
                       z3.ForAll([i, j], z3.Implies(z3.And(other, 0 <= j, j < sel(LEN, i)), at(i, j) == hB9(0, ri, j)), patterns=[at(i, j)])), "annotation")
        E.prove("Tree.get_branches/step/a-branch-of-the-traversal-is-a-branch-of-the-result",
                z3.ForAll([i], z3.Implies(z3.And(0 <= i, i < hn), z3.And(0 <= ri, ri < m, z3.Not(z3.And(closing, ri == 0)), ite(closing, hn - ri, ri) == i, sel(LEN, ri) == hLEN9(0, i), z3.ForAll([j], z3.Implies(z3.And(0 <= j, j < hLEN9(0, i)), at(ri, j) == hB9(0, i, j))))),
                          patterns=[hLEN9(0, i)]), "annotation")

    def gbw_hint_edges(which):
        def f(E, vars):
            ctx = E.ghost["last-traverse-ctx"]
            t, res = vars["self"], E.ghost["gb-result"]
            IDX, LEN, m = res.cols[0], res.cols[1], zint(res.n)
            P, n = col(t, "pid").arr, nof(t)
            own, inch, pos, bi, bp = g9(vars)
            lc, hn = hlc9(0), hn9(0)
            closing = decided(E, lc > 1)
            u, i, j = z3.Int(fresh_name("u")), z3.Int(fresh_name("i")), z3.Int(fresh_name("j"))
            at = lambda a, b: sel(sel(IDX, a), b)
            voc = [own, inch, pos, bi, bp, hc9, hB9, hn9, hlc9, hLEN9, E.ghost["last-traverse-Sub"], ctx.P, ctx.n, ctx.nkids, IDX, LEN, m]
            st = lambda nm, f_: X.prove_in_vocabulary(E, f"Tree.get_branches/step/{nm}", f_, voc)
            edge = z3.And(0 < u, u < n)
            if which == "cover":
                st("at-the-end-the-root-holds-every-node", z3.ForAll([u], z3.Implies(ctx.R(u), sel(own, u) == 0), patterns=[sel(own, u)]))
                st("a-node-other-than-the-root-in-the-pending-chain-of-the-root-has-its-parent-next-in-it",
                   z3.ForAll([u], z3.Implies(z3.And(edge, sel(inch, u)), z3.And(lc > 1, 0 <= sel(pos, u), sel(pos, u) <= lc - 2, hc9(0, sel(pos, u)) == u, hc9(0, sel(pos, u) + 1) == sel(P, u))), patterns=[sel(inch, u), sel(pos, u)]))
                st("a-node-in-a-closed-branch-has-its-parent-before-it",
                   z3.ForAll([u], z3.Implies(z3.And(edge, z3.Not(sel(inch, u))), z3.And(0 <= sel(bi, u), sel(bi, u) < hn, 1 <= sel(bp, u), sel(bp, u) < hLEN9(0, sel(bi, u)),
                                                                                       hB9(0, sel(bi, u), sel(bp, u)) == u, hB9(0, sel(bi, u), sel(bp, u) - 1) == sel(P, u))), patterns=[sel(inch, u), sel(bi, u)]))
                fi = ite(closing, z3.If(sel(inch, u), 0, hn - sel(bi, u)), sel(bi, u))
                fj = ite(closing, z3.If(sel(inch, u), lc - 1 - sel(pos, u), sel(bp, u)), sel(bp, u))
                place = z3.And(0 <= fi, fi < m, 1 <= fj, fj < sel(LEN, fi), at(fi, fj) == u, at(fi, fj - 1) == sel(P, u))
                st("the-edge-into-a-node-of-the-pending-chain-of-the-root-lies-in-the-branch-that-closes-it", z3.ForAll([u], z3.Implies(z3.And(edge, sel(inch, u)), place), patterns=[sel(inch, u), sel(bi, u), sel(pos, u)]))
                st("the-edge-into-a-node-of-a-closed-branch-lies-in-that-branch", z3.ForAll([u], z3.Implies(z3.And(edge, z3.Not(sel(inch, u))), place), patterns=[sel(inch, u), sel(bi, u), sel(pos, u)]))
                st("the-edge-into-every-node-but-the-root-lies-in-a-branch", z3.ForAll([u], z3.Implies(edge, place), patterns=[sel(inch, u), sel(bi, u), sel(pos, u)]))
            else:
                w = at(i, j)
                rng = z3.And(0 <= i, i < m, 1 <= j, j < sel(LEN, i))
                st("an-entry-of-the-branch-that-closes-the-chain-of-the-root-is-recorded-in-that-chain",
                   z3.ForAll([i, j], z3.Implies(z3.And(rng, closing, i == 0), z3.And(sel(inch, w), sel(pos, w) == lc - 1 - j)), patterns=[at(i, j)]))
                st("an-entry-of-another-branch-is-recorded-in-it",
                   z3.ForAll([i, j], z3.Implies(z3.And(rng, z3.Not(z3.And(closing, i == 0))), z3.And(z3.Not(sel(inch, w)), sel(bi, w) == ite(closing, hn - i, i), sel(bp, w) == j)), patterns=[at(i, j)]))

        return f

    def gbw_hint_ends(E, vars):
        ctx, t, res = E.ghost["last-traverse-ctx"], vars["self"], E.ghost["gb-result"]
        IDX, LEN, m = res.cols[0], res.cols[1], zint(res.n)
        P, n = col(t, "pid").arr, nof(t)
        own, inch, pos, bi, bp = g9(vars)
        lc, hn = hlc9(0), hn9(0)
        closing = decided(E, lc > 1)
        u, x, a, b = (z3.Int(fresh_name(c)) for c in "uxab")
        at = lambda a_, b_: sel(sel(IDX, a_), b_)
        fi = ite(closing, z3.If(sel(inch, u), 0, hn - sel(bi, u)), sel(bi, u))
        fj = ite(closing, z3.If(sel(inch, u), lc - 1 - sel(pos, u), sel(bp, u)), sel(bp, u))
        edge = z3.And(0 < u, u < n)
        voc = [ctx.P, ctx.n, IDX, LEN, m, ctx.nkids, ctx.kid, ctx.rank, col(t, "id").arr] + list(g9(vars)) + [hn9, hlc9]
        st = lambda nm, f_: X.prove_in_vocabulary(E, f"Tree.get_branches/step/{nm}", f_, voc)
        st("two-rows-naming-a-node-as-parent-are-two-children", z3.ForAll([x, a, b], z3.Implies(z3.And(ctx.R(x), 0 <= a, a < b, b < n, sel(P, a) == x, sel(P, b) == x), ctx.nkids(x) > 1)))
        st("a-furcation-has-two-or-more-children", z3.ForAll([x], z3.Implies(z3.And(ctx.R(x), two_rows(t, x)), ctx.nkids(x) >= 2), patterns=[sel(col(t, "id").arr, x), ctx.nkids(x)]))
        st("a-node-with-children-is-named-as-parent-by-its-first-child", z3.ForAll([x], z3.Implies(z3.And(ctx.R(x), ctx.nkids(x) > 0), z3.And(ctx.R(ctx.kid(x, 0)), sel(P, ctx.kid(x, 0)) == x)), patterns=[ctx.nkids(x)]))
        st("a-tip-has-no-children", z3.ForAll([x], z3.Implies(z3.And(ctx.R(x), no_child(t, x)), ctx.nkids(x) == 0), patterns=[sel(col(t, "id").arr, x), ctx.nkids(x)]))
        st("a-node-that-is-not-a-pass-through-node-is-the-last-entry-of-the-branch-that-holds-the-edge-into-it",
           z3.ForAll([u], z3.Implies(z3.And(edge, ctx.nkids(u) != 1), z3.And(0 <= fi, fi < m, fj == sel(LEN, fi) - 1, at(fi, fj) == u)), patterns=[ctx.nkids(u)]))

    def gbw_then_post(which, first=None, kind="shape"):
        """hint: run the steps of `first`, then prove THE formula of postcondition `which` in a reduced context (it is then a hypothesis of the
        postcondition's own obligation, which is discharged at once)"""
        def f(E, vars):
            if first is not None:
                first(E, vars)
            ctx, t, res = E.ghost["last-traverse-ctx"], vars["self"], E.ghost["gb-result"]
            voc = [ctx.P, ctx.n, res.cols[0], res.cols[1], zint(res.n)] + ([ctx.nkids, col(t, "id").arr] if kind == "shape" else [hn9, hlc9, hLEN9, hB9, hc9] if kind == "map" else list(g9(vars)) + [hn9, hlc9])
            if kind == "ends":
                voc += [ctx.nkids, col(t, "id").arr]
            # THE postcondition, under its own name and kind: when the steps no longer carry it, the clause of the property fails (not a proof step)
            # (simplified as the engine simplifies a clause: the clause's own obligation then finds the very same term among its hypotheses)
            X.prove_in_vocabulary(E, f"Tree.get_branches/post/{which}", z3.simplify(E.ghost[("gb-post", which)]), voc, kind="postcondition", note="from the proof steps")

        return f

    GBW = ["branches-attached-to-this-tree", "pending-chain-of-more-than-one-node-closed-root-first", "every-branch-of-the-traversal-kept",
           "every-branch-has-an-edge-and-consecutive-entries-are-parent-and-child", "every-branch-starts-at-the-root-or-a-furcation",
           "every-branch-ends-at-a-furcation-or-a-tip", "interior-nodes-are-pass-through",
           "every-edge-lies-in-a-branch-at-its-recorded-place", "every-edge-lies-in-some-branch", "no-edge-lies-in-two-branches-or-twice-in-one",
           # corollaries that the branch tree rests on ("exactly the root, furcations and tips as nodes, joined as the branches join them")
           "no-two-branches-end-at-the-same-node", "every-tip-and-furcation-other-than-the-root-ends-a-branch", "every-branch-starts-at-the-root-or-where-another-branch-ends"]
    R.add(f"{TREE}:Tree.get_branches", prop="C08", setup=gbw_setup,
          ensures=[(w, gbw_post(w)) for w in GBW],
          inlined_loops={f"{TREE}:Tree.get_branches.<locals>.collect_branches": {0: CB_LOOP}},
          options=dict(OPTS, traverse_rule=Rule(gb_J, Ql=gb_Ql, modifies=["G9"], leave_kind=gb_leave_kind, leave_args=gb_leave_args, ghost_leave=gb_ghost_leave2),
                       hints={"post/pending-chain-of-more-than-one-node-closed-root-first": gbw_then_post("pending-chain-of-more-than-one-node-closed-root-first", gbw_hint_mapping("closing"), kind="map"),
                              "post/every-branch-of-the-traversal-kept": gbw_then_post("every-branch-of-the-traversal-kept", gbw_hint_mapping("others"), kind="map"),
                              "post/every-branch-starts-at-the-root-or-a-furcation": gbw_then_post("every-branch-starts-at-the-root-or-a-furcation", gbw_hint),
                              "post/every-branch-ends-at-a-furcation-or-a-tip": gbw_then_post("every-branch-ends-at-a-furcation-or-a-tip"),
                              "post/interior-nodes-are-pass-through": gbw_then_post("interior-nodes-are-pass-through"),
                              "post/every-edge-lies-in-a-branch-at-its-recorded-place": gbw_hint_edges("cover"),
                              "post/every-edge-lies-in-some-branch": gbw_then_post("every-edge-lies-in-some-branch", kind="edges"),
                              "post/no-edge-lies-in-two-branches-or-twice-in-one": gbw_then_post("no-edge-lies-in-two-branches-or-twice-in-one", gbw_hint_edges("unique"), kind="edges"),
                              "post/no-two-branches-end-at-the-same-node": gbw_then_post("no-two-branches-end-at-the-same-node", kind="edges"),
                              "post/every-tip-and-furcation-other-than-the-root-ends-a-branch": gbw_then_post("every-tip-and-furcation-other-than-the-root-ends-a-branch", gbw_hint_ends, kind="ends"),
                              "post/every-branch-starts-at-the-root-or-where-another-branch-ends": gbw_then_post("every-branch-starts-at-the-root-or-where-another-branch-ends", kind="ends")}),
          notes="whole function, trees of any size (traverse client rule with (list of branches, chain) leave values; loop of the callback cut at an invariant); the input tree is frozen")


    # ================================================================ Tree.Node.branch as a whole (trees of any size)
    # For a node x that is not a furcation the result is THE branch that holds the edge into x (for a one-child root: the branch it
    # starts): it contains x, consecutive entries are (parent, child), it starts at the root or a furcation, ends at a furcation or a
    # tip and has only pass-through nodes in between.  (A furcation ends one branch and starts others; the property does not say which
    # of them `branch()` reports.)  Ghost: `depth` (every node reaches the root) and `ht8` (a height witness: finite trees have one).
    ht8 = z3.Function("ht8", I_, I_)

    def nbw_setup(S):
        t = wf_tree8(S)
        n, P = nof(t), col(t, "pid").arr
        x, i = S.int("x"), z3.Int(fresh_name("i"))
        S.assume(z3.And(x.z >= 0, x.z < n))
        S.assume(z3.ForAll([i], z3.Implies(z3.And(i >= 0, i < n), ht8(i) >= 0), patterns=[ht8(i)]))
        S.assume(z3.ForAll([i], z3.Implies(z3.And(i > 0, i < n), ht8(sel(P, i)) > ht8(i)), patterns=[ht8(sel(P, i))]))
        S.eng.assumptions.add("ghost witnesses of a well-formed input tree (preconditions): depth(0) = 0, depth(i) = depth(parent of i) + 1 (every node reaches the root); "
                              "ht8(i) >= 0, ht8(parent of i) > ht8(i) (a height function: every finite tree has one, tools/xcheck_c08_models.py)")
        return dict(self=node_obj(S, t, idx=x))

    def nbw_vocab(E, v, name="ns"):
        from pyvc.ext_C07 import NodeList

        s = v["self"]
        t = s.fields["attach"]
        ns = v.get(name)
        x = to_z3(s.fields["idx"], "int")
        if isinstance(ns, PList) and ns.items is not None and all(isinstance(h, Obj) and h.fields.get("attach") is t and "idx" in h.fields for h in ns.items):
            A = z3.K(I_, z3.IntVal(0))  # a concrete list of handles (before the loop promotes it)
            for k, h in enumerate(ns.items):
                A = z3.Store(A, k, to_z3(h.fields["idx"], "int"))
            return t, col(t, "pid").arr, nof(t), x, A, z3.IntVal(len(ns.items))
        if not (isinstance(ns, NodeList) and ns.attach is t and ns.items is None):
            raise X.Unsupported("Tree.Node.branch: `ns` is not a list of node handles on the tree")
        return t, col(t, "pid").arr, nof(t), x, ns.cols[0], zint(ns.n)

    def nbw_inv0(which):
        def f(E, v, o):
            t, P, n, x, A, L = nbw_vocab(E, v)
            j = z3.Int(fresh_name("j"))
            if which == "starts-at-the-node":
                return z3.And(L >= 1, sel(A, 0) == x)
            if which == "nodes-in-range-one-level-up-per-step":
                return z3.ForAll([j], z3.Implies(z3.And(0 <= j, j < L), z3.And(0 <= sel(A, j), sel(A, j) < n, d8(sel(A, j)) == d8(x) - j)), patterns=[sel(A, j)])
            if which == "climbs-from-child-to-parent-through-nodes-that-are-no-furcations":
                return z3.ForAll([j], z3.Implies(z3.And(0 <= j, j < L - 1), z3.And(sel(P, sel(A, j)) == sel(A, j + 1), z3.Not(two_rows(t, sel(A, j))))), patterns=[sel(A, j)])
            raise KeyError(which)

        return f

    def nbw_inv1(which):
        def f(E, v, o):
            t, P, n, x, B, M = nbw_vocab(E, v)
            j, r = z3.Int(fresh_name("j")), z3.Int(fresh_name("r"))
            b0 = sel(B, 0)
            dx = d8(x) - d8(b0)
            if which == "not-empty":
                return M >= 1
            if which == "nodes-in-range-one-level-down-per-step":
                return z3.ForAll([j], z3.Implies(z3.And(0 <= j, j < M), z3.And(0 <= sel(B, j), sel(B, j) < n, d8(sel(B, j)) == d8(b0) + j)), patterns=[sel(B, j)])
            if which == "descends-from-parent-to-child":
                return z3.ForAll([j], z3.Implies(z3.And(1 <= j, j < M), sel(P, sel(B, j)) == sel(B, j - 1)), patterns=[sel(B, j)])
            if which == "nodes-in-between-are-no-furcations":
                return z3.ForAll([j], z3.Implies(z3.And(1 <= j, j < M - 1), z3.Not(two_rows(t, sel(B, j)))), patterns=[sel(B, j)])
            if which == "starts-at-the-root-or-a-furcation":
                return z3.Or(b0 == 0, two_rows(t, b0))
            if which == "holds-the-node-below-the-start-unless-it-is-the-root":
                return z3.And(0 <= dx, dx < M, sel(B, dx) == x, z3.Implies(x != 0, dx >= 1))
            raise KeyError(which)

        return f

    def nbw_post(which):
        def f(E, v, o):
            from swcgeom.core.tree import Tree

            s, res = o["self"], v["result"]
            t = s.fields["attach"]
            if not (isinstance(res, Obj) and res.cls is Tree.Branch and isinstance(res.fields.get("idx"), SArr)):
                return False
            if which == "a-branch-on-this-tree":
                return res.fields.get("attach") is v["self"].fields["attach"] and res.fields.get("names") is t.fields["names"] and res.fields["idx"].uid not in E.entry_uids
            P, n, x = col(t, "pid").arr, nof(t), to_z3(s.fields["idx"], "int")
            B, M = res.fields["idx"].arr, res.fields["idx"].nz()
            j, r = z3.Int(fresh_name("j")), z3.Int(fresh_name("r"))
            dx = d8(x) - d8(sel(B, 0))
            if which == "holds-the-node-below-its-first-entry-unless-the-node-is-the-root":
                return z3.And(M >= 1, 0 <= dx, dx < M, sel(B, dx) == x, z3.Implies(x != 0, dx >= 1))
            if which == "consecutive-entries-are-parent-and-child":
                return z3.ForAll([j], z3.Implies(z3.And(0 <= j, j < M), z3.And(0 <= sel(B, j), sel(B, j) < n, z3.Implies(j >= 1, sel(P, sel(B, j)) == sel(B, j - 1)))))
            if which == "starts-at-the-root-or-a-furcation":
                return z3.Or(sel(B, 0) == 0, two_rows(t, sel(B, 0)))
            if which == "ends-at-a-furcation-or-a-tip":
                return z3.Or(two_rows(t, sel(B, M - 1)), no_child(t, sel(B, M - 1)))
            if which == "interior-nodes-are-pass-through":  # the only row that names an interior entry as parent is the next entry
                return z3.ForAll([j, r], z3.Implies(z3.And(1 <= j, j < M - 1, 0 <= r, r < n, sel(P, r) == sel(B, j)), r == sel(B, j + 1)))
            if which == "has-an-edge-unless-the-node-is-a-childless-root":
                return z3.Or(M >= 2, z3.And(x == 0, no_child(t, x)))
            raise KeyError(which)

        return f

    NBW0 = ["starts-at-the-node", "nodes-in-range-one-level-up-per-step", "climbs-from-child-to-parent-through-nodes-that-are-no-furcations"]
    NBW1 = ["not-empty", "nodes-in-range-one-level-down-per-step", "descends-from-parent-to-child", "nodes-in-between-are-no-furcations", "starts-at-the-root-or-a-furcation",
            "holds-the-node-below-the-start-unless-it-is-the-root"]
    NBWP = ["a-branch-on-this-tree", "holds-the-node-below-its-first-entry-unless-the-node-is-the-root", "consecutive-entries-are-parent-and-child", "starts-at-the-root-or-a-furcation",
            "ends-at-a-furcation-or-a-tip", "interior-nodes-are-pass-through", "has-an-edge-unless-the-node-is-a-childless-root"]
    from pyvc.ext_C07 import node_handles

    R.add(f"{TREE}:Tree.Node.branch", prop="C08", setup=nbw_setup,
          requires=[("the-node-is-not-a-furcation", lambda E, v, o: z3.Not(two_rows(v["self"].fields["attach"], to_z3(v["self"].fields["idx"], "int"))))],
          ensures=[(w, nbw_post(w)) for w in NBWP],
          loops={0: dict(invariant=[(w, nbw_inv0(w)) for w in NBW0], types={"ns": node_handles}, decreases="depth(ns[len_(ns) - 1].idx)"),
                 1: dict(invariant=[(w, nbw_inv1(w)) for w in NBW1], types={"ns": node_handles}, decreases="ht8(ns[len_(ns) - 1].idx)")},
          ghost_funcs=dict(depth=(["int"], "int"), ht8=(["int"], "int")),
          options=dict(OPTS),
          notes="whole function, trees of any size (ids = positions, node 0 the root, parents need not come first); Node.is_furcation / Node.is_tip are used through their contracts; the input tree is frozen")

    # ================================================================ BranchTree.get_origin_node_branches / get_origin_branches
    # "[the branch tree] remembers each original branch's points": the two read accessors of the `branches` registry (start node -> the
    # original branches that start there).  The Branch objects are opaque references here.
    BT = "swcgeom/core/branch_tree.py"

    def bt_obj(S, d):
        from swcgeom.core.branch_tree import BranchTree

        return S.obj(BranchTree, branches=d)

    def onb_setup(S):
        d = S.pdict("ref", name="branches")
        return dict(self=bt_obj(S, d), idx=S.int("idx"))

    def onb_has(E, v, o):
        return sel(o["self"].fields["branches"].dom, to_z3(o["idx"], "int"))

    def onb_post(which):
        def f(E, v, o):
            d0, d1 = o["self"].fields["branches"], v["self"].fields["branches"]
            if which == "registry-untouched":
                return d1 is v["self"].fields["branches"] and d1.uid == d0.uid and z3.And(d1.dom == d0.dom, d1.val == d0.val)
            if not (isinstance(v["result"], Sym) and v["result"].kind in ("ref", "oref", "int")):
                return False
            return to_z3(v["result"], "ref") == sel(d0.val, to_z3(o["idx"], "int"))

        return f

    R.add(f"{BT}:BranchTree.get_origin_node_branches", prop="C08", setup=onb_setup,
          raises={"KeyError": ("only-when-no-branch-starts-at-the-node", lambda E, v, o: z3.Not(onb_has(E, v, o)))},
          ensures=[("the-entry-registered-under-the-node", onb_post("entry")), ("registered-node-only", lambda E, v, o: onb_has(E, v, o)), ("registry-untouched", onb_post("registry-untouched"))],
          options=dict(OPTS))

    def ob_setup(k):
        def f(S):
            from pyvc.values import PDict

            items = {}
            for j in range(k):
                l = S.plist("ref", name=f"at{j}")
                l.frozen = True
                items[10 + 3 * j] = l
            d = PDict(items)
            d.frozen = True
            return dict(self=bt_obj(S, d))

        return f

    def ob_post(which):
        def f(E, v, o):
            res, lists = v["result"], list(o["self"].fields["branches"].items.values())
            if not isinstance(res, PList):
                return False
            if which == "fresh-list":
                return res.uid not in E.entry_uids
            i = z3.Int(fresh_name("i"))
            parts, off = [], z3.IntVal(0)
            for c in lists:
                L = X.ilen(c)
                parts.append(z3.Implies(z3.And(off <= i, i < off + L), X.iat(res, i, "ref") == X.iat(c, i - off, "ref")))
                off = off + L
            return z3.And(X.ilen(res) == off, z3.ForAll([i], z3.And(*parts)) if parts else z3.BoolVal(True))

        return f

    R.add(f"{BT}:BranchTree.get_origin_branches", prop="C08",
          variants={f"{k} start nodes": ob_setup(k) for k in (0, 1, 2, 3)},
          ensures=[("the-registered-branches-of-every-start-node-in-registration-order", ob_post("content")), ("fresh-list", ob_post("fresh-list"))],
          notes="the number of start nodes is fixed per variant (0-3); the number of branches per start node is symbolic; the registry and its lists are frozen", options=dict(OPTS))


def _fresh_frozen_ints(E):
    n = z3.Int(fresh_name("pre_len"))
    E.assume(n >= 0)
    return X.frozen_ints(z3.Const(fresh_name("pre"), X.AII), n, "pre_path")


def _fresh_lll(E, K):
    a = X.LLList.fresh(E, K, "kidpaths")
    return a, a.get


# ===========================================================================================================================
# the branch tree on fixed topologies: "The branch tree has exactly the root, furcations and tips as nodes, joined as the branches join
# them, and remembers each original branch's points."
INLINE8 = ["swc_utils/base.py:traverse", "swc_utils/base.py:_traverse_dfs", ":Tree.traverse", ":Tree.Node.traverse", ":to_sub_topology", ":Tree.get_branches",
           ":Tree.Node.parent", ":Tree.Node.children", ":Node.is_furcation", ":Node.is_tip", ":BranchTree.from_tree", ":Tree.get_paths", ":Path.length"]


def register_branch_tree(R):
    from pyvc.values import NArr, PDict

    BT = "swcgeom/core/branch_tree.py"
    TT = "swcgeom/transforms/tree.py"

    def ints(a):
        """the entries of a concrete 1-D int array, else None"""
        if isinstance(a, NArr) and a.ndim == 1 and all(isinstance(x, int) and not isinstance(x, bool) for x in a.items):
            return list(a.items)
        return None

    def bt_view(E, v, o, tree="tree"):
        """(input tree, its parent vector, result, columns of the result, original node behind every row of the result) or None"""
        from swcgeom.core.branch_tree import BranchTree

        t, res = o[tree], v["result"]
        if not (isinstance(res, Obj) and res.cls is BranchTree and isinstance(res.fields.get("ndata"), PDict) and res.fields["ndata"].items is not None):
            return None
        cols = res.fields["ndata"].items
        tag = ints(cols.get("tag"))
        if tag is None or any(not isinstance(a, NArr) or a.ndim != 1 or len(a.items) != len(tag) for a in cols.values()):
            return None
        return t, ints(col(t, "pid")), res, cols, [x - 100 for x in tag]

    def remembered(res):
        """[(key, original node sequence, Branch object)] of the `branches` registry, or None"""
        from swcgeom.core.branch import Branch

        d = res.fields.get("branches")
        if not (isinstance(d, PDict) and d.items is not None):
            return None
        out = []
        for key, lst in d.items.items():
            if not (isinstance(key, int) and isinstance(lst, PList) and lst.items is not None):
                return None
            for b in lst.items:
                if not (isinstance(b, Obj) and issubclass(b.cls, Branch) and isinstance(b.fields.get("attach"), Obj) and isinstance(b.fields["attach"].fields.get("ndata"), PDict)):
                    return None
                bc = b.fields["attach"].fields["ndata"].items
                tag, idx = ints(bc.get("tag")) if bc is not None else None, ints(b.fields.get("idx"))
                if tag is None or idx is None or any(not isinstance(a, NArr) or a.ndim != 1 or len(a.items) != len(tag) for a in bc.values()):
                    return None
                out.append((key, [x - 100 for x in tag], b))
        return out

    def bt_post(which, tree="tree"):
        def f(E, v, o):
            vw = bt_view(E, v, o, tree)
            if vw is None:
                return False
            t, pids, res, cols, olds = vw
            T8, m = Topo8(pids), len(olds)
            orig = t.fields["ndata"].items
            if which == "a-branch-tree-with-the-columns-of-the-tree-on-fresh-storage":
                return (list(cols) == list(orig) and all(a.root().uid not in E.entry_uids for a in cols.values()) and res.uid not in E.entry_uids
                        and res.fields.get("names") is t.fields["names"] and res.fields.get("source") == t.fields["source"])
            if which == "nodes-are-exactly-the-root-the-furcations-and-the-tips-each-once":
                return sorted(olds) == T8.critical()
            if which == "every-attribute-of-a-node-is-that-of-the-original-node":
                if any(not (0 <= a < T8.n) for a in olds):
                    return False
                return z3.And(*[to_z3(cols[c].items[k], cols[c].kind) == to_z3(orig[c].items[olds[k]], cols[c].kind) for c in cols if c not in ("id", "pid") for k in range(m)] + [z3.BoolVal(True)])
            ids, ps = ints(cols["id"]), ints(cols["pid"])
            if ids is None or ps is None:
                return False
            if which == "ids-are-positions-the-root-comes-first":
                return ids == list(range(m)) and m >= 1 and ps[0] == -1 and olds[0] == 0 and all(0 <= q < m for q in ps[1:])
            if which == "one-edge-per-branch-from-its-first-to-its-last-node":
                if not all(0 <= q < m for q in ps[1:]):
                    return False
                return sorted((olds[ps[k]], olds[k]) for k in range(1, m)) == sorted((b[0], b[-1]) for b in T8.branches())
            rem = remembered(res)
            if rem is None:
                return False
            if which == "remembers-exactly-the-branches-of-the-tree-each-once":
                return sorted(seq for _, seq, _ in rem) == sorted(T8.branches())
            if which == "every-branch-is-filed-under-the-branch-tree-node-of-its-first-point":
                return all(0 <= key < m and seq and olds[key] == seq[0] for key, seq, _ in rem)
            if which == "a-remembered-branch-keeps-the-points-of-the-original-branch":
                out = []
                for key, seq, b in rem:
                    bc = b.fields["attach"].fields["ndata"].items
                    if ints(b.fields["idx"]) != list(range(len(seq))) or any(not (0 <= a < T8.n) for a in seq) or list(bc) != list(orig):
                        return False
                    if ints(bc["id"]) != list(range(len(seq))) or ints(bc["pid"]) != list(range(-1, len(seq) - 1)):
                        return False  # a detached branch is numbered 0.. along itself
                    out += [to_z3(bc[c].items[j], bc[c].kind) == to_z3(orig[c].items[seq[j]], bc[c].kind) for c in bc if c not in ("id", "pid") for j in range(len(seq))]
                return z3.And(*out + [z3.BoolVal(True)])
            if which == "remembered-branches-are-detached-copies":
                return all(b.fields["attach"] is not v[tree] and b.fields["attach"].uid not in E.entry_uids
                           and all(a.root().uid not in E.entry_uids for a in b.fields["attach"].fields["ndata"].items.values()) for _, _, b in rem)
            raise KeyError(which)

        return f

    BTP = ["a-branch-tree-with-the-columns-of-the-tree-on-fresh-storage", "nodes-are-exactly-the-root-the-furcations-and-the-tips-each-once",
           "every-attribute-of-a-node-is-that-of-the-original-node", "ids-are-positions-the-root-comes-first", "one-edge-per-branch-from-its-first-to-its-last-node",
           "remembers-exactly-the-branches-of-the-tree-each-once", "every-branch-is-filed-under-the-branch-tree-node-of-its-first-point",
           "a-remembered-branch-keeps-the-points-of-the-original-branch", "remembered-branches-are-detached-copies"]
    NOTE = ("fixed concrete topologies (every labelled rooted tree of 1-4 nodes in any numbering, and 8 larger shapes); type / x / y / z / r of every node are symbolic, an extra "
            "attribute column `tag` carries the label 100 + i of node i; get_branches, the traversal, to_sub_topology, Tree.__init__ and Branch.detach are executed from their current source; the input tree is frozen")

    def ft_setup(pids):
        def f(S):
            from swcgeom.core.branch_tree import BranchTree

            return dict(cls=BranchTree, tree=fixed_topology_tree(S, pids, tag=True))

        return f

    R.add(f"{BT}:BranchTree.from_tree", prop="C08", variants={nm: ft_setup(p) for nm, p in FIXED_SHAPES.items()},
          ensures=[(w, bt_post(w)) for w in BTP], notes=NOTE, options=dict(OPTS, inline_calls=INLINE8))

    def tb_setup(pids):
        def f(S):
            from swcgeom.transforms.tree import ToBranchTree

            return dict(self=S.obj(ToBranchTree), x=fixed_topology_tree(S, pids, tag=True))

        return f

    R.add(f"{TT}:ToBranchTree.__call__", prop="C08", variants={nm: tb_setup(p) for nm, p in FIXED_SHAPES.items()},
          ensures=[(w, bt_post(w, "x")) for w in BTP], notes=NOTE, options=dict(OPTS, inline_calls=INLINE8))

    # ================================================================ Tree.get_branches / get_paths / get_tips / get_furcations on the fixed topologies
    # The whole-function contracts above hold for trees of any size; here the same functions are EXECUTED on every small labelled tree (the
    # quantifier's "roots with one, two or many children, single-node trees and unbranched chains" by name) and compared with the textbook
    # decomposition, so that a failure comes with the shape it fails on.
    def seqs_of(res, t, cls):
        """node sequences of a concrete list of Path/Branch objects of class `cls` attached to t, else None"""
        if not (isinstance(res, PList) and res.items is not None):
            return None
        out = []
        for b in res.items:
            if not (isinstance(b, Obj) and b.cls is cls and b.fields.get("attach") is t and ints(b.fields.get("idx")) is not None):
                return None
            out.append(ints(b.fields["idx"]))
        return out

    def handles_of(res, t):
        from swcgeom.core.tree import Tree

        if not (isinstance(res, PList) and res.items is not None and all(isinstance(h, Obj) and h.cls is Tree.Node and h.fields.get("attach") is t and isinstance(h.fields.get("idx"), int) for h in res.items)):
            return None
        return [h.fields["idx"] for h in res.items]

    def fx_post(which):
        def f(E, v, o):
            from swcgeom.core.tree import Tree

            t, res = v["self"], v["result"]
            T8 = Topo8(ints(col(t, "pid")))
            if which == "branches":
                got = seqs_of(res, t, Tree.Branch)
                return got is not None and sorted(got) == sorted(T8.branches())
            if which == "paths":
                got = seqs_of(res, t, Tree.Path)
                return got is not None and sorted(got) == sorted(root_paths(T8.pids))
            got = handles_of(res, t)
            return got is not None and sorted(got) == (T8.tips() if which == "tips" else T8.furcations())

        return f

    def fx_setup(pids):
        return lambda S: dict(self=fixed_topology_tree(S, pids))

    FXN = "fixed concrete topologies (every labelled rooted tree of 1-4 nodes in any numbering, and 8 larger shapes); the traversal is executed from its current source; the input tree is frozen"
    for meth, which, lab in (("get_branches", "branches", "exactly-the-maximal-chains-from-the-root-or-a-furcation-through-pass-through-nodes-to-a-furcation-or-tip-each-once"),
                             ("get_paths", "paths", "exactly-one-root-to-tip-path-per-tip"),
                             ("get_tips", "tips", "exactly-the-childless-nodes-each-once"),
                             ("get_furcations", "furcations", "exactly-the-nodes-with-two-or-more-children-each-once")):
        R.add(f"{TREE}:Tree.{meth}", prop="C08", variants={nm: fx_setup(p) for nm, p in FIXED_SHAPES.items()},
              ensures=[(lab, fx_post(which))], notes=FXN, options=dict(OPTS, inline_calls=INLINE8))

    # ================================================================ ToLongestPath.__call__ on fixed topologies
    # "There is exactly one root-to-tip path per tip": the transform returns one of these paths, one of maximal length, with the original points.
    def lp_setup(pids, detach):
        def f(S):
            from swcgeom.transforms.tree import ToLongestPath

            return dict(self=S.obj(ToLongestPath, detach=detach), x=fixed_topology_tree(S, pids, tag=True))

        return f

    def lp_view(E, v, o):
        """(tree, parent vector, original node sequence of the result, columns the result reads its points from, row of each entry) or None"""
        from swcgeom.core.path import Path

        t, res = o["x"], v["result"]
        if not (isinstance(res, Obj) and issubclass(res.cls, Path) and isinstance(res.fields.get("attach"), Obj)):
            return None
        att, idx = res.fields["attach"], ints(res.fields.get("idx"))
        nd = att.fields.get("ndata")
        if idx is None or not isinstance(nd, PDict) or nd.items is None:
            return None
        tag = ints(nd.items.get("tag"))
        if tag is None or any(not (0 <= a < len(tag)) for a in idx):
            return None
        return t, ints(col(t, "pid")), [tag[a] - 100 for a in idx], nd.items, idx, att

    def path_len(E, t, seq):
        X_, Y_, Z_ = (col(t, c).items for c in "xyz")
        tot = z3.RealVal(0)
        for a, b in zip(seq, seq[1:]):
            d2 = sum((to_z3(c[b], "real") - to_z3(c[a], "real")) * (to_z3(c[b], "real") - to_z3(c[a], "real")) for c in (X_, Y_, Z_))
            tot = tot + to_z3(E.sqrt(Sym(d2, "real"), nonneg_known=True), "real")
        return tot

    def lp_post(which):
        def f(E, v, o):
            vw = lp_view(E, v, o)
            if vw is None:
                return False
            t, pids, seq, cols, idx, att = vw
            orig = t.fields["ndata"].items
            if which == "a-root-to-tip-path-of-the-tree":
                return seq in root_paths(pids)
            if which == "no-root-to-tip-path-is-longer":
                if seq not in root_paths(pids):
                    return False
                mine = path_len(E, t, seq)
                return z3.And(*[mine >= path_len(E, t, q) for q in root_paths(pids) if q != seq] + [z3.BoolVal(True)])
            if which == "keeps-the-original-points":
                if list(cols) != list(orig) or any(not (0 <= a < len(pids)) for a in seq):
                    return False
                return z3.And(*[to_z3(cols[c].items[a], cols[c].kind) == to_z3(orig[c].items[b], cols[c].kind) for c in cols if c not in ("id", "pid") for a, b in zip(idx, seq)] + [z3.BoolVal(True)])
            if which == "detached-iff-asked":
                det = o["self"].fields["detach"]
                if det:
                    return att is not v["x"] and att.uid not in E.entry_uids and all(a.root().uid not in E.entry_uids for a in cols.values())
                return att is v["x"]
            raise KeyError(which)

        return f

    LP_SHAPES = {nm: p for nm, p in FIXED_SHAPES.items() if len(Topo8(p).tips()) <= 3}
    R.add(f"{TT}:ToLongestPath.__call__", prop="C08",
          variants={f"detach={d}, {nm}": lp_setup(p, d) for nm, p in LP_SHAPES.items() for d in (True, False)},
          ensures=[(w, lp_post(w)) for w in ("a-root-to-tip-path-of-the-tree", "no-root-to-tip-path-is-longer", "keeps-the-original-points", "detached-iff-asked")],
          notes="fixed concrete topologies with at most three tips (coordinates symbolic, lengths over the reals: one ghost square root per segment); get_paths, the traversal, "
                "Path.length, np.argmax (first maximum, decided by forking) and Path.detach are executed from their current source; the input tree is frozen",
          options=dict(OPTS, inline_calls=INLINE8))


def register(R):  # noqa: F811
    _reg8(R)
    register_whole(R)
    register_branch_tree(R)
    # the property speaks about HISTORIES of queries on one tree: whatever a query leaves on its inputs is arbitrary when the next one is entered
    # (pyvc/extra_attrs.py); the inputs themselves are frozen (safety/frame-attr-write, safety/frame-write)
    for c in R.values():
        if c.prop == "C08":
            c.options.setdefault("extra_attrs_arbitrary", True)
