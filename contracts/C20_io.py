"""C20, save/load half — second contract file (registered from contracts/C20.py).

Carriers (swcgeom/images/io.py unless noted):
  NDArrayImageStack.__getitem__ / get_full / shape, ImageStack.get_full      (X, Y, Z, C) indexing conventions, eager stacks hand out their own array
  NrrdImageStack.__init__                                                   axis k of the stack = k-th NRRD axis, header kept, options forwarded
  V3dImageStack.__init__ / V3drawImageStack / V3dpbdImageStack               which loader, no option accepted, rescaling; AXIS clause not claimed (outside the property, see there)
  read_imgs / read_images                                                   dispatch on the extension for EVERY file name (symbolic name, uninterpreted splitext)
  GrayImageStack.get_full / shape / __getitem__                             channel 0 view; __getitem__ not claimed (outside the property; it recurses without end)
  TeraflyImageStack.is_root / shape                                         directory test used by the dispatch; (X, Y, Z, 1) of the finest level
  transforms/image_stack.py: ToImageStack.__call__ / transform_and_save / save_tif     which frames are stacked / written, in which order, with which options
File contents are ghost values (pyvc/ext_C20.py: recording models of nrrd.read / np.load / v3dpy loaders / tifffile.TiffWriter); the decoders themselves
are third-party or compiled code and stay assumed.  Clauses reuse the vocabulary of contracts/C20.py (load_expected = the documented rescaling).
"""
import numpy as np
import z3

from contracts import C20 as B
from pyvc import ext_C20 as X
from pyvc.ext_C20 import ImgArr
from pyvc.values import Iter, NArr, Obj, Opaque, PDict, PList, Sym, fresh_name, to_z3, zint

IO = B.IO
TR = B.TR
zi = B.zi

# (raw dtype of the file / array, requested dtype): every kind of conversion the readers distinguish
CONV = {
    "uint8->as-is": ("uint8", None),
    "uint8->float32": ("uint8", np.float32),
    "uint16->float32": ("uint16", np.float32),
    "float32->float32": ("float32", np.float32),
    "float32->uint8": ("float32", np.uint8),
    "float64->dtype(uint16)": ("float64", np.dtype("uint16")),
    "uint8->uint16": ("uint8", np.uint16),
    "float16->uint16": ("float16", np.uint16),
}


def sym_name(S, name="fname"):
    """a file name: a symbolic string (reference), so that a clause holds for every name"""
    return X.StrRef(S.int(name).z)


def dims_of(S, names):
    dims = [S.int(n) for n in names]
    for d in dims:
        S.assume(d.z >= 0)
    return dims


def source(S, names, dtype, label):
    a = ImgArr.source(dims_of(S, names), dtype, label)
    a.frozen = True
    return a


def calls(E, name):
    return [p for nm, p in E.call_log if nm == name]


def held(v, who="self"):
    s = v[who]
    return s.fields.get("imgs") if isinstance(s, Obj) else None


def shape_is(out, want):
    return isinstance(out, ImgArr) and out.ndim == len(want) and B.conj(*[B.eq_dim(g, w) for g, w in zip(out.shape, want)])


def rescaled(out, a, dst, src_index=None):
    """forall canonical index ix of `out` (4-D): out[ix] = documented-rescaling(a[src_index(ix)]); a is 3-D or 4-D (trailing C = 1 dropped)"""
    if not isinstance(out, ImgArr) or out.ndim != 4:
        return False
    exp = B.load_expected(a.dtype, dst)
    pick = src_index or (lambda ix: ix[: a.ndim])
    return B.forall_idx(out.shape, lambda ix: out.elem(ix) == exp(a.elem(pick(ix))))


def untouched(a):
    """the raw array still holds what it held at entry (a.fn is its entry content)"""
    return B.forall_idx(a.shape, lambda ix: a.elem(ix) == a.fn(*ix))


def want_dtype(a, dst):
    return a.dtype if dst is None else np.dtype(dst)


# =========================================================================== NDArrayImageStack.__getitem__ / get_full / shape
def clamp_spec(b, n, default):
    """Python's slice bound rule for step 1 (documented for slice.indices): None -> default; negative counts from the end, then into [0, n]"""
    if b is None:
        return default
    bz = zi(b)
    from_end = bz + n
    return z3.If(bz >= 0, z3.If(bz <= n, bz, n), z3.If(from_end >= 0, from_end, 0))


def build_key(S, desc):
    """desc["key"]: per key position "i" (any int), an int literal, ("s"|"s1", has_lo, has_hi) (slice with any int bounds, step None | 1), ":" (full slice),
    "..." ; desc["scalar"]: the key is the single entry itself, not a tuple.  -> (key, parts) with parts = the same thing as data for the clauses"""
    key, parts = [], []
    for j, d in enumerate(desc["key"]):
        if d == "i":
            x = S.int(f"k{j}")
            key.append(x)
            parts.append(("i", x))
        elif d == ":":
            key.append(slice(None, None, None))
            parts.append(("s", None, None))
        elif d == "...":
            key.append(Ellipsis)
            parts.append(("...",))
        elif isinstance(d, int):
            key.append(d)
            parts.append(("i", d))
        else:
            lo = S.int(f"lo{j}") if d[1] else None
            hi = S.int(f"hi{j}") if d[2] else None
            key.append(slice(lo, hi, 1 if d[0] == "s1" else None))
            parts.append(("s", lo, hi))
    return (key[0] if desc.get("scalar") else tuple(key)), parts


def gi_setup(desc, dtype="float32"):
    def f(S):
        from swcgeom.images.io import NDArrayImageStack

        a = source(S, "XYZC", dtype, "imgs")
        self = S.obj(NDArrayImageStack, imgs=a)
        self.frozen = True
        k, parts = build_key(S, desc)
        return dict(self=self, key=k, __ghost__=dict(src_arr=a, parts=parts))

    return f


def gi_plan(E):
    """per stack axis: ("i", z3 index) | ("s", lo, hi) — the key padded with full slices (numpy's rule for a short key / an Ellipsis)"""
    a = E.spec_extra["src_arr"]
    parts = list(E.spec_extra["parts"])
    n_real = sum(1 for p in parts if p[0] != "...")
    out = []
    for p in parts:
        if p[0] == "...":
            out.extend([("s", None, None)] * (a.ndim - n_real))
        else:
            out.append(p)
    out.extend([("s", None, None)] * (a.ndim - len(out)))
    return a, out


def gi_in_range(E):
    a, plan = gi_plan(E)
    ok = [z3.And(zi(p[1]) >= -zi(a.shape[d]), zi(p[1]) < zi(a.shape[d])) for d, p in enumerate(plan) if p[0] == "i"]
    return z3.And(*ok) if ok else z3.BoolVal(True)


def gi_expected(E):
    """(result extents, source index for a result index) from the key, written from numpy's indexing rules"""
    a, plan = gi_plan(E)
    shape, picks = [], []
    for d, p in enumerate(plan):
        n = zi(a.shape[d])
        if p[0] == "i":
            i = zi(p[1])
            picks.append(("i", z3.If(i < 0, i + n, i)))
        else:
            start, stop = clamp_spec(p[1], n, z3.IntVal(0)), clamp_spec(p[2], n, n)
            picks.append(("s", start, len(shape)))
            shape.append(z3.If(stop - start > 0, stop - start, 0))
    return a, shape, (lambda jx: [p[1] if p[0] == "i" else p[1] + jx[p[2]] for p in picks])


def gi_shape(E, v, o):
    a, shape, _ = gi_expected(E)
    r = v["result"]
    if not shape:
        return isinstance(r, Sym) and r.kind == "real"
    return isinstance(r, ImgArr) and r.ndim == len(shape) and z3.And(*[zi(g) == w for g, w in zip(r.shape, shape)])


def gi_values(E, v, o):
    a, shape, src = gi_expected(E)
    r = v["result"]
    if not shape:
        return r.z == a.fn(*src([]))
    if not isinstance(r, ImgArr) or r.ndim != len(shape):
        return False
    return B.forall_idx(shape, lambda jx: r.elem(jx) == a.fn(*src(jx)))


def gi_dtype(E, v, o):
    r = v["result"]
    return True if isinstance(r, Sym) else (isinstance(r, ImgArr) and r.dtype == E.spec_extra["src_arr"].dtype)


def stack_kept(E, v, o):
    a = E.spec_extra["src_arr"]
    return held(v) is a and set(v["self"].fields) == {"imgs"} and untouched(a)


def reg_ndarray_access(R):
    keys = {
        "[x]": dict(key=["i"], scalar=True),
        "[x,y]": dict(key=["i", "i"]),
        "[x,y,z]": dict(key=["i", "i", "i"]),
        "[x,y,z,c]": dict(key=["i", "i", "i", "i"]),
        "[:,:,:,:]": dict(key=[":", ":", ":", ":"]),
        "[a:b]": dict(key=[("s", True, True)], scalar=True),
        "[a:b,c:d]": dict(key=[("s", True, True), ("s", True, True)]),
        "[a:b,c:d,e:f]": dict(key=[("s", True, True), ("s", True, True), ("s", True, True)]),
        "[a:b,c:d,e:f,g:h]": dict(key=[("s", True, True), ("s", True, True), ("s", True, True), ("s", True, True)]),
        "[a:,:b,c:d:1,:]": dict(key=[("s", True, False), ("s", False, True), ("s1", True, True), ":"]),
        "[x,:,a:b]": dict(key=["i", ":", ("s", True, True)]),
        "[...,c]": dict(key=["...", "i"]),
        "[x,...]": dict(key=["i", "..."]),
        "[-1,:,:,0]": dict(key=[-1, ":", ":", 0]),
    }
    R.add(
        f"{IO}:NDArrayImageStack.__getitem__",
        prop="C20",
        variants={k: gi_setup(d) for k, d in keys.items()},
        raises={"IndexError": ("only-when-an-integer-index-is-outside-[-extent,extent)", lambda E, v, o: z3.Not(gi_in_range(E)))},
        ensures=[
            ("returned-only-when-every-integer-index-is-inside-[-extent,extent)", lambda E, v, o: gi_in_range(E)),
            ("integer-axes-dropped-slice-axes-keep-(X,Y,Z,C)-order-with-clamped-extents", gi_shape),
            ("result-[j]-is-stack-voxel-[key-applied-to-j]-negative-integers-count-from-the-end", gi_values),
            ("result-keeps-the-stack-dtype", gi_dtype),
            ("stack-untouched", stack_kept),
        ],
        notes="key = int / tuple of ints (4 ints -> the voxel value) / slices with arbitrary integer bounds (step 1 or none) / Ellipsis; extents symbolic; "
              "an integer ARRAY key (advanced indexing) is outside the model",
    )

    def full_setup(S):
        from swcgeom.images.io import NDArrayImageStack

        a = source(S, "XYZC", "uint16", "imgs")
        self = S.obj(NDArrayImageStack, imgs=a)
        self.frozen = True
        return dict(self=self, __ghost__=dict(src_arr=a))

    R.add(
        f"{IO}:NDArrayImageStack.get_full",
        prop="C20",
        variants={"eager": full_setup},
        ensures=[
            ("hands-out-the-held-(X,Y,Z,C)-array-itself-no-copy", lambda E, v, o: v["result"] is E.spec_extra["src_arr"]),
            ("stack-untouched", stack_kept),
        ],
    )
    R.add(
        f"{IO}:NDArrayImageStack.shape",
        prop="C20",
        variants={"eager": full_setup},
        ensures=[
            ("is-the-4-tuple-(X,Y,Z,C)-of-the-held-array", lambda E, v, o: isinstance(v["result"], tuple) and len(v["result"]) == 4
             and B.conj(*[B.eq_dim(g, w) for g, w in zip(v["result"], E.spec_extra["src_arr"].shape)])),
            ("stack-untouched", stack_kept),
        ],
    )

    def base_full(E, v, o):
        a, r = E.spec_extra["src_arr"], v["result"]
        return B.conj(shape_is(r, list(a.shape)), B.forall_idx(a.shape, lambda ix: r.elem(ix) == a.fn(*ix)))

    R.add(
        f"{IO}:ImageStack.get_full",
        prop="C20",
        variants={"through-__getitem__-of-an-eager-stack": full_setup},
        ensures=[
            ("whole-(X,Y,Z,C)-stack-every-voxel-at-its-own-index", base_full),
            ("result-keeps-the-stack-dtype", gi_dtype),
            ("stack-untouched", stack_kept),
        ],
        notes="the base-class default: self[:, :, :, :] (used by stacks that do not override get_full)",
    )


# =========================================================================== NrrdImageStack.__init__
def nr_setup(raw, dst, ndim=4, kw=None):
    def f(S):
        from swcgeom.images.io import NrrdImageStack

        a = source(S, ["n0", "n1", "n2", "n3", "n4"][:ndim], raw, "nrrd")
        header = S.opaque({}, "header")
        return dict(self=S.obj(NrrdImageStack), fname=sym_name(S), dtype=dst, kwargs=PDict(dict(kw or {})),
                    __ghost__=dict(src_arr=a, nrrd_content=(a, header), header=header, user_kw=dict(kw or {})))

    return f


def nr_reversed(E):
    return E.spec_extra["user_kw"].get("index_order", "F") == "C"


def nr_shape(E, v, o):
    a = E.spec_extra["src_arr"]
    sh = list(a.shape)[::-1] if nr_reversed(E) else list(a.shape)
    return shape_is(held(v), sh + ([1] if a.ndim == 3 else []))


def nr_voxels(E, v, o):
    a = E.spec_extra["src_arr"]
    pick = (lambda ix: ix[: a.ndim][::-1]) if nr_reversed(E) else None
    return rescaled(held(v), a, v["dtype"], pick)


def nr_dtype(E, v, o):
    out = held(v)
    return isinstance(out, ImgArr) and out.dtype == want_dtype(E.spec_extra["src_arr"], v["dtype"])


def nr_header(E, v, o):
    return v["self"].fields.get("header") is E.spec_extra["header"] and set(v["self"].fields) == {"imgs", "header"}


def nr_protocol(E, v, o):
    cs = calls(E, "nrrd.read")
    foreign = [nm for nm, _ in E.call_log if nm.split(".")[0] in ("nrrd", "np", "tifffile", "v3dpy")]
    return len(cs) == 1 and foreign == ["nrrd.read"] and cs[0]["file"] is v["fname"] and cs[0]["nargs"] == 1 and cs[0]["kwargs"] == {k: x for k, x in E.spec_extra["user_kw"].items() if k != "dtype"}


def reg_nrrd(R):
    variants = {k: nr_setup(s, d) for k, (s, d) in CONV.items()}
    variants["3d:uint8->float32"] = nr_setup("uint8", np.float32, ndim=3)
    variants["3d:float32->uint8"] = nr_setup("float32", np.uint8, ndim=3)
    variants["2d"] = nr_setup("uint8", np.float32, ndim=2)
    variants["5d"] = nr_setup("uint8", None, ndim=5)
    variants["index_order=C"] = nr_setup("uint16", np.float32, kw={"index_order": "C"})
    variants["index_order=F,custom_field_map"] = nr_setup("uint8", None, kw={"index_order": "F", "custom_field_map": None})
    variants["unknown-option"] = nr_setup("uint8", None, kw={"axes": "ZXYC"})
    R.add(
        f"{IO}:NrrdImageStack.__init__",
        prop="C20",
        variants=variants,
        raises={"AssertionError": ("only-when-not-3-or-4-dimensional", lambda E, v, o: E.spec_extra["src_arr"].ndim not in (3, 4)),
                "TypeError": ("only-for-an-option-nrrd.read-does-not-have", lambda E, v, o: bool(set(E.spec_extra["user_kw"]) - {"custom_field_map", "index_order"}))},
        ensures=[
            ("stack-axis-k-is-the-k-th-NRRD-axis-(fastest-first)-trailing-C=1-for-3-D", nr_shape),
            ("held-voxel-is-the-documented-rescaling-of-the-file-voxel-at-the-same-index", nr_voxels),
            ("held-dtype-is-the-requested-one", nr_dtype),
            ("file-array-untouched", lambda E, v, o: untouched(E.spec_extra["src_arr"])),
            ("header-kept-sets-only-imgs-and-header", nr_header),
            ("reads-the-named-file-once-forwarding-the-options", nr_protocol),
        ],
        notes="pynrrd's decoding is third-party: nrrd.read is a recording model returning the ghost file array (index_order F: NRRD axis order; C: reversed). "
              "The library has NO NRRD writer: only this reader clause applies (a file written by pynrrd from an (X,Y,Z[,C]) array has sizes X,Y,Z[,C])",
    )


# =========================================================================== V3dImageStack / V3drawImageStack / V3dpbdImageStack
def v3_setup(cls_name, raw, dst, kind=None, kw=None, ndim=4):
    def f(S):
        from swcgeom.images import io

        # the FILE: header sizes (X, Y, Z, C), voxel (x, y, z, c); v3dpy hands it out indexed [c, z, y, x]
        fa = source(S, "XYZCQ"[:ndim], raw, "v3d")
        loaded = fa._permuted(list(range(ndim))[::-1])
        loaded.frozen = True
        d = dict(self=S.obj(getattr(io, cls_name)), fname=sym_name(S), dtype=dst, kwargs=PDict(dict(kw or {})),
                 __ghost__=dict(file_arr=fa, src_arr=loaded, v3d_content=loaded, kind=kind, user_kw=dict(kw or {})))
        if cls_name == "V3dImageStack":
            d["loader"] = getattr(io, kind)
        return d

    return f


def v3_protocol(E, v, o):
    kind = E.spec_extra["kind"]
    foreign = [nm for nm, _ in E.call_log if nm.split(".")[0] in ("nrrd", "np", "tifffile", "v3dpy")]
    mk, ld = calls(E, f"v3dpy.{kind}"), calls(E, f"v3dpy.{kind}.load")
    return foreign == [f"v3dpy.{kind}", f"v3dpy.{kind}.load"] and mk[0]["args"] == () and mk[0]["kwargs"] == {} and ld[0]["file"] is v["fname"]


def v3_untouched(E, v, o):
    fa, la = E.spec_extra["file_arr"], E.spec_extra["src_arr"]
    return B.forall_idx(la.shape, lambda ix: la.elem(ix) == fa.fn(*ix[::-1]))


def v3_axes(E, v, o):  # FINDING
    """the documented convention of every ImageStack — arrays of shape (X, Y, Z, C) — against the v3d header sizes (X, Y, Z, C)"""
    fa, out = E.spec_extra["file_arr"], held(v)
    return B.conj(shape_is(out, list(fa.shape)), rescaled(out, fa, v["dtype"]))


def reg_v3d(R):
    ens = [
        ("loader-built-without-arguments-and-asked-once-for-the-named-file", v3_protocol),
        ("held-dtype-is-the-requested-one", nr_dtype),
        ("loaded-array-untouched", v3_untouched),
        ("sets-only-imgs", lambda E, v, o: set(v["self"].fields) == {"imgs"}),
        # OBSERVATION outside property C20 (which speaks of TIFF / NRRD / NPY save-and-load): V3dImageStack hands v3dpy's (C, Z, Y, X) array to
        # NDArrayImageStack as if it were (X, Y, Z, C); a v3draw file whose header says x=4, y=3, z=2, c=1 is reported with shape (1, 2, 3, 4).
        # The clause ("held-axes-are-(X,Y,Z,C)-of-the-v3d-header", v3_axes) is therefore NOT claimed (DESIGN.md section 9.4).
    ]
    rs = {"TypeError": ("only-for-a-forwarded-option-(NDArrayImageStack-takes-none)", lambda E, v, o: bool(E.spec_extra["user_kw"])),
          "AssertionError": ("only-when-not-3-or-4-dimensional", lambda E, v, o: E.spec_extra["src_arr"].ndim not in (3, 4))}
    base = {}
    for kind in ("Raw", "PBD"):
        for k, (s, d) in CONV.items():
            if s in ("uint8", "uint16", "float32"):  # the three v3d data types
                base[f"{kind}:{k}"] = v3_setup("V3dImageStack", s, d, kind=kind)
    base["Raw:option-forwarded"] = v3_setup("V3dImageStack", "uint8", np.float32, kind="Raw", kw={"sz2byte": True})
    base["Raw:5d"] = v3_setup("V3dImageStack", "uint8", np.float32, kind="Raw", ndim=5)
    R.add(f"{IO}:V3dImageStack.__init__", prop="C20", variants=base, raises=rs, ensures=ens,
          notes="v3dpy's decoding (raw byte stream / PBD run-length decompression) is compiled code: the loader is a recording model returning the ghost file array "
                "indexed [c, z, y, x] as v3dpy does (cross-checked natively); the library has no v3d writer")
    for cls_name, kind in (("V3drawImageStack", "Raw"), ("V3dpbdImageStack", "PBD")):
        vs = {k: v3_setup(cls_name, s, d, kind=kind) for k, (s, d) in CONV.items() if s in ("uint8", "uint16", "float32")}
        vs["option-forwarded"] = v3_setup(cls_name, "uint8", np.float32, kind=kind, kw={"choose": 0})
        R.add(f"{IO}:{cls_name}.__init__", prop="C20", variants=vs, raises=rs, ensures=ens,
              notes=f"uses the {kind} loader; otherwise V3dImageStack.__init__ (inlined)")


# =========================================================================== TeraflyImageStack.is_root / shape (what the dispatch of read_imgs needs)
def is_root_spec(rz):
    """a directory that has an entry whose name the pattern RES(<int>x<int>x<int>) matches"""
    from swcgeom.images.io import RE_TERAFLY_ROOT

    j = z3.Int(fresh_name("j"))
    lst = X.LISTDIR(rz)
    pat = X.intern_str("re:" + RE_TERAFLY_ROOT.pattern)
    return z3.And(X.ISDIR(rz), z3.Exists([j], z3.And(j >= 0, j < X.DLEN(lst), X.REMATCH(pat, X.DNAME(lst, j)))))


def reg_terafly_bits(R):
    R.add(
        f"{IO}:TeraflyImageStack.is_root",
        prop="C20",
        variants={"any-path": lambda S: dict(root=sym_name(S, "root")), "a-concrete-path": lambda S: dict(root="data/brain")},
        returns="bool",
        ensures=[("true-iff-a-directory-with-an-entry-named-RES(AxBxC)", lambda E, v, o: to_z3(v["result"], "bool") == is_root_spec(X.zref(v["root"])))],
        notes="os.path.isdir / os.listdir / the compiled pattern's match are uninterpreted (the file system and the regular expression engine are not modelled)",
    )

    def shape_setup(levels):
        def f(S):
            from swcgeom.images.io import TeraflyImageStack

            res = NArr((levels, 3), [S.int(f"res{k}") for k in range(levels * 3)], "int")
            res.frozen = True
            self = S.obj(TeraflyImageStack, res=res)
            self.frozen = True
            return dict(self=self, __ghost__=dict(res=res, levels=levels))

        return f

    def shape_post(E, v, o):
        res, L, r = E.spec_extra["res"], E.spec_extra["levels"], v["result"]
        last = res.items[3 * (L - 1):]
        return isinstance(r, tuple) and len(r) == 4 and B.conj(*[B.eq_dim(g, w) for g, w in zip(r, list(last) + [1])])

    R.add(
        f"{IO}:TeraflyImageStack.shape",
        prop="C20",
        variants={"1-level": shape_setup(1), "3-levels": shape_setup(3)},
        ensures=[("is-(X,Y,Z,1)-of-the-last-(finest)-resolution-level", shape_post)],
    )
    # ---- the constructor is VERIFIED (it used to be an assumed contract): what it stores, and that the only thing it does besides is ONE call of
    # get_resolutions(root).  What stays assumed is narrower: the classmethod get_resolutions (the parse of the RES(..) directory tree: os.listdir,
    # regular-expression groups, np.take on names, a probe read of one tile per level) returns a triple and raises nothing.
    def resolutions_result(S, fr):
        t = tuple(S.opaque({}, nm) for nm in ("res", "res_dirs", "res_patch_sizes"))
        S.eng.ghost["terafly_resolutions"] = t
        return t

    R.add(f"{IO}:TeraflyImageStack.get_resolutions", prop="C20", trusted=True, returns=resolutions_result, ensures=[],
          notes="assumed: returns a triple (resolutions, directories, patch sizes) and raises nothing on a well-formed TeraFly root (the parse of the RES(..) "
                "directory tree is out of reach: os.listdir order, regular-expression groups, np.take on names, a probe read of one tile per level)")

    def ti_setup(lru):
        def f(S):
            from swcgeom.images.io import TeraflyImageStack

            d = dict(self=S.obj(TeraflyImageStack), root=sym_name(S, "root"), dtype=np.uint8)
            if lru != "default":
                d["lru_maxsize"] = None if lru is None else S.int("lru_maxsize")
            return d

        return f

    def ti_fields(E, v, o):
        f = v["self"].fields
        t = E.ghost.get("terafly_resolutions")
        return (set(f) == {"root", "dtype", "res", "res_dirs", "res_patch_sizes", "_listdir", "_read_patch"} and f["root"] is v["root"] and f["dtype"] is v["dtype"]
                and t is not None and f["res"] is t[0] and f["res_dirs"] is t[1] and f["res_patch_sizes"] is t[2])

    def ti_memo(E, v, o):
        f = v["self"].fields
        a, b = f.get("_listdir"), f.get("_read_patch")
        if not (isinstance(a, X.MemoFn) and isinstance(b, X.MemoFn)):
            return False
        want = v.get("lru_maxsize", 128)
        same = (b.maxsize is want) or (isinstance(want, int) and b.maxsize == want)
        return a.maxsize is None and same and a.func.node.name == "listdir" and b.func.node.name == "read_patch"

    def ti_protocol(E, v, o):
        cs = calls(E, "TeraflyImageStack.get_resolutions")
        foreign = [nm for nm, _ in E.call_log if nm.split(".")[0] in ("nrrd", "np", "tifffile", "v3dpy", "TiffFile", "TiffPageSeries", "TiffWriter")]
        return len(cs) == 1 and cs[0]["root"] is v["root"] and foreign == [] and len(E.call_log) == 1

    R.add(f"{IO}:TeraflyImageStack.__init__", prop="C20",
          variants={"default-cache-size": ti_setup("default"), "cache-size-given": ti_setup("int"), "unbounded-cache": ti_setup(None)},
          ensures=[("stores-root-dtype-and-the-three-results-of-get_resolutions(root)-and-the-two-readers-nothing-else", ti_fields),
                   ("directory-lister-memoised-without-bound-tile-reader-memoised-with-the-given-cache-size", ti_memo),
                   ("asks-get_resolutions-once-for-this-root-and-touches-no-file-itself", ti_protocol)],
          notes="verified; the two nested readers are only stored here (decorators applied through the functools models), they run in __getitem__ / get_patch")


# =========================================================================== read_imgs / read_images
EXTS = {".tif": "TiffImageStack", ".tiff": "TiffImageStack", ".nrrd": "NrrdImageStack", ".v3dpbd": "V3dpbdImageStack", ".v3draw": "V3drawImageStack",
        ".npy": "NDArrayImageStack"}  # the documented dispatch table (docstring / README of swcgeom.images.io)
V3KIND = {"V3dpbdImageStack": "PBD", "V3drawImageStack": "Raw"}
NRRD_OPTS = {"custom_field_map", "index_order"}


def ri_setup(kw, raw="uint8", tiff_axes="ZXYC", ndim=4, name=None, args=False):
    def f(S):
        fname = name if name is not None else sym_name(S)
        tiff = source(S, [f"t{k}" for k in range(len(tiff_axes))], raw, "tiff")
        nr = source(S, [f"n{k}" for k in range(ndim)], raw, "nrrd")
        npy = source(S, [f"p{k}" for k in range(ndim)], raw, "npy")
        v3f = source(S, "XYZC", raw if raw in ("uint8", "uint16", "float32") else "uint8", "v3d")
        loaded = v3f._permuted([3, 2, 1, 0])
        loaded.frozen = True
        header = S.opaque({}, "header")
        g = dict(tiff_content=(tiff, tiff_axes), file_axes=tiff_axes, nrrd_content=(nr, header), header=header, npy_content=npy, v3d_content=loaded,
                 file_arr=v3f, sources=dict(tiff=tiff, nrrd=nr, npy=npy, v3d=loaded), user_kw=dict(kw), fname=fname)
        if args:  # read_images(*args, **kwargs)
            return dict(args=(fname,), kwargs=PDict(dict(kw)), __ghost__=g)
        return dict(fname=fname, kwargs=PDict(dict(kw)), __ghost__=g)

    return f


def ri_ext(E):
    import os

    f = E.spec_extra["fname"]
    return X.intern_str(os.path.splitext(f)[-1]) if isinstance(f, str) else X.EXTOF(X.zref(f))


def ri_is(E, *exts):
    e = ri_ext(E)
    return z3.Or(*[e == X.intern_str(x) for x in exts])


def ri_known(E):
    return ri_is(E, *EXTS)


def ri_exists(E):
    return X.EXISTS(X.zref(E.spec_extra["fname"]))


def ri_terafly(E):
    return z3.And(z3.Not(ri_known(E)), is_root_spec(X.zref(E.spec_extra["fname"])))


def ri_dtype(E):
    return E.spec_extra["user_kw"].get("dtype", np.float32)  # "dtype : np.dtype, default to np.float32"


def fwd_kw(E):
    return {k: x for k, x in E.spec_extra["user_kw"].items() if k != "dtype"}


def ri_stack(v):
    """the ImageStack the call produced (read_images wraps it)"""
    r = v["result"]
    if isinstance(r, Obj) and r.cls.__name__ == "GrayImageStack":
        return r.fields.get("imgs")
    return r


def ri_class(E, v, o):
    st = ri_stack(v)
    if not isinstance(st, Obj):
        return False
    name = st.cls.__name__
    if name == "TeraflyImageStack":
        return ri_terafly(E)
    want = [x for x, c in EXTS.items() if c == name]
    return ri_is(E, *want) if want else False


def with_src(E, a, fn, v):
    old = E.spec_extra.get("src_arr")
    E.spec_extra["src_arr"] = a
    try:
        return fn(E, v, None)
    finally:
        E.spec_extra["src_arr"] = old


def ri_content(E, v, o):
    """the chosen reader's own clauses, for the stack that comes back (dtype = the requested one, float32 by default)"""
    st = ri_stack(v)
    if not isinstance(st, Obj):
        return False
    name, dt, src = st.cls.__name__, ri_dtype(E), E.spec_extra["sources"]
    vv = dict(self=st, dtype=dt, fname=E.spec_extra["fname"])
    if name == "TiffImageStack":
        return B.conj(*[with_src(E, src["tiff"], f, vv) for f in (B.tf_shape, B.tf_voxels, B.tf_xyzc, B.tf_dtype, B.tf_warns, B.nd_only_field)])
    if name == "NrrdImageStack":
        return B.conj(*[with_src(E, src["nrrd"], f, vv) for f in (nr_shape, nr_voxels, nr_dtype, nr_header)])
    if name in V3KIND:
        return B.conj(*[with_src(E, src["v3d"], f, vv) for f in (nr_dtype, B.nd_only_field)])  # axes / voxels: the FINDING clause of V3dImageStack.__init__
    if name == "NDArrayImageStack":
        a = src["npy"]
        return B.conj(shape_is(held(vv), B.in4(a)[0]), rescaled(held(vv), a, dt), held(vv).dtype == want_dtype(a, dt), B.nd_only_field(E, vv, None))
    if name == "TeraflyImageStack":
        # the constructor (verified, inlined here): built for THIS path with the requested dtype; lru_maxsize is the only option it takes
        cs = calls(E, "TeraflyImageStack.get_resolutions")
        extra = fwd_kw(E)
        f = st.fields
        rp = f.get("_read_patch")
        size_ok = isinstance(rp, X.MemoFn) and (rp.maxsize is extra["lru_maxsize"] if "lru_maxsize" in extra else rp.maxsize == 128)
        return len(cs) == 1 and cs[0]["root"] is E.spec_extra["fname"] and f.get("root") is E.spec_extra["fname"] and f.get("dtype") is dt and size_ok
    return False


def ri_protocol(E, v, o):
    """exactly the chosen reader touches exactly the named file, once, with the caller's options (dtype excepted)"""
    st = ri_stack(v)
    if not isinstance(st, Obj):
        return False
    name, fname = st.cls.__name__, E.spec_extra["fname"]
    foreign = [(nm, p) for nm, p in E.call_log if nm.split(".")[0] in ("nrrd", "np", "tifffile", "v3dpy", "TiffFile", "TiffPageSeries", "TiffWriter")]
    names = [nm for nm, _ in foreign]
    if name == "TiffImageStack":
        return names == ["tifffile.TiffFile", "TiffFile.__enter__", "TiffPageSeries.asarray", "TiffFile.__exit__"] and foreign[0][1]["file"] is fname and foreign[0][1]["kwargs"] == fwd_kw(E)
    if name == "NrrdImageStack":
        return names == ["nrrd.read"] and foreign[0][1]["file"] is fname and foreign[0][1]["nargs"] == 1 and foreign[0][1]["kwargs"] == fwd_kw(E)
    if name in V3KIND:
        k = V3KIND[name]
        return names == [f"v3dpy.{k}", f"v3dpy.{k}.load"] and foreign[0][1]["args"] == () and foreign[0][1]["kwargs"] == {} and foreign[1][1]["file"] is fname
    if name == "NDArrayImageStack":
        return names == ["np.load"] and foreign[0][1]["file"] is fname and foreign[0][1]["kwargs"] == {}
    if name == "TeraflyImageStack":
        return names == []
    return False


def ri_value_error(E, v, o):
    return z3.Or(z3.Not(ri_exists(E)), z3.And(z3.Not(ri_known(E)), z3.Not(is_root_spec(X.zref(E.spec_extra["fname"])))))


def ri_type_error(E, v, o):
    extra = set(fwd_kw(E))
    if not extra:
        return False
    bad = [".v3dpbd", ".v3draw", ".npy"] + ([".nrrd"] if extra - NRRD_OPTS else [])
    tera = ri_terafly(E) if extra - {"lru_maxsize"} else z3.BoolVal(False)  # TeraflyImageStack(root, *, dtype, lru_maxsize=128)
    return z3.And(ri_exists(E), z3.Or(ri_is(E, *bad), tera))


RI_ENSURES = [
    ("class-is-the-one-documented-for-the-extension-terafly-only-for-a-RES-directory-without-known-extension", ri_class),
    ("returned-only-for-an-existing-path", lambda E, v, o: ri_exists(E)),
    ("stack-is-what-the-chosen-reader-documents-for-the-file-with-dtype-float32-unless-requested", ri_content),
    ("only-the-chosen-reader-touches-only-the-named-file-options-forwarded", ri_protocol),
]
RI_RAISES = {"ValueError": ("only-for-a-missing-path-or-an-unknown-extension-that-is-not-a-terafly-root", ri_value_error),
             "TypeError": ("only-for-an-option-the-chosen-reader-does-not-take", ri_type_error)}


def ri_variants(args=False):
    vs = {
        "any-name,no-options,uint8-files": ri_setup({}, args=args),
        "any-name,no-options,float32-files,3-D": ri_setup({}, raw="float32", tiff_axes="ZXY", ndim=3, args=args),
        "any-name,dtype=uint8,float32-files": ri_setup({"dtype": np.uint8}, raw="float32", args=args),
        "any-name,dtype=dtype(uint16),float64-files": ri_setup({"dtype": np.dtype("uint16")}, raw="float64", tiff_axes="XYZC", args=args),
        "any-name,dtype=None,uint16-files": ri_setup({"dtype": None}, raw="uint16", tiff_axes="CZYX", args=args),
        "any-name,dtype=float32,tiff-axes-unusable": ri_setup({"dtype": np.float32}, raw="uint16", tiff_axes="QYX", ndim=3, args=args),
        "any-name,reader-option": ri_setup({"dtype": np.float32, "index_order": "C"}, args=args),
        "any-name,unknown-option": ri_setup({"is_ome": False}, args=args),
    }
    for nm in ("stack.tif", "a.b/img.tiff", "x.nrrd", "x.v3dpbd", "x.v3draw", "x.npy", "X.TIF", "noext", ".tif", "x.tif.npy"):
        vs["name=" + nm] = ri_setup({}, name=nm, args=args)
    return vs


def reg_read_imgs(R):
    R.add(
        f"{IO}:read_imgs",
        prop="C20",
        variants=ri_variants(),
        raises=RI_RAISES,
        ensures=RI_ENSURES,
        notes="the file name is SYMBOLIC (os.path.splitext / exists are uninterpreted), so the dispatch clause holds for every name; ten concrete names run the real "
              "splitext; the readers are inlined (their own contracts' clauses are re-proved for the returned stack); TeraflyImageStack(...) is an assumed constructor",
    )

    def wraps(E, v, o):
        r = v["result"]
        return isinstance(r, Obj) and r.cls.__name__ == "GrayImageStack" and set(r.fields) == {"imgs"} and isinstance(r.fields["imgs"], Obj)

    R.add(
        f"{IO}:read_images",
        prop="C20",
        variants=ri_variants(args=True),
        raises=RI_RAISES,
        ensures=[("a-GrayImageStack-around-the-stack-read_imgs-returns", wraps)] + RI_ENSURES,
        notes="deprecated alias: GrayImageStack(read_imgs(*args, **kwargs)); read_imgs is inlined",
    )


# =========================================================================== GrayImageStack (legacy wrapper returned by read_images)
def gray_parts(parts):
    """the key a GrayImageStack applies to its (X, Y, Z, C) stack: the caller's key over (X, Y, Z), channel 0"""
    parts = list(parts)
    if not any(p[0] == "..." for p in parts):
        parts += [("s", None, None)] * (3 - len(parts))
    return parts + [("i", 0)]


def gray_setup(desc=None, dtype="float32"):
    def f(S):
        from swcgeom.images.io import GrayImageStack, NDArrayImageStack

        a = source(S, "XYZC", dtype, "imgs")
        inner = S.obj(NDArrayImageStack, imgs=a)
        inner.frozen = True
        self = S.obj(GrayImageStack, imgs=inner)
        self.frozen = True
        d = dict(self=self, __ghost__=dict(src_arr=a, inner=inner, parts=gray_parts([("s", None, None)] * 3)))
        if desc is not None:
            d["key"], parts = build_key(S, desc)
            d["__ghost__"]["parts"] = gray_parts(parts)
        return d

    return f


def gray_kept(E, v, o):
    a, inner = E.spec_extra["src_arr"], E.spec_extra["inner"]
    return v["self"].fields.get("imgs") is inner and inner.fields.get("imgs") is a and untouched(a)


def gray_result(S, fr):
    """shape of the value a (recursive) call returns: one extent per slice axis of the key over (X, Y, Z)"""
    a, plan = gi_plan(S.eng)
    nsl = sum(1 for p in plan if p[0] == "s")
    if nsl == 0:
        return S.real("gray")
    out = ImgArr.source(dims_of(S, [f"g{k}" for k in range(nsl)]), a.dtype, "gray")
    return out


def reg_gray(R):
    keys = {
        "[x,y,z]": dict(key=["i", "i", "i"]),
        "[x]": dict(key=["i"], scalar=True),
        "[x,y]": dict(key=["i", "i"]),
        "[a:b]": dict(key=[("s", True, True)], scalar=True),
        "[a:b,c:d]": dict(key=[("s", True, True), ("s", True, True)]),
        "[a:b,c:d,e:f]": dict(key=[("s", True, True), ("s", True, True), ("s", True, True)]),
        "[:,:,:]": dict(key=[":", ":", ":"]),
        "[x,:,a:b]": dict(key=["i", ":", ("s", True, True)]),
    }
    # OBSERVATION outside property C20: GrayImageStack.__getitem__ (behind the deprecated read_images) starts with `v = self[key]` instead of
    # asking the wrapped stack, so every call ends in RecursionError.  It is not part of the TIFF / NRRD / NPY save-and-load clause; no
    # contract is claimed for it (DESIGN.md section 9.4).
    R.add(
        f"{IO}:GrayImageStack.get_full",
        prop="C20",
        variants={"eager-stack": gray_setup()},
        raises={"IndexError": ("only-when-there-is-no-channel", lambda E, v, o: z3.Not(gi_in_range(E)))},
        ensures=[
            ("is-(X,Y,Z)", gi_shape),
            ("voxel-[x,y,z]-is-channel-0-of-the-wrapped-stack", gi_values),
            ("result-keeps-the-stack-dtype", gi_dtype),
            ("wrapped-stack-untouched", gray_kept),
        ],
    )
    R.add(
        f"{IO}:GrayImageStack.shape",
        prop="C20",
        variants={"eager-stack": gray_setup()},
        ensures=[
            ("is-the-3-tuple-(X,Y,Z)-of-the-wrapped-stack", lambda E, v, o: isinstance(v["result"], tuple) and len(v["result"]) == 3
             and B.conj(*[B.eq_dim(g, w) for g, w in zip(v["result"], E.spec_extra["src_arr"].shape[:3])])),
            ("wrapped-stack-untouched", gray_kept),
        ],
    )


# =========================================================================== ToImageStack.__call__ / transform_and_save / save_tif (plumbing only)
TRANSFORM_KEY = f"{TR}:ToImageStack.transform"
SAVE_TIF_KEY = f"{TR}:ToImageStack.save_tif"
PAGE_OPTIONS = dict(contiguous=True, photometric="minisblack", metadata={"unit": "um", "axes": "ZXY"})  # + resolution = the `resolution` argument


def transform_loop():
    """the frame loop of ToImageStack.transform, cut by the same invariant as in its own contract (contracts/C20.py: reg_transform)"""
    return {0: dict(invariant=[("frames-so-far", B.closed(lambda E, v, o: B.tr_frames(E, v, o, k=v["_k0"])))], types={"__yield__": X.frame_list}, modifies=["__yield__"])}


def expected_page(E):
    """(block the k-th tif.write must receive, number of frames): frame k itself when the stack has two or more frames; for a stack of ONE frame the
    frame with a leading axis, frame[np.newaxis], shape (1, X, Y) - a bare (X, Y) page is a 2-D image for tifffile (axes 'YX') and is not read
    back as a stack (property C20: "for all stack shapes including size-1 axes")"""
    at, n = E.ghost["page_frames"](E)
    return (lambda j: z3.If(n == 1, X.FRAME_NEWAXIS0(at(z3.IntVal(0))), at(j))), n


EFFECT_OPTIONS = "effect/every-page-written-contiguous-minisblack-unit-um-axes-ZXY-with-the-given-resolution-into-the-named-file"
EFFECT_BLOCK = "effect/block-k-written-is-frame-k-of-the-stack-a-ONE-frame-stack-is-written-as-a-(1,X,Y)-block"


def page_hook(E, page):
    """ghost code run at every tif.write(...): appends (block, options-as-documented?) to the symbolic page log"""
    want_res = E.ghost["want_resolution"]
    kw = page["kwargs"]
    md = kw.get("metadata")
    res = kw.get("resolution")
    ok = (page["nargs"] == 1 and set(kw) == {"contiguous", "photometric", "resolution", "metadata"} and kw["contiguous"] is True
          and kw["photometric"] == PAGE_OPTIONS["photometric"] and isinstance(md, PDict) and md.items == PAGE_OPTIONS["metadata"]
          and (res is want_res or (isinstance(res, tuple) and isinstance(want_res, tuple) and len(res) == len(want_res) and all(a is b or a == b for a, b in zip(res, want_res))))
          and page["file"] is E.ghost["want_file"])
    data = page["data"]
    if not ((isinstance(data, Sym) and data.kind == "ref") or isinstance(data, Opaque)):
        raise X.Unsupported("TiffWriter.write of a value that is not a frame reference")
    # EFFECT obligations per tif.write (externally meaningful: what reaches the file), besides the log entry the invariants speak about
    E.prove(f"{E.cur_contract.short}/{EFFECT_OPTIONS}", bool(ok), "postcondition")
    log = E.ghost["page_log"]
    want, _ = expected_page(E)
    E.prove(f"{E.cur_contract.short}/{EFFECT_BLOCK}", data.z == want(zint(log.n)), "postcondition")  # k = number of pages written so far
    E.models.LIST_METHODS["append"](E, log, [(Sym(data.z, "ref"), 1 if ok else 0)], {})


def pages_setup(S, fname, want_resolution, page_frames):
    """page_frames(E) -> (frame_at(j: z3 Int) -> z3 reference, number of frames): the stack that is to be written"""
    log = PList.fresh(["ref", "int"], n=z3.IntVal(0), name="pages")
    S.eng.ghost.update(page_log=log, tiff_page_hook=page_hook, want_resolution=want_resolution, want_file=fname, page_frames=page_frames)
    return log


def page_log_of(E):
    return E.ghost["page_log"]


def pages_are(E, count, block_at, upto=None):
    """the page log holds exactly `upto` (default: count) blocks; block j is block_at(j) written with the documented options"""
    log = page_log_of(E)
    k = count if upto is None else upto
    j = z3.Int(fresh_name("j"))
    return z3.And(zint(log.n) == k, z3.ForAll([j], z3.Implies(z3.And(0 <= j, j < k), z3.And(z3.Select(log.cols[0], j) == block_at(j), z3.Select(log.cols[1], j) == 1))))


def one_frame_block(E):
    """a ONE-frame stack: exactly one block is written, and it is the frame with a leading axis (1, X, Y) - what tifffile stores as a series of shape
    (1, X, Y) with the axes string ZXY (model cross-checked natively for Z = 1, 2, 3) and TiffImageStack reads back as (X, Y, 1, 1)"""
    at, n = E.ghost["page_frames"](E)
    log = page_log_of(E)
    return z3.Implies(n == 1, z3.And(zint(log.n) == 1, z3.Select(log.cols[0], 0) == X.FRAME_NEWAXIS0(at(z3.IntVal(0))), z3.Select(log.cols[1], 0) == 1))


def frames_view(fr):
    cols, n = B.lview(fr)
    return (lambda j: z3.Select(cols[0], j)) if cols is not None else (lambda j: z3.IntVal(0)), n


def writer_protocol(E, fname):
    w = [(nm, p) for nm, p in E.call_log if nm.startswith(("tifffile.", "TiffWriter.", "TiffFile."))]
    return [nm for nm, _ in w] == ["tifffile.TiffWriter", "TiffWriter.__enter__", "TiffWriter.__exit__"] and w[0][1]["file"] is fname and w[0][1]["kwargs"] == {}


def save_tif_loop():
    def inv(E, v, o):
        want, n = expected_page(E)
        return pages_are(E, n, want, upto=to_z3(v["_k0"], "int"))

    return {0: dict(invariant=[("one-block-per-frame-so-far-in-order-with-the-documented-options", B.closed(inv))], modifies=[page_log_of])}


def rendered_frame(E):
    """frame j of transform(x): uint8(255 * red channel) of the block sampler j takes of THE scene built from x"""
    p, scene = E.ghost.get("samplers_result"), E.ghost.get("scene_result")
    return (lambda j: B.FRAME(B.SAMPLE(z3.Select(p.cols[0], j), scene.z), 0, 0, z3.RealVal(255), B.DT_CODE["uint8"])), zint(p.n)


def reg_to_image_stack_plumbing(R):
    # ---- save_tif
    def st_setup(resolution):
        def f(S):
            fname = sym_name(S)
            frames = S.plist("ref", name="frames")
            frames.frozen = True
            frames.proto = X.FRAME_PROTO  # the entries are frame references (frame[np.newaxis] is defined on them)
            d = dict(fname=fname, frames=Iter(frames), __ghost__=dict(frames=frames))
            if resolution is not None:
                d["resolution"] = resolution(S)
            pages_setup(S, fname, d.get("resolution", (1, 1)), lambda E: frames_view(E.spec_extra["frames"]))
            return d

        return f

    def st_pages(E, v, o):
        want, n = expected_page(E)
        return pages_are(E, n, want)

    def st_pages_two_or_more(E, v, o):
        at, n = frames_view(E.spec_extra["frames"])
        return z3.Implies(n >= 2, pages_are(E, n, at))

    R.add(
        SAVE_TIF_KEY,
        prop="C20",
        variants={"default-resolution": st_setup(None), "resolution-given": st_setup(lambda S: (S.real("rx"), S.real("ry")))},
        loops=save_tif_loop(),
        ensures=[
            ("one-page-per-frame-in-order-contiguous-minisblack-resolution-unit-um-axes-ZXY", st_pages_two_or_more),
            ("one-block-per-frame-in-order-a-ONE-frame-stack-as-one-(1,X,Y)-block-contiguous-minisblack-resolution-unit-um-axes-ZXY", st_pages),
            ("a-ONE-frame-stack-is-written-as-one-(1,X,Y)-block-which-reads-back-as-(X,Y,1,1)", lambda E, v, o: one_frame_block(E)),
            ("opens-the-named-file-once-and-closes-it", lambda E, v, o: writer_protocol(E, v["fname"])),
            "returns-nothing :: result is None",
        ],
        notes="any number of frames (loop cut by an invariant over a ghost page log); tifffile.TiffWriter is a recording model; that tifffile turns contiguous "
              "equally shaped pages into ONE series of shape (Z, X, Y) with the metadata's axes string is tifffile's behaviour (cross-checked natively, see report)",
    )

    # ---- transform_and_save
    def ts_setup(kw):
        def f(S):
            d = B.tr_setup(S)
            ranges = (B.box3(S, "rlo"), B.box3(S, "rhi")) if kw else None
            fname = sym_name(S)
            pages_setup(S, fname, (1, 1), rendered_frame)
            return dict(self=d["self"], fname=fname, x=d["x"], verbose=False, kwargs=PDict({"ranges": ranges} if kw else {}), __ghost__=dict(ranges=ranges))

        return f

    def as_transform(E, v):
        vv = dict(v)
        vv["ranges"] = E.spec_extra.get("ranges")
        return vv

    def ts_pages(E, v, o):
        at, n = rendered_frame(E)
        return z3.Implies(n >= 2, pages_are(E, n, at))

    def ts_blocks(E, v, o):
        want, n = expected_page(E)
        return pages_are(E, n, want)

    def ts_box(which):
        return lambda E, v, o: B.tr_box(which)(E, as_transform(E, v), o)

    plumbing = [
        ("one-scene-built-from-this-tree", lambda E, v, o: B.tr_scene(E, v, o)),
        ("samplers-requested-once-with-the-default-half-voxel-offset", lambda E, v, o: B.tr_samplers_call(E, v, o)),
        ("box-lower-corner-is-below-every-node-sphere-(or-the-requested-range)", ts_box("lower")),
        ("box-upper-corner-is-above-every-node-sphere-(or-the-requested-range)", ts_box("upper")),
    ]
    R.add(
        f"{TR}:ToImageStack.transform_and_save",
        prop="C20",
        variants={"verbose=False": ts_setup(False), "verbose=False,ranges-forwarded": ts_setup(True)},
        requires=[("resolution-positive", B.res_positive)] + [B.scene_wf(w) for w in B.SCENE_WF],  # the tree handed on to _get_scene is well formed
        inlined_loops={TRANSFORM_KEY: transform_loop(), SAVE_TIF_KEY: save_tif_loop()},
        ensures=[
            ("page-j-is-the-uint8-frame-of-z-slice-j-of-this-tree-in-slice-order-axes-ZXY-resolution-(1,1)", ts_pages),
            ("block-j-is-the-uint8-frame-of-z-slice-j-a-ONE-slice-raster-as-one-(1,X,Y)-block-axes-ZXY-resolution-(1,1)", ts_blocks),
            ("a-ONE-slice-raster-is-written-as-one-(1,X,Y)-block-which-reads-back-as-(X,Y,1,1)", lambda E, v, o: one_frame_block(E)),
            ("opens-the-named-file-once-and-closes-it", lambda E, v, o: writer_protocol(E, v["fname"])),
        ] + plumbing + ["returns-nothing :: result is None"],
        notes="the saved stack goes through ToImageStack.save_tif (tifffile.TiffWriter, one page per z slice), NOT through save_tiff; transform and save_tif are inlined, "
              "their loops cut by the invariants of their own contracts; verbose=True only adds print / tqdm / time.time (not modelled)",
    )

    # ---- __call__
    def call_setup(S):
        d = B.tr_setup(S)
        return dict(self=d["self"], x=d["x"], __ghost__=dict(ranges=None))

    def call_stack(E, v, o):
        cs = calls(E, "np.stack")
        if len(cs) != 1 or cs[0]["axis"] != 0:
            return False
        L, r = cs[0]["frames"], v["result"]
        at, n = rendered_frame(E)
        j = z3.Int(fresh_name("j"))
        if not (isinstance(r, Sym) and r.z.eq(X.STACK0(L.cols[0], zint(L.n)))):
            return False
        return z3.And(zint(L.n) == n, z3.ForAll([j], z3.Implies(z3.And(0 <= j, j < n), z3.Select(L.cols[0], j) == at(j))))

    def call_slices(E, v, o):
        cs = calls(E, "np.stack")
        if len(cs) != 1:
            return False
        vv = dict(v)
        vv["result"] = cs[0]["frames"]  # the frames that were stacked along the new first axis
        return B.tr_slices(E, vv, o)

    R.add(
        f"{TR}:ToImageStack.__call__",
        prop="C20",
        variants={"any-tree": call_setup},
        requires=[("resolution-positive", B.res_positive)] + [B.scene_wf(w) for w in B.SCENE_WF],
        inlined_loops={TRANSFORM_KEY: transform_loop()},
        ensures=[("result-is-the-frames-of-all-z-slices-stacked-along-a-new-FIRST-axis-(Z,X,Y)-in-slice-order", call_stack)] + plumbing
        + [("box-is-tight-to-less-than-one-unit", ts_box("tight")), ("box-corners-are-whole-numbers", ts_box("integral")),
           ("stack-has-one-slice-for-every-voxel-centre-below-the-box-top-in-order-each-over-the-x,y-range-of-the-box", call_slices)],
        notes="np.stack(list(transform(x, verbose=False)), axis=0): transform is inlined (its loop cut by the invariant of its own contract)",
    )


# =========================================================================== TeraflyImageStack.__getitem__ (lazy stack: dispatch of the key only)
def tg_setup(kind):
    def f(S):
        from swcgeom.images.io import TeraflyImageStack

        res = NArr((2, 3), [S.int(f"res{k}") for k in range(6)], "int")
        res.frozen = True
        for r in res.items:
            S.assume(r.z >= 1)
        self = S.obj(TeraflyImageStack, res=res, dtype=np.uint8)
        self.frozen = True
        g = dict(res=res, kind=kind)
        if kind == "ints":
            key = tuple(S.int(n) for n in "xyzc")
        elif kind == "3-slices":
            key = tuple(slice(S.int(f"lo{k}"), S.int(f"hi{k}"), None) for k in range(3))
        elif kind == "4-slices":
            key = tuple(slice(S.int(f"lo{k}"), S.int(f"hi{k}"), None) for k in range(3)) + (slice(None, None, None),)
        elif kind == "one-slice":
            key = slice(None, None, None)
        else:
            key = S.int("x")
        g["key"] = key
        return dict(self=self, key=key, __ghost__=g)

    return f


def tg_patch_result(S, fr):
    a = ImgArr.source(dims_of(S, ["px", "py", "pz", "pc"]), "uint8", "patch")
    S.eng.ghost["patch_result"] = a
    return a


def tg_asks(E, v, o):
    """which region of the finest level is requested: [x, x+1) x [y, y+1) x [z, z+1) for an integer key; the clamped slice ranges for a slice key"""
    cs = calls(E, "TeraflyImageStack.get_patch")
    if len(cs) != 1 or cs[0]["self"] is not v["self"]:
        return False
    kind, key, res = E.spec_extra["kind"], E.spec_extra["key"], E.spec_extra["res"]
    finest = [zi(t) for t in res.items[3:]]

    def vec(x):
        items = x.items if isinstance(x, (PList, NArr)) else list(x)
        return [to_z3(t, "int") for t in items]

    starts, ends = vec(cs[0]["starts"]), vec(cs[0]["ends"])
    if len(starts) != 3 or len(ends) != 3:
        return False
    if kind == "ints":
        want_s = [zi(k) for k in key[:3]]
        want_e = [zi(k) + 1 for k in key[:3]]
        st_ok = cs[0]["strides"] == 1
    else:
        want_s = [clamp_spec(k.start, n, z3.IntVal(0)) for k, n in zip(key[:3], finest)]
        want_e = [clamp_spec(k.stop, n, n) for k, n in zip(key[:3], finest)]
        st = cs[0]["strides"]
        st_ok = z3.And(*[t == 1 for t in vec(st)]) if not isinstance(st, int) else st == 1
    return B.conj(st_ok, cs[0]["res_level"] == -1, *[a == b for a, b in zip(starts + ends, want_s + want_e)])


def tg_result(E, v, o):
    patch, r = E.ghost.get("patch_result"), v["result"]
    if patch is None:
        return False
    if E.spec_extra["kind"] == "ints":
        return isinstance(r, Sym) and r.z == patch.elem([z3.IntVal(0)] * 4)
    return r is patch


# OBSERVATION outside property C20: TeraflyImageStack.__getitem__ with the documented key imgs[a:b, c:d, e:f, :] raises IndexError (the 3-entry
# resolution row is asked for a 4th extent).  The TeraFly tile format is not part of the property; no contract is claimed (DESIGN.md 9.4).


def register(R):
    reg_ndarray_access(R)
    reg_nrrd(R)
    reg_v3d(R)
    reg_terafly_bits(R)
    reg_read_imgs(R)
    reg_gray(R)
    reg_to_image_stack_plumbing(R)


# =========================================================================== lemmas over the contracts' clauses
def read_layout(axes):
    """file axis that lands on result axis k — the rule TiffImageStack's clauses use (contracts/C20.py: tf_layout)"""
    return sorted(range(len(axes)), key=lambda p: B.ORDER[axes[p]])


def lemmas():
    """Round trips, stated over uninterpreted arrays D (data given to the writer), W (the file), Rd (what the reader holds):
    hypotheses are EXACTLY the writer's and the reader's postconditions (save_tiff: st_shape / st_voxels; TiffImageStack: tf_shape / tf_voxels with
    NDArrayImageStack's rescaling), the goal is the property's clause: same (X, Y, Z, C) shape, voxel = documented rescaling of the original voxel."""
    I, Rs = z3.IntSort(), z3.RealSort()
    D = z3.Function("rt2_data", I, I, I, I, Rs)
    W = z3.Function("rt2_file", I, I, I, I, Rs)
    Rd = z3.Function("rt2_read", I, I, I, I, Rs)
    Xn, Yn, Zn, Cn = z3.Ints("rt2_X rt2_Y rt2_Z rt2_C")
    out = []
    allk = B.FLOATS + B.UINTS
    for s in allk:
        for d in [None] + allk:
            file_dt = s if d is None else d
            for r in (s,) if d is not None else (s, "float32"):  # read back in the original dtype (and with read_imgs' default for an as-is save)
                d_cls = None if d is None else getattr(np, d)
                wr = B.save_expected(s, d_cls)
                rdx = B.load_expected(file_dt, getattr(np, r))
                wsh = [Zn, Xn, Yn, Cn]  # st_shape: the file is (Z, X, Y, C)
                h_save = B.forall_idx(wsh, lambda ix: W(*ix) == wr(D(ix[1], ix[2], ix[0], ix[3])))  # st_voxels
                src_of = read_layout("ZXYC")  # st_axes: the writer's axes string
                rsh = [wsh[p] for p in src_of]  # tf_shape

                def rd(ix, _src=src_of, _rdx=rdx):
                    fx = [None] * 4
                    for k, p in enumerate(_src):
                        fx[p] = ix[k]
                    return Rd(*ix) == _rdx(W(*fx))  # tf_voxels

                h_read = B.forall_idx(rsh, rd)
                goal = z3.And(rsh[0] == Xn, rsh[1] == Yn, rsh[2] == Zn, rsh[3] == Cn,
                              B.forall_idx([Xn, Yn, Zn, Cn], lambda ix, _w=wr, _r=rdx: Rd(*ix) == _r(_w(D(*ix)))))
                out.append((f"tiff-round-trip-(X,Y,Z,C)-of-any-extents[{s}->save:{'as-is' if d is None else d}->read:{r}]", [h_save, h_read], goal))
    # a 3-D input gains C = 1 on the way (st_shape with in4), and comes back as (X, Y, Z, 1)
    D3 = z3.Function("rt2_data3", I, I, I, Rs)
    wr, rdx = B.save_expected("uint8", None), B.load_expected("uint8", np.float32)
    wsh = [Zn, Xn, Yn, z3.IntVal(1)]
    h_save = B.forall_idx(wsh, lambda ix: W(*ix) == wr(D3(ix[1], ix[2], ix[0])))
    src_of = read_layout("ZXYC")
    rsh = [wsh[p] for p in src_of]
    h_read = B.forall_idx(rsh, lambda ix: Rd(*ix) == rdx(W(ix[2], ix[0], ix[1], ix[3])))
    out.append(("tiff-round-trip-of-a-3-D-stack-gives-(X,Y,Z,1)[uint8->as-is->float32]", [h_save, h_read],
                z3.And(rsh[0] == Xn, rsh[1] == Yn, rsh[2] == Zn, rsh[3] == 1, B.forall_idx([Xn, Yn, Zn, 1], lambda ix: Rd(*ix) == rdx(wr(D3(ix[0], ix[1], ix[2])))))))

    # the documented quantisation, with the conversion to an unsigned type read as C truncation (what `astype` does for in-range values)
    x, v = z3.Int("rt2_x"), z3.Real("rt2_v")
    t = z3.Real("rt2_t")
    for u in B.UINTS:
        m = B.UMAX[u]
        cast = B.CAST("float64", u)
        trunc = z3.ForAll([t], z3.Implies(z3.And(t >= 0, t < m + 1), cast(t) == z3.ToReal(z3.ToInt(t))))
        back = B.load_expected("float64", getattr(np, u))(B.save_expected(u, np.float64)(z3.ToReal(x)))
        out.append((f"{u}->float64-file->{u}-gives-back-every-value-exactly-when-the-cast-truncates", [trunc, x >= 0, x <= m], back == z3.ToReal(x)))
        q = B.save_expected("float64", getattr(np, u))(v)  # value stored in the file
        back = B.load_expected(u, np.float64)(q)
        out.append((f"float64-in-[0,1]->{u}-file->float64-is-within-one-step-1/{m}-below-the-original-when-the-cast-truncates", [trunc, v >= 0, v <= 1],
                    z3.And(q >= 0, q <= m, back <= v, v - back < B.rq(1, m))))

    # the rasteriser's file (ToImageStack.save_tif): Z >= 2 pages F_z of shape (X, Y) written contiguously with axes ZXY are ONE series S[z, x, y] = F_z[x, y]
    # (tifffile's behaviour: hypothesis, cross-checked natively); TiffImageStack's clauses for a 3-D file with axes ZXY then give (X, Y, Z, 1) with voxel
    # [x, y, z, 0] = F_z[x, y].  FINDING (docs/w3/c20.md; known_findings.jsonl): the unfixed save_tif writes a ONE-frame stack as a bare (X, Y) page, which
    # tifffile reports as a 2-D series with axes 'YX'; TiffImageStack / NDArrayImageStack refuse it (AssertionError) - a tree one slice thick cannot be read back.
    F = z3.Function("rt2_frame", I, I, I, Rs)
    S3 = z3.Function("rt2_series", I, I, I, Rs)
    ssh = [Zn, Xn, Yn]
    h_series = B.forall_idx(ssh, lambda ix: S3(*ix) == F(*ix))
    src_of = read_layout("ZXY")
    rsh = [ssh[p] for p in src_of] + [z3.IntVal(1)]
    rdx = B.load_expected("uint8", np.float32)

    def rd3(ix):
        fx = [None] * 3
        for k, p in enumerate(src_of):
            fx[p] = ix[k]
        return Rd(*ix) == rdx(S3(*fx))

    h_read = B.forall_idx(rsh, rd3)
    # Z >= 1 (it was Z >= 2): for Z = 1 the series hypothesis holds because the writer hands tifffile ONE (1, X, Y) block (clause
    # `a-ONE-frame-stack-is-written-as-one-(1,X,Y)-block...` / effect obligation `block-k-written-is-...` of save_tif and transform_and_save), which tifffile
    # stores as a series of shape (1, X, Y) with axes ZXY (tools/xcheck_ext_C20.py, Z = 1, 2, 3); a bare (X, Y) page would be a 2-D series 'YX'.
    out.append(("rasterised-stack-of-Z>=1-slices-saved-block-by-block-with-axes-ZXY-reads-back-as-(X,Y,Z,1)-voxel-[x,y,z,0]-from-page-z-[x,y]", [Zn >= 1, h_series, h_read],
                z3.And(rsh[0] == Xn, rsh[1] == Yn, rsh[2] == Zn, rsh[3] == 1, B.forall_idx([Xn, Yn, Zn, 1], lambda ix: Rd(*ix) == rdx(F(ix[2], ix[0], ix[1]))))))
    # the ONE-frame case spelled out: block = frame[np.newaxis] (block[0, x, y] = frame[x, y]: what np.newaxis means), series = the block, reader's clauses for axes ZXY
    Fr = z3.Function("rt2_one_frame", I, I, Rs)
    Bk = z3.Function("rt2_block", I, I, I, Rs)
    one = [z3.IntVal(1), Xn, Yn]
    h_block = B.forall_idx(one, lambda ix: Bk(*ix) == Fr(ix[1], ix[2]))
    h_ser1 = B.forall_idx(one, lambda ix: S3(*ix) == Bk(*ix))
    rsh1 = [one[p] for p in src_of] + [z3.IntVal(1)]
    h_read1 = B.forall_idx(rsh1, rd3)
    out.append(("one-frame-stack-written-as-a-(1,X,Y)-block-reads-back-as-(X,Y,1,1)-voxel-[x,y,0,0]-is-the-frame's-[x,y]", [h_block, h_ser1, h_read1],
                z3.And(rsh1[0] == Xn, rsh1[1] == Yn, rsh1[2] == 1, rsh1[3] == 1, B.forall_idx([Xn, Yn, 1, 1], lambda ix: Rd(*ix) == rdx(Fr(ix[0], ix[1]))))))
    return out
