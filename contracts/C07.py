"""C07 -- re-rooting and concatenation preserve structure and geometry: sidecar contracts.

Carriers (swcgeom/core/tree_utils.py): redirect_tree, cat_tree (fixed small sizes AND symbolic sizes of both trees), _sort_tree;
sort_nodes_impl by a checked REFINEMENT of the contract proved under C05 (no longer assumed); Tree.Node.is_root / children.
"""
import z3

from contracts.common import COLS, col, nof, sym_tree, sym_tree_fixed
from pyvc import ext_C07
from pyvc.spec import Registry
from pyvc.values import NArr, Obj, PDict, PList, SArr, fresh_name, to_z3, zint

ext_C07.install()

DEPENDS = ["C05"]  # sort_nodes_impl: C07's contract is a checked REFINEMENT of the contract proved under C05 (see register_sort)

TU = "swcgeom/core/tree_utils.py"
NORM = "swcgeom/core/swc_utils/normalizer.py"
KEYS = list(COLS)
I = z3.IntSort()


# --------------------------------------------------------------------------- generic column access
def sel(a, i):
    """a[i] as a z3 term, for a symbolic-length (SArr) or concrete-shape (NArr) column."""
    if isinstance(a, SArr):
        return z3.Select(a.arr, i)
    items = a.items
    z = to_z3(items[-1], a.kind)
    for j in range(len(items) - 2, -1, -1):
        z = z3.If(i == j, to_z3(items[j], a.kind), z)
    return z


def alen(a):
    return a.nz() if isinstance(a, SArr) else z3.IntVal(a.shape[0])


def forall_rng(n, f, name="i"):
    """forall i in [0, n): f(i)  -- expanded when n is a Python int."""
    if isinstance(n, int):
        return z3.And(*[f(z3.IntVal(i)) for i in range(n)]) if n else z3.BoolVal(True)
    i = z3.Int(fresh_name(name))
    return z3.ForAll([i], z3.Implies(z3.And(i >= 0, i < n), f(i)))


def ndata(t):
    return t.fields["ndata"].items


# =========================================================================== redirect_tree
# ONE set of clauses, evaluated over two kinds of tables:
#   * symbolic size (columns SArr): the PROOF -- any number of nodes, the root at any position, loops cut by invariants;
#   * fixed small sizes (columns NArr, n = 1..RR_SIZES): the same clauses become quantifier-free formulas over the unrolled code, so
#     that a wrong statement ANYWHERE in the function (before, inside or after a loop) is answered by the solver with a counter-model
#     (`sat`) of the property's own clause, not merely with "no longer provable".
def ZA(a):
    """a column as a z3 array term: the array of a symbolic-length SArr, a concrete-shape NArr spelled out cell by cell"""
    if isinstance(a, SArr):
        return a.arr
    items = a.items
    A = z3.K(I, to_z3(items[-1], a.kind))
    for j, x in enumerate(items[:-1]):
        A = z3.Store(A, j, to_z3(x, a.kind))
    return A


def size(a):
    """length of a column: a z3 term (SArr) or a Python int (NArr)"""
    return a.nz() if isinstance(a, SArr) else int(a.shape[0])


def _n(t):
    return size(col(t, "pid"))


def _uid(a):
    return a.root().uid if isinstance(a, NArr) else a.uid


def forall2(n, f):
    """forall a, b in [0, n): f(a, b)  -- expanded when n is a Python int"""
    if isinstance(n, int):
        return z3.And(*[f(z3.IntVal(a), z3.IntVal(b)) for a in range(n) for b in range(n)]) if n else z3.BoolVal(True)
    a, b = z3.Int(fresh_name("a")), z3.Int(fresh_name("b"))
    return z3.ForAll([a, b], z3.Implies(z3.And(a >= 0, a < n, b >= 0, b < n), f(a, b)))


def same_len(a, n):
    m = size(a)
    if isinstance(m, int) and isinstance(n, int):
        return z3.BoolVal(m == n)
    return m == n


def rr_setup(sort, n=None):
    def f(S):
        t = sym_tree(S, "t", frozen=True, extra_cols=("tag",)) if n is None else _fixed_tree(S, n, "t", "tag")
        r = S.int("new_root")
        return dict(tree=t, new_root=r, sort=sort, __ghost__={"root": S.int("root"), "srootrow": r, "input": t})

    return f


def _rr(E, v, o):
    t0 = o["tree"]
    return t0, _n(t0), ZA(col(t0, "pid")), E.spec_extra["depth"].f, E.spec_extra["root"].z, to_z3(o["new_root"], "int")


def rr_pre(which):
    def f(E, v, o):
        t0, n, pid, depth, root, r = _rr(E, v, v)
        if which == "ids-are-positions":
            ids = ZA(col(t0, "id"))
            return forall_rng(n, lambda i: z3.Select(ids, i) == i)
        if which == "root":
            return z3.And(root >= 0, root < n, z3.Select(pid, root) == -1)
        if which == "others-have-a-parent":
            return forall_rng(n, lambda i: z3.Implies(i != root, z3.And(z3.Select(pid, i) >= 0, z3.Select(pid, i) < n)))
        if which == "depth-witness":
            return z3.And(depth(root) == 0, forall_rng(n, lambda i: z3.Implies(i != root, z3.And(depth(i) == depth(z3.Select(pid, i)) + 1, depth(i) > 0))))
        if which == "new-root-is-a-node":
            return z3.And(r >= 0, r < n)

    return (which, f)


RR_PRE = [rr_pre(w) for w in ("ids-are-positions", "root", "others-have-a-parent", "depth-witness", "new-root-is-a-node")]


def _path(v):
    """(array of node indices, length) of the list of handles `path`: a concrete list (its length a Python int) at the entry of loop 0
    and in the unrolled fixed-size variants, a symbolic list after a cut loop"""
    p = v["path"]
    if p.items is not None:
        P = z3.K(I, z3.IntVal(0))
        for j, x in enumerate(p.items):
            P = z3.Store(P, j, to_z3(x.fields["idx"], "int"))
        return P, len(p.items)
    return p.cols[0], zint(p.n)


def _handles_on(v, t):
    p = v.get("path")
    if not isinstance(p, PList):
        return False
    if p.items is not None:
        return all(isinstance(x, Obj) and x.fields.get("attach") is t for x in p.items)
    return getattr(p, "attach", None) is t


def rr_inv0(which):
    """loop 0 (walk to the root).  Every clause is RELATIVE TO THE STATE AT THE LOOP HEAD (`entry`): path[0] = new_root,
    path[j+1] = parent of path[j] in the copy as it was when the walk started, depth falls by one per step, and the walk leaves
    every column of the copy as it found it.  What the code did to the copy BEFORE the walk is not re-stated here: it reaches the
    postconditions through the path condition, so a wrong statement before the loop fails a postcondition, not an invariant."""
    def f(E, v, o, entry):
        t0, n, pid0, depth, root, r = _rr(E, v, o)
        te = entry["tree"]
        if not isinstance(te, Obj) or not isinstance(v["tree"], Obj) or not isinstance(v.get("path"), PList):
            return False
        P, L = _path(v)
        if which == "nonempty":
            return L >= 1
        if which == "handles-on-the-copy":  # (that the copy is fresh storage is the postcondition `fresh-storage`; a write into the input is `safety/frame-write`)
            return _handles_on(v, v["tree"])
        if which == "starts-at-new-root":
            return z3.Select(P, 0) == r
        if which == "nodes-in-range":
            return forall_rng(L, lambda j: z3.And(z3.Select(P, j) >= 0, z3.Select(P, j) < n), "j")
        if which == "follows-parent-links":
            pid_e = ZA(col(te, "pid"))
            return forall_rng(L - 1, lambda j: z3.Select(pid_e, z3.Select(P, j)) == z3.Select(P, j + 1), "j")
        if which == "depth-falls-by-one":
            return forall_rng(L, lambda j: depth(z3.Select(P, j)) == depth(r) - j, "j")
        if which == "copy-untouched-by-the-walk":
            t = v["tree"]
            if set(ndata(t)) != set(ndata(te)):
                return False
            out = []
            for k in ndata(te):
                a1, ae = ZA(col(t, k)), ZA(col(te, k))
                out.append(z3.And(same_len(col(t, k), size(col(te, k))), forall_rng(n, lambda i, _a1=a1, _ae=ae: z3.Select(_a1, i) == z3.Select(_ae, i))))
            return z3.And(*out)

    return (which, f)


WALK_VAR = "p"  # the name the carrier gives to the node the walk looks at next


def rr_walk_var(E, v, o, entry):
    """loop 0, only when the loop CARRIES the walk variable (`p = path[-1].parent()` before the loop and at the end of its body instead of the
    walrus in the loop test): p is the parent of the last path node in the copy as it was at the loop head, None at the root"""
    if WALK_VAR not in entry:
        return True
    p, t, te = v.get(WALK_VAR), v["tree"], entry["tree"]
    if not isinstance(te, Obj) or not isinstance(v.get("path"), PList):
        return False
    P, L = _path(v)
    up = z3.Select(ZA(col(te, "pid")), z3.Select(P, L - 1))
    if p is None:
        return up == -1
    if not (isinstance(p, Obj) and p.fields.get("attach") is t and "idx" in p.fields):
        return False
    return z3.And(up != -1, to_z3(p.fields["idx"], "int") == up)


def rr_opt_parent(eng, cur):
    """rebind rule of loop 0 for a loop-carried walk variable: at the loop head it holds None or a handle on the tree the path's handles are on"""
    from pyvc.engine import Unsupported
    from pyvc.values import fresh

    path = eng.visible_vars().get("path")
    if not isinstance(path, ext_C07.NodeList):
        raise Unsupported("redirect_tree loop 0: the walk variable is carried by the loop but `path` is not a list of node handles")
    if eng.branch(fresh("bool", "walk_done")):
        return None
    return Obj(path.node_cls, dict(attach=path.attach, idx=fresh("int", "walk_at"), names=path.names))


def _on_path(E, v, o, i, upto=None):
    """(position j, `node i sits at path position j with 1 <= j <= upto`): j = depth(r) - depth(i) is the only path position that can hold i"""
    t0, n, pid0, depth, root, r = _rr(E, v, o)
    P, L = _path(v)
    j = depth(r) - depth(i)
    on = z3.And(j >= 1, j < L, z3.Select(P, j) == i)
    if upto is not None:
        on = z3.And(on, j <= upto)
    return j, on


def rr_inv1(c):
    """loop 1 (reverse the edges of the path), k iterations done -- RELATIVE TO THE STATE AT THE LOOP HEAD (`entry`, i.e. after the
    statements between the two loops): every column but the parent column is as it was there; the parent column differs from
    it exactly at path[1..k], where it holds the preceding path node"""
    def f(E, v, o, entry):
        t0 = o["tree"]
        t, te = v["tree"], entry["tree"]
        if not isinstance(t, Obj) or not isinstance(te, Obj) or set(ndata(t)) != set(ndata(te)) or c not in ndata(te) or not _handles_on(v, t):
            return False
        n = _n(t0)
        P, L = _path(v)
        a1, ae = ZA(col(t, c)), ZA(col(te, c))
        if c == "pid":
            k = to_z3(v["_k1"], "int")

            def cell(i):
                j, on = _on_path(E, v, o, i, upto=k)
                return z3.Select(a1, i) == z3.If(on, z3.Select(P, j - 1), z3.Select(ae, i))

            body = forall_rng(n, cell)
        else:
            body = forall_rng(n, lambda i: z3.Select(a1, i) == z3.Select(ae, i))
        return z3.And(same_len(col(t, c), size(col(te, c))), body)

    return (f"column-{c}", f)


RR_SIZES = (1, 2, 3, 4)  # the fixed-size variants (counter-model finders) of redirect_tree


def register_redirect(R):
    from pyvc.ext_C07 import node_handles

    def post(which):
        def f(E, v, o):
            t0, n, pid0, depth, root, r = _rr(E, v, o)
            t = v["result"]
            if not isinstance(t, Obj):
                return False
            if v["sort"]:  # the clauses below then speak about the table as it was handed to _sort_tree
                if "presort" not in E.ghost or t is not v["tree"]:
                    return False
                t = E.ghost["presort"][0]
            if which.startswith("sorted/"):
                return sorted_post(E, v, o, t, which[7:])
            nd, nd0 = ndata(t), ndata(t0)
            if which == "same-columns-and-size" or set(nd) != set(nd0):
                return set(nd) == set(nd0) and z3.And(*[same_len(nd[c], n) for c in nd0])
            if which == "fresh-storage":
                return (t.uid not in E.entry_uids and t.fields["ndata"].uid not in E.entry_uids and all(_uid(nd[c]) not in E.entry_uids for c in nd)
                        and len({_uid(nd[c]) for c in nd}) == len(nd))
            pid1 = ZA(nd["pid"])
            if which == "requested-node-is-root":
                return z3.Select(pid1, r) == -1
            if which == "every-node-reaches-the-new-root":
                # sort=False: ghost witnesses prow / sdepth (defined by the hint below) for symbolic sizes, the finite formula for a fixed size;
                # sort=True: proved as the precondition of the _sort_tree call
                if v["sort"]:
                    return True
                return z3.And(_is_tree(E, nd["id"], nd["pid"], "parents-exist"), _is_tree(E, nd["id"], nd["pid"], "every-row-reaches-the-root"))
            if which == "it-is-the-only-root":
                return forall_rng(n, lambda i: z3.Implies(i != r, z3.And(z3.Select(pid1, i) >= 0, z3.Select(pid1, i) < n)))
            if not isinstance(v.get("path"), PList):
                return False
            P, L = _path(v)
            if which == "path-edges-reversed":
                return forall_rng(L - 1, lambda j: z3.Select(pid1, z3.Select(P, j + 1)) == z3.Select(P, j), "j")
            if which == "path-ends-at-the-old-root":
                return z3.Select(P, L - 1) == root
            if which == "off-path-parents-kept":
                def offp(i):
                    jj = depth(r) - depth(i)
                    onp = z3.And(jj >= 0, jj < L, z3.Select(P, jj) == i)
                    return z3.Implies(z3.Not(onp), z3.Select(pid1, i) == z3.Select(pid0, i))

                return forall_rng(n, offp)
            if which == "undirected-edges-kept":
                return forall2(n, lambda a, b: z3.Or(z3.Select(pid0, a) == b, z3.Select(pid0, b) == a) == z3.Or(z3.Select(pid1, a) == b, z3.Select(pid1, b) == a))
            if which == "types-of-old-and-new-root-exchanged":
                ty0, ty1 = ZA(nd0["type"]), ZA(nd["type"])
                return z3.And(z3.Select(ty1, r) == z3.Select(ty0, root), z3.Select(ty1, root) == z3.Select(ty0, r),
                              forall_rng(n, lambda i: z3.Implies(z3.And(i != r, i != root), z3.Select(ty1, i) == z3.Select(ty0, i))))
            if which == "every-other-attribute-kept":
                out = []
                for c in nd0:
                    if c in ("pid", "type"):
                        continue
                    a1, a0 = ZA(nd[c]), ZA(nd0[c])
                    out.append(forall_rng(n, lambda i, _a1=a1, _a0=a0: z3.Select(_a1, i) == z3.Select(_a0, i)))
                return z3.And(*out)
            raise KeyError(which)

        return (which, f)

    def prop_post(which):
        """the clause of the PROPERTY STATEMENT over the whole result, the same text for both sort modes: node k of the result is
        node sigma(k) of the input -- sigma the identity for sort=False, the row permutation of the final sort for sort=True"""
        def f(E, v, o):
            t0, n, pid0, depth, root, r = _rr(E, v, o)
            res = v["result"]
            if not isinstance(res, Obj) or res is not v["tree"]:
                return False
            if which == "input-untouched":
                live = E.spec_extra["input"]
                if live is res or live.uid not in E.entry_uids or set(ndata(live)) != set(ndata(t0)) or live.fields["ndata"] is res.fields["ndata"]:
                    return False
                if any(ndata(live)[c] is ndata(res)[c] or _uid(ndata(live)[c]) == _uid(ndata(res)[c]) for c in ndata(live) if c in ndata(res)):
                    return False  # a column array shared between input and result
                out = []
                for c in ndata(t0):
                    a1, a0 = ZA(col(live, c)), ZA(col(t0, c))
                    out.append(z3.And(same_len(col(live, c), n), forall_rng(n, lambda i, _a1=a1, _a0=a0: z3.Select(_a1, i) == z3.Select(_a0, i))))
                return z3.And(*out)
            nd, nd0 = ndata(res), ndata(t0)
            if set(nd) != set(nd0) or not all(isinstance(nd[c], (SArr, NArr)) for c in nd):
                return False
            if v["sort"]:
                if "presort" not in E.ghost:
                    return False
                _, sg, inv = E.ghost["presort"]
                sigma = lambda k: z3.Select(sg, k)
                back = inv
            else:
                sigma = back = lambda k: k
            fixed = isinstance(n, int)
            k, a, b = z3.Ints("rr_k rr_a rr_b")
            rng = lambda x: z3.And(x >= 0, x < n)
            all1 = (lambda f1: forall_rng(n, f1)) if fixed else (lambda f1: z3.ForAll([k], z3.Implies(rng(k), f1(k))))  # fixed bound names for symbolic sizes
            ty0 = ZA(nd0["type"])
            if which == "every-node-kept":
                # same number of nodes, numbered by position, and sigma is a bijection between the nodes of the result and of the input
                ids = ZA(nd["id"])
                return z3.And(*[same_len(nd[c], n) for c in nd], all1(lambda k: z3.And(z3.Select(ids, k) == k, rng(sigma(k)), back(sigma(k)) == k, rng(back(k)), sigma(back(k)) == k)))
            if which == "every-attribute-kept":
                out = []
                for c in nd0:
                    if c not in ("id", "pid", "type"):
                        a1, a0 = ZA(nd[c]), ZA(nd0[c])
                        out.append(all1(lambda k, _a1=a1, _a0=a0: z3.Select(_a1, k) == z3.Select(_a0, sigma(k))))
                return z3.And(*out)
            if which == "only-the-types-of-old-and-new-root-exchanged":
                ty1 = ZA(nd["type"])
                return all1(lambda k: z3.Select(ty1, k) == z3.If(sigma(k) == r, z3.Select(ty0, root), z3.If(sigma(k) == root, z3.Select(ty0, r), z3.Select(ty0, sigma(k)))))
            pid1 = ZA(nd["pid"])
            if which == "undirected-edge-set-kept":
                edge = lambda a, b: z3.Or(z3.Select(pid1, a) == b, z3.Select(pid1, b) == a) == z3.Or(z3.Select(pid0, sigma(a)) == sigma(b), z3.Select(pid0, sigma(b)) == sigma(a))
                if fixed:
                    return forall2(n, edge)
                goal = z3.ForAll([a, b], z3.Implies(z3.And(rng(a), rng(b)), edge(a, b)))
                if v["sort"]:
                    # a consequence of clauses ALREADY PROVED on this path (each an obligation of its own; they precede this one in `ensures`): the
                    # edge set of the table handed to the final sort, and that the result is its sorted relabelling.  Proved from those alone (a
                    # pure lemma about the clauses, no fact about the code enters), then the clause itself is this very term
                    used = ("same-columns-and-size", "requested-node-is-root", "it-is-the-only-root", "undirected-edges-kept", "every-other-attribute-kept", "sorted/requested-node-becomes-node-0",
                            "sorted/permutation-of-the-rows", "sorted/ids-are-positions", "sorted/root-first", "sorted/parents-kept-and-before-children")
                    hyps = [to_z3(E.truth(post(w)[1](E, v, o)), "bool") for w in used] + [rr_pre("ids-are-positions")[1](E, o, o), n >= 1]
                    prove_from(E, "redirect_tree/step/edge-set-read-through-the-renumbering", hyps, goal)
                    return z3.simplify(goal)
                return goal
            if which == "requested-node-is-the-unique-root":
                rho = back(r)  # where the requested node sits in the result
                first = (rho == 0) if v["sort"] else z3.BoolVal(True)
                return z3.And(rng(rho), sigma(rho) == r, first, z3.Select(pid1, rho) == -1,
                              all1(lambda k: z3.Implies(k != rho, z3.And(z3.Select(pid1, k) >= 0, z3.Select(pid1, k) < n))))
            raise KeyError(which)

        return ("property/" + which, f)

    def sorted_post(E, v, o, S, w):
        """sort=True: the result is the sorted relabelling of the re-rooted table S"""
        if not v["sort"]:
            return True
        res = v["result"]
        _, sg, inv = E.ghost["presort"]
        n = _n(S)
        r = to_z3(o["new_root"], "int")
        nd, nd0 = ndata(res), ndata(S)
        if set(nd) != set(nd0):
            return False
        if w == "requested-node-becomes-node-0":
            return z3.Select(sg, 0) == r
        if w == "every-column-permuted-alike":
            return z3.And(*[z3.And(same_len(nd[c], n), forall_rng(n, lambda k, _c=c: sel(nd[_c], k) == sel(nd0[_c], z3.Select(sg, k)), "k")) for c in nd0 if c not in ("id", "pid")])
        return _sorted_relabelling(E, nd0["id"], nd0["pid"], nd["id"], nd["pid"], sg, inv, n, w)

    def sort_call_hint(E, vars):
        """ghost witnesses for the precondition of _sort_tree on the re-rooted table: prow = the new parent table,
        sdepth = distance to the new root, defined by recursion along the OLD parent links (well-founded by `depth`):
        position on the path for path nodes, one more than the old parent's value otherwise"""
        o = E.top_old
        if not isinstance(vars.get("path"), PList) or not isinstance(vars.get("tree"), Obj):
            return  # not the call site this hint was written for: no witnesses, the precondition stays unproved
        if not isinstance(col(vars["tree"], "pid"), SArr):
            return  # a table of fixed size: "the table is a tree" is a finite formula, there are no witnesses to define
        t0, n, pid0, depth, root, r = _rr(E, vars, o)
        P, L = _path(vars)
        prow, sdepth = E.spec_extra["prow"].f, E.spec_extra["sdepth"].f
        pid1 = col(vars["tree"], "pid").arr
        i = z3.Int(fresh_name("i"))
        j = depth(r) - depth(i)
        onp = z3.And(j >= 0, j < L, z3.Select(P, j) == i)
        E.assume(z3.ForAll([i], prow(i) == z3.Select(pid1, i)))
        E.assume(z3.ForAll([i], z3.Implies(z3.And(i >= 0, i < n), z3.And(sdepth(i) >= 0, sdepth(i) == z3.If(onp, j, sdepth(z3.Select(pid0, i)) + 1)))))
        E.assumptions.add("ghost definition: prow = parent table of the re-rooted tree; sdepth(i) = path position of i if i is on the path, else sdepth(old parent of i) + 1 (recursion along the old parent links, well-founded by the depth witness)")

    def reach_hint(E, vars):
        if not vars.get("sort"):
            sort_call_hint(E, vars)

    global RR_POST
    RR_POST = post  # the clause builder, also used by cat_tree's call-site contract of redirect_tree

    PROPERTY = ("input-untouched", "every-node-kept", "every-attribute-kept", "only-the-types-of-old-and-new-root-exchanged", "undirected-edge-set-kept",
                "requested-node-is-the-unique-root")
    POSTS = ["same-columns-and-size", "fresh-storage", "requested-node-is-root", "it-is-the-only-root", "path-ends-at-the-old-root", "path-edges-reversed",
             "off-path-parents-kept", "undirected-edges-kept", "every-node-reaches-the-new-root", "types-of-old-and-new-root-exchanged", "every-other-attribute-kept"]
    # order matters: a proved clause is a hypothesis of the later ones.  The property's clauses about nodes, attributes and types come
    # FIRST (proved from the code's path condition alone); its clauses about edges and the root come after the helper clauses about
    # the reversed path, from which they follow
    ENSURES = ([prop_post(w) for w in PROPERTY[:4]] + [post(w) for w in POSTS] + [post("sorted/" + w) for w in ("requested-node-becomes-node-0", "every-column-permuted-alike") + RELABEL]
               + [prop_post(w) for w in PROPERTY[4:]])
    HINTS = {"call:_sort_tree/pre/ids-distinct": sort_call_hint, "post/every-node-reaches-the-new-root": reach_hint}

    R.add(
        f"{TU}:redirect_tree",
        prop="C07",
        variants={"sort=False": rr_setup(False), "sort=True": rr_setup(True)},
        requires=RR_PRE,
        ensures=ENSURES,
        options=dict(hints=HINTS),
        loops={
            0: dict(invariant=[rr_inv0(w) for w in ("nonempty", "handles-on-the-copy", "starts-at-new-root", "nodes-in-range", "follows-parent-links", "depth-falls-by-one", "copy-untouched-by-the-walk")]
                    + [("walk-variable-is-the-parent-of-the-last-node", rr_walk_var)],
                    types={"path": node_handles}, modifies=["tree.ndata"], rebind={WALK_VAR: rr_opt_parent},
                    decreases="depth(path[len_(path) - 1].idx)"),
            1: dict(invariant=[rr_inv1(c) for c in KEYS + ["tag"]], modifies=["tree.ndata"]),
        },
        ghost_funcs=dict(depth=(["int"], "int"), **SORT_GHOSTS),
        notes="tree size symbolic; the root may sit at any position (ghost `root`); `depth` is a ghost witness that every node reaches the root; loop invariants "
              "relative to the state at the loop head, the property's clauses (`property/...`) over the whole result in both sort modes",
    )
    # second registration (same property, same clause names: the instances are merged): fixed small sizes, NO loop contracts -- both loops
    # are unrolled, the clauses are quantifier-free.  Nothing is proved here that the symbolic registration does not prove for every
    # size; its purpose is the converse: a violated clause gets a counter-model.
    R.add(
        f"{TU}:redirect_tree",
        prop="C07",
        variants={f"n={n},sort={so}": rr_setup(so, n) for n in RR_SIZES for so in (False, True)},
        requires=RR_PRE,
        ensures=ENSURES,
        options=dict(allow_symbolic_unroll=True, feas_timeout_ms=10000),
        ghost_funcs=dict(depth=(["int"], "int"), **SORT_GHOSTS),
        notes="tree size fixed per variant (1-4 nodes), every column, the root position and the new root symbolic; loops unrolled, clauses quantifier-free",
    )


# =========================================================================== sort_nodes_impl (assumed) / _sort_tree
# Precondition of sorting ("the table is a tree"): ids pairwise distinct, exactly one root row, every other row's
# pid is the id of a row, every row reaches the root.  For symbolic sizes the last two use ghost witnesses
# prow (row -> parent row), sdepth (row -> distance to the root), srootrow; for concrete sizes they are finite formulas.
def _is_tree(E, ids, pids, which):
    n = ids.shape[0] if isinstance(ids, NArr) else None
    if n is not None:
        idz = [to_z3(x, "int") for x in ids.items]
        pdz = [to_z3(x, "int") for x in pids.items]
        if which == "ids-distinct":
            return z3.And(*[idz[a] != idz[b] for a in range(n) for b in range(a + 1, n)]) if n > 1 else True
        if which == "no-id-is-minus-one":
            return z3.And(*[x != -1 for x in idz]) if n else True
        if which == "single-root":
            return z3.Sum([z3.If(p == -1, 1, 0) for p in pdz]) == 1 if n else False
        if which == "parents-exist":
            return z3.And(*[z3.Or(pdz[a] == -1, *[idz[b] == pdz[a] for b in range(n)]) for a in range(n)])
        if which == "every-row-reaches-the-root":
            reach = [pdz[a] == -1 for a in range(n)]
            for _ in range(n - 1):
                reach = [z3.Or(reach[a], *[z3.And(idz[b] == pdz[a], reach[b]) for b in range(n) if b != a]) for a in range(n)]
            return z3.And(*reach)
    N = ids.nz()
    prow, sdepth, rr = E.spec_extra["prow"].f, E.spec_extra["sdepth"].f, to_z3(E.spec_extra["srootrow"], "int")
    a, b = z3.Ints("it_a it_b")  # fixed bound names: two constructions of a clause over the same table are the same term
    if which == "ids-distinct":
        return z3.ForAll([a, b], z3.Implies(z3.And(0 <= a, a < b, b < N), ids.get(a).z != ids.get(b).z))
    if which == "no-id-is-minus-one":
        # -1 is the "no parent" marker: a row carrying it as its id would be taken for the parent of the root (found by the
        # refinement check against C05's proved contract: the contract assumed here before did not ask for it)
        return z3.ForAll([a], z3.Implies(z3.And(0 <= a, a < N), ids.get(a).z != -1))
    if which == "single-root":
        return z3.And(0 <= rr, rr < N, pids.get(rr).z == -1, z3.ForAll([a], z3.Implies(z3.And(0 <= a, a < N, a != rr), pids.get(a).z != -1)))
    if which == "parents-exist":
        return z3.ForAll([a], z3.Implies(z3.And(0 <= a, a < N, a != rr), z3.And(0 <= prow(a), prow(a) < N, ids.get(prow(a)).z == pids.get(a).z)))
    if which == "every-row-reaches-the-root":
        return z3.And(sdepth(rr) == 0, z3.ForAll([a], z3.Implies(z3.And(0 <= a, a < N), z3.And(sdepth(a) >= 0, z3.Implies(a != rr, sdepth(a) == sdepth(prow(a)) + 1)))))


TREE_PRE = ("ids-distinct", "no-id-is-minus-one", "single-root", "parents-exist", "every-row-reaches-the-root")
SORT_GHOSTS = {"prow": (["int"], "int"), "sdepth": (["int"], "int")}


def _sorted_relabelling(E, ids0, pids0, new_ids, new_pids, sg, inv, n, which):
    """(new_ids, new_pids) is the sorted relabelling of (ids0, pids0) along the row permutation sg (new row -> old row)"""
    S = lambda k: sel(sg, k) if not isinstance(sg, z3.ExprRef) else z3.Select(sg, k)
    if which == "permutation-of-the-rows":
        return z3.And(forall_rng(n, lambda k: z3.And(S(k) >= 0, S(k) < zint(n), inv(S(k)) == k), "k"),
                      forall_rng(n, lambda i: z3.And(inv(i) >= 0, inv(i) < zint(n), S(inv(i)) == i)))
    if which == "ids-are-positions":
        return forall_rng(n, lambda k: sel(new_ids, k) == k, "k")
    if which == "root-first":
        return z3.And(sel(new_pids, z3.IntVal(0)) == -1, sel(pids0, S(z3.IntVal(0))) == -1)
    if which == "parents-kept-and-before-children":
        return forall_rng(n, lambda k: z3.Implies(k > 0, z3.And(sel(new_pids, k) >= 0, sel(new_pids, k) < k, sel(ids0, S(sel(new_pids, k))) == sel(pids0, S(k)))), "k")


RELABEL = ("permutation-of-the-rows", "ids-are-positions", "root-first", "parents-kept-and-before-children")


def register_sort(R):
    # ------------------------------------------------------------- sort_nodes_impl: ASSUMED here (proved under C05)
    def sni_result(S, fr):
        ids, pids = fr.vars["topology"]
        n = ids.n
        return ((SArr.fresh("int", n, name="new_ids"), SArr.fresh("int", n, name="new_pids")), SArr.fresh("int", n, name="id_map"))

    def sni_inv(E, id_map):
        key = ("sortinv", id_map.uid)
        if key not in E.ghost:
            E.ghost[key] = z3.Function(fresh_name("sortinv"), I, I)
        return E.ghost[key]

    def sni_pre(w):
        return (w, lambda E, v, o: _is_tree(E, v["topology"][0], v["topology"][1], w))

    def sni_post(w):
        def f(E, v, o):
            ids, pids = o["topology"]
            (new_ids, new_pids), id_map = v["result"]
            return _sorted_relabelling(E, ids, pids, new_ids, new_pids, id_map, sni_inv(E, id_map), ids.nz(), w)

        return (w, f)

    def sni_setup(S):
        n = S.int("n")
        S.assume(n.z >= 0)
        return dict(topology=(S.arr("int", n=n, name="old_ids"), S.arr("int", n=n, name="old_pids")), __ghost__={"srootrow": S.int("srootrow")})

    def sni_lengths(E, v, o):
        (new_ids, new_pids), id_map = v["result"]
        n = o["topology"][0].nz()
        return z3.And(new_ids.nz() == n, new_pids.nz() == n, id_map.nz() == n)

    def link_entry(E, v):
        """C05's ghost symbols DEFINED from this module's vocabulary: the root row, the parent row and the depth witness are
        the ones given here; posof (row carrying an id) is the inverse of the id column, which exists because the ids are
        pairwise distinct (stated under that hypothesis, so the definition is conservative)"""
        from contracts import C05

        ids, pids = v["topology"]
        n = ids.nz()
        prow, sdepth, rr = E.spec_extra["prow"].f, E.spec_extra["sdepth"].f, to_z3(E.spec_extra["srootrow"], "int")
        i, a, b = (z3.Int(fresh_name(x)) for x in "iab")
        E.assume(C05.P0 == rr)
        E.assume(z3.ForAll([i], C05.pp(i) == prow(i)))
        E.assume(z3.ForAll([i], C05.depth5(i) == sdepth(i)))
        distinct = z3.ForAll([a, b], z3.Implies(z3.And(0 <= a, a < b, b < n), ids.get(a).z != ids.get(b).z))
        E.assume(z3.Implies(distinct, z3.ForAll([i], z3.Implies(z3.And(0 <= i, i < n), C05.posof(ids.get(i).z) == i))))
        E.assumptions.add("ghost definitions (refinement of sort_nodes_impl, C07 over C05): rootrow5 := srootrow, pp := prow, depth5 := sdepth, "
                          "posof := inverse of the id column (exists when the ids are pairwise distinct)")

    def link_exit(E, v, res):
        """this module's Skolem inverse of the returned index array := C05's `newof`"""
        from contracts import C05

        i = z3.Int(fresh_name("i"))
        f = sni_inv(E, res[1])
        E.assume(z3.ForAll([i], f(i) == C05.newof(i)))
        E.assumptions.add("ghost definition (refinement of sort_nodes_impl, C07 over C05): sortinv := newof")

    key = f"{NORM}:sort_nodes_impl"
    # registered next to C05's verified contract (the registry prefers this one while a C07 carrier is verified).  It used to be
    # ASSUMED; it is now a checked refinement of C05's contract: `refines` makes the verifier prove requires(C07) => requires(C05)
    # and ensures(C05) => ensures(C07) instead of looking at the body (which C05 does).
    R.add(key, prop="C07", setup=sni_setup, ghost_funcs=SORT_GHOSTS, requires=[sni_pre(w) for w in TREE_PRE], returns=sni_result,
          ensures=[("lengths", sni_lengths)] + [sni_post(w) for w in RELABEL],
          options=dict(refines="C05", refine_link=dict(entry=link_entry, exit=link_exit)),
          notes="refinement of the contract proved under C05 (vocabulary of this module: prow / sdepth / srootrow witnesses, Skolem inverse sortinv): "
                "the returned index array is a permutation of the rows, parents keep their children and come first")

    # ------------------------------------------------------------- _sort_tree
    def st_setup(S):
        t = sym_tree(S, "t", frozen=False, extra_cols=("tag",))
        return dict(tree=t, __ghost__={"srootrow": S.int("srootrow")})

    def st_pre(w):
        return (w, lambda E, v, o: _is_tree(E, col(v["tree"], "id"), col(v["tree"], "pid"), w))

    def st_sigma(E, v):
        """the row permutation: the local `id_map` in the carrier, a ghost (Skolem) array at call sites"""
        im = v.get("id_map")
        if not isinstance(im, SArr):
            # whatever the local is called: the index array the carrier's call of sort_nodes_impl returned on this path
            for nm, cv in reversed(E.call_log):
                res = cv.get("__result__")
                if nm.split(".")[-1] == "sort_nodes_impl" and isinstance(res, (tuple, list)) and len(res) == 2 and isinstance(res[1], SArr):
                    im = res[1]
                    break
        if isinstance(im, SArr):
            return im.arr, sni_inv(E, im)
        key = ("sort-skolem", v["tree"].uid, len(E.call_log))
        if key not in E.ghost:
            E.ghost[key] = (z3.Const(fresh_name("sigma"), z3.ArraySort(I, I)), z3.Function(fresh_name("sigma_inv"), I, I))
        return E.ghost[key]

    def st_post(w):
        def f(E, v, o):
            t, t0 = v["tree"], o["tree"]
            if v["result"] is not t:
                return False
            nd, nd0 = ndata(t), ndata(t0)
            if w == "same-columns" or set(nd) != set(nd0):
                return set(nd) == set(nd0)
            n0 = col(t0, "id")
            n = n0.shape[0] if isinstance(n0, NArr) else n0.nz()
            if w == "same-size":
                return z3.And(*[alen(nd[c]) == alen(n0) for c in nd0])
            sg, inv = st_sigma(E, v)
            if w == "every-column-permuted-by-the-same-index-array":
                out = []
                for c in nd0:
                    if c in ("id", "pid"):
                        continue
                    out.append(forall_rng(n, lambda k, _c=c: sel(nd[_c], k) == sel(nd0[_c], z3.Select(sg, k)), "k"))
                return z3.And(*out)
            if w == "presort-table-recorded":  # proof artefact for callers: the table as it was when sorting started
                E.ghost["presort"] = (t0, sg, inv)
                return True
            return _sorted_relabelling(E, nd0["id"], nd0["pid"], nd["id"], nd["pid"], sg, inv, n, w)

        return (w, f)

    key = f"{TU}:_sort_tree"
    if True:
        R.add(key, prop="C07", setup=st_setup, ghost_funcs=SORT_GHOSTS,
              requires=[st_pre(w) for w in TREE_PRE],
              modifies=["tree.ndata"], returns=lambda S, fr: fr.vars["tree"],
              ensures=[st_post(w) for w in ("same-columns", "same-size", "every-column-permuted-by-the-same-index-array") + RELABEL + ("presort-table-recorded",)],
              notes="tree size symbolic, ids arbitrary (pairwise distinct); an extra column `tag` stands for any non-standard column")


# =========================================================================== cat_tree (fixed small sizes)
CT_SIZES = [(n1, n2) for n1 in (1, 2) for n2 in (1, 2, 3)] + [(1, 4)]
EPS2 = z3.RealVal("1/10000000000")  # EPS ** 2 with EPS = 1e-5 (tree_utils.EPS); the carrier itself reads the module constant


def _fixed_tree(S, n, name, extra):
    t = sym_tree_fixed(S, n, name, frozen=True)
    a = NArr((n,), [S.real(f"{name}_{extra}{i}") for i in range(n)], "real")
    a.frozen = True
    t.fields["ndata"].items[extra] = a
    return t


def ct_setup(n1, n2, translate):
    def f(S):
        # tree1 carries an extra column `tag` that tree2 lacks (it is zero-padded), tree2 one (`aux`) that tree1 lacks (it is dropped)
        return dict(tree1=_fixed_tree(S, n1, "a", "tag"), tree2=_fixed_tree(S, n2, "b", "aux"), node1=S.int("node1"), node2=S.int("node2"), translate=translate)

    return f


def ct_pre(which):
    def f(E, v, o):
        if isinstance(col(v["tree1"], "id"), SArr):
            return cts_pre(E, v, which)
        out = []
        for nm in ("tree1", "tree2"):
            t = v[nm]
            ids, pids = col(t, "id"), col(t, "pid")
            n = ids.shape[0]
            idz, pdz = [to_z3(x, "int") for x in ids.items], [to_z3(x, "int") for x in pids.items]
            if which == "well-formed-inputs":
                out += [idz[i] == i for i in range(n)] + [pdz[0] == -1] + [z3.And(pdz[i] >= 0, pdz[i] < n) for i in range(1, n)]
                out.append(_is_tree(E, ids, pids, "every-row-reaches-the-root"))
        if which == "junctions-are-nodes":
            a, b = to_z3(v["node1"], "int"), to_z3(v["node2"], "int")
            out += [a >= 0, a < col(v["tree1"], "id").shape[0], b >= 0, b < col(v["tree2"], "id").shape[0]]
        return z3.And(*out)

    return (which, f)


def ct_post(which):
    def f(E, v, o):
        res = v["result"]
        if not isinstance(res, Obj) or "presort" not in E.ghost:
            return False
        if isinstance(col(o["tree1"], "id"), SArr):
            return cts_post(E, v, o, which)
        S, sg, inv = E.ghost["presort"]  # S: the concatenated table as handed to _sort_tree
        t1, t2 = o["tree1"], o["tree2"]
        A, B, T = ndata(t1), ndata(t2), ndata(S)
        n1, n2 = A["id"].shape[0], B["id"].shape[0]
        a, b = to_z3(o["node1"], "int"), to_z3(o["node2"], "int")
        tr = bool(v["translate"])
        if set(T) != set(A) or len({T[c].shape for c in T}) != 1 or T["id"].ndim != 1:
            return False
        m = T["id"].shape[0]
        off = {c: (sel(A[c], a) - sel(B[c], b)) if tr else z3.RealVal(0) for c in "xyz"}
        d2 = sum(((sel(B[c], b) + off[c] - sel(A[c], a)) * (sel(B[c], b) + off[c] - sel(A[c], a)) for c in "xyz"), z3.RealVal(0))
        merged = z3.simplify(d2 < EPS2)
        if which == "merged-iff-junctions-coincide":
            return z3.If(merged, m == n1 + n2 - 1, m == n1 + n2)
        if m not in (n1 + n2, n1 + n2 - 1):
            return False
        mg = m == n1 + n2 - 1  # on this path
        if which == "first-tree-rows-unchanged":
            return z3.And(*[to_z3(T[c].items[i], T[c].kind) == to_z3(A[c].items[i], A[c].kind) for c in A for i in range(n1)])
        pid2 = [to_z3(x, "int") for x in B["pid"].items]
        adj = lambda p, q: z3.Or(sel(B["pid"], p) == q, sel(B["pid"], q) == p)
        J = [z3.IntVal(j) for j in range(n2)]
        row = lambda j: (n1 + j - z3.If(j > b, 1, 0)) if mg else (n1 + j)
        live = lambda j: (j != b) if mg else z3.BoolVal(True)   # rows of tree2 that exist in the table
        if which == "second-tree-rows-are-a-shifted-translated-copy":
            out = []
            for j in J:
                ty = z3.If(j == b, sel(B["type"], z3.IntVal(0)), z3.If(j == 0, sel(B["type"], b), sel(B["type"], j)))  # re-rooting exchanges the types of old and new root
                facts = [sel(T["id"], row(j)) == j + n1, sel(T["type"], row(j)) == ty, sel(T["r"], row(j)) == sel(B["r"], j), sel(T["tag"], row(j)) == 0]
                facts += [sel(T[c], row(j)) == sel(B[c], j) + off[c] for c in "xyz"]
                out.append(z3.Implies(live(j), z3.And(*facts)))
            return z3.And(*out)
        P = lambda j: sel(T["pid"], row(j))
        if which == "joined-at-the-junction":
            if not mg:
                return P(b) == a
            return z3.And(*[z3.Implies(z3.And(live(j), adj(j, b)), P(j) == a) for j in J])
        inner = lambda j: z3.And(live(j), j != b, z3.Not(adj(j, b))) if mg else z3.And(j != b)
        if which == "no-other-edge-added":
            out = []
            for j in J:
                q = P(j) - n1
                out.append(z3.Implies(inner(j), z3.And(q >= 0, q < n2, q != j, adj(j, q), (q != b) if mg else True)))
            return z3.And(*out)
        if which == "no-edge-lost":
            out = []
            for x in range(n2):
                for y in range(x + 1, n2):
                    jx, jy = J[x], J[y]
                    keep = z3.And(adj(jx, jy), jx != b, jy != b) if mg else adj(jx, jy)
                    out.append(z3.Implies(keep, z3.Or(P(jx) == jy + n1, P(jy) == jx + n1)))
            return z3.And(*out) if out else True
        R_ = ndata(res)
        if set(R_) != set(T):
            return False
        if which == "result-is-fresh":
            return res.uid not in E.entry_uids and res.fields["ndata"].uid not in E.entry_uids and all(R_[c].root().uid not in E.entry_uids for c in R_)
        if which == "result/every-column-permuted-alike":
            return z3.And(*[z3.And(alen(R_[c]) == m, forall_rng(m, lambda k, _c=c: sel(R_[_c], k) == sel(T[_c], z3.Select(sg, k)), "k")) for c in T if c not in ("id", "pid")])
        if which.startswith("result/"):
            return _sorted_relabelling(E, T["id"], T["pid"], R_["id"], R_["pid"], sg, inv, m, which[7:])

    return (which, f)



# =========================================================================== cat_tree for SYMBOLIC sizes of both trees
# Both trees have a symbolic number of nodes (>= 1), ids = positions, the root at ANY position (ghosts root1 / root), depth witnesses
# depth1 / depth; both junction nodes symbolic.  redirect_tree enters through a call-site contract made of the clauses proved for it above
# (those that do not mention its local `path`); the list of the junction's children is the real boolean-mask filter (ghost maps kappa / rho
# of the numpy model), the relinking loop is cut by an invariant, np.pad / np.delete / np.concatenate are library models for symbolic lengths.
RT = f"{TU}:redirect_tree"
RR_POST = None


def _like_tree(S, fr):
    """result shape of redirect_tree at a call site: a tree of the argument's class with the same columns (fresh storage)"""
    t = fr.vars["tree"]
    nd = {c: SArr.fresh(a.kind, nof(t), name="rr_" + c) for c, a in ndata(t).items()}
    return Obj(t.cls, dict(t.fields, ndata=PDict(nd), comments=PList(list(t.fields["comments"].items))))


def rr_callsite_contract():
    from pyvc.spec import Contract

    usable = ["same-columns-and-size", "fresh-storage", "requested-node-is-root", "it-is-the-only-root", "undirected-edges-kept",
              "types-of-old-and-new-root-exchanged", "every-other-attribute-kept"]

    def reach(E, v, o):
        """`every-node-reaches-the-new-root`: the witnesses are existential, the call site gets its own symbols (prow2 / sdepth2)"""
        saved = {k: E.spec_extra.get(k) for k in ("prow", "sdepth", "srootrow")}
        E.spec_extra.update(prow=E.spec_extra["prow2"], sdepth=E.spec_extra["sdepth2"], srootrow=o["new_root"])
        try:
            return RR_POST("every-node-reaches-the-new-root")[1](E, v, o)
        finally:
            E.spec_extra.update(saved)

    return Contract(RT, prop="C07", requires=[("sort-is-off", lambda E, v, o: v["sort"] is False)] + RR_PRE, returns=_like_tree,
                    ensures=[RR_POST(w) for w in usable] + [("every-node-reaches-the-new-root", reach)])


class _CatOverlay:
    def __init__(self, base):
        self.base, self.local = base, None

    def get(self, key, default=None):
        if key == RT:
            if self.local is None:
                self.local = rr_callsite_contract()
            return self.local
        return self.base.get(key, default)

    def __getattr__(self, name):
        return getattr(self.base, name)


def cts_setup(translate):
    def f(S):
        t1 = sym_tree(S, "a", frozen=True, extra_cols=("tag",))   # `tag`: a column tree2 lacks (zero-padded)
        t2 = sym_tree(S, "b", frozen=True, extra_cols=("aux",))   # `aux`: a column tree1 lacks (dropped)
        root1 = S.int("root1")
        return dict(tree1=t1, tree2=t2, node1=S.int("node1"), node2=S.int("node2"), translate=translate,
                    __ghost__={"root": S.int("root2"), "root1": root1, "srootrow": root1})

    return f


CT_GHOSTS = dict(depth=(["int"], "int"), depth1=(["int"], "int"), prow2=(["int"], "int"), sdepth2=(["int"], "int"), **SORT_GHOSTS)


def _wf(t, root, depth):
    n, idc, pid = nof(t), col(t, "id").arr, col(t, "pid").arr
    i = z3.Int(fresh_name("i"))
    rng = z3.And(i >= 0, i < n)
    return z3.And(z3.ForAll([i], z3.Implies(rng, z3.Select(idc, i) == i)), root >= 0, root < n, z3.Select(pid, root) == -1,
                  z3.ForAll([i], z3.Implies(z3.And(rng, i != root), z3.And(z3.Select(pid, i) >= 0, z3.Select(pid, i) < n))),
                  depth(root) == 0, z3.ForAll([i], z3.Implies(z3.And(rng, i != root), z3.And(depth(i) == depth(z3.Select(pid, i)) + 1, depth(i) > 0))))


def cts_pre(E, v, which):
    X = E.spec_extra
    if which == "well-formed-inputs":
        return z3.And(_wf(v["tree1"], to_z3(X["root1"], "int"), X["depth1"].f), _wf(v["tree2"], to_z3(X["root"], "int"), X["depth"].f))
    a, b = to_z3(v["node1"], "int"), to_z3(v["node2"], "int")
    return z3.And(a >= 0, a < nof(v["tree1"]), b >= 0, b < nof(v["tree2"]))


class Cat:
    """vocabulary of the symbolic clauses: A / B the input tables, a / b the junctions, n1 / n2 the sizes, the translation, the merge
    condition, adj = undirected edge of tree2, row(j) = position of tree2's node j in the concatenated table"""

    def __init__(self, E, v, o):
        self.A, self.B = ndata(o["tree1"]), ndata(o["tree2"])
        self.n1, self.n2 = nof(o["tree1"]), nof(o["tree2"])
        self.a, self.b = to_z3(o["node1"], "int"), to_z3(o["node2"], "int")
        self.root2 = to_z3(E.spec_extra["root"], "int")
        tr = bool(v["translate"])
        g = lambda t, c, i: z3.Select(t[c].arr, i)
        self.g = g
        self.off = {c: (g(self.A, c, self.a) - g(self.B, c, self.b)) if tr else z3.RealVal(0) for c in "xyz"}
        d = [g(self.B, c, self.b) + self.off[c] - g(self.A, c, self.a) for c in "xyz"]
        self.merged = z3.simplify(d[0] * d[0] + d[1] * d[1] + d[2] * d[2] < EPS2)
        self.adj = lambda p, q: z3.Or(g(self.B, "pid", p) == q, g(self.B, "pid", q) == p)


TABLE_CLAUSES = ("merged-iff-junctions-coincide", "first-tree-rows-unchanged", "second-tree-rows-are-a-shifted-translated-copy", "joined-at-the-junction",
                 "no-other-edge-added", "no-edge-lost")


def cts_table_clause(which, C, T, mgp):
    """the clauses about the concatenated table T (bound variables carry fixed names: two constructions over the same table are the same term)"""
    A, B, n1, n2, a, b, g = C.A, C.B, C.n1, C.n2, C.a, C.b, C.g
    m = T["id"].nz()
    if which == "merged-iff-junctions-coincide":
        return z3.And(*[T[c].nz() == m for c in T], z3.If(C.merged, m == n1 + n2 - 1, m == n1 + n2), C.merged == z3.BoolVal(mgp))
    i, j, x, y = z3.Ints("ct_i ct_j ct_x ct_y")
    r1, r2 = z3.And(i >= 0, i < n1), z3.And(j >= 0, j < n2)
    if which == "first-tree-rows-unchanged":
        return z3.And(*[z3.ForAll([i], z3.Implies(r1, g(T, c, i) == g(A, c, i))) for c in A])
    row = lambda q: (n1 + q - z3.If(q > b, 1, 0)) if mgp else (n1 + q)
    live = lambda q: (q != b) if mgp else z3.BoolVal(True)
    if which == "second-tree-rows-are-a-shifted-translated-copy":
        ty = z3.If(j == b, g(B, "type", C.root2), z3.If(j == C.root2, g(B, "type", b), g(B, "type", j)))  # re-rooting exchanges the types of old and new root
        facts = [g(T, "id", row(j)) == j + n1, g(T, "type", row(j)) == ty, g(T, "r", row(j)) == g(B, "r", j), g(T, "tag", row(j)) == 0]
        facts += [g(T, c, row(j)) == g(B, c, j) + C.off[c] for c in "xyz"]
        return z3.ForAll([j], z3.Implies(z3.And(r2, live(j)), z3.And(*facts)))
    P = lambda q: g(T, "pid", row(q))
    if which == "joined-at-the-junction":
        if not mgp:
            return P(b) == a
        return z3.ForAll([j], z3.Implies(z3.And(r2, live(j), C.adj(j, b)), P(j) == a))
    inner = lambda q: z3.And(live(q), z3.Not(C.adj(q, b))) if mgp else (q != b)
    if which == "no-other-edge-added":
        q = P(j) - n1
        return z3.ForAll([j], z3.Implies(z3.And(r2, inner(j)), z3.And(q >= 0, q < n2, q != j, C.adj(j, q), (q != b) if mgp else True)))
    if which == "no-edge-lost":
        keep = z3.And(C.adj(x, y), x != b, y != b) if mgp else C.adj(x, y)
        return z3.ForAll([x, y], z3.Implies(z3.And(x >= 0, x < n2, y >= 0, y < n2, x != y, keep), z3.Or(P(x) == y + n1, P(y) == x + n1)))
    raise KeyError(which)


def cts_post(E, v, o, which):
    res = v["result"]
    S, sg, inv = E.ghost["presort"]  # S: the concatenated table as handed to _sort_tree
    T = ndata(S)
    C = Cat(E, v, o)
    if set(T) != set(C.A) or not all(type(T[c]) is SArr for c in T):
        return False
    m = T["id"].nz()
    if which in TABLE_CLAUSES:
        return cts_table_clause(which, C, T, v["remove"] is not None)
    R_ = ndata(res)
    if set(R_) != set(T) or res is not v["tree"]:
        return False
    if which == "result-is-fresh":
        return res.uid not in E.entry_uids and res.fields["ndata"].uid not in E.entry_uids and all(R_[c].uid not in E.entry_uids for c in R_)
    if which == "result/every-column-permuted-alike":
        return z3.And(*[z3.And(alen(R_[c]) == m, forall_rng(m, lambda k, _c=c: sel(R_[_c], k) == sel(T[_c], z3.Select(sg, k)), "k")) for c in T if c not in ("id", "pid")])
    if which.startswith("result/"):
        return _sorted_relabelling(E, T["id"], T["pid"], R_["id"], R_["pid"], sg, inv, m, which[7:])
    raise KeyError(which)


def _sd2(E, v):
    """distance of a node of tree2 to the junction b in the tree re-rooted at b: the witness of redirect_tree's contract when it was
    called, the input's own depth witness when b already was the root"""
    called = any(nm == "redirect_tree" for nm, _ in E.call_log)
    return E.spec_extra["sdepth2"].f if called else E.spec_extra["depth"].f


def _seq(L):
    """(z3 array term, z3 length) of a sequence of integers whatever the carrier keeps it in: a list (concrete or symbolic) or a 1-D integer array"""
    if isinstance(L, SArr):
        return (L.arr, L.nz()) if L.kind == "int" else (None, None)
    if isinstance(L, NArr):
        return (ZA(L), z3.IntVal(L.shape[0])) if L.kind == "int" and L.ndim == 1 and L.items else ((z3.K(I, z3.IntVal(0)), z3.IntVal(0)) if L.ndim == 1 and not L.items else (None, None))
    if isinstance(L, PList):
        if L.items is None:
            return L.cols[0], zint(L.n)
        A = z3.K(I, z3.IntVal(0))
        for j, x in enumerate(L.items):
            if kind_of(x) != "int":
                return None, None
            A = z3.Store(A, j, to_z3(x, "int"))
        return A, z3.IntVal(len(L.items))
    return None, None


def cts_link_inv(which):
    """loop 1 (`for n in link_to_root: tree.node(n).pid = node1`), k iterations done: only the parent column changes, and exactly the
    rows listed so far point to node1"""
    def f(E, v, o, entry):
        t, t0 = v["tree"], entry["tree"]
        nd, nd0 = ndata(t), ndata(t0)
        if set(nd) != set(nd0):
            return False
        k = to_z3(v["_k1"], "int")
        r = z3.Int(fresh_name("r"))
        n = nd0["id"].nz()
        rng = z3.And(r >= 0, r < n)
        if which == "other-columns-untouched":
            return z3.And(*[z3.And(nd[c].nz() == n, z3.ForAll([r], z3.Implies(rng, z3.Select(nd[c].arr, r) == z3.Select(nd0[c].arr, r)))) for c in nd0 if c != "pid"])
        ns, b, a = to_z3(v["ns"], "int"), to_z3(o["node2"], "int"), to_z3(o["node1"], "int")
        if v["remove"] is None:
            listed = z3.And(r == b + ns, k >= 1)
        else:
            flt = E.ghost.get("c07-children")
            if flt is None:
                return False
            q = r - ns
            listed = z3.And(q >= 0, q < flt.src.nz(), flt.mask.get(q).z, flt.rho(q) < k)
        if which == "rows-listed-so-far-point-to-node1":
            return z3.And(nd["pid"].nz() == n, z3.ForAll([r], z3.Implies(rng, z3.Select(nd["pid"].arr, r) == z3.If(listed, a, z3.Select(nd0["pid"].arr, r)))))
        if which == "list-holds-the-shifted-children-in-row-order":
            L = v["link_to_root"]
            mm = z3.Int(fresh_name("m"))
            if v["remove"] is None:
                return True
            LA, Ln = _seq(L)  # the carrier may hold the rows in a list or in an integer array
            if LA is None:
                return False
            return z3.And(Ln == flt.nz(), z3.ForAll([mm], z3.Implies(z3.And(mm >= 0, mm < flt.nz()), z3.Select(LA, mm) == flt.kappa(mm) + ns)))
        raise KeyError(which)

    return (which, f)


def cts_after_list(E, v, o):
    """annotation right after `link_to_root = [...]` (merged case): remember the boolean-mask filter behind children()"""
    if v.get("remove") is not None and isinstance(col(o["tree1"], "id"), SArr):
        E.ghost["c07-children"] = getattr(E, "last_filter", None)
    return True


def prove_from(E, label, hyps, goal):
    """a proof step discharged from an explicit SUBSET of the facts already established on this path (sound: fewer hypotheses)"""
    from pyvc.engine import Oblig

    note = "annotation" + (f" [variant {E.variant}]" if getattr(E, "variant", "") else "")
    goal = z3.simplify(goal)  # the form in which a clause reaches `prove` (clauses are simplified when they are evaluated): the later obligation is then this very term
    E.obligs.append(Oblig(f"{E.prop}/{label}", list(hyps), goal, "annotation", note))
    E.pc.append(goal)


def cts_steps(E, vars, o, C, mgp):
    """intermediate facts about the concatenated table T (local `tree`) and the shifted second table U (local `tree2`) just before sorting;
    returns (facts proved from the whole path condition, facts proved from earlier facts only)"""
    T, U = ndata(vars["tree"]), ndata(vars["tree2"])
    A, B, n1, n2, a, b, g = C.A, C.B, C.n1, C.n2, C.a, C.b, C.g
    r, j, p, q = z3.Ints("cs_r cs_j cs_p cs_q")
    r2 = z3.And(j >= 0, j < n2)
    m = (n1 + n2 - 1) if mgp else (n1 + n2)
    row = lambda x: (n1 + x - z3.If(x > b, 1, 0)) if mgp else (n1 + x)
    live = lambda x: (x != b) if mgp else z3.BoolVal(True)
    pp = lambda x: g(U, "pid", x) - n1                     # parent of node x of tree2 after re-rooting at b
    link = lambda x: (pp(x) == b) if mgp else (x == b)     # rows whose parent id is overwritten by node1
    sd2 = _sd2(E, vars)
    ty = z3.If(j == b, g(B, "type", C.root2), z3.If(j == C.root2, g(B, "type", b), g(B, "type", j)))
    common = [c for c in T if c in U and c != "pid"]
    jr = (r - n1 + z3.If(r - n1 >= b, 1, 0)) if mgp else (r - n1)   # the node of tree2 shown in row r >= n1
    rr = z3.And(r >= n1, r < m)
    full, derived = {}, {}
    full["sizes"] = z3.And(to_z3(vars["ns"], "int") == n1, *[T[c].nz() == m for c in T], *[U[c].nz() == n2 for c in U])
    full["first-tree-rows"] = z3.And(*[z3.ForAll([r], z3.Implies(z3.And(r >= 0, r < n1), g(T, c, r) == g(A, c, r))) for c in A])
    for c in common:
        full[f"second-tree-rows/{c}"] = z3.ForAll([r], z3.Implies(rr, g(T, c, r) == g(U, c, jr)))
    full["second-tree-rows/tag"] = z3.ForAll([r], z3.Implies(rr, g(T, "tag", r) == 0))
    full["second-tree-rows/pid"] = z3.ForAll([r], z3.Implies(rr, g(T, "pid", r) == z3.If(link(jr), a, g(U, "pid", jr))))
    full["second-table-attributes"] = z3.ForAll([j], z3.Implies(r2, z3.And(
        g(U, "id", j) == j + n1, g(U, "r", j) == g(B, "r", j), g(U, "type", j) == ty, *[g(U, c, j) == g(B, c, j) + C.off[c] for c in "xyz"])))
    full["second-parent-table/root"] = z3.And(pp(b) == -1, sd2(b) == 0)
    full["second-parent-table/parents"] = z3.ForAll([j], z3.Implies(z3.And(r2, j != b), z3.And(pp(j) >= 0, pp(j) < n2)))
    dep = z3.ForAll([j], z3.Implies(z3.And(r2, j != b), z3.And(sd2(j) == sd2(pp(j)) + 1, sd2(j) > 0, sd2(pp(j)) >= 0)))
    if any(nm == "redirect_tree" for nm, _ in E.call_log):
        prow2 = E.spec_extra["prow2"].f
        full["second-parent-table/parent-rows"] = z3.ForAll([j], z3.Implies(z3.And(r2, j != b), prow2(j) == pp(j)))
        full["second-parent-table/witness"] = z3.ForAll([j], z3.Implies(r2, z3.And(sd2(j) >= 0, z3.Implies(j != b, sd2(j) == sd2(prow2(j)) + 1))))
    else:
        full["second-parent-table/parent-rows"] = z3.And(b == C.root2, z3.ForAll([j], z3.Implies(r2, pp(j) == g(B, "pid", j))))
        full["second-parent-table/witness"] = z3.ForAll([j], z3.Implies(z3.And(r2, j != C.root2), z3.And(sd2(j) == sd2(g(B, "pid", j)) + 1, sd2(j) > 0)))
    derived["second-parent-table/depths"] = dep
    full["second-parent-table/edges"] = z3.ForAll([p, q], z3.Implies(z3.And(p >= 0, p < n2, q >= 0, q < n2), C.adj(p, q) == z3.Or(pp(p) == q, pp(q) == p)))
    # pure index arithmetic: rows >= n1 and the live nodes of tree2 correspond one to one
    derived["row-index-arithmetic"] = z3.And(z3.ForAll([r], z3.Implies(rr, z3.And(jr >= 0, jr < n2, live(jr), row(jr) == r))),
                                             z3.ForAll([j], z3.Implies(z3.And(r2, live(j)), z3.And(row(j) >= n1, row(j) < m))))
    derived["second-tree-rows"] = z3.ForAll([j], z3.Implies(z3.And(r2, live(j)), z3.And(
        *[g(T, c, row(j)) == g(U, c, j) for c in common], g(T, "tag", row(j)) == 0, g(T, "pid", row(j)) == z3.If(link(j), a, g(U, "pid", j)))))
    return full, derived


def cts_sort_hint(E, vars):
    """before the precondition of _sort_tree on the concatenated table: (1) ghost witnesses (definitions of fresh symbols): prow(r) = the row
    of r's parent (tree1's parent table for tree1's rows; node1 for the relinked rows; the row of the parent in the re-rooted tree2
    otherwise), sdepth = depth in tree1 for tree1's rows, depth of the junction (+1 when not merged) + distance to the second junction for
    tree2's rows; (2) proof steps: a description of the table, then every table clause and every precondition of sorting from that
    description alone"""
    o = E.top_old
    if not isinstance(col(o["tree1"], "id"), SArr) or "remove" not in vars:
        return
    X = E.spec_extra
    prow, sdepth, depth1 = X["prow"].f, X["sdepth"].f, X["depth1"].f
    sd2 = _sd2(E, vars)
    C = Cat(E, vars, o)
    n1, n2, a, b, g = C.n1, C.n2, C.a, C.b, C.g
    mgp = vars["remove"] is not None
    T, U = ndata(vars["tree"]), ndata(vars["tree2"])
    r = z3.Int("cs_w")
    j = (r - n1 + z3.If(r - n1 >= b, 1, 0)) if mgp else (r - n1)     # node of tree2 shown in row r >= n1
    pj = g(U, "pid", j) - n1                                          # its parent in the re-rooted tree2
    linked = (pj == b) if mgp else (j == b)
    rowof = (n1 + pj - z3.If(pj > b, 1, 0)) if mgp else (n1 + pj)
    defs = [z3.ForAll([r], prow(r) == z3.If(r < n1, g(C.A, "pid", r), z3.If(linked, a, rowof)), patterns=[prow(r)]),
            z3.ForAll([r], sdepth(r) == z3.If(r < n1, depth1(r), depth1(a) + sd2(j) + (0 if mgp else 1)), patterns=[sdepth(r)])]
    for d in defs:
        E.assume(d)
    E.assumptions.add("ghost definition (cat_tree, symbolic sizes): prow / sdepth of the concatenated table from the parent tables and depth witnesses of the two trees")
    full, derived = cts_steps(E, vars, o, C, mgp)
    for nm, f in full.items():
        E.prove(f"cat_tree/step/{nm}", f, "annotation")
    ranges = [cts_pre(E, o, "junctions-are-nodes"), n1 >= 1, n2 >= 1]
    prove_from(E, "cat_tree/step/second-parent-table/depths", [full[k] for k in full if k.startswith("second-parent-table/")] + ranges, derived["second-parent-table/depths"])
    prove_from(E, "cat_tree/step/row-index-arithmetic", ranges, derived["row-index-arithmetic"])
    prove_from(E, "cat_tree/step/second-tree-rows", ranges + [derived["row-index-arithmetic"]] + [f for nm, f in full.items() if nm.startswith("second-tree-rows/")], derived["second-tree-rows"])
    base = list(full.values()) + list(derived.values()) + ranges + [cts_pre(E, o, "well-formed-inputs"), C.merged if mgp else z3.Not(C.merged)]
    for w in TABLE_CLAUSES:
        prove_from(E, f"cat_tree/step/table/{w}", base, cts_table_clause(w, C, T, mgp))
    # the depth witness, case by case (tree1's rows / relinked rows / the other rows of tree2), then the clause itself from the cases
    m = T["id"].nz()
    root1 = to_z3(X["srootrow"], "int")
    in1, in2 = z3.And(r >= 0, r < n1), z3.And(r >= n1, r < m)
    step = sdepth(r) == sdepth(prow(r)) + 1
    cases = {
        "tree1-rows": z3.ForAll([r], z3.Implies(z3.And(in1, r != root1), z3.And(prow(r) >= 0, prow(r) < n1, step))),
        "tree1-depths": z3.ForAll([r], z3.Implies(in1, z3.And(sdepth(r) == depth1(r), depth1(r) >= 0))),
        "relinked-rows": z3.ForAll([r], z3.Implies(z3.And(in2, linked), z3.And(prow(r) == a, step))),
        "other-rows-of-tree2": z3.ForAll([r], z3.Implies(z3.And(in2, z3.Not(linked)), z3.And(prow(r) >= n1, prow(r) < m, step))),
        "depths-nonnegative": z3.ForAll([r], z3.Implies(z3.And(r >= 0, r < m), sdepth(r) >= 0)),
    }
    wf1 = _wf(o["tree1"], root1, depth1)
    ptab = [full["second-parent-table/root"], full["second-parent-table/parents"], derived["second-parent-table/depths"]]
    arith = [full["sizes"], derived["row-index-arithmetic"]] + ranges
    j2 = z3.Int("cs_j")
    sd2nn = z3.ForAll([j2], z3.Implies(z3.And(j2 >= 0, j2 < n2), sd2(j2) >= 0))
    prove_from(E, "cat_tree/step/depth/second-tree-depths-nonnegative", [full["second-parent-table/root"], derived["second-parent-table/depths"]], sd2nn)
    needs = {  # every case from the few facts it rests on
        "tree1-depths": [defs[1], wf1],
        "tree1-rows": defs + [wf1],
        "relinked-rows": defs + arith + ptab + [wf1],
        "other-rows-of-tree2": defs + arith + ptab,
        "depths-nonnegative": [defs[1], wf1, sd2nn] + arith,
    }
    for nm, f in cases.items():
        prove_from(E, f"cat_tree/step/depth/{nm}", needs[nm], f)
    hyp = defs + [wf1]
    for w in TREE_PRE:
        hy = (list(cases.values()) + [full["sizes"], root1 >= 0, root1 < n1, sdepth(root1) == 0]) if w == "every-row-reaches-the-root" else (base + defs)
        if w == "every-row-reaches-the-root":
            prove_from(E, "cat_tree/step/depth/root", hyp, z3.And(root1 >= 0, root1 < n1, sdepth(root1) == 0))
        prove_from(E, f"cat_tree/step/sortable/{w}", hy, _is_tree(E, T["id"], T["pid"], w))


CTS_LOOPS = {1: dict(invariant=[cts_link_inv(w) for w in ("other-columns-untouched", "list-holds-the-shifted-children-in-row-order", "rows-listed-so-far-point-to-node1")],
                     types={"link_to_root": "int"}, modifies=["tree.ndata"])}


CT_POSTS = ["merged-iff-junctions-coincide", "first-tree-rows-unchanged", "second-tree-rows-are-a-shifted-translated-copy", "joined-at-the-junction",
            "no-other-edge-added", "no-edge-lost", "result-is-fresh", "result/every-column-permuted-alike"] + ["result/" + w for w in RELABEL]


def register_cat(R):
    R.add(
        f"{TU}:cat_tree",
        prop="C07",
        variants={f"n1={n1},n2={n2},translate={tr}": ct_setup(n1, n2, tr) for (n1, n2) in CT_SIZES for tr in (True, False)},
        requires=[ct_pre("well-formed-inputs"), ct_pre("junctions-are-nodes")],
        ensures=[ct_post(w) for w in CT_POSTS],
        options=dict(allow_symbolic_unroll=True, feas_timeout_ms=10000),
        notes="sizes fixed per variant (tree1 of 1-2 nodes, tree2 of 1-3 nodes, and 1 + 4 nodes), all coordinates / radii / types / parent tables and both junction "
              "nodes symbolic; the inner redirect_tree is inlined (its loop unrolled); the clauses speak about the concatenated table as handed to "
              "_sort_tree (ghost `presort`), the result is its sorted relabelling",
    )
    from pyvc import ext_C09

    # second registration of the same function (same property): symbolic sizes.  Its obligations carry the same names as those of
    # the fixed-size variants above (one clause, all variants).
    R.add(
        f"{TU}:cat_tree",
        prop="C07",
        variants={f"symbolic sizes,translate={tr}": cts_setup(tr) for tr in (True, False)},
        requires=[ct_pre("well-formed-inputs"), ct_pre("junctions-are-nodes")],
        ensures=[ct_post(w) for w in CT_POSTS],
        ghost_funcs=CT_GHOSTS,
        loops=CTS_LOOPS,
        options=dict(registry=_CatOverlay(R), models=ext_C09.MODELS, feas_timeout_ms=10000,
                     asserts_after={"link_to_root": [("children-filter-recorded", cts_after_list)]},
                     hints={"call:_sort_tree/pre/ids-distinct": cts_sort_hint}),
        notes="both trees of symbolic size (>= 1), ids = positions, root anywhere (ghost root1 / root2), both junctions symbolic; redirect_tree through a "
              "call-site contract made of its proved clauses; clauses about the concatenated table as handed to _sort_tree, the result is its sorted relabelling",
    )


# =========================================================================== Tree.Node.is_root / children (helpers of both carriers)
TREE = "swcgeom/core/tree.py"


def register_node(R):
    from contracts.C09 import in_range, node_obj

    R.add(f"{TREE}:Tree.Node.is_root", prop="C07", pure_inline=True,
          setup=lambda S: dict(self=node_obj(S, sym_tree(S, "t"))),
          requires=[("handle-in-range", in_range)],
          ensures=[("root-iff-no-parent", lambda E, v, o: to_z3(v["result"], "bool") == (z3.Select(col(v["self"].fields["attach"], "pid").arr, to_z3(v["self"].fields["idx"], "int")) == -1))])

    def ch_setup(n):
        def f(S):
            t = sym_tree_fixed(S, n, "t")
            i = S.int("idx")
            S.assume(z3.And(i.z >= 0, i.z < n))
            return dict(self=node_obj(S, t, i))

        return f

    def ch_post(E, v, o):
        me = v["self"]
        t = me.fields["attach"]
        ids, pids = [to_z3(x, "int") for x in col(t, "id").items], [to_z3(x, "int") for x in col(t, "pid").items]
        my_id = sel(col(t, "id"), to_z3(me.fields["idx"], "int"))
        res = v["result"]
        if not isinstance(res, PList) or res.items is None:
            return False
        mask = [p == my_id for p in pids]
        out = [z3.Sum([z3.If(b, 1, 0) for b in mask]) == len(res.items)]
        for k, h in enumerate(res.items):
            if not (isinstance(h, Obj) and h.fields.get("attach") is t and h.cls is me.cls):
                return False
            hz = to_z3(h.fields["idx"], "int")
            out.append(z3.Or(*[z3.And(mask[j], hz == ids[j], z3.Sum([z3.If(mask[q], 1, 0) for q in range(j)] + [z3.IntVal(0)]) == k) for j in range(len(ids))]))
        return z3.And(*out)

    R.add(f"{TREE}:Tree.Node.children", prop="C07", pure_inline=True,
          variants={f"n={n}": ch_setup(n) for n in (1, 2, 3, 4)},
          ensures=[("handles-of-the-rows-whose-parent-id-is-mine-in-row-order", ch_post)],
          notes="tree size fixed per variant (1-4 rows); ids and parent ids arbitrary symbolic integers")


def register(R: Registry):
    register_redirect(R)
    register_sort(R)
    register_cat(R)
    register_node(R)
