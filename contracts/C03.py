"""C03 — every tree operation returns a well-formed tree and leaves its inputs untouched.

C03 adds no functional content of its own: for each operation the three clause groups (well-formedness of the result, frame =
inputs untouched, ownership = result in fresh storage) are postconditions / frame obligations of the contracts that own the
operation (C05 sort_tree, C06 to_subtree / get_subtree_impl / propagate_removal, C07 redirect_tree / cat_tree, C12 AffineTransform /
TranslateOrigin, C16 smoother / resampler).  They are re-verified here through DEPENDS, so a change that makes one of those
operations write into its input or hand out shared storage fails under C03 as well.
What C03 owns is the composition: `Transforms.__call__` (any number of member transforms) and `Identity`, the two
non-affine geometry transforms `Normalizer` and `RadiusReseter`, and the REFINEMENT obligations that connect the abstract
single-step contract of the pipeline theorem to the real operations (section "step contract" below).
"""
import z3

from contracts.common import col, nof, sym_tree
from pyvc import ext_C03
from pyvc.spec import Registry
from pyvc.values import NArr, Obj, Opaque, PList, SArr, Sym, fresh, fresh_name, to_z3, zint

DEPENDS = ["C05", "C06", "C07", "C12", "C16"]
BASE = "swcgeom/transforms/base.py"
GEO = "swcgeom/transforms/geometry.py"
I, B = z3.IntSort(), z3.BoolSort()
WF = z3.Function("WFtree", I, B)       # ghost: the tree behind a handle is well formed
born = z3.Function("born", I, I)       # ghost: allocation time of the storage behind a handle
stamp = z3.Function("stamp", I, I, I)  # ghost: content version of handle h at time t (changes iff something wrote into it)


class Clock:
    pass


def register(R: Registry):
    def setup(S):
        from swcgeom.transforms.base import Transforms

        G = Obj(Clock, dict(now=Sym(z3.IntVal(0), "int")))
        x0 = S.int("x0")
        S.assume(z3.And(WF(x0.z), born(x0.z) <= 0))

        def step(E, recv, args, kwargs):
            """single-step contract of a member transform: on a well-formed tree it returns a well-formed tree that is either its
            argument itself (Identity) or lives in storage allocated during the call; nothing that existed before the call is written.
            It is ASSUMED here for an arbitrary member and DISCHARGED for the library's operations by the obligations
            `<operation>/post/step/...` (section "step contract, concretely" below: WFtree(h) is WF of the tree behind h, born(h) > now is
            "tree object, ndata dict and every column allocated during the call", stamp unchanged is "every input tree as at entry");
            a member that is itself a Transforms satisfies it by this very theorem (and Transforms.__init__ splices such members)"""
            (x,) = args
            xz = to_z3(x, "int")
            now = to_z3(G.fields["now"], "int")
            y = fresh("int", "tree")
            h = z3.Int(fresh_name("h"))
            E.prove("Transforms.__call__/member/argument-is-a-well-formed-tree", WF(xz), "precondition")
            E.assume(z3.And(WF(y.z), z3.Or(y.z == xz, born(y.z) > now)))
            E.assume(z3.ForAll([h], z3.Implies(born(h) <= now, stamp(h, now + 1) == stamp(h, now))))
            G.fields["now"] = Sym(now + 1, "int")
            E.assumptions.add("step contract of an abstract member transform (result well formed, argument itself or freshly allocated, nothing older "
                              "written): assumed for an arbitrary member; discharged per library operation by the obligations <operation>/post/step/* "
                              "(Identity, Translate/Scale/Rotate/RotateX/RotateY/RotateZ, AffineTransform, TranslateOrigin, Normalizer, RadiusReseter, "
                              "sort_tree, to_subtree, redirect_tree, cat_tree); the reading of WFtree/born/stamp as predicates of real trees is by definition, not mechanised")
            return y

        ts = PList.fresh("ref", name="transforms")
        ts.proto = {"__call__": step}
        S.assume(zint(ts.n) >= 0)
        return dict(self=S.obj(Transforms, transforms=ts), x=x0, G=G)

    def inv(E, v, o):
        x, x0 = to_z3(v["x"], "int"), to_z3(o["x"], "int")
        now = to_z3(v["G"].fields["now"], "int")
        return z3.And(now >= 0, WF(x), z3.Or(x == x0, born(x) > 0), stamp(x0, now) == stamp(x0, 0))

    def post(which):
        def f(E, v, o):
            r, x0 = to_z3(v["result"], "int"), to_z3(o["x"], "int")
            now = to_z3(v["G"].fields["now"], "int")
            if which == "result-is-well-formed":
                return WF(r)
            if which == "result-is-the-input-itself-or-shares-no-storage-with-it":
                return z3.Or(r == x0, born(r) > born(x0))
            return stamp(x0, now) == stamp(x0, 0)

        return (which, f)

    R.add(f"{BASE}:Transforms.__call__", prop="C03", setup=setup,
          ensures=[post("result-is-well-formed"), post("result-is-the-input-itself-or-shares-no-storage-with-it"), post("input-untouched")],
          loops={0: dict(invariant=[("well-formed-fresh-or-input-and-input-untouched", inv)], modifies=["G"])},
          notes="pipelines of ANY length; member transforms are abstract and satisfy the single-step contract")

    def init_setup(shape):
        """members: m0..; shape "nested" puts a Transforms([m1, m2]) between m0 and m3"""
        def f(S):
            from swcgeom.transforms.base import Identity, Transforms

            m = [S.obj(Identity) for _ in range(4)]
            inner = S.obj(Transforms, transforms=PList([m[1], m[2]]))
            args = {"empty": (), "flat": (m[0], m[1], m[2]), "nested": (m[0], inner, m[3]), "only-nested": (inner,)}[shape]
            want = {"empty": [], "flat": [m[0], m[1], m[2]], "nested": m, "only-nested": [m[1], m[2]]}[shape]
            return dict(self=S.obj(Transforms), transforms=args, __ghost__=dict(want=want, inner=inner))

        return f

    def flattened(E, v, o):
        got, want = v["self"].fields.get("transforms"), E.spec_extra["want"]
        inner = E.spec_extra["inner"]
        return isinstance(got, PList) and got.items is not None and len(got.items) == len(want) and all(a is b for a, b in zip(got.items, want)) \
            and got is not inner.fields["transforms"] and len(inner.fields["transforms"].items) == 2

    R.add(f"{BASE}:Transforms.__init__", prop="C03", variants={k: init_setup(k) for k in ("empty", "flat", "nested", "only-nested")},
          ensures=[("members-in-order-with-nested-pipelines-spliced-in-place-into-a-list-of-its-own", flattened)],
          notes="a pipeline given as a member contributes its members (one level: its own list was flattened when it was built)")

    R.add(f"{BASE}:Identity.__call__", prop="C03", pure_inline=True,
          setup=lambda S: dict(self=S.obj(__import__("swcgeom.transforms.base", fromlist=["x"]).Identity), x=sym_tree(S, "x")),
          ensures=[("returns-its-argument-itself", lambda E, v, o: v["result"] is v["x"])] + step_clauses(may_return_input=True))


# =========================================================================== step contract, concretely
# The pipeline theorem above is stated over abstract handles (WFtree / born / stamp).  For a REAL operation op(x, ...) -> y
# the three conjuncts of the single-step contract read:
#   step/result-is-well-formed                              WF(x) [and WF of a second operand] ==> WF(y)
#   step/result-is-the-input-itself-or-freshly-allocated    y is x, or the tree object y, its ndata dict and every column array were
#                                                           allocated during the call (born(y) > now)
#   step/nothing-older-written                              every input tree is, at the exit, what it was at the entry (stamp unchanged)
# WF(t) is the property's definition: one length n >= 1 for all columns, id[i] = i, pid[0] = -1, 0 <= pid[i] < n for i > 0, and every
# node reaches the root.  "Reaches the root" is carried by a ghost DEPTH witness d (d(0) = 0, d(i) = d(pid[i]) + 1 > 0), the same
# definition as contracts/common.py: assume_wf and the preconditions of C05 / C06 / C07: in a hypothesis d is a fresh uninterpreted
# function (exists-elimination), in a conclusion the clause supplies the witness (the input's own when ids and parents are kept, the
# input's read through the relabelling otherwise).
def _sel(a, i):
    """a[i] for a symbolic-length (SArr) or a concrete-shape (NArr) column"""
    if isinstance(a, SArr):
        return z3.Select(a.arr, i)
    items = a.items
    z = to_z3(items[-1], a.kind)
    for j in range(len(items) - 2, -1, -1):
        z = z3.If(i == j, to_z3(items[j], a.kind), z)
    return z


def _alen(a):
    return a.nz() if isinstance(a, SArr) else z3.IntVal(a.shape[0])


def _forall(n, f):
    """forall i in [0, n): f(i) -- a conjunction when n is a Python int (concrete-shape trees)"""
    if isinstance(n, int):
        return z3.And(*[f(z3.IntVal(i)) for i in range(n)]) if n else z3.BoolVal(True)
    i = z3.Int(fresh_name("i"))
    return z3.ForAll([i], z3.Implies(z3.And(i >= 0, i < n), f(i)))


WF_PARTS = ("one-length-n>=1-for-all-columns", "ids-are-positions", "root-has-no-parent", "every-other-parent-is-a-node", "every-node-reaches-the-root")


def wf_parts(t, d, root=None):
    """WF(t) as its five conjuncts (dict part name -> formula).  Symbolic size: `d` (callable z3 Int -> z3 Int) is the depth witness of
    "every node reaches the root" (d(root) = 0, d(i) = d(pid[i]) + 1 > 0 otherwise; the definition of contracts/common.py: assume_wf).
    Concrete size (NArr columns): reaching the root is the finite formula "n - 1 parent steps arrive at the root", `d` is not used.
    `root` (z3 Int) replaces node 0 as the root position (re-rooting with sorting switched off)."""
    nd = t.fields["ndata"].items
    ids, pid = nd["id"], nd["pid"]
    r = z3.IntVal(0) if root is None else root
    if isinstance(ids, NArr):
        n = ids.shape[0]
        if n < 1 or any(a.shape != (n,) for a in nd.values()):
            return {p: z3.BoolVal(False) for p in WF_PARTS}
        nz = z3.IntVal(n)
        pz = [to_z3(x, "int") for x in pid.items]
        reach = [z3.IntVal(a) == r for a in range(n)]
        for _ in range(n - 1):
            reach = [z3.Or(reach[a], *[z3.And(pz[a] == b, reach[b]) for b in range(n) if b != a]) for a in range(n)]
        reaches = z3.And(*reach)
    else:
        n = nz = ids.nz()
        reaches = z3.And(d(r) == 0, _forall(n, lambda i: z3.Implies(i != r, z3.And(d(i) == d(_sel(pid, i)) + 1, d(i) > 0))))
    return {
        "one-length-n>=1-for-all-columns": z3.And(nz >= 1, r >= 0, r < nz, *[_alen(nd[c]) == nz for c in nd]),
        "ids-are-positions": _forall(n, lambda i: _sel(ids, i) == i),
        "root-has-no-parent": _sel(pid, r) == -1,
        "every-other-parent-is-a-node": _forall(n, lambda i: z3.Implies(i != r, z3.And(_sel(pid, i) >= 0, _sel(pid, i) < nz))),
        "every-node-reaches-the-root": reaches,
    }


def wf(t, d, root=None):
    return z3.And(*wf_parts(t, d, root).values())


def fresh_depth(tag="d"):
    return z3.Function(fresh_name("wfdepth_" + tag), I, I)


def tree_is_fresh(E, y):
    nd = y.fields["ndata"]
    cols = [a.root() if isinstance(a, NArr) else a for a in nd.items.values()]
    return y.uid not in E.entry_uids and nd.uid not in E.entry_uids and all(a.uid not in E.entry_uids for a in cols) \
        and len({a.uid for a in cols}) == len(cols)


def object_unchanged(a, b):
    """the fields of a transform object (matrix, centre, parameters) are what they were at the entry"""
    if set(a.fields) != set(b.fields):
        return False
    out = []
    for k, y in b.fields.items():
        x = a.fields[k]
        if isinstance(y, NArr):
            if not isinstance(x, NArr) or x.shape != y.shape:
                return False
            out.extend(to_z3(p, y.kind) == to_z3(q, y.kind) for p, q in zip(x.items, y.items))
        elif isinstance(y, Sym) or isinstance(x, Sym):
            if not (isinstance(x, Sym) or isinstance(x, (int, float))) or not (isinstance(y, Sym) or isinstance(y, (int, float))):
                return False
            out.append(to_z3(x) == to_z3(y))
        elif isinstance(y, (Obj, PList, SArr)):
            if getattr(x, "uid", None) != y.uid:
                return False
        elif x is not y and x != y:
            return False
    return z3.And(*out) if out else True


def step_clauses(inputs=("x",), witness=None, root=None, may_return_input=False, admissible=None, result=None):
    """the step clauses for a carrier whose tree parameters are `inputs` (the first one is THE input of the pipeline step).
    witness(E, v, o, ds) -> callable: depth witness of the result, given the witnesses `ds` of the inputs (default: the first input's own,
    right for operations that keep ids and parents);  root(E, v, o): root position of the result when it is not node 0;
    admissible(E, v, o): the operation's argument domain (added to the hypothesis of the well-formedness clauses);
    result(E, v, o): the tree the clauses speak about when it is not `result` itself.
    The well-formedness conjunct is split into its five parts (one obligation each, sharing one hypothesis)."""
    from contracts.C12 import tree_unchanged

    def res_of(E, v, o):
        return result(E, v, o) if result is not None else v["result"]

    def live(E, v, nm):
        """the input object itself at the exit (a carrier may rebind its parameter, e.g. `tree = tree.copy()`)"""
        return E.spec_extra.get("step_inputs", {}).get(nm, v[nm])

    def hypothesis(E, v, o):
        key = ("step-hyp",)
        if key not in E.ghost:
            ds = [fresh_depth(nm) for nm in inputs]  # one witness per input and path: the parts below share the hypothesis
            hyp = [wf(o[nm], d) for nm, d in zip(inputs, ds)]
            if admissible is not None:
                hyp.append(admissible(E, v, o))
            E.ghost[key] = (ds, hyp)
            # guard: the hypothesis (WF of the inputs, admissible arguments) must be satisfiable on this path together with everything
            # proved so far -- otherwise the implications below would hold vacuously
            from pyvc.engine import Oblig

            if not any(z3.is_false(h) for h in E.pc):  # (a path that already carries a failed obligation `False` is reported by that obligation)
                E.covers.append(Oblig(f"{E.prop}/{E.cur_contract.short}/cover/step-hypothesis-reachable", list(E.pc) + hyp, z3.BoolVal(False), "cover", getattr(E, "variant", "")))
        return E.ghost[key]

    def well_formed(part):
        def f(E, v, o):
            y = res_of(E, v, o)
            if not isinstance(y, Obj) or "ndata" not in y.fields:
                return False
            ds, hyp = hypothesis(E, v, o)
            w = witness(E, v, o, ds) if witness is not None else ds[0]
            if w is None:
                return False
            return z3.Implies(z3.And(*hyp), wf_parts(y, w, root(E, v, o) if root is not None else None)[part])

        return f

    def fresh_or_input(E, v, o):
        y = res_of(E, v, o)
        if may_return_input and y is live(E, v, inputs[0]):
            return True
        return isinstance(y, Obj) and tree_is_fresh(E, y)

    def untouched(E, v, o):
        out = [tree_unchanged(live(E, v, nm), o[nm]) for nm in inputs]
        if isinstance(o.get("self"), Obj) and isinstance(v.get("self"), Obj):
            out.append(object_unchanged(v["self"], o["self"]))  # the transform object is older than the call as well
        if any(x is False for x in out):
            return False
        out = [x for x in out if x is not True]
        return z3.And(*out) if out else True

    return [(f"step/result-is-well-formed/{part}", well_formed(part)) for part in WF_PARTS] + \
           [("step/nothing-older-written", untouched), ("step/result-is-the-input-itself-or-freshly-allocated", fresh_or_input)]


def with_step_inputs(setup, inputs):
    """wrap a contract's setup: the input tree OBJECTS are also handed to the clauses as ghost `step_inputs`"""
    def g(S):
        d = setup(S)
        gh = dict(d.get("__ghost__") or {})
        gh["step_inputs"] = {nm: d[nm] for nm in inputs}
        d["__ghost__"] = gh
        return d

    return g


# =========================================================================== Normalizer / RadiusReseter
XYZR = ("x", "y", "z", "r")


def register_geometry(R):
    import swcgeom.transforms.geometry as G
    from contracts.C12 import tree_unchanged

    def kept(cols):
        """the columns `cols` of the result are elementwise the input's (in fresh storage, see the step clause), same key set"""
        def f(E, v, o):
            x0, y = o["x"], v["result"]
            if list(y.fields["ndata"].items) != list(x0.fields["ndata"].items):
                return False
            i = z3.Int(fresh_name("i"))
            n = nof(x0)
            return z3.And(*[col(y, c).nz() == n for c in y.fields["ndata"].items],
                          z3.ForAll([i], z3.Implies(z3.And(i >= 0, i < n), z3.And(*[z3.Select(col(y, c).arr, i) == z3.Select(col(x0, c).arr, i) for c in cols]))))

        return f

    # ---------------------------------------------------------------- Normalizer.__call__
    # what the code does, per column c of x, y, z, r:  c'[i] = (c[i] - min(c)) / max(c)   (max of the ORIGINAL column, not of the shifted
    # one: the result spans [0, (max - min) / max], which is the unit interval only when min(c) = 0).  A column with max(c) = 0 gives inf / nan (no exception).
    def norm_setup(S):
        x = sym_tree(S, "x")
        g = {}
        for c in XYZR:
            mn, mx = S.real(f"min_{c}"), S.real(f"max_{c}")
            S.assume(ext_C03.extreme_facts(col(x, c).arr, nof(x), mn.z, z3.Int(fresh_name("wmin")), True))   # ghost: THE minimum / maximum of the
            S.assume(ext_C03.extreme_facts(col(x, c).arr, nof(x), mx.z, z3.Int(fresh_name("wmax")), False))  # non-empty column (exists, unique)
            g[c] = (mn, mx)
        return dict(self=S.obj(G.Normalizer), x=x, __ghost__=dict(ext=g))

    def normalised(E, v, o):
        """per column c of x, y, z, r whose maximum is not 0 (numpy divides by zero silently: inf / nan entries, no exception)"""
        x0, y = o["x"], v["result"]
        i = z3.Int(fresh_name("i"))
        out = []
        for c, (mn, mx) in E.spec_extra["ext"].items():
            q, p = z3.Select(col(y, c).arr, i), z3.Select(col(x0, c).arr, i)
            out.append(z3.Implies(mx.z != 0, z3.And(q == (p - mn.z) / mx.z, q * mx.z == p - mn.z)))
        return z3.ForAll([i], z3.Implies(z3.And(i >= 0, i < nof(x0)), z3.And(*out)))

    R.add(f"{GEO}:Normalizer.__call__", prop="C03", setup=norm_setup,
          ensures=[("x-y-z-r-shifted-by-their-minimum-and-divided-by-their-maximum", normalised), ("ids-types-parents-kept", kept(("id", "type", "pid")))]
          + step_clauses(),
          options=dict(models=ext_C03.MODELS),
          notes="the step clauses need no admissibility condition: a column with maximum 0 gives inf / nan coordinates, structure and storage are as always")

    # ---------------------------------------------------------------- RadiusReseter.__call__
    def rr_setup(S):
        return dict(self=S.obj(G.RadiusReseter, r=S.real("r_new")), x=sym_tree(S, "x"))

    def radii_reset(E, v, o):
        y = v["result"]
        i = z3.Int(fresh_name("i"))
        return z3.ForAll([i], z3.Implies(z3.And(i >= 0, i < nof(o["x"])), z3.Select(col(y, "r").arr, i) == to_z3(o["self"].fields["r"], "real")))

    R.add(f"{GEO}:RadiusReseter.__call__", prop="C03", setup=rr_setup,
          ensures=[("every-radius-is-the-requested-one", radii_reset), ("everything-else-kept", kept(("id", "type", "x", "y", "z", "pid"))),
                   "transform-object-untouched :: self.r == old(self.r)"] + step_clauses())


_reg_pipeline = register


def register(R):  # noqa: F811
    _reg_pipeline(R)
    register_geometry(R)


# =========================================================================== refinement: proved postconditions ==> step contract
# For every library operation that is under contract in the modules C03 DEPENDS on, the three step clauses are APPENDED to that
# contract's postconditions (second registration pass, `finalize`, run by vcheck when every module has registered; only while C03 is
# being checked).  They are therefore proved on the REAL body, on the same paths and AFTER the operation's own postconditions, which
# are hypotheses by then (an obligation that has been emitted is assumed for the rest of the path): each
# `<operation>/post/step/...` obligation is "the operation's proved postconditions ==> the step contract of Transforms.__call__".
def finalize(R, prop):
    if prop != "C03":
        return
    UT = "swcgeom/core/tree_utils.py"

    def base(key, owner):
        for c in R.alts.get(key, []):
            if c.prop == owner and not c.trusted:
                return c
        raise KeyError(f"C03 step refinement: no {owner} contract for {key}")

    def extend(key, owner, **kw):
        c = base(key, owner)
        if any(isinstance(cl, tuple) and cl[0].startswith("step/") for cl in c.ensures):
            return
        inputs = kw.get("inputs", ("x",))
        if c.variants:
            c.variants = {k: with_step_inputs(f, inputs) for k, f in c.variants.items()}
        else:
            c.setup = with_step_inputs(c.setup, inputs)
        c.ensures.extend(step_clauses(**kw))

    # ---- geometry (C12): ids and parents are never written, the input's depth witness serves the result
    for nm in ("AffineTransform.__call__", "AffineTransform.apply", "TranslateOrigin.transform", "TranslateOrigin.__call__"):
        extend(f"{GEO}:{nm}", "C12")
    # Translate / Scale / Rotate / RotateX / RotateY / RotateZ: the classmethod X.transform(x, ...) = X(...)(x) runs the constructor and the
    # inherited AffineTransform.__call__ on the real chain; an instance built beforehand is covered by AffineTransform.__call__ above, whose
    # precondition `matrix-is-affine` is the postcondition of the same name of every constructor
    for nm in ("Translate", "Scale", "Rotate", "RotateX", "RotateY", "RotateZ"):
        extend(f"{GEO}:{nm}.transform", "C12")

    # ---- sort_tree (C05): the result's depth witness is the input's own (C05's precondition ghost depth5, over rows) read through the
    # returned index array sigma (new id -> old row); C05's postcondition gives sigma(0) = root row, sigma(pid'[k]) = parent row of sigma(k)
    def sorted_witness(E, v, o, ds):
        from contracts.C05 import depth5

        calls = [kw for nm, kw in E.call_log if nm == "sort_nodes_impl"]
        if len(calls) != 1:
            return None
        sigma = calls[0]["__result__"][1]
        return lambda k: depth5(z3.Select(sigma.arr, k))

    extend(f"{UT}:sort_tree", "C05", inputs=("tree",), witness=sorted_witness)

    # ---- to_subtree (C06): admissible removals do not list the root (otherwise nothing, or a forest, is left: outside WF).  The result's
    # depth witness is the input's read through the mapping (new id -> old id) that to_sub_topology returned
    def sub_witness(E, v, o, ds):
        calls = [kw for nm, kw in E.call_log if nm == "to_sub_topology"]
        if len(calls) != 1:
            return None
        mapping = calls[0]["__result__"][1]
        return lambda k: ds[0](z3.Select(mapping.arr, k))

    def root_not_removed(E, v, o):
        rem = o["removals"]
        if type(rem).__name__ == "Iter":  # removals handed over as a one-shot iterator (pyvc.values.Iter): what it held at the call
            rem = rem.seq
        if hasattr(rem, "has"):  # removals given as a Python set (pyvc.ext_C06.SymSet): membership array
            return z3.Not(rem.has(0))
        j = z3.Int(fresh_name("j"))
        return z3.ForAll([j], z3.Implies(z3.And(j >= 0, j < zint(rem.n)), z3.Select(rem.cols[0], j) != 0))

    extend(f"{UT}:to_subtree", "C06", inputs=("swc_like",), witness=sub_witness, admissible=root_not_removed)

    # ---- redirect_tree (C07).  sort=False: the new root stays at its old position new_root (the property's own exception), the depth
    # witness is C07's ghost sdepth (distance to the new root);  sort=True: node 0 is the root and the witness is sdepth read through the
    # row permutation of the final _sort_tree (ghost `presort`, recorded by C07's contract of _sort_tree)
    def rr_witness(E, v, o, ds):
        sdepth = E.spec_extra["sdepth"].f
        if not v["sort"]:
            return sdepth
        if "presort" not in E.ghost:
            return None
        sg = E.ghost["presort"][1]
        return lambda k: sdepth(z3.Select(sg, k))

    def rr_root(E, v, o):
        return None if v["sort"] else to_z3(o["new_root"], "int")

    extend(f"{UT}:redirect_tree", "C07", inputs=("tree",), witness=rr_witness, root=rr_root)

    # ---- cat_tree (C07): verified there for fixed small sizes (tree1 of 1-2 nodes, tree2 of 1-4 nodes); well-formedness of concrete-size
    # tables is the finite formula, no witness is needed.  Both operands are inputs of the step: neither may be written
    extend(f"{UT}:cat_tree", "C07", inputs=("tree1", "tree2"))
